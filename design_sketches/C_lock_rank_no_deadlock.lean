-- feasibility prototype: ranked lock acquisition ⇒ no deadlock (any number of threads)
namespace Locks

local notation "Lock" => Nat

inductive Ev | acq (l : Lock) | rel (l : Lock)

structure Thread where
  held : List Lock
  todo : List Ev

/-- thread program is well ranked from its current held set: every acquire is above everything held,
    releases only what is held, and ends holding nothing. -/
def WR : List Lock → List Ev → Prop
  | held, [] => held = []
  | held, .acq l :: rest => (∀ h ∈ held, h < l) ∧ WR (l :: held) rest
  | held, .rel l :: rest => l ∈ held ∧ WR (held.erase l) rest

def holds (ts : List Thread) (l : Lock) : Prop := ∃ t ∈ ts, l ∈ t.held

/-- thread `t` can take its next step in the system `ts` -/
def canStep (ts : List Thread) (t : Thread) : Prop :=
  match t.todo with
  | [] => False
  | .acq l :: _ => ¬ holds ts l
  | .rel _ :: _ => True

def finished (t : Thread) : Prop := t.todo = []

/-- Key lemma: if nobody can step, then from any unfinished thread waiting on rank r
    we find another unfinished thread waiting on a strictly larger rank. -/
theorem climb (ts : List Thread) (hwr : ∀ t ∈ ts, WR t.held t.todo)
    (stuck : ∀ t ∈ ts, ¬ canStep ts t) :
    ∀ t ∈ ts, ∀ l rest, t.todo = .acq l :: rest →
      ∃ t' ∈ ts, ∃ l' rest', t'.todo = .acq l' :: rest' ∧ l < l' := by
  intro t ht l rest htodo
  have hs := stuck t ht
  simp only [canStep, htodo, Classical.not_not] at hs
  obtain ⟨o, ho, hlo⟩ := hs
  -- owner o holds l, so it is not finished
  have hwo := hwr o ho
  cases hto : o.todo with
  | nil => rw [hto] at hwo; simp only [WR] at hwo; rw [hwo] at hlo; cases hlo
  | cons e rest' =>
    cases e with
    | rel l' =>
      have := stuck o ho
      simp [canStep, hto] at this
    | acq l' =>
      rw [hto] at hwo
      simp only [WR] at hwo
      exact ⟨o, ho, l', rest', hto, hwo.1 l hlo⟩

/-- No deadlock: if all ranks are < R and some thread is unfinished, some thread can step. -/
theorem no_deadlock (R : Nat) (ts : List Thread) (hwr : ∀ t ∈ ts, WR t.held t.todo)
    (hR : ∀ t ∈ ts, ∀ l rest, t.todo = .acq l :: rest → l < R)
    (hunf : ∃ t ∈ ts, ¬ finished t) : ∃ t ∈ ts, canStep ts t := by
  apply Classical.byContradiction
  intro hno
  have stuck : ∀ t ∈ ts, ¬ canStep ts t := fun t ht hc => hno ⟨t, ht, hc⟩
  obtain ⟨t, ht, hnf⟩ := hunf
  -- t is unfinished and stuck, so it waits on an acquire
  have key : ∀ k : Nat, ∀ t ∈ ts, ∀ l rest, t.todo = .acq l :: rest → R ≤ l + k → False := by
    intro k
    induction k with
    | zero => intro t ht l rest h hle; have := hR t ht l rest h; omega
    | succ k ih =>
      intro t ht l rest h hle
      obtain ⟨t', ht', l', rest', h', hlt⟩ := climb ts hwr stuck t ht l rest h
      exact ih t' ht' l' rest' h' (by omega)
  cases htodo : t.todo with
  | nil => exact hnf htodo
  | cons e rest =>
    cases e with
    | rel l => exact stuck t ht (by simp [canStep, htodo])
    | acq l => exact key R t ht l rest htodo (by omega)

#print axioms no_deadlock
end Locks
