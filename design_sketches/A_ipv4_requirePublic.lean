-- feasibility: net.IP classification over BitVec 32, no enumeration
namespace Ip
abbrev V4 := BitVec 32

def inPrefix (a : V4) (p : V4) (len : Nat) : Bool := (a >>> (32 - len)) == (p >>> (32 - len))

def isLoopback (a : V4) : Bool := inPrefix a 0x7f000000#32 8
def isUnspec (a : V4) : Bool := a == 0#32
def isBcast (a : V4) : Bool := a == 0xffffffff#32
def isMulticast (a : V4) : Bool := inPrefix a 0xe0000000#32 4
def isLinkLocal (a : V4) : Bool := inPrefix a 0xa9fe0000#32 16
def isGlobalUnicast (a : V4) : Bool := !isBcast a && !isUnspec a && !isLoopback a && !isMulticast a && !isLinkLocal a
def privateNets : List (V4 × Nat) := [(0x0a000000#32, 8), (0xac100000#32, 12), (0xc0a80000#32, 16), (0x64400000#32, 10)]
def isPrivate (a : V4) : Bool := privateNets.any (fun (p, l) => inPrefix a p l)
def requirePublic (a : V4) : Bool := isGlobalUnicast a && !isPrivate a

-- spec stated independently, by numeric ranges
def Forbidden (a : V4) : Prop :=
  (0x7f000000 ≤ a.toNat ∧ a.toNat ≤ 0x7fffffff) ∨ a.toNat = 0 ∨ a.toNat = 0xffffffff ∨
  (0xe0000000 ≤ a.toNat ∧ a.toNat ≤ 0xefffffff) ∨ (0xa9fe0000 ≤ a.toNat ∧ a.toNat ≤ 0xa9feffff) ∨
  (0x0a000000 ≤ a.toNat ∧ a.toNat ≤ 0x0affffff) ∨ (0xac100000 ≤ a.toNat ∧ a.toNat ≤ 0xac1fffff) ∨
  (0xc0a80000 ≤ a.toNat ∧ a.toNat ≤ 0xc0a8ffff) ∨ (0x64400000 ≤ a.toNat ∧ a.toNat ≤ 0x647fffff)

theorem inPrefix_iff (a p : V4) (len : Nat) (h : len ≤ 32) :
    inPrefix a p len = true ↔ a.toNat / 2^(32-len) = p.toNat / 2^(32-len) := by
  unfold inPrefix
  simp [BitVec.toNat_eq, BitVec.toNat_ushiftRight, Nat.shiftRight_eq_div_pow]

theorem requirePublic_iff (a : V4) : requirePublic a = true ↔ ¬ Forbidden a := by
  have hlt := a.isLt
  unfold requirePublic isGlobalUnicast isPrivate privateNets isBcast isUnspec isLoopback isMulticast isLinkLocal Forbidden
  simp only [List.any_cons, List.any_nil, Bool.and_eq_true, Bool.not_eq_true', Bool.or_eq_true, Bool.or_false,
    Bool.not_eq_eq_eq_not, Bool.not_true, Bool.or_eq_false_iff, beq_eq_false_iff_ne, ne_eq]
  simp only [← Bool.not_eq_true, inPrefix_iff _ _ _ (by decide : (8:Nat) ≤ 32), inPrefix_iff _ _ _ (by decide : (4:Nat) ≤ 32),
    inPrefix_iff _ _ _ (by decide : (16:Nat) ≤ 32), inPrefix_iff _ _ _ (by decide : (12:Nat) ≤ 32), inPrefix_iff _ _ _ (by decide : (10:Nat) ≤ 32)]
  simp only [BitVec.toNat_ofNat, ← BitVec.toNat_inj]
  omega
end Ip
