-- feasibility prototype: ReplayCache model and the "most recent N" window theorem
namespace Replay

structure RC where
  cap : Int
  active : List UInt32
  archive : List UInt32
deriving Repr

def RC.add (c : RC) (h : UInt32) : RC × Bool :=
  if c.cap = 0 then (c, true) else
  if h ∈ c.active then (c, false) else
  let inArch := decide (h ∈ c.archive)
  if (c.active.length : Int) ≥ c.cap then
    ({ c with archive := c.active, active := [h] }, !inArch)
  else
    ({ c with active := h :: c.active }, !inArch)

def RC.resize (c : RC) (n : Int) : RC := { c with cap := n }

inductive Op | add (h : UInt32) | resize (n : Int)

def RC.step (c : RC) : Op → RC × Option Bool
  | .add h => let (c', b) := c.add h; (c', some b)
  | .resize n => (c.resize n, none)

def run (c : RC) : List Op → RC
  | [] => c
  | o :: os => run (c.step o).1 os

/-- Ghost-augmented invariant.  `a` = hashes of Add calls since the last rotation (newest first),
    `b` = hashes of Add calls between the previous rotation and the last one.
    `rot` = a rotation has happened, `N ≤ |b|` if it happened while the capacity was ≥ N. -/
structure Inv (N : Nat) (c : RC) (a b : List UInt32) (rot : Bool) : Prop where
  a_sub : ∀ x ∈ a, x ∈ c.active
  b_sub : ∀ x ∈ b, x ∈ c.archive
  act_le : c.active.length ≤ a.length
  b_big : rot = true → N ≤ b.length

/-- one recorded Add step (cap ≥ N > 0): ghost lists evolve -/
theorem add_inv {N : Nat} {c : RC} {a b : List UInt32} {rot : Bool} (hN : 0 < N) (hcap : (N : Int) ≤ c.cap)
    (inv : Inv N c a b rot) (h : UInt32) :
    (Inv N (c.add h).1 (h :: a) b rot) ∨ (Inv N (c.add h).1 [h] a true) := by
  unfold RC.add
  have hc0 : c.cap ≠ 0 := by omega
  simp only [hc0, if_false]
  by_cases hin : h ∈ c.active
  · left
    simp only [hin, if_true]
    exact ⟨by intro x hx; rcases List.mem_cons.1 hx with rfl | hx; exact hin; exact inv.a_sub x hx,
           inv.b_sub, by have := inv.act_le; simp; omega, inv.b_big⟩
  · simp only [hin, if_false]
    by_cases hfull : (c.active.length : Int) ≥ c.cap
    · right
      simp only [hfull, if_true]
      refine ⟨by intro x hx; simpa using hx, inv.a_sub, by simp, ?_⟩
      intro _; have := inv.act_le; omega
    · left
      simp only [hfull, if_false]
      refine ⟨?_, inv.b_sub, by have := inv.act_le; simp; omega, inv.b_big⟩
      intro x hx; rcases List.mem_cons.1 hx with rfl | hx
      · simp
      · exact List.mem_cons_of_mem _ (inv.a_sub x hx)

/-- Add returns false whenever the hash is remembered. -/
theorem add_false_of_mem (c : RC) (h : UInt32) (hc : c.cap ≠ 0) (hm : h ∈ c.active ∨ h ∈ c.archive) :
    (c.add h).2 = false := by
  unfold RC.add
  simp only [hc, if_false]
  by_cases hin : h ∈ c.active
  · simp [hin]
  · have : h ∈ c.archive := by rcases hm with h1 | h1; exact absurd h1 hin; exact h1
    by_cases hfull : (c.active.length : Int) ≥ c.cap <;> simp [hin, hfull, this]

/-- Add returns false ONLY if the hash is remembered (no spurious refusals). -/
theorem mem_of_add_false (c : RC) (h : UInt32) (hf : (c.add h).2 = false) :
    c.cap ≠ 0 ∧ (h ∈ c.active ∨ h ∈ c.archive) := by
  unfold RC.add at hf
  by_cases hc : c.cap = 0
  · simp [hc] at hf
  · refine ⟨hc, ?_⟩
    by_cases hin : h ∈ c.active
    · exact Or.inl hin
    · right
      by_cases hfull : (c.active.length : Int) ≥ c.cap <;> simpa [hc, hin, hfull] using hf

/-- All capacities in effect while `ops` run are ≥ N. -/
def capsGE (N : Nat) : List Op → Prop
  | [] => True
  | .add _ :: os => capsGE N os
  | .resize n :: os => (N : Int) ≤ n ∧ capsGE N os

def numAdds : List Op → Nat
  | [] => 0
  | .add _ :: os => numAdds os + 1
  | .resize _ :: os => numAdds os


theorem window_aux {N : Nat} (h : UInt32) :
    ∀ (mid : List Op) (c : RC), (N : Int) ≤ c.cap → capsGE N mid →
      ((h ∈ c.active ∧ numAdds mid < N) ∨ (h ∈ c.archive ∧ c.active.length + numAdds mid < N)) →
      (N : Int) ≤ (run c mid).cap ∧ (h ∈ (run c mid).active ∨ h ∈ (run c mid).archive) := by
  intro mid
  induction mid with
  | nil => intro c hc _ hst; exact ⟨hc, by rcases hst with ⟨h1, _⟩ | ⟨h1, _⟩; exact Or.inl h1; exact Or.inr h1⟩
  | cons o os ih =>
    intro c hc hcaps hst
    cases o with
    | resize n =>
      simp only [capsGE] at hcaps
      simp only [run, RC.step, RC.resize]
      apply ih
      · exact hcaps.1
      · exact hcaps.2
      · simpa [numAdds] using hst
    | add x =>
      simp only [capsGE] at hcaps
      simp only [run, RC.step]
      have hc0 : c.cap ≠ 0 := by
        rcases hst with ⟨_, h2⟩ | ⟨_, h2⟩ <;> (simp only [numAdds] at h2; omega)
      -- case split on what add does
      by_cases hin : x ∈ c.active
      · have e : (c.add x).1 = c := by unfold RC.add; simp [hc0, hin]
        rw [e]; apply ih c hc hcaps
        simp only [numAdds] at hst
        rcases hst with ⟨h1, h2⟩ | ⟨h1, h2⟩
        · exact Or.inl ⟨h1, by omega⟩
        · exact Or.inr ⟨h1, by omega⟩
      · by_cases hfull : (c.active.length : Int) ≥ c.cap
        · have e : (c.add x).1 = { c with archive := c.active, active := [x] } := by
            unfold RC.add; simp [hc0, hin, hfull]
          rw [e]; refine ih _ (by exact hc) hcaps ?_
          simp only [numAdds] at hst
          rcases hst with ⟨h1, h2⟩ | ⟨_, h2⟩
          · right; exact ⟨h1, by simp; omega⟩
          · exfalso; omega
        · have e : (c.add x).1 = { c with active := x :: c.active } := by
            unfold RC.add; simp [hc0, hin, hfull]
          rw [e]; refine ih _ (by exact hc) hcaps ?_
          simp only [numAdds] at hst
          rcases hst with ⟨h1, h2⟩ | ⟨h1, h2⟩
          · left; exact ⟨List.mem_cons_of_mem _ h1, by omega⟩
          · right; exact ⟨h1, by simp; omega⟩

/-- C07 window theorem: a handshake hash presented again within the next `N` checked handshakes,
    while every capacity in effect is ≥ N > 0, is refused — from ANY starting state. -/
theorem window {N : Nat} (hN : 0 < N) (c0 : RC) (h : UInt32) (mid : List Op)
    (hcap0 : (N : Int) ≤ c0.cap) (hcaps : capsGE N mid) (hnum : numAdds mid < N) :
    ((run (c0.add h).1 mid).add h).2 = false := by
  have hc0 : c0.cap ≠ 0 := by omega
  have hmem : h ∈ (c0.add h).1.active := by
    unfold RC.add
    by_cases hin : h ∈ c0.active
    · simp [hc0, hin]
    · by_cases hfull : (c0.active.length : Int) ≥ c0.cap <;> simp [hc0, hin, hfull]
  have hcap1 : (N : Int) ≤ (c0.add h).1.cap := by
    unfold RC.add
    by_cases hin : h ∈ c0.active
    · simp [hc0, hin]; exact hcap0
    · by_cases hfull : (c0.active.length : Int) ≥ c0.cap <;> simp [hc0, hin, hfull] <;> exact hcap0
  obtain ⟨hc2, hm2⟩ := window_aux h mid _ hcap1 hcaps (Or.inl ⟨hmem, hnum⟩)
  exact add_false_of_mem _ h (by omega) hm2

#print axioms window
example : ((run (({cap := 2, active := [], archive := []} : RC).add 7).1 [.add 8]).add 7).2 = false := by decide
end Replay
