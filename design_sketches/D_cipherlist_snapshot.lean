-- feasibility: cipher list snapshot/mark model, core-only
namespace CL

structure Entry where
  ref : Nat
  id : String
  key : Nat
  lastIP : Option Nat
deriving DecidableEq, Repr

def matchesIP (ip : Option Nat) (e : Entry) : Bool :=
  match ip, e.lastIP with
  | some a, some b => a == b
  | _, _ => false

def snapshot (l : List Entry) (ip : Option Nat) : List Entry :=
  l.filter (matchesIP ip) ++ l.filter (fun e => !matchesIP ip e)

def findEntry (valid : Entry → Bool) (snap : List Entry) : Option Entry := snap.find? valid

theorem snapshot_perm (l : List Entry) (ip : Option Nat) : (snapshot l ip).Perm l := by
  unfold snapshot
  exact List.filter_append_perm (matchesIP ip) l

theorem find_none_iff (valid : Entry → Bool) (l : List Entry) (ip : Option Nat) :
    findEntry valid (snapshot l ip) = none ↔ ∀ e ∈ l, valid e = false := by
  unfold findEntry
  rw [List.find?_eq_none]
  constructor
  · intro h e he
    have := h e ((snapshot_perm l ip).mem_iff.2 he)
    simpa using this
  · intro h e he
    have := h e ((snapshot_perm l ip).mem_iff.1 he)
    simp [this]

theorem find_sound (valid : Entry → Bool) (l : List Entry) (ip : Option Nat) (e : Entry)
    (h : findEntry valid (snapshot l ip) = some e) : e ∈ l ∧ valid e = true := by
  unfold findEntry at h
  exact ⟨(snapshot_perm l ip).mem_iff.1 (List.mem_of_find?_eq_some h), List.find?_some h⟩

theorem find_complete (valid : Entry → Bool) (l : List Entry) (ip : Option Nat)
    (h : ∃ e ∈ l, valid e = true) : ∃ e, findEntry valid (snapshot l ip) = some e := by
  cases hf : findEntry valid (snapshot l ip) with
  | some e => exact ⟨e, rfl⟩
  | none =>
    obtain ⟨e, he, hv⟩ := h
    have := (find_none_iff valid l ip).1 hf e he
    simp [this] at hv

#print axioms find_complete
end CL
