-- feasibility: natconn deadline logic (C14)
namespace NC
structure S where
  rd : Nat       -- readDeadline field (0 = zero time)
  sock : Nat     -- deadline actually set on the socket (0 = none)
  armed : Bool   -- fastClose Once not yet consumed
  writes : Nat
  allDNS : Bool

def init : S := ⟨0, 0, true, 0, true⟩

def onWrite (c : S) (dns : Bool) (now tmo : Nat) : S :=
  let first := c.rd == 0
  let armed' := if !dns || !first then false else c.armed
  let t := if dns then 17 else tmo
  let nd := now + t
  if nd > c.rd then { rd := nd, sock := nd, armed := armed', writes := c.writes + 1, allDNS := c.allDNS && dns }
  else { c with armed := armed', writes := c.writes + 1, allDNS := c.allDNS && dns }

def onRead (c : S) (dns : Bool) (now : Nat) : S :=
  if c.armed then (if dns then { c with armed := false, sock := now } else { c with armed := false }) else c

/-- in sync, or already expired -/
def J (c : S) (now : Nat) : Prop := c.sock = c.rd ∨ c.sock ≤ now

theorem J_write (c : S) (dns : Bool) (now now' tmo : Nat) (h : J c now) (hm : now ≤ now') :
    J (onWrite c dns now' tmo) now' := by
  unfold J at *
  by_cases hc : now' + (if dns = true then 17 else tmo) > c.rd
  · left; simp [onWrite, hc]
  · have e1 : (onWrite c dns now' tmo).sock = c.sock := by simp [onWrite, hc]
    have e2 : (onWrite c dns now' tmo).rd = c.rd := by simp [onWrite, hc]
    rw [e1, e2]; omega

theorem J_read (c : S) (dns : Bool) (now now' : Nat) (h : J c now) (hm : now ≤ now') :
    J (onRead c dns now') now' := by
  unfold J at *
  by_cases ha : c.armed = true <;> by_cases hd : dns = true <;> simp [onRead, ha, hd] <;> omega

/-- promise: a write handled on an association that is alive (or brand new) leaves the socket
    deadline at least `now + timeout(dst)` -/
theorem promise (c : S) (dns : Bool) (now tmo : Nat) (h : J c now) (alive : now < c.sock ∨ c.rd = 0) (h0 : c.rd = 0 → c.sock = 0) :
    now + (if dns = true then 17 else tmo) ≤ (onWrite c dns now tmo).sock := by
  unfold J at h
  by_cases hc : now + (if dns = true then 17 else tmo) > c.rd
  · simp [onWrite, hc]
  · have e1 : (onWrite c dns now tmo).sock = c.sock := by simp [onWrite, hc]
    rw [e1]
    rcases alive with a | a
    · rcases h with h | h <;> omega
    · have := h0 a; omega

#print axioms promise
/-- armed only while exactly ≤1 write happened and all writes were DNS -/
def A (c : S) : Prop := c.armed = true → (c.writes ≤ 1 ∧ c.allDNS = true) ∧ (c.writes = 0 ↔ c.rd = 0)
end NC
