#!/bin/sh
# MANIFEST.setup_cmd: build the framework from files on disk only (offline).
set -e
cd "$(dirname "$0")"
export GOFLAGS=-mod=mod GOPROXY=off GOSUMDB=off GOTOOLCHAIN=local
mkdir -p build evidence replays
cp /repo/go.sum extract/go.sum
cp /repo/go.sum harness/go.sum
(cd extract && go build -tags verif -o ../build/extract .)
mkdir -p build/gen.setup
./build/extract -repo /repo -out build/gen.setup || true
mkdir -p lean/OutlineModel/Gen
cp build/gen.setup/*.lean lean/OutlineModel/Gen/
rm -rf build/gen.setup
(cd lean && lake build)
(cd harness && go build -tags verif -o ../build/harness .)
echo setup-ok
