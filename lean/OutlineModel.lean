-- This module serves as the root of the `OutlineModel` library.
-- Import modules here that should be built as part of the library.
import OutlineModel.Basic
