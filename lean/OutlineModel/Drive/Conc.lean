/- engines `conc` and `locks`: what the theorems promise for the concurrent campaigns.
   conc replay rounds=<n>   -> rounds-with-exactly-one-winner=<n>     (C07.exactly_one_winner, C19.operations_atomic)
   conc replay-rotation trials=<n> -> replays-accepted=0              (C07.window_code with one handshake in between + add_is_one_critical_section)
   conc salts               -> unrecognised=0                         (C08 salts_recognised; C19)
   conc nat churn           -> ok                                     (C19 lock facts of natmap; C04.NatInv)
   conc cipherlist          -> bad-snapshots=0                        (C01.snapshot_is_perm, C19)
   locks stress             -> completed=true usable=true             (C13.no_deadlock, manager_usable_afterwards)
-/
import OutlineModel.Model.Util
namespace OutlineModel.Drive.Conc
open OutlineModel.Util

def step (args : List String) : String :=
  match args with
  | "replay" :: fs =>
    match (field? fs "rounds").bind parseNat? with
    | some n => s!"rounds-with-exactly-one-winner={n}"
    | none => "bad-op"
  | "replay-rotation" :: _ => "replays-accepted=0"  -- C07: a replay one handshake later is refused, whatever the interleaving
  | ["cipherlist"] => "bad-snapshots=0"
  | ["nat", "churn"] => "ok"                           -- C19/C04: the association table stays consistent under churn
  | ["salts"] => "unrecognised=0"                     -- C08: every issued salt is recognised, whatever the interleaving
  | _ => "bad-op"

def stepLocks (args : List String) : String :=
  match args with
  | ["stress"] => "completed=true usable=true"
  | _ => "bad-op"

end OutlineModel.Drive.Conc
