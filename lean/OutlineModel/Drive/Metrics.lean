import OutlineModel.Model.Util
import OutlineModel.Model.Metrics
/- engines `mt` (collectors) and `ipinfo`:
   mt new db=<disabled|answers:<cc>|fails>
   mt tcpopen c=<id> parsed=<nil|nohostport|notip|ip> ip=<hex|-> ipkey=<n|->        (ip: bytes GetIPInfoFromAddr classifies; for tunnel time the same bytes)
   mt tcpauth c=<id> key=<hex>         mt tcpclose c=<id> status=<s> cp=<n> pt=<n> tp=<n> pc=<n>
   mt udpadd u=<id> parsed=.. ip=.. ipkey=.. key=<hex>     mt udpc u=<id> status=<s> cp=<n> pt=<n>    mt udpt u=<id> tp=<n> pc=<n>    mt udprm u=<id>
   mt tick s=<seconds>                 mt scrape  -> canonical dump of the counters (seconds, sorted)
   ipinfo from parsed=<..> ip=<hex|-> db=<..>    -> <label> err=<b> db=<calls>       (GetIPInfoFromAddr)
   ipinfo fromip ip=<hex|-> db=<..>             -> <label> err=<b> db=<calls>       (GetIPInfoFromIP)
-/
namespace OutlineModel.Drive.Metrics
open OutlineModel OutlineModel.Metrics OutlineModel.IPInfo OutlineModel.Util OutlineModel.TunnelTime

def parseDB (s : String) : Option DB :=
  if s == "disabled" then some .disabled
  else if s == "fails" then some (.fails "")
  else if s.startsWith "fails:" then some (.fails (s.drop 6).toString)
  else if s.startsWith "answers:" then some (.answers (s.drop 8).toString)
  else none

def parseParsed (kind : String) (ip : Option (List UInt8)) : Option Parsed :=
  match kind, ip with
  | "nil", _ => some .nilAddr
  | "nohostport", _ => some .noHostPort
  | "notip", _ => some .notIP
  | "ip", some b => some (.ip b)
  | _, _ => none

def showCounter (c : List (String × Nat)) (div : Nat) : String :=
  let items := (c.filter (·.2 > 0)).map fun (k, v) => s!"{k}={v / div}"
  let sorted := items.toArray.qsort (· < ·) |>.toList
  if sorted.isEmpty then "-" else ",".intercalate sorted

def ns : Nat := 1000000000

def addrOf (fs : List String) : Option ClientAddr :=
  match field? fs "parsed", field? fs "ip", field? fs "ipkey" with
  | some kind, some iph, some ipk =>
    let ip := if iph == "-" then none else parseHex? iph
    match parseParsed kind ip, optNat? ipk with
    | some p, some k => some { parsed := p, ipKey := k, ipBytes := ip.getD [] }
    | _, _ => none
  | _, _, _ => none

def step (m : M) (args : List String) : M × String :=
  let nat (fs : List String) (k : String) : Nat := ((field? fs k).bind parseNat?).getD 0
  match args with
  | ["new", dbs] =>
    match (field? [dbs] "db").bind parseDB with
    | some db => ({ db := db }, "ok")
    | none => (m, "bad-op")
  | "tcpopen" :: fs =>
    match addrOf fs with
    | some a => (tcpOpen m (nat fs "c") a, "ok")
    | none => (m, "bad-op")
  | "tcpauth" :: fs =>
    match (field? fs "key").bind hexToStr? with
    | some k => (tcpAuth m (nat fs "c") k, "ok")
    | none => (m, "bad-op")
  | "tcpclose" :: fs =>
    match field? fs "status" with
    | some st => (tcpClose m (nat fs "c") st (nat fs "cp") (nat fs "pt") (nat fs "tp") (nat fs "pc"), "ok")
    | none => (m, "bad-op")
  | "udpadd" :: fs =>
    match addrOf fs, (field? fs "key").bind hexToStr? with
    | some a, some k => (udpAdd m (nat fs "u") a k, "ok")
    | _, _ => (m, "bad-op")
  | "udpc" :: fs =>
    match field? fs "status" with
    | some st => (udpFromClient m (nat fs "u") st (nat fs "cp") (nat fs "pt"), "ok")
    | none => (m, "bad-op")
  | "udpt" :: fs => (udpFromTarget m (nat fs "u") (nat fs "tp") (nat fs "pc"), "ok")
  | "udprm" :: fs => (udpRemove m (nat fs "u"), "ok")
  | "tick" :: fs => ({ m with now := m.now + nat fs "s" * ns }, "ok")
  | ["scrapequiet"] => (scrape m, "ok")   -- a scrape whose output is not looked at (it ran concurrently with other calls)
  | ["scrape"] =>
    let m' := scrape m
    (m', s!"tt={showCounter m'.tt.perKey ns} ttloc={showCounter m'.tt.perLoc ns} opened={showCounter m'.opened 1} closed={showCounter m'.closed 1} bytes={showCounter m'.dataBytes 1} bytesloc={showCounter m'.dataBytesLoc 1} nat={m'.natAdded}/{m'.natRemoved} udppk={showCounter m'.udpPackets 1}")
  | _ => (m, "bad-op")

def stepIPInfo (args : List String) : String :=
  let showR (r : Result) := s!"{if r.label == "" then "-" else r.label} err={r.isErr} db={r.dbCalls}"
  match args with
  | "from" :: fs =>
    match field? fs "parsed", field? fs "ip", (field? fs "db").bind parseDB with
    | some kind, some iph, some db =>
      match parseParsed kind (if iph == "-" then none else parseHex? iph) with
      | some p => showR (fromAddr db p)
      | none => "bad-op"
    | _, _, _ => "bad-op"
  | "fromip" :: fs =>
    match field? fs "ip", (field? fs "db").bind parseDB with
    | some iph, some db => showR (fromIP db ((if iph == "-" then none else parseHex? iph).getD []))
    | _, _ => "bad-op"
  | _ => "bad-op"

end OutlineModel.Drive.Metrics
