import OutlineModel.Model.Util
import OutlineModel.Model.Auth
import OutlineModel.Gen.Consts
/- engine `auth`:
   auth new cap=<int|nil> <ref>:<idhex>:<keyref>:<salt>:<tag>,...   -> ok
   auth update <entries>                                             -> ok
   auth conn ip=<n|-> enough=<0|1> opens=<keyrefs> srv=<entry refs> first=<hex>  -> <STATUS> id=<hex> idx=<i|->
-/
namespace OutlineModel.Drive.Auth
open OutlineModel OutlineModel.Auth OutlineModel.Util OutlineModel.CipherList OutlineModel.Replay

structure St where
  st : AuthState := { list := [], cache := none }
  keyInfo : List (Nat × Nat × Nat) := []

def parseEntries (s : String) : Option (List Entry × List (Nat × Nat × Nat)) :=
  if s == "-" then some ([], []) else
  (s.splitOn ",").foldlM (init := ([], [])) fun (es, kis) item =>
    match item.splitOn ":" with
    | [r, idh, k, ss, ts] =>
      match r.toNat?, hexToStr? idh, k.toNat?, ss.toNat?, ts.toNat? with
      | some r, some id, some k, some ss, some ts =>
        some (es ++ [{ ref := r, id := id, key := k, lastIP := none }], (k, ss, ts) :: kis)
      | _, _, _, _, _ => none
    | _ => none

def step (d : St) (args : List String) : St × String :=
  match args with
  | ["new", cap, es] =>
    match parseEntries es, field? [cap] "cap" with
    | some (l, kis), some c =>
      let cache : Option (Option RC) := if c == "nil" then some none else
        match parseInt? c with
        | some n => (RC.new Gen.maxCapacity n).map some
        | none => none
      match cache with
      | some ch => ({ st := { list := l, cache := ch }, keyInfo := kis }, "ok")
      | none => (d, "bad-op")
    | _, _ => (d, "bad-op")
  | ["update", es] =>
    match parseEntries es with
    | some (l, kis) => ({ d with st := { d.st with list := l }, keyInfo := kis ++ d.keyInfo }, "ok")
    | none => (d, "bad-op")
  | "conn" :: fs =>
    match (field? fs "ip").bind optNat?, (field? fs "enough").bind parseNat?, (field? fs "opens").bind parseNatList?,
          (field? fs "srv").bind parseNatList?, (field? fs "first").bind parseHex? with
    | some ip, some enough, some opens, some srv, some first =>
      let saltOf (e : Entry) : List UInt8 :=
        match d.keyInfo.find? (·.1 == e.key) with | some (_, s, _) => first.take s | none => []
      let (st', r) := authenticate d.st ip (enough == 1) (fun k => opens.contains k) (fun e => srv.contains e.ref)
        (fun e => preHash e.id.toUTF8.toList (saltOf e))
      let idx := match r.entry with | some (_, i) => toString i | none => "-"
      ({ d with st := st' }, s!"{r.status.toString} id={strToHex r.id} idx={idx}")
    | _, _, _, _, _ => (d, "bad-op")
  | "gensalt" :: fs =>
    -- C08: salts are pairwise distinct (RNG contract) and marked iff the cipher's salt leaves enough entropy
    match (field? fs "size").bind parseNat?, (field? fs "n").bind parseNat? with
    | some size, some n =>
      let m := if Auth.marked size Gen.serverSaltMarkLen Gen.minSaltEntropy then n else 0
      (d, s!"distinct={n} marked={m}")
    | _, _ => (d, "bad-op")
  | _ => (d, "bad-op")

end OutlineModel.Drive.Auth
