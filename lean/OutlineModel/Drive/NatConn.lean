import OutlineModel.Model.Util
import OutlineModel.Model.NatConn
import OutlineModel.Gen.Consts
/- engine `nc`:
   nc new timeout=<ns>                 -> ok
   nc write dns=<0|1> now=<ns>         -> rd=<ns> set=<ns|->
   nc read dns=<0|1> now=<ns>          -> set=<ns|->
-/
namespace OutlineModel.Drive.NatConn
open OutlineModel OutlineModel.NatConn OutlineModel.Util

structure St where
  c : S := init
  timeout : Nat := 0

def showOpt : Option Nat → String | none => "-" | some n => toString n

def step (d : St) (args : List String) : St × String :=
  match args with
  | "new" :: fs =>
    match (field? fs "timeout").bind parseNat? with
    | some t => ({ c := init, timeout := t }, "ok")
    | none => (d, "bad-op")
  | "write" :: fs =>
    match (field? fs "dns").bind parseNat?, (field? fs "now").bind parseNat? with
    | some dns, some now =>
      let (c', set) := onWrite d.c (dns == 1) now d.timeout Gen.dnsTimeoutNs
      ({ d with c := c' }, s!"rd={c'.rd} set={showOpt set}")
    | _, _ => (d, "bad-op")
  | "read" :: fs =>
    match (field? fs "dns").bind parseNat?, (field? fs "now").bind parseNat? with
    | some dns, some now =>
      let (c', set) := onRead d.c (dns == 1) now
      ({ d with c := c' }, s!"set={showOpt set}")
    | _, _ => (d, "bad-op")
  | _ => (d, "bad-op")

end OutlineModel.Drive.NatConn
