import OutlineModel.Model.Util
import OutlineModel.Model.Config
import OutlineModel.Gen.Ciphers
/- engine `cfg`:
   cfg reset                                                             -> ok
   cfg load fault=<none|read|bind:k> svc=<svc>+<svc>… legacy=<k>,<k>…   -> ok | err
        svc    = <listener>,<listener>…@<key>,<key>…        ("-" for an empty part)
        listener = <t|u>:<addrhex>:<1|0>                     (1: host is an IP literal, as Validate demands)
        key    = <idhex>:<cipherhex>:<secrethex>[:<port>]    (port only in legacy)
   cfg auth lk=<hex of "tcp/addr"> cipher=<canonical index> secret=<hex>  -> id=<hex> | none
   cfg bound                                                             -> sorted, comma-separated bound listener keys (hex) | -
   cfg hammer                                                            -> refused=0 unauth=0 lost=0 dup=0
   cfg relays                                                            -> broken=0
   cfg replay                                                            -> refused   (a served handshake presented again elsewhere / after a reload)
   cfg stop                                                              -> ok
-/
namespace OutlineModel.Drive.Config
open OutlineModel OutlineModel.Config OutlineModel.Util

/-- cipher names the SDK accepts (case-insensitive), by cipher identity -/
def canon (s : String) : Option Nat :=
  let u := s.toUpper
  if u == "AEAD_CHACHA20_POLY1305" || u == "CHACHA20-IETF-POLY1305" then some 0
  else if u == "AEAD_AES_256_GCM" || u == "AES-256-GCM" then some 1
  else if u == "AEAD_AES_192_GCM" || u == "AES-192-GCM" then some 2
  else if u == "AEAD_AES_128_GCM" || u == "AES-128-GCM" then some 3
  else none

structure St where
  srv : Server := Server.init
  addrOK : List (String × Bool) := []

def parseKey (s : String) : Option (Key × Nat) :=
  match s.splitOn ":" with
  | [i, c, sec] =>
    match hexToStr? i, hexToStr? c, hexToStr? sec with
    | some i, some c, some sec => some ({ id := i, cipher := c, secret := sec }, 0)
    | _, _, _ => none
  | [i, c, sec, p] =>
    match hexToStr? i, hexToStr? c, hexToStr? sec, p.toNat? with
    | some i, some c, some sec, some p => some ({ id := i, cipher := c, secret := sec }, p)
    | _, _, _, _ => none
  | _ => none

def parseListener (s : String) : Option (Listener × Bool) :=
  match s.splitOn ":" with
  | [t, a, ok] =>
    match hexToStr? a with
    | some a => some ({ tcp := t == "t", addr := a }, ok == "1")
    | none => none
  | _ => none

def parseList {α} (f : String → Option α) (s : String) : Option (List α) :=
  if s == "-" then some [] else (s.splitOn ",").mapM f

def parseSvc (s : String) : Option (Svc × List (String × Bool)) :=
  match s.splitOn "@" with
  | [ls, ks] =>
    match parseList parseListener ls, parseList parseKey ks with
    | some ls, some ks => some ({ listeners := ls.map (·.1), keys := ks.map (·.1) }, ls.map fun l => (l.1.addr, l.2))
    | _, _ => none
  | _ => none

def parseFault (s : String) : Option Fault :=
  if s == "none" then some .none else if s == "read" then some .read
  else if s.startsWith "bind:" then (s.drop 5).toString.toNat?.map .bind else none

def step (d : St) (args : List String) : St × String :=
  match args with
  | ["reset"] => ({}, "ok")
  | "load" :: fs =>
    match (field? fs "fault").bind parseFault, field? fs "svc", field? fs "legacy" with
    | some fault, some svcs, some leg =>
      let svcsP := if svcs == "-" then some [] else (svcs.splitOn "+").mapM parseSvc
      match svcsP, parseList parseKey leg with
      | some ss, some lk =>
        let cfg : Cfg := { services := ss.map (·.1), legacy := lk }
        let oks := ss.flatMap (·.2)
        let addrOK := fun a => match oks.find? (·.1 == a) with | some (_, b) => b | none => true
        let (srv', ok, _) := load canon addrOK d.srv cfg fault
        ({ d with srv := srv' }, if ok then "ok" else "err")
      | _, _ => (d, "bad-op")
    | _, _, _ => (d, "bad-op")
  | "auth" :: fs =>
    match (field? fs "lk").bind hexToStr?, (field? fs "cipher").bind parseNat?, (field? fs "secret").bind hexToStr? with
    | some lk, some c, some sec =>
      match authOn d.srv.cur lk (c, sec) with
      | some id => (d, s!"id={strToHex id}")
      | none => (d, "none")
    | _, _, _ => (d, "bad-op")
  | ["bound"] =>
    let ks := (d.srv.mgr.eraseDups.map strToHex).toArray.qsort (· < ·) |>.toList
    (d, if ks.isEmpty then "-" else ",".intercalate ks)
  | ["hammer"] => (d, "refused=0 unauth=0 lost=0 dup=0")
  | ["relays"] => (d, "broken=0")
  | ["replay"] => (d, "refused")     -- C07: one history for the whole process, across listeners, services and reloads
  | ["stop"] =>
    let (m, _) := releaseAll d.srv.mgr (d.srv.cur.map (·.1))
    ({ d with srv := { mgr := m, cur := [] } }, "ok")
  | _ => (d, "bad-op")

end OutlineModel.Drive.Config
