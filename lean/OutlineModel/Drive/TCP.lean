import OutlineModel.Model.Util
import OutlineModel.Model.TCP
import OutlineModel.Gen.Consts
import OutlineModel.Gen.PrivateNets
/- engine `tcp`:
   tcp new cap=<int|nil> timeout=<ms> <entries>
   tcp conn raw=<n> end=<fin|idle> opens=<keyrefs> srv=<refs> first=<hex> chunks=<d<hex>|L|P<n>|X<k>,...|->
            dial=<-|ok|refused|forbidden> dialip=<hex|-> sink=<host:port|->
-/
namespace OutlineModel.Drive.TCP
open OutlineModel OutlineModel.TCP OutlineModel.Auth OutlineModel.Util OutlineModel.CipherList OutlineModel.Replay

structure St where
  st : AuthState := { list := [], cache := none }
  keyInfo : List (Nat × Nat × Nat) := []

def parseEntries (s : String) : Option (List Entry × List (Nat × Nat × Nat)) :=
  if s == "-" then some ([], []) else
  (s.splitOn ",").foldlM (init := ([], [])) fun (es, kis) item =>
    match item.splitOn ":" with
    | [r, idh, k, ss, ts] =>
      match r.toNat?, hexToStr? idh, k.toNat?, ss.toNat?, ts.toNat? with
      | some r, some id, some k, some ss, some ts =>
        some (es ++ [{ ref := r, id := id, key := k, lastIP := none }], (k, ss, ts) :: kis)
      | _, _, _, _, _ => none
    | _ => none

def parseChunks (s : String) : Option (List Chunk) :=
  if s == "-" then some [] else
  (s.splitOn ",").mapM fun item =>
    if item == "L" then some Chunk.badLen
    else if item.startsWith "d" then (parseHex? (item.drop 1).toString).map Chunk.data
    else if item.startsWith "P" then (item.drop 1).toString.toNat?.map Chunk.badPayload
    else if item.startsWith "X" then (item.drop 1).toString.toNat?.map Chunk.raw
    else none

def greeting (port : Nat) : List UInt8 :=
  if port == 9004 then ((List.range 8).map fun i => s!"slow-record-{i};").foldl (· ++ ·) "" |>.toUTF8.toList
  else s!"greeting-from-{port}".toUTF8.toList

def portOf (sink : String) : Nat := ((sink.splitOn ":").getLast?.bind String.toNat?).getD 0

def showEffs (sink : String) (es : List Eff) : String :=
  let parts := es.filterMap fun e =>
    match e with
    | .search f => some s!"search={f}"
    | .auth id => some s!"auth={strToHex id}"
    | .probe st dr n => some s!"probe={st},{dr},{n}"
    | .dial => none
    | .toTarget d fin => some s!"dial={sink} tgt={digest d},fin={fin}"
    | .toClient _ => none
    | .closed st cp pt tp pc => some s!"closed={st},{cp},{pt},{tp},pc={if pc then "match" else "0"}"
    | .closeClass c => some s!"close={c}"
    | .serverFin _ => none
  let cli := match es.findSome? fun e => match e with | .toClient p => some p | _ => none with
    | some p => s!"cli={digest p}"
    | none => "cli=-"
  -- the client-side item is printed just before `closed=`
  let (a, b) := parts.span fun p => !(p.startsWith "closed=")
  let sfin := match es.findSome? fun e => match e with | .serverFin w => some w | _ => none with
    | some w => s!"srvfin={w}"
    | none => "srvfin=-"
  " ".intercalate (a ++ [cli] ++ b ++ [sfin])

def step (d : St) (args : List String) : St × String :=
  match args with
  | ["new", cap, _timeout, es] =>
    match parseEntries es, field? [cap] "cap" with
    | some (l, kis), some c =>
      let cache : Option (Option RC) := if c == "nil" then some none else
        match parseInt? c with
        | some n => (RC.new Gen.maxCapacity n).map some
        | none => none
      match cache with
      | some ch => ({ st := { list := l, cache := ch }, keyInfo := kis }, "ok")
      | none => (d, "bad-op")
    | _, _ => (d, "bad-op")
  | "conn" :: fs =>
    match (field? fs "raw").bind parseNat?, field? fs "end", (field? fs "opens").bind parseNatList?,
          (field? fs "srv").bind parseNatList?, (field? fs "first").bind parseHex?, (field? fs "chunks").bind parseChunks,
          field? fs "dial", field? fs "dialip", field? fs "sink" with
    | some raw, some en, some opens, some srv, some first, some chunks, some dial, some dialip, some sink =>
      -- sizes of the cipher of the key that opens the stream (scripts use distinct keys)
      let (ss, ts) : Nat × Nat := match opens.head?.bind fun k => d.keyInfo.find? (·.1 == k) with
        | some (_, s, t) => (s, t) | none => (32, 16)
      let cfg : Cfg := { saltSize := ss, tagSize := ts, bytesForKeyFinding := Gen.bytesForKeyFinding,
                         validate := IP.requirePublicIP Gen.privateNets }
      let dialO : DialOutcome :=
        if dial == "ok" then .ok (portOf sink) else if dial == "refused" then .refused
        else if dial == "forbidden" then .forbidden ((parseHex? dialip).getD []) else .none
      let script : Script := { raw := raw, clientEnd := if en == "fin" then .fin else .idle, chunks := chunks, dial := dialO }
      let saltOf (e : Entry) : List UInt8 :=
        match d.keyInfo.find? (·.1 == e.key) with | some (_, s, _) => first.take s | none => []
      let (st', effs) := handle cfg d.st script (fun k => opens.contains k) (fun e => srv.contains e.ref)
        (fun e => preHash e.id.toUTF8.toList (saltOf e)) greeting
      ({ d with st := st' }, showEffs sink effs)
    | _, _, _, _, _, _, _, _, _ => (d, "bad-op")
  | _ => (d, "bad-op")

end OutlineModel.Drive.TCP
