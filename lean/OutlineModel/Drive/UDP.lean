import OutlineModel.Model.Util
import OutlineModel.Model.UDP
import OutlineModel.Model.UDPRun
import OutlineModel.Gen.Consts
import OutlineModel.Gen.PrivateNets
/- engine `udp` (see Model/UDP.lean):
   udp keys validator=<default|allow> <ref>:<idhex>:<keyref>:<salt>:<tag>,...   -> ok     (new handler + key list)
   udp update <ref>:<idhex>:<keyref>:<salt>:<tag>,...                           -> ok     (CipherList.Update)
   udp pkt c=<client> ip=<n|-> wire=<n> opens=<keyrefs> plain=<hex> res=<-|fail|nil|iphex>  -> effects
   udp reply c=<client> src=<iphex> port=<n> body=<hex>                         -> effects
   udp expire c=<client>                                                        -> effects
-/
namespace OutlineModel.Drive.UDP
open OutlineModel OutlineModel.UDP OutlineModel.Util OutlineModel.CipherList OutlineModel.Socks

structure St where
  st : State := OutlineModel.UDP.init []
  keyInfo : List (Nat × Nat × Nat) := []
  allowAll : Bool := false
  /-- NAT tables of the other listeners served by the same handler (Handle creates one per call);
      the key list is shared. -/
  others : List (Nat × State) := []
  cur : Nat := 1

def init : St := {}

/-- the generated `port == "53"` literal of isDNS, as a number -/
def dnsPortNat : Nat := Gen.dnsPort.toNat?.getD 0

def parseEntries (s : String) : Option (List Entry × List (Nat × Nat × Nat)) :=
  if s == "-" then some ([], []) else
  (s.splitOn ",").foldlM (init := ([], [])) fun (es, kis) item =>
    match item.splitOn ":" with
    | [r, idh, k, ss, ts] =>
      match r.toNat?, hexToStr? idh, k.toNat?, ss.toNat?, ts.toNat? with
      | some r, some id, some k, some ss, some ts =>
        some (es ++ [{ ref := r, id := id, key := k, lastIP := none }], (k, ss, ts) :: kis)
      | _, _, _, _, _ => none
    | _ => none

def showEff : Eff → String
  | .search f => s!"search={f}"
  | .natAdd _ id s => s!"natadd={strToHex id},s{s}"
  | .send s ip p pl => s!"send=s{s},{toHex ((IP.to4 ip).getD ip)},{p},{digest pl}"
  | .report st w n => s!"report={st},{w},{n}"
  | .toClient c _ pt w =>
    let n := (splitAddrLen pt).getD 0
    s!"toclient={c},{toHex (pt.take n)},{digest (pt.drop n)},{w}"
  | .fromTarget st b w => s!"fromtarget={st},{b},{w}"
  | .natRemove c s => s!"natremove={c},s{s}"
  | .panic p => s!"panic={repr p}"

def showEffs (es : List Eff) : String := if es.isEmpty then "none" else " ".intercalate (es.map showEff)

def step (d : St) (args : List String) : St × String :=
  let ki : KeyInfo := fun k => match d.keyInfo.find? (·.1 == k) with | some (_, s, t) => (s, t) | none => (0, 0)
  let validate : List UInt8 → IP.Verdict := fun ip => if d.allowAll then .ok else IP.requirePublicIP Gen.privateNets ip
  match args with
  | "keys" :: v :: [es] =>
    match parseEntries es with
    | some (l, kis) => ({ st := OutlineModel.UDP.init l, keyInfo := kis, allowAll := v == "validator=allow", others := [], cur := 1 }, "ok")
    | none => (d, "bad-op")
  | ["update", es] =>
    match parseEntries es with
    | some (l, kis) => ({ d with st := { d.st with list := l }, keyInfo := kis ++ d.keyInfo }, "ok")
    | none => (d, "bad-op")
  | "pkt" :: fs =>
    match field? fs "c", (field? fs "ip").bind optNat?, (field? fs "wire").bind parseNat?,
          (field? fs "opens").bind parseNatList?, (field? fs "plain").bind parseHex?, field? fs "res" with
    | some c, some ip, some wire, some opens, some plain, some res =>
      let resolve : Target → Resolved := fun t =>
        match t with
        | .v4 ip _ => .ip ip
        | .v6 ip _ => .ip ip
        | .domain _ _ => if res == "fail" then .fail else if res == "nil" then .ip [] else
            match parseHex? res with | some ip => .ip ip | none => .fail
      let (st', effs) := upstream dnsPortNat ki validate resolve d.st c ip wire opens plain
      -- sendfails=1: the operating system refuses the send (destination port 0)
      let effs := if field? fs "sendfails" == some "1" then failSend effs else effs
      ({ d with st := st' }, showEffs effs)
    | _, _, _, _, _, _ => (d, "bad-op")
  | "reply" :: fs =>
    match field? fs "c", (field? fs "src").bind parseHex?, (field? fs "port").bind parseNat?, (field? fs "body").bind parseHex? with
    | some c, some src, some port, some body =>
      match lookupNat d.st.nat c with
      | some a =>
        let (st', effs) := downstream dnsPortNat Gen.serverUDPBufferSize Gen.maxAddrLen d.st a src port body
        ({ d with st := st' }, showEffs effs)
      | none =>
        match d.others.find? (fun x => (lookupNat x.2.nat c).isSome) with
        | none => (d, "no-assoc")
        | some (k, s) =>
          match lookupNat s.nat c with
          | none => (d, "no-assoc")
          | some a =>
            let (s', effs) := downstream dnsPortNat Gen.serverUDPBufferSize Gen.maxAddrLen s a src port body
            ({ d with others := d.others.map fun x => if x.1 == k then (k, s') else x }, showEffs effs)
    | _, _, _, _ => (d, "bad-op")
  | "expire" :: fs =>
    match field? fs "c" with
    | some c =>
      if (lookupNat d.st.nat c).isSome then
        let (st', effs) := expire d.st c; ({ d with st := st' }, showEffs effs)
      else match d.others.find? (fun x => (lookupNat x.2.nat c).isSome) with
        | none => (d, "none")
        | some (k, s) =>
          let (s', effs) := expire s c
          ({ d with others := d.others.map fun x => if x.1 == k then (k, s') else x }, showEffs effs)
    | none => (d, "bad-op")
  | ["conn", k] =>
    match k.toNat? with
    | none => (d, "bad-op")
    | some k =>
      if k == d.cur then (d, "ok") else
      let saved := (d.cur, d.st) :: d.others.filter (·.1 != d.cur)
      let nxt : State := match saved.find? (·.1 == k) with
        | some (_, s) => { s with list := d.st.list, nextSock := d.st.nextSock }
        | none => { OutlineModel.UDP.init d.st.list with nextSock := d.st.nextSock }
      ({ d with st := nxt, others := saved, cur := k }, "ok")
  | ["end"] =>
    -- natmap.Close() sets every deadline to "now": every copier exits and removes its entry; by the
    -- time the harness looks, no association is alive and nothing unaccounted reached a target
    (d, "live=0 stray=0")
  | _ => (d, "bad-op")

end OutlineModel.Drive.UDP
