/- engine `life`: what C18 demands of every batch of hostile sessions, whatever they were:
   life start  -> ok
   life batch  -> alive panics=0 leaked-goroutines=0 leaked-fds=0 serving=ok
   life stop   -> ok left-goroutines=0 left-fds=0
   (a specification constant, not a computation: the property says the observable residue of ANY
   input is nil) -/
namespace OutlineModel.Drive.Life
def step (args : List String) : String :=
  match args with
  | ["start"] => "ok"
  | ["batch"] => "alive panics=0 leaked-goroutines=0 leaked-fds=0 serving=ok"
  | ["stop"] => "ok left-goroutines=0 left-fds=0"
  | _ => "bad-op"
end OutlineModel.Drive.Life
