import OutlineModel.Model.Util
import OutlineModel.Model.Shared
/- engine `sh` (one shared listener; the harness replays what it observed):
   sh reset                  -> ok
   sh acquire                -> h<k>
   sh arrive i=<n>           -> accepted | refused | impossible
   sh call h=<k>             -> pending | closed | impossible
   sh deliver i=<n> h=<k>    -> ok | impossible       (the item the blocked call of h returned)
   sh close h=<k>            -> ok unblocked=<0|1> | impossible
   sh strays                 -> dropped=<sorted ids|->   (items the server closed because nobody could take them)
   sh rebind                 -> free | busy
   sh end                    -> delivered=<n> queued=<n> dropped=<n> refused=<n> closed-calls=<n>
-/
namespace OutlineModel.Drive.Shared
open OutlineModel OutlineModel.Shared OutlineModel.Util

def showIds (l : List Nat) : String :=
  if l.isEmpty then "-" else ",".intercalate ((l.toArray.qsort (· < ·)).toList.map toString)

def stepLine (s : St) (args : List String) : St × String :=
  match args with
  | ["reset"] => ({}, "ok")
  | ["acquire"] =>
    match step s .acquire with
    | some s' => (s', s!"h{s.next}")
    | none => (s, "impossible")
  | "arrive" :: fs =>
    match (field? fs "i").bind parseNat? with
    | some i =>
      match step s (.arrive i) with
      | some s' => (s', if s.sock then "accepted" else "refused")
      | none => (s, "impossible")
    | none => (s, "bad-op")
  | "call" :: fs =>
    match (field? fs "h").bind parseNat? with
    | some h =>
      match step s (.call h) with
      | some s' => (s', if s.closedH.contains h then "closed" else "pending")
      | none => (s, "impossible")
    | none => (s, "bad-op")
  | "deliver" :: fs =>
    match (field? fs "i").bind parseNat?, (field? fs "h").bind parseNat? with
    | some i, some h =>
      match step s (.deliver i h) with
      | some s' => (s', "ok")
      | none => (s, "impossible")
    | _, _ => (s, "bad-op")
  | "close" :: fs =>
    match (field? fs "h").bind parseNat? with
    | some h =>
      match step s (.close h) with
      | some s' => (s', s!"ok unblocked={if s.waiting.contains h then 1 else 0}")
      | none => (s, "impossible")
    | none => (s, "bad-op")
  | ["strays"] => (s, s!"dropped={showIds s.dropped}")
  | ["rebind"] => (s, if s.sock then "busy" else "free")
  | ["end"] => (s, s!"delivered={s.delivered.length} queued={s.queue.length} dropped={s.dropped.length} refused={s.refused.length} closed-calls={s.errs.length}")
  | _ => (s, "bad-op")

end OutlineModel.Drive.Shared
