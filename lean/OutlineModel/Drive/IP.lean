import OutlineModel.Model.Util
import OutlineModel.Model.IP
import OutlineModel.Gen.PrivateNets
/- engine `ip`:
   ip rp <hex>      -> ok | ERR_ADDRESS_INVALID | ERR_ADDRESS_PRIVATE     (onet.RequirePublicIP)
   ip priv <hex>    -> true | false                                       (onet.IsPrivateAddress)
   ip global <hex>  -> true | false                                       (net.IP.IsGlobalUnicast)
-/
namespace OutlineModel.Drive.IP
open OutlineModel OutlineModel.IP OutlineModel.Util

def step (args : List String) : String :=
  match args with
  | ["rp", h] => match parseHex? h with
    | some ip => (requirePublicIP Gen.privateNets ip).toString
    | none => "bad-op"
  | ["priv", h] => match parseHex? h with
    | some ip => toString (isPrivate Gen.privateNets ip)
    | none => "bad-op"
  | ["global", h] => match parseHex? h with
    | some ip => toString (isGlobalUnicast ip)
    | none => "bad-op"
  | _ => "bad-op"

end OutlineModel.Drive.IP
