import OutlineModel.Model.Util
import OutlineModel.Model.MConn
/- engine `mc`:
   mc new                                  -> ok
   mc read n=<k>                           -> rd=<r> wr=<w>
   mc write len=<k> acc=<k>                -> rd=.. wr=..
   mc writeto steps=<nr>:<nw>,...|-        -> rd=.. wr=..
   mc readfrom direct=<0|1> steps=...      -> rd=.. wr=..
-/
namespace OutlineModel.Drive.MConn
open OutlineModel OutlineModel.MConn OutlineModel.Util

def parseSteps (s : String) : Option (List CopyStep) :=
  if s == "-" then some [] else
  (s.splitOn ",").mapM fun p =>
    match p.splitOn ":" with
    | [a, b] => match a.toNat?, b.toNat? with
      | some a, some b => some (a, b)
      | _, _ => none
    | _ => none

def show' (s : St) : String := s!"rd={s.rd} wr={s.wr}"

def stepLine (s : St) (args : List String) : St × String :=
  match args with
  | ["new"] => ({}, "ok")
  | "read" :: fs =>
    match (field? fs "n").bind parseNat? with
    | some n => let s' := step s (.read n); (s', show' s')
    | none => (s, "bad-op")
  | "write" :: fs =>
    match (field? fs "len").bind parseNat?, (field? fs "acc").bind parseNat? with
    | some l, some a => let s' := step s (.write l a); (s', show' s')
    | _, _ => (s, "bad-op")
  | "writeto" :: fs =>
    match (field? fs "steps").bind parseSteps with
    | some st => let s' := step s (.writeTo st); (s', show' s')
    | none => (s, "bad-op")
  | "readfrom" :: fs =>
    match field? fs "direct", (field? fs "steps").bind parseSteps with
    | some d, some st => let s' := step s (.readFrom (d == "1") st); (s', show' s')
    | _, _ => (s, "bad-op")
  | _ => (s, "bad-op")

end OutlineModel.Drive.MConn
