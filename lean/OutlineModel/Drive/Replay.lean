import OutlineModel.Model.Util
import OutlineModel.Model.Replay
import OutlineModel.Gen.Consts
/- line protocol, engine `replay`:
   replay new <cap>            -> ok | panic
   replay add <idhex> <salthex> -> true | false        (hash printed too: true h=<u32>)
   replay resize <n>           -> ok | err
   replay nil                  -> ok     (nil *ReplayCache)
-/
namespace OutlineModel.Drive.Replay
open OutlineModel OutlineModel.Replay OutlineModel.Util

abbrev St := Option RC

def init : St := none

def step (st : St) (args : List String) : St × String :=
  match args with
  | ["new", n] =>
    match parseInt? n with
    | some k => match RC.new Gen.maxCapacity k with
      | some c => (some c, "ok")
      | none => (st, "panic")
    | none => (st, "bad-op")
  | ["nil"] => (none, "ok")
  | ["add", id, salt] =>
    match parseHex? id, parseHex? salt with
    | some i, some s =>
      let h := preHash i s
      let (st', b) := addNilable st h
      (st', s!"{b} #h={h.toNat}")
    | _, _ => (st, "bad-op")
  | ["resize", n] =>
    match parseInt? n, st with
    | some k, some c =>
      let (c', ok) := c.resize Gen.maxCapacity k
      (some c', if ok then "ok" else "err")
    | _, _ => (st, "bad-op")
  | _ => (st, "bad-op")

end OutlineModel.Drive.Replay
