/-
Model of tunnelTimeMetrics (prometheus/metrics.go): activeClients, startConnection, stopConnection,
reportTunnelTime, Collect — and of an independent specification of "time during which a client had
at least one tunnel open".  Times are integer nanoseconds on a non-decreasing clock.  Core only.

An IPKey is (client ip, access key); `loc` is the location label tuple of the client, looked up
once when the entry is created.
-/
namespace OutlineModel.TunnelTime

structure IPKey where
  ip : Nat
  key : String
deriving DecidableEq, Repr

structure Client where
  k : IPKey
  count : Int
  start : Nat
  loc : String
deriving Repr, DecidableEq

structure TT where
  active : List Client                 -- activeClients (at most one entry per IPKey)
  perKey : List (String × Nat)         -- tunnel_time_seconds{access_key}: total reported so far
  perLoc : List (String × Nat)         -- tunnel_time_seconds_per_location{location…}
deriving Repr

def TT.init : TT := { active := [], perKey := [], perLoc := [] }

def addTo (m : List (String × Nat)) (k : String) (v : Nat) : List (String × Nat) :=
  match m with
  | [] => [(k, v)]
  | (k', v') :: rest => if k' == k then (k', v' + v) :: rest else (k', v') :: addTo rest k v

def getOf (m : List (String × Nat)) (k : String) : Nat :=
  match m.find? (·.1 == k) with | some (_, v) => v | none => 0

/-- reportTunnelTime: add `now - start` to both counters -/
def report (t : TT) (c : Client) (now : Nat) : TT :=
  { t with perKey := addTo t.perKey c.k.key (now - c.start), perLoc := addTo t.perLoc c.loc (now - c.start) }

def find (t : TT) (k : IPKey) : Option Client := t.active.find? (·.k == k)

/-- startConnection(ipKey) at time `now`; `loc` is what the location lookup answers if an entry is created -/
def start (t : TT) (k : IPKey) (now : Nat) (loc : String) : TT :=
  match find t k with
  | some _ => { t with active := t.active.map fun c => if c.k == k then { c with count := c.count + 1 } else c }
  | none => { t with active := { k := k, count := 1, start := now, loc := loc } :: t.active }

/-- stopConnection(ipKey) at time `now` -/
def stop (t : TT) (k : IPKey) (now : Nat) : TT :=
  match find t k with
  | none => t    -- "Failed to find active client."
  | some c =>
    if c.count - 1 ≤ 0 then
      let t' := report t c now
      { t' with active := t'.active.filter fun x => !(x.k == k) }
    else { t with active := t.active.map fun x => if x.k == k then { x with count := x.count - 1 } else x }

/-- Collect at time `now`: report every active client and restart its interval -/
def collect (t : TT) (now : Nat) : TT :=
  let t' := t.active.foldl (fun acc c => report acc c now) t
  { t' with active := t'.active.map fun c => { c with start := now } }

inductive Op
  | start (k : IPKey) (now : Nat) (loc : String)
  | stop (k : IPKey) (now : Nat)
  | collect (now : Nat)
deriving Repr

def Op.now : Op → Nat | .start _ n _ => n | .stop _ n => n | .collect n => n

def step (t : TT) : Op → TT
  | .start k now loc => start t k now loc
  | .stop k now => stop t k now
  | .collect now => collect t now

def run (t : TT) : List Op → TT
  | [] => t
  | o :: os => run (step t o) os

/-! ### Independent specification -/

/-- state of the specification for ONE IPKey: how many tunnels are open, since when the current
    covered period has been accruing, and the covered time so far -/
structure Spec where
  depth : Nat
  last : Nat
  covered : Nat
deriving Repr

/-- advance the specification of `k` over one operation: time covered accrues while depth > 0 -/
def specStep (k : IPKey) (s : Spec) (o : Op) : Spec :=
  let acc := if s.depth > 0 then s.covered + (o.now - s.last) else s.covered
  match o with
  | .start k' now _ => if k' == k then { depth := s.depth + 1, last := now, covered := acc } else { s with last := now, covered := acc }
  | .stop k' now => if k' == k then { depth := s.depth - 1, last := now, covered := acc } else { s with last := now, covered := acc }
  | .collect now => { s with last := now, covered := acc }

def specRun (k : IPKey) (s : Spec) : List Op → Spec
  | [] => s
  | o :: os => specRun k (specStep k s o) os

/-- the clock never goes back -/
def Monotone (t0 : Nat) : List Op → Prop
  | [] => True
  | o :: os => t0 ≤ o.now ∧ Monotone o.now os

end OutlineModel.TunnelTime
