import OutlineModel.Model.IP
/-
Model of ipinfo.GetIPInfoFromAddr / GetIPInfoFromIP (ipinfo/ipinfo.go): the location label of a client
address, decided by its class, with a log of database consultations.  Core only.
-/
namespace OutlineModel.IPInfo
open OutlineModel.IP

/-- how the client address parses (net.SplitHostPort, zone stripped, net.ParseIP): the parser itself is
    Go's; what the code does with the outcome is modelled -/
inductive Parsed
  | nilAddr                   -- addr == nil
  | noHostPort                -- SplitHostPort failed
  | notIP                     -- host is not an IP literal
  | ip (bytes : List UInt8)   -- the parsed IP (4 or 16 bytes)
deriving Repr, DecidableEq

/-- what the database does when asked -/
inductive DB
  | disabled                              -- ip2info == nil
  | answers (country : String)            -- GetIPInfo returns this country (possibly ""), no error
  | fails (country : String)              -- GetIPInfo returns an error (and possibly a partial answer)
deriving Repr, DecidableEq

structure Result where
  label : String
  isErr : Bool
  dbCalls : Nat
deriving Repr, DecidableEq

/-- GetIPInfoFromIP (an empty byte string models a nil IP) -/
def fromIP (db : DB) (ip : List UInt8) : Result :=
  match db with
  | .disabled => { label := "", isErr := false, dbCalls := 0 }
  | .answers c =>
    if ip.isEmpty then { label := "XA", isErr := true, dbCalls := 0 }
    else if !isGlobalUnicast ip then { label := "XL", isErr := false, dbCalls := 0 }
    else { label := if c == "" then "ZZ" else c, isErr := false, dbCalls := 1 }
  | .fails _ =>
    if ip.isEmpty then { label := "XA", isErr := true, dbCalls := 0 }
    else if !isGlobalUnicast ip then { label := "XL", isErr := false, dbCalls := 0 }
    else { label := "XD", isErr := true, dbCalls := 1 }

/-- GetIPInfoFromAddr -/
def fromAddr (db : DB) (p : Parsed) : Result :=
  match p with
  | .nilAddr => { label := "XA", isErr := true, dbCalls := 0 }
  | .noHostPort => { label := "XA", isErr := true, dbCalls := 0 }
  | .notIP => { label := "XA", isErr := true, dbCalls := 0 }
  | .ip b => fromIP db b

end OutlineModel.IPInfo
