/- Parsing / printing helpers for the line protocol of the model driver. Core only. -/
namespace OutlineModel.Util

def hexDigit? (c : Char) : Option Nat :=
  if '0' ≤ c ∧ c ≤ '9' then some (c.toNat - '0'.toNat)
  else if 'a' ≤ c ∧ c ≤ 'f' then some (c.toNat - 'a'.toNat + 10)
  else if 'A' ≤ c ∧ c ≤ 'F' then some (c.toNat - 'A'.toNat + 10)
  else none

/-- "-" is the empty byte string; otherwise an even number of hex digits -/
def parseHex? (s : String) : Option (List UInt8) :=
  if s == "-" then some [] else
  let rec go : List Char → List UInt8 → Option (List UInt8)
    | [], acc => some acc.reverse
    | [_], _ => none
    | a :: b :: rest, acc =>
      match hexDigit? a, hexDigit? b with
      | some x, some y => go rest (UInt8.ofNat (x * 16 + y) :: acc)
      | _, _ => none
  go s.toList []

def hexChar (n : Nat) : Char :=
  if n < 10 then Char.ofNat ('0'.toNat + n) else Char.ofNat ('a'.toNat + n - 10)

def toHex (bs : List UInt8) : String :=
  if bs.isEmpty then "-" else
  String.ofList (bs.flatMap fun b => [hexChar (b.toNat / 16), hexChar (b.toNat % 16)])

def parseInt? (s : String) : Option Int := s.toInt?

def parseNat? (s : String) : Option Nat := s.toNat?

/-- "k=v" fields -/
def field? (fs : List String) (k : String) : Option String :=
  fs.findSome? fun f =>
    match f.splitOn "=" with
    | [k', v] => if k' == k then some v else none
    | _ => none

/-- comma separated list of naturals; "-" or "" is empty -/
def parseNatList? (s : String) : Option (List Nat) :=
  if s == "-" || s == "" then some [] else
  (s.splitOn ",").mapM fun x => x.toNat?

def showNatList (l : List Nat) : String :=
  if l.isEmpty then "-" else ",".intercalate (l.map toString)

def optNat? (s : String) : Option (Option Nat) :=
  if s == "-" then some none else s.toNat?.map some

end OutlineModel.Util

namespace OutlineModel.Util

/-- canonical short form of a byte string for the line protocol: `<len>:<fnv1a-64 hex>` -/
def digest (bs : List UInt8) : String :=
  let h : UInt64 := bs.foldl (fun h b => (h ^^^ b.toUInt64) * 1099511628211) 14695981039346656037
  let hexDigits := (List.range 16).map fun i => hexChar ((h >>> (UInt64.ofNat (60 - 4 * i))).toNat % 16)
  s!"{bs.length}:{String.ofList hexDigits}"

/-- inverse of `hexToStr?` (which reads each byte as one character): characters below 256 are single
    bytes; anything else is written in UTF-8 -/
def strToHex (s : String) : String :=
  toHex (s.toList.flatMap fun c => if c.toNat < 256 then [c.toNat.toUInt8] else (String.singleton c).toUTF8.toList)

def hexToStr? (h : String) : Option String :=
  (parseHex? h).map fun bs => String.ofList (bs.map fun b => Char.ofNat b.toNat)

end OutlineModel.Util
