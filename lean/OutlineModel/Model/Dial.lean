import OutlineModel.Model.IP
/-
Model of how a destination reaches a socket (tcp.go: makeValidatingTCPStreamDialer + Go's
net.Dialer; udp.go: validatePacket + WriteTo).  The resolver is an oracle: its answer is a
parameter.  Go runtime contract: `net.Dialer` calls `Control(network, address, conn)` with the
literal "ip:port" of every connection attempt, right before `connect`, and skips the attempt when
Control fails (dialSerial goes on with the next candidate; happy-eyeballs runs two such lists).
-/
namespace OutlineModel.Dial
open OutlineModel.IP

/-- `Control`: host part parsed with net.ParseIP (a zoned literal does not parse: nil), then the validator -/
def control (validate : List UInt8 → Verdict) (candidate : Option (List UInt8)) : Verdict :=
  match candidate with
  | none => validate []        -- ParseIP returned nil
  | some ip => validate ip

/-- one serial pass over the candidates: which addresses got a `connect` and which one succeeded -/
def dialSerial (validate : List UInt8 → Verdict) (connects : List UInt8 → Bool) :
    List (Option (List UInt8)) → List (List UInt8) × Option (List UInt8)
  | [] => ([], none)
  | c :: rest =>
    if control validate c = .ok then
      match c with
      | none => dialSerial validate connects rest      -- unreachable: validate [] is never ok
      | some ip =>
        if connects ip then ([ip], some ip)
        else
          let (cs, r) := dialSerial validate connects rest
          (ip :: cs, r)
    else dialSerial validate connects rest

/-- happy eyeballs: a primary and a fallback list, each dialled serially (possibly concurrently) -/
def dialParallel (validate : List UInt8 → Verdict) (connects : List UInt8 → Bool)
    (primaries fallbacks : List (Option (List UInt8))) : List (List UInt8) :=
  (dialSerial validate connects primaries).1 ++ (dialSerial validate connects fallbacks).1

end OutlineModel.Dial
