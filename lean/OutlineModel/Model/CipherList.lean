/-
Model of service/cipher_list.go and of the trial-decryption lookups that use it
(findAccessKey/findEntry in tcp.go, findAccessKeyUDP in udp.go).  Core only, executable.

Go                                         model
-------------------------------------------------------------------------------------------
*list.Element (pointer identity)           Entry.ref : Nat (unique per element ever created)
CipherEntry.ID                             Entry.id
CipherEntry.CryptoKey (cipher, secret)     Entry.key : Nat  (index of the (cipher,secret) pair)
CipherEntry.lastClientIP netip.Addr        Entry.lastIP : Option Nat   (none = zero Addr)
cipherList.list                            List Entry, front first
SnapshotForClientIP (RLock)                snapshot
MarkUsedByClientIP (Lock)                  markUsed   (container/list.MoveToFront ignores
                                                       elements of another list: stale refs)
Update (Lock)                              update
"header opens under the entry's key"       valid : Nat → Bool on Entry.key (given by the caller;
                                           real cryptography stays outside the model)
-/
namespace OutlineModel.CipherList

structure Entry where
  ref : Nat
  id : String
  key : Nat
  lastIP : Option Nat
deriving DecidableEq, Repr

/-- `matchesIP`: `clientIP != netip.Addr{} && clientIP == c.lastClientIP` -/
def matchesIP (ip : Option Nat) (e : Entry) : Bool :=
  match ip, e.lastIP with
  | some a, some b => a == b
  | _, _ => false

/-- the two passes of `SnapshotForClientIP` -/
def snapshot (l : List Entry) (ip : Option Nat) : List Entry :=
  l.filter (matchesIP ip) ++ l.filter (fun e => !matchesIP ip e)

/-- first entry of the snapshot whose key opens the header (findEntry / the UDP trial loop) -/
def findEntry (valid : Nat → Bool) (snap : List Entry) : Option Entry :=
  snap.find? (fun e => valid e.key)

/-- index of the entry found (the "index" attribute of the debug log record) -/
def findIndex (valid : Nat → Bool) (snap : List Entry) : Option Nat :=
  let i := snap.findIdx (fun e => valid e.key)
  if i < snap.length then some i else none

/-- `MarkUsedByClientIP(e, ip)`: move-to-front when the element belongs to the current list
    (no-op on the list otherwise), and record the client IP on the entry. -/
def markUsed (l : List Entry) (ref : Nat) (ip : Option Nat) : List Entry :=
  match l.find? (fun e => e.ref == ref) with
  | none => l
  | some e => { e with lastIP := ip } :: l.filter (fun x => !(x.ref == ref))

/-- `Update(src)` -/
def update (_l : List Entry) (src : List Entry) : List Entry := src

/-- One lookup as the TCP/UDP code performs it: snapshot, trial decryption, mark used.
    Returns the new list and the entry found with its snapshot index. -/
def lookup (l : List Entry) (ip : Option Nat) (valid : Nat → Bool) : List Entry × Option (Entry × Nat) :=
  let snap := snapshot l ip
  match findEntry valid snap, findIndex valid snap with
  | some e, some i => (markUsed l e.ref ip, some (e, i))
  | _, _ => (l, none)

/-- operations on the shared list, each one critical section of `cipherList.mu` -/
inductive Op
  | lookup (ip : Option Nat) (validKeys : List Nat)
  | mark (ref : Nat) (ip : Option Nat)          -- a (possibly stale) MarkUsed from a concurrent lookup
  | update (src : List Entry)
deriving Repr

def step (l : List Entry) : Op → List Entry
  | .lookup ip vs => (lookup l ip (fun k => vs.contains k)).1
  | .mark ref ip => markUsed l ref ip
  | .update src => update l src

def run (l : List Entry) : List Op → List Entry
  | [] => l
  | o :: os => run (step l o) os

end OutlineModel.CipherList
