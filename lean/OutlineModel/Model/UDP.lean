import OutlineModel.Model.CipherList
import OutlineModel.Model.Socks
import OutlineModel.Model.IP
/-
Model of service/udp.go: packetHandler.Handle (one client datagram = one `upstream` step),
validatePacket, natmap (Get/Add/del), timedCopy (one target datagram = one `downstream` step, with
the in-place buffer arithmetic explicit), the copier's exit (`expire`) and natmap.Close.

Real cryptography stays outside: an upstream datagram carries the set `opens` of key references
under which it authenticates and the plaintext it then yields; a downstream datagram is described
by what `shadowsocks.Pack` is given (key, plaintext) — its output is `salt ‖ seal(key, plaintext)`
by the SDK contract, of length saltSize + |plaintext| + tagSize.
-/
namespace OutlineModel.UDP
open OutlineModel OutlineModel.CipherList OutlineModel.Socks

/-- one NAT entry: `natconn` + what the copier goroutine captured when it was started -/
structure Assoc where
  client : String        -- clientAddr.String(), the map key AND the address captured by the copier
  sock : Nat             -- identity of the socket created by net.ListenPacket for this association
  key : Nat              -- natconn.cryptoKey (key reference)
  keyId : String         -- the id given to AddUDPNatEntry
  saltSize : Nat
  tagSize : Nat
  writes : Nat := 0      -- number of WriteTo calls so far (natconn.readDeadline.IsZero() ⇔ writes = 0)
  armed : Bool := true   -- natconn.fastClose (sync.Once) not yet consumed
deriving Repr, DecidableEq

/-- natconn.onWrite as far as the fast-close latch is concerned: any non-DNS write, and any write
    that is not the first one, consumes the latch. (The deadline arithmetic is Model/NatConn.) -/
def Assoc.onWrite (a : Assoc) (dstPort : Nat) (dnsPort : Nat) : Assoc :=
  let isDNS := dstPort == dnsPort
  let isFirst := a.writes == 0
  { a with writes := a.writes + 1, armed := if !isDNS || !isFirst then false else a.armed }

structure State where
  list : List Entry
  nat : List Assoc        -- natmap.keyConn (at most one entry per client string: invariant)
  nextSock : Nat
  closedSocks : List Nat  -- sockets closed by their copier
deriving Repr

/-- key reference ↦ (saltSize, tagSize): which cipher the key belongs to -/
abbrev KeyInfo := Nat → Nat × Nat

inductive Resolved
  | fail                       -- net.ResolveUDPAddr failed
  | ip (ip : List UInt8)       -- the IP of the *net.UDPAddr it returned (possibly empty = nil)
deriving Repr, DecidableEq

inductive Eff
  | search (found : Bool)                                   -- AddCipherSearch
  | natAdd (client : String) (keyId : String) (sock : Nat)  -- AddUDPNatEntry + new socket
  | send (sock : Nat) (dstIP : List UInt8) (dstPort : Nat) (payload : List UInt8)   -- targetConn.WriteTo
  | report (status : String) (wire : Nat) (sent : Nat)      -- AddPacketFromClient
  | toClient (client : String) (key : Nat) (plaintext : List UInt8) (wire : Nat)     -- clientConn.WriteTo(salt‖seal(key, plaintext))
  | fromTarget (status : String) (body : Nat) (wire : Nat)  -- AddPacketFromTarget
  | natRemove (client : String) (sock : Nat)                -- RemoveNatEntry + del + Close
  | panic (p : Panic)
deriving Repr, DecidableEq

def lookupNat (nat : List Assoc) (client : String) : Option Assoc := nat.find? (·.client == client)

/-- validatePacket.  `res` is the resolver's answer for the host of the address header (only
    consulted through `resolve`), `validate` the target IP validator. -/
def validatePacket (validate : List UInt8 → IP.Verdict) (resolve : Target → Resolved) (text : List UInt8) :
    Except Panic (Except String (List UInt8 × List UInt8 × Nat)) := do
  match splitAddrLen text with
  | none => return .error "ERR_READ_ADDRESS"
  | some n =>
    let addr ← slice "SplitAddr b[:addrLen]" text 0 n
    match ← decode addr with
    | none => return .error "ERR_RESOLVE_ADDRESS"
    | some tgt =>
      let port := match tgt with | .v4 _ p => p | .v6 _ p => p | .domain _ p => p
      match resolve tgt with
      | .fail => return .error "ERR_RESOLVE_ADDRESS"
      | .ip ip =>
        match validate ip with
        | .invalid => return .error "ERR_ADDRESS_INVALID"
        | .priv => return .error "ERR_ADDRESS_PRIVATE"
        | .ok =>
          let payload ← slice "textData[len(tgtAddr):]" text n text.length
          return .ok (payload, ip, port)

/-- in-place update of the natconn object of `client` -/
def updateAssoc (nat : List Assoc) (client : String) (f : Assoc → Assoc) : List Assoc :=
  nat.map fun x => if x.client == client then f x else x

/-- one datagram from a client.  `cip` is the client IP as the cipher list sees it. -/
def upstream (dnsPort : Nat) (ki : KeyInfo) (validate : List UInt8 → IP.Verdict) (resolve : Target → Resolved)
    (st : State) (client : String) (cip : Option Nat) (wire : Nat) (opens : List Nat) (plain : List UInt8) :
    State × List Eff :=
  match lookupNat st.nat client with
  | none =>
    let (list', found) := lookup st.list cip (fun k => opens.contains k)
    match found with
    | none => ({ st with list := list' }, [.search false])
    | some (e, _) =>
      match validatePacket validate resolve plain with
      | .error p => ({ st with list := list' }, [.search true, .panic p])
      | .ok (.error _) => ({ st with list := list' }, [.search true])      -- targetConn == nil: nothing reported
      | .ok (.ok (payload, ip, port)) =>
        let (ss, ts) := ki e.key
        let a0 : Assoc := { client := client, sock := st.nextSock, key := e.key, keyId := e.id, saltSize := ss, tagSize := ts }
        let a := a0.onWrite port dnsPort
        ({ st with list := list', nat := a :: st.nat, nextSock := st.nextSock + 1 },
         [.search true, .natAdd client e.id a.sock, .send a.sock ip port payload, .report "OK" wire payload.length])
  | some a =>
    if opens.contains a.key then
      match validatePacket validate resolve plain with
      | .error p => (st, [.search true, .panic p])
      | .ok (.error status) => (st, [.search true, .report status wire 0])
      | .ok (.ok (payload, ip, port)) =>
        ({ st with nat := updateAssoc st.nat client (fun x => x.onWrite port dnsPort) },
         [.search true, .send a.sock ip port payload, .report "OK" wire payload.length])
    else (st, [.search false, .report "ERR_CIPHER" wire 0])

/-- timedCopy's handling of one datagram read on the association's socket.
    `srcIP`, `srcPort`: the datagram's source; `body`: what ReadFrom delivered into pkt[bodyStart:]
    (already truncated to the buffer by the kernel); `bufSize`, `maxAddrLen`: generated constants. -/
def relayReply (bufSize maxAddrLen : Nat) (a : Assoc) (srcIP : List UInt8) (srcPort : Nat) (body : List UInt8) : List Eff :=
  let bodyStart := a.saltSize + maxAddrLen
  let bodyLen := body.length
  let srcAddr := encodeIP srcIP srcPort
  -- addrStart := bodyStart - len(srcAddr) ; saltStart := addrStart - saltSize   (Go ints: may go negative)
  let addrStart : Int := (bodyStart : Int) - srcAddr.length
  let saltStart : Int := addrStart - a.saltSize
  if addrStart < 0 ∨ (bodyStart + bodyLen : Int) > bufSize ∨ addrStart > bodyStart + bodyLen then
    [.panic (.sliceBounds "pkt[addrStart : bodyStart+bodyLen]")]
  else if saltStart < 0 ∨ saltStart > bufSize then
    [.panic (.sliceBounds "pkt[saltStart:]")]
  else
    let packBufLen : Int := bufSize - saltStart
    let plaintext := srcAddr ++ body
    -- shadowsocks.Pack: io.ErrShortBuffer when dst cannot hold salt + plaintext + tag
    if packBufLen < a.saltSize ∨ packBufLen < a.saltSize + plaintext.length + a.tagSize then
      [.fromTarget "ERR_PACK" bodyLen 0]
    else
      let wire := a.saltSize + plaintext.length + a.tagSize
      [.toClient a.client a.key plaintext wire, .fromTarget "OK" bodyLen wire]

/-- One datagram read by the copier of association `a`: natconn.onRead (the fast-close latch: the
    FIRST read consumes it, and if that read comes from the DNS port the socket deadline becomes
    "now", so the copier's next read times out and the association is torn down), then the relay. -/
def downstream (dnsPort bufSize maxAddrLen : Nat) (st : State) (a : Assoc) (srcIP : List UInt8) (srcPort : Nat) (body : List UInt8) :
    State × List Eff :=
  let fast := a.armed && srcPort == dnsPort
  let effs := relayReply bufSize maxAddrLen a srcIP srcPort body
  if effs.any (fun e => match e with | .panic _ => true | _ => false) then (st, effs)
  else if fast then
    ({ st with nat := st.nat.filter (fun x => !(x.client == a.client)), closedSocks := a.sock :: st.closedSocks },
     effs ++ [.natRemove a.client a.sock])
  else ({ st with nat := updateAssoc st.nat a.client (fun x => { x with armed := false }) }, effs)

/-- the copier of `client` sees its read time out: RemoveNatEntry, del, Close -/
def expire (st : State) (client : String) : State × List Eff :=
  match lookupNat st.nat client with
  | none => (st, [])
  | some a => ({ st with nat := st.nat.filter (fun x => !(x.client == client)), closedSocks := a.sock :: st.closedSocks },
               [.natRemove client a.sock])

def init (l : List Entry) : State := { list := l, nat := [], nextSock := 0, closedSocks := [] }

end OutlineModel.UDP
