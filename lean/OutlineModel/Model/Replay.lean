/-
Model of service/replay.go (ReplayCache).  Core only, executable.

Go                                    model
--------------------------------------------------------------------------
capacity int                          cap : Int   (Resize accepts any int ≤ MaxCapacity, also negative)
active, archive map[uint32]empty      active, archive : List UInt32 (sets; only membership and size are used)
preHash(id, salt)                     preHash : 4-byte XOR fold, big endian
Add / Resize (one critical section)   RC.add / RC.resize

`active` never holds duplicates (Add inserts only after a failed membership test), so
`active.length` is `len(c.active)`; this is lemma `RC.Nodup` in Proofs/Replay.
-/
namespace OutlineModel.Replay

structure RC where
  cap : Int
  active : List UInt32
  archive : List UInt32
deriving Repr

/-- NewReplayCache(capacity): panics above MaxCapacity (modelled as `none`). -/
def RC.new (maxCapacity : Nat) (capacity : Int) : Option RC :=
  if capacity > maxCapacity then none else some { cap := capacity, active := [], archive := [] }

/-- XOR-fold of id bytes then salt bytes into 4 lanes (lane = index mod 4, each sequence
    starting at lane 0), read big endian. -/
def foldLanes (lanes : UInt8 × UInt8 × UInt8 × UInt8) (bs : List UInt8) (i : Nat := 0) : UInt8 × UInt8 × UInt8 × UInt8 :=
  match bs with
  | [] => lanes
  | b :: rest =>
    let (l0, l1, l2, l3) := lanes
    let lanes' := match i % 4 with
      | 0 => (l0 ^^^ b, l1, l2, l3)
      | 1 => (l0, l1 ^^^ b, l2, l3)
      | 2 => (l0, l1, l2 ^^^ b, l3)
      | _ => (l0, l1, l2, l3 ^^^ b)
    foldLanes lanes' rest (i + 1)

def preHash (id salt : List UInt8) : UInt32 :=
  let (l0, l1, l2, l3) := foldLanes (foldLanes (0, 0, 0, 0) id) salt
  (l0.toUInt32 <<< 24) ||| (l1.toUInt32 <<< 16) ||| (l2.toUInt32 <<< 8) ||| l3.toUInt32

/-- `ReplayCache.Add` on the 32-bit hash.  Returns the new cache and the result. -/
def RC.add (c : RC) (h : UInt32) : RC × Bool :=
  if c.cap = 0 then (c, true) else
  if h ∈ c.active then (c, false) else
  let inArch := decide (h ∈ c.archive)
  if (c.active.length : Int) ≥ c.cap then
    ({ c with archive := c.active, active := [h] }, !inArch)
  else
    ({ c with active := h :: c.active }, !inArch)

/-- `ReplayCache.Resize`: refuses capacities above MaxCapacity, otherwise only sets the field. -/
def RC.resize (maxCapacity : Nat) (c : RC) (n : Int) : RC × Bool :=
  if n > maxCapacity then (c, false) else ({ c with cap := n }, true)

inductive Op
  | add (h : UInt32)
  | resize (n : Int)
deriving Repr

def RC.step (maxCapacity : Nat) (c : RC) : Op → RC × Bool
  | .add h => c.add h
  | .resize n => c.resize maxCapacity n

def run (maxCapacity : Nat) (c : RC) : List Op → RC
  | [] => c
  | o :: os => run maxCapacity (c.step maxCapacity o).1 os

/-- outputs of a run, in order -/
def outs (maxCapacity : Nat) (c : RC) : List Op → List Bool
  | [] => []
  | o :: os => (c.step maxCapacity o).2 :: outs maxCapacity (c.step maxCapacity o).1 os

/-- `(*ReplayCache)(nil).Add` and capacity 0: disabled. -/
def addNilable (c : Option RC) (h : UInt32) : Option RC × Bool :=
  match c with
  | none => (none, true)
  | some c => let (c', b) := c.add h; (some c', b)

end OutlineModel.Replay
