/-
Model of configuration loading and hot reload (cmd/outline-ss-server/main.go: loadConfig, runConfig,
listenerSet, newCipherListFromConfig; config.go: Validate) over a listener manager that counts
handles per address (service/listeners.go seen from outside).  Core only, executable.

YAML parsing is outside: configurations enter already parsed; "file unreadable / malformed" is one
fault kind.  Cryptography is outside: a key is (cipher name, secret); `canon` maps the accepted
cipher names (case-insensitive aliases, from the generated cipher table) to a cipher identity.
-/
namespace OutlineModel.Config

structure Key where
  id : String
  cipher : String      -- as written in the file
  secret : String
deriving Repr, DecidableEq

structure Listener where
  tcp : Bool
  addr : String
deriving Repr, DecidableEq

structure Svc where
  listeners : List Listener
  keys : List Key
deriving Repr, DecidableEq

structure Cfg where
  services : List Svc
  legacy : List (Key × Nat)     -- deprecated format: keys with a port
deriving Repr, DecidableEq

/-- key of a listener in Validate and in listenerSet: "<type>/<address>" -/
def lkey (l : Listener) : String := (if l.tcp then "tcp/" else "udp/") ++ l.addr

/-- a (cipher identity, secret) pair: what a client holds -/
abbrev ClientKey := Nat × String

/-- the key list one service hands to its listeners: de-duplicated on the RAW (cipher string, secret)
    pair, first occurrence kept (newCipherListFromConfig); `none` = a cipher name is not accepted -/
def dedupKeys (canon : String → Option Nat) (keys : List Key) : Option (List (String × ClientKey)) :=
  let rec go (seen : List (String × String)) : List Key → Option (List (String × ClientKey))
    | [] => some []
    | k :: rest =>
      if seen.contains (k.cipher, k.secret) then go seen rest
      else match canon k.cipher with
        | none => none
        | some c => (go ((k.cipher, k.secret) :: seen) rest).map fun l => (k.id, (c, k.secret)) :: l
  go [] keys

/-- legacy keys of one port, in file order, NOT de-duplicated -/
def legacyKeys (canon : String → Option Nat) (legacy : List (Key × Nat)) (port : Nat) : Option (List (String × ClientKey)) :=
  (legacy.filter (·.2 == port)).mapM fun (k, _) => (canon k.cipher).map fun c => (k.id, (c, k.secret))

def legacyPorts (legacy : List (Key × Nat)) : List Nat := (legacy.map (·.2)).eraseDups

/-- what a running configuration serves: for each listener key, the (id, key) list of its service -/
abbrev Serving := List (String × List (String × ClientKey))

/-- which id a client holding `ck` is attributed to on listener `lk` (first entry of the key group) -/
def authOn (s : Serving) (lk : String) (ck : ClientKey) : Option String :=
  match s.find? (·.1 == lk) with
  | none => none
  | some (_, keys) => (keys.find? (·.2 == ck)).map (·.1)

/-- Validate: service listeners need an IP host (decided by `addrOK`) and must be pairwise distinct -/
def validate (addrOK : String → Bool) (c : Cfg) : Bool :=
  let ls := c.services.flatMap (·.listeners)
  ls.all (fun l => addrOK l.addr) && (ls.map lkey).eraseDups.length == ls.length

/-- the acquisitions runConfig performs, in order (legacy ports first — Go iterates a map there, any
    order; then the services in file order), with the key list each one will serve; `none` when a
    cipher name is rejected before the acquisition would happen -/
def plan (canon : String → Option Nat) (c : Cfg) : List (Option (String × List (String × ClientKey))) :=
  -- every legacy key is turned into a cipher entry before anything is started: one bad cipher fails it all
  if c.legacy.any (fun k => (canon k.1.cipher).isNone) then [none] else
  let leg := (legacyPorts c.legacy).flatMap fun p =>
    match legacyKeys canon c.legacy p with
    | none => [none]
    | some ks => [some (s!"tcp/:{p}", ks), some (s!"udp/:{p}", ks)]
  let svc := c.services.flatMap fun s =>
    match dedupKeys canon s.keys with
    | none => [none]
    | some ks => s.listeners.map fun l => some (lkey l, ks)
  leg ++ svc

/-- the listener manager seen from outside: the multiset of handles currently held; an address is
    bound iff it occurs -/
abbrev Mgr := List String

structure Server where
  mgr : Mgr
  cur : Serving        -- the configuration that is serving ([] before the first success)
deriving Repr

def Server.init : Server := { mgr := [], cur := [] }

inductive Fault
  | none
  | read            -- file unreadable / YAML malformed
  | bind (k : Nat)  -- the k-th acquisition (0-based) of the plan fails (address in use, unbindable, duplicate in the set)
deriving Repr, DecidableEq

/-- runConfig's start phase: acquire in plan order; stop at a rejected cipher or at the failing
    acquisition; returns the handles acquired and whether everything started.  `trace` collects the
    manager state after every acquisition. -/
def startAll (fault : Fault) : Nat → List (Option (String × List (String × ClientKey))) → Mgr → Serving → List Mgr →
    (Bool × Mgr × Serving × List Mgr)
  | _, [], m, acc, tr => (true, m, acc.reverse, tr)
  | _, none :: _, m, acc, tr => (false, m, acc.reverse, tr)
  | i, some (lk, ks) :: rest, m, acc, tr =>
    if fault == .bind i then (false, m, acc.reverse, tr)
    else startAll fault (i + 1) rest (lk :: m) ((lk, ks) :: acc) (tr ++ [lk :: m])

def releaseAll (m : Mgr) (hs : List String) : Mgr × List Mgr :=
  hs.foldl (fun (acc : Mgr × List Mgr) h => (acc.1.erase h, acc.2 ++ [acc.1.erase h])) (m, [])

/-- loadConfig: returns the new server, whether it succeeded, and every intermediate manager state -/
def load (canon : String → Option Nat) (addrOK : String → Bool) (s : Server) (c : Cfg) (fault : Fault) :
    Server × Bool × List Mgr :=
  if fault == .read then (s, false, [])
  else if !validate addrOK c then (s, false, [])
  else
    let (ok, m1, started, tr1) := startAll fault 0 (plan canon c) s.mgr [] []
    if ok then
      -- start-new-then-stop-old
      let (m2, tr2) := releaseAll m1 (s.cur.map (·.1))
      ({ mgr := m2, cur := started }, true, tr1 ++ tr2)
    else
      -- the failed generation is released (fix: close the listeners of a config that failed to start)
      let (m2, tr2) := releaseAll m1 (started.map (·.1))
      ({ s with mgr := m2 }, false, tr1 ++ tr2)

end OutlineModel.Config
