/-
Model of the address predicates the proxy's destination policy is built from.  Core only.

Go (net/ip.go of the toolchain, net/private_net.go of the repo)      model
---------------------------------------------------------------------------------------
net.IP ([]byte, any length)                                          IP := List UInt8
IP.To4, IP.Equal, IsUnspecified, IsLoopback, IsMulticast,            to4, equal, isUnspecified, ...
  IsLinkLocalUnicast, IsGlobalUnicast                                (byte for byte as in Go 1.23)
(*IPNet).Contains with networkNumberAndMask                          contains
onet.IsPrivateAddress / onet.RequirePublicIP                         isPrivate / requirePublicIP
-/
namespace OutlineModel.IP

abbrev IP := List UInt8

def isZeros (p : List UInt8) : Bool := p.all (· == 0)

def v4InV6Prefix : List UInt8 := [0, 0, 0, 0, 0, 0, 0, 0, 0, 0, 0xff, 0xff]

/-- `IP.To4`: `none` models the nil result -/
def to4 (ip : IP) : Option IP :=
  if ip.length == 4 then some ip
  else if ip.length == 16 && isZeros (ip.take 10) && ip.getD 10 0 == 0xff && ip.getD 11 0 == 0xff then some (ip.drop 12)
  else none

/-- `IP.Equal` -/
def equal (ip x : IP) : Bool :=
  if ip.length == x.length then ip == x
  else if ip.length == 4 && x.length == 16 then x.take 12 == v4InV6Prefix && ip == x.drop 12
  else if ip.length == 16 && x.length == 4 then ip.take 12 == v4InV6Prefix && ip.drop 12 == x
  else false

def ipv4 (a b c d : UInt8) : IP := v4InV6Prefix ++ [a, b, c, d]   -- net.IPv4 returns the 16-byte form
def ipv4zero : IP := ipv4 0 0 0 0
def ipv4bcast : IP := ipv4 255 255 255 255
def ipv6unspecified : IP := List.replicate 16 0
def ipv6loopback : IP := List.replicate 15 0 ++ [1]

def isUnspecified (ip : IP) : Bool := equal ip ipv4zero || equal ip ipv6unspecified

def isLoopback (ip : IP) : Bool :=
  match to4 ip with
  | some ip4 => ip4.getD 0 0 == 127
  | none => equal ip ipv6loopback

def isMulticast (ip : IP) : Bool :=
  match to4 ip with
  | some ip4 => ip4.getD 0 0 &&& 0xf0 == 0xe0
  | none => ip.length == 16 && ip.getD 0 0 == 0xff

def isLinkLocalUnicast (ip : IP) : Bool :=
  match to4 ip with
  | some ip4 => ip4.getD 0 0 == 169 && ip4.getD 1 0 == 254
  | none => ip.length == 16 && ip.getD 0 0 == 0xfe && ip.getD 1 0 &&& 0xc0 == 0x80

def isGlobalUnicast (ip : IP) : Bool :=
  (ip.length == 4 || ip.length == 16) &&
  !equal ip ipv4bcast && !isUnspecified ip && !isLoopback ip && !isMulticast ip && !isLinkLocalUnicast ip

/-- `(*IPNet).Contains` for a network given as (network bytes, mask bytes) as `net.ParseCIDR`
    builds them (4+4 bytes for IPv4 networks, 16+16 for IPv6 ones). -/
def contains (net : List UInt8 × List UInt8) (ip : IP) : Bool :=
  let (nn, m) := net
  let ip := match to4 ip with | some x => x | none => ip
  if ip.length != nn.length then false
  else (List.zip (List.zip nn m) ip).all fun ((n, mk), b) => n &&& mk == b &&& mk

def isPrivate (nets : List (List UInt8 × List UInt8)) (ip : IP) : Bool := nets.any (contains · ip)

inductive Verdict | ok | invalid | priv
deriving DecidableEq, Repr

/-- `onet.RequirePublicIP` (ok / ERR_ADDRESS_INVALID / ERR_ADDRESS_PRIVATE) -/
def requirePublicIP (nets : List (List UInt8 × List UInt8)) (ip : IP) : Verdict :=
  if !isGlobalUnicast ip then .invalid
  else if isPrivate nets ip then .priv
  else .ok

def Verdict.toString : Verdict → String
  | .ok => "ok" | .invalid => "ERR_ADDRESS_INVALID" | .priv => "ERR_ADDRESS_PRIVATE"

end OutlineModel.IP
