/-
Model of the Shadowsocks AEAD *stream* framing (outline-sdk transport/shadowsocks:
stream.go `Writer` / `Reader`, and the server's replay of the key-finding bytes through
`io.MultiReader`).  Core only, executable.

Go                                              model
--------------------------------------------------------------------------------------------
cipher.AEAD with fixed session key              AEAD (seal / open_ by nonce counter; abstract)
Writer: salt, then per chunk                    encode = salt ++ encodeChunks 0 chunks
  Seal(nonce, len16) ; nonce++                    encodeChunk n p = seal n (encodeLen |p|)
  Seal(nonce, payload) ; nonce++                                    ++ seal (n+1) p
payloadSizeMask = 0x3FFF                        maxPayload = 16383, decodeLen masks with % 16384
chunkReader.init: ReadFull(salt)                decode: stream.length < saltSize -> error
chunkReader.ReadChunk:                          decodeChunks (one iteration per chunk)
  ReadFull(2+tag): EOF at 0 bytes -> io.EOF       rest = []            -> ok
                   fewer -> ErrUnexpectedEOF      rest.length < 2+tag  -> error
  Open fails -> error                             open_ = none         -> error
  size = be16 & 0x3FFF ; ReadFull(size+tag)       fewer bytes          -> error
  Open fails -> error                             open_ = none         -> error
  deliver payload                                 acc ++ payload
io.MultiReader(bytes.NewReader(first), conn)    multiReader first rest = first ++ rest

The key and the salt are fixed for one stream, so `seal`/`open_` take only the nonce counter.
`decode` works on the complete byte string the peer sent before closing its write side, so how
the transport split those bytes into reads is irrelevant.
-/
namespace OutlineModel.SSStream

structure AEAD where
  tagSize : Nat
  «seal» : (nonce : Nat) → List UInt8 → List UInt8
  open_ : (nonce : Nat) → List UInt8 → Option (List UInt8)

structure AEAD.Correct (a : AEAD) : Prop where
  seal_length : ∀ n p, (a.seal n p).length = p.length + a.tagSize
  open_seal : ∀ n p, a.open_ n (a.seal n p) = some p

/-- payloadSizeMask -/
def maxPayload : Nat := 16383

/-- big-endian 16-bit length prefix -/
def encodeLen (n : Nat) : List UInt8 := [UInt8.ofNat (n / 256), UInt8.ofNat (n % 256)]

/-- `binary.BigEndian.Uint16(buf) & payloadSizeMask`; `none` when the opened block is not 2 bytes
    (cannot happen with a real AEAD: the sealed block is `2 + tagSize` bytes) -/
def decodeLen : List UInt8 → Option Nat
  | [hi, lo] => some ((hi.toNat * 256 + lo.toNat) % 16384)
  | _ => none

/-- one chunk: sealed length, then sealed payload, using nonces `nonce` and `nonce + 1` -/
def encodeChunk (a : AEAD) (nonce : Nat) (payload : List UInt8) : List UInt8 :=
  a.seal nonce (encodeLen payload.length) ++ a.seal (nonce + 1) payload

/-- chunks in order, first nonce `nonce`, two nonces per chunk -/
def encodeChunks (a : AEAD) (nonce : Nat) : List (List UInt8) → List UInt8
  | [] => []
  | c :: cs => encodeChunk a nonce c ++ encodeChunks a (nonce + 2) cs

/-- everything the writer puts on the wire -/
def encode (a : AEAD) (salt : List UInt8) (chunks : List (List UInt8)) : List UInt8 :=
  salt ++ encodeChunks a 0 chunks

/-- the `Seal` invocations of the writer, in order: (nonce, plaintext) -/
def sealCalls (nonce : Nat) : List (List UInt8) → List (Nat × List UInt8)
  | [] => []
  | c :: cs => (nonce, encodeLen c.length) :: (nonce + 1, c) :: sealCalls (nonce + 2) cs

/-- the nonces the writer uses for a list of chunks, in order -/
def noncesUsed (chunks : List (List UInt8)) : List Nat := (sealCalls 0 chunks).map (·.1)

inductive DecodeResult where
  /-- clean EOF at a chunk boundary; everything delivered -/
  | ok (plain : List UInt8)
  /-- reader failed after delivering `plainSoFar` -/
  | error (plainSoFar : List UInt8) (why : String)
deriving Repr, DecidableEq

def DecodeResult.plain : DecodeResult → List UInt8
  | .ok p => p
  | .error p _ => p

def DecodeResult.isOk : DecodeResult → Bool
  | .ok _ => true
  | .error _ _ => false

/-- the chunk loop of the reader.  `fuel` bounds the number of chunks (every chunk consumes at
    least two bytes, so the stream length is enough); `acc` is the plaintext delivered so far. -/
def decodeChunks (a : AEAD) : (fuel : Nat) → (nonce : Nat) → (acc rest : List UInt8) → DecodeResult
  | 0, _, acc, rest =>
    if rest.isEmpty then .ok acc else .error acc "out of fuel"
  | fuel + 1, nonce, acc, rest =>
    if rest.isEmpty then .ok acc
    else if rest.length < 2 + a.tagSize then .error acc "unexpected EOF in length block"
    else
      match a.open_ nonce (rest.take (2 + a.tagSize)) with
      | none => .error acc "failed to open length block"
      | some lenBytes =>
        match decodeLen lenBytes with
        | none => .error acc "length block is not 2 bytes"
        | some n =>
          let rest' := rest.drop (2 + a.tagSize)
          if rest'.length < n + a.tagSize then .error acc "unexpected EOF in payload block"
          else
            match a.open_ (nonce + 1) (rest'.take (n + a.tagSize)) with
            | none => .error acc "failed to open payload block"
            | some p => decodeChunks a fuel (nonce + 2) (acc ++ p) (rest'.drop (n + a.tagSize))

/-- the reader on the complete byte string received before the peer closed -/
def decode (a : AEAD) (saltSize : Nat) (stream : List UInt8) : DecodeResult :=
  if stream.length < saltSize then .error [] "unexpected EOF in salt"
  else decodeChunks a stream.length 0 [] (stream.drop saltSize)

/-- `io.MultiReader(bytes.NewReader(first), rest)`: the server replays the bytes it consumed for
    key finding in front of the rest of the connection -/
def multiReader (first rest : List UInt8) : List UInt8 := first ++ rest

/-- toy AEAD for tests: shift every byte by the nonce, tag = 16 copies of the nonce byte -/
def toy : AEAD where
  tagSize := 16
  «seal» n p := p.map (· + UInt8.ofNat n) ++ List.replicate 16 (UInt8.ofNat n)
  open_ n c :=
    if c.length < 16 then none
    else if c.drop (c.length - 16) = List.replicate 16 (UInt8.ofNat n) then
      some ((c.take (c.length - 16)).map (· - UInt8.ofNat n))
    else none

end OutlineModel.SSStream
