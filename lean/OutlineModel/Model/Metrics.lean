import OutlineModel.Model.TunnelTime
import OutlineModel.Model.IPInfo
/-
Model of the Prometheus collectors of prometheus/metrics.go as far as the properties need them:
per-connection metric objects (tcpConnMetrics / udpConnMetrics), the tunnel-time bookkeeping they
drive, and the counter vectors (label tuple ↦ number, `addIfNonZero`).  Core only.
-/
namespace OutlineModel.Metrics
open OutlineModel OutlineModel.TunnelTime OutlineModel.IPInfo

/-- a client address as the collectors see it -/
structure ClientAddr where
  parsed : Parsed          -- for the location label of connection/data collectors (GetIPInfoFromAddr)
  ipKey : Option Nat       -- identity of netip.ParseAddr(host) (zone included) for the tunnel-time key; none = toIPKey fails
  ipBytes : List UInt8     -- net.IP(ipKey.ip.AsSlice()): what the tunnel-time collector classifies
deriving Repr

structure TCPConn where
  id : Nat
  addr : ClientAddr
  label : String           -- clientInfo location label, fixed at AddOpenTCPConnection
  accessKey : String := ""
  authenticated : Bool := false

structure UDPConn where
  id : Nat
  addr : ClientAddr
  label : String
  accessKey : String

abbrev Counter := List (String × Nat)

structure M where
  db : DB
  now : Nat := 0
  tt : TT := TT.init
  tcp : List TCPConn := []
  udp : List UDPConn := []
  opened : Counter := []        -- tcp_connections_opened{location}
  closed : Counter := []        -- tcp_connections_closed{location,status,access_key}
  dataBytes : Counter := []     -- data_bytes{proto,dir,access_key}
  dataBytesLoc : Counter := []  -- data_bytes_per_location{proto,dir,location}
  natAdded : Nat := 0
  natRemoved : Nat := 0
  udpPackets : Counter := []    -- udp_packets_from_client_per_location{location,status}

def addIfNonZero (c : Counter) (k : String) (v : Nat) : Counter := if v > 0 then addTo c k v else c

def locOf (m : M) (a : ClientAddr) : String := (fromAddr m.db a.parsed).label
def ttLocOf (m : M) (a : ClientAddr) : String := (fromIP m.db a.ipBytes).label

def addData (m : M) (proto key label : String) (cp pt tp pc : Nat) : M :=
  let d := m.dataBytes
  let d := addIfNonZero d s!"{proto}|c>p|{key}" cp
  let d := addIfNonZero d s!"{proto}|p>t|{key}" pt
  let d := addIfNonZero d s!"{proto}|p<t|{key}" tp
  let d := addIfNonZero d s!"{proto}|c<p|{key}" pc
  let l := m.dataBytesLoc
  let l := addIfNonZero l s!"{proto}|c>p|{label}" cp
  let l := addIfNonZero l s!"{proto}|p>t|{label}" pt
  let l := addIfNonZero l s!"{proto}|p<t|{label}" tp
  let l := addIfNonZero l s!"{proto}|c<p|{label}" pc
  { m with dataBytes := d, dataBytesLoc := l }

def tcpOpen (m : M) (id : Nat) (a : ClientAddr) : M :=
  let label := locOf m a
  { m with tcp := { id := id, addr := a, label := label } :: m.tcp, opened := addTo m.opened label 1 }

def tcpAuth (m : M) (id : Nat) (key : String) : M :=
  match m.tcp.find? (·.id == id) with
  | none => m
  | some c =>
    let tcp' := m.tcp.map fun x => if x.id == id then { x with accessKey := key, authenticated := true } else x
    match c.addr.ipKey with
    | none => { m with tcp := tcp' }
    | some ip => { m with tcp := tcp', tt := start m.tt { ip := ip, key := key } m.now (ttLocOf m c.addr) }

def tcpClose (m : M) (id : Nat) (status : String) (cp pt tp pc : Nat) : M :=
  match m.tcp.find? (·.id == id) with
  | none => m
  | some c =>
    let m1 := addData m "tcp" c.accessKey c.label cp pt tp pc
    let m2 := { m1 with closed := addTo m1.closed s!"{c.label}|{status}|{c.accessKey}" 1 }
    if c.authenticated then
      match c.addr.ipKey with
      | none => m2
      | some ip => { m2 with tt := stop m2.tt { ip := ip, key := c.accessKey } m2.now }
    else m2

def udpAdd (m : M) (id : Nat) (a : ClientAddr) (key : String) : M :=
  let label := locOf m a
  let m1 := { m with natAdded := m.natAdded + 1, udp := { id := id, addr := a, label := label, accessKey := key } :: m.udp }
  match a.ipKey with
  | none => m1
  | some ip => { m1 with tt := start m1.tt { ip := ip, key := key } m1.now (ttLocOf m a) }

def udpFromClient (m : M) (id : Nat) (status : String) (cp pt : Nat) : M :=
  match m.udp.find? (·.id == id) with
  | none => m
  | some c =>
    let m1 := { m with udpPackets := addTo m.udpPackets s!"{c.label}|{status}" 1 }
    addData m1 "udp" c.accessKey c.label cp pt 0 0

def udpFromTarget (m : M) (id : Nat) (tp pc : Nat) : M :=
  match m.udp.find? (·.id == id) with
  | none => m
  | some c => addData m "udp" c.accessKey c.label 0 0 tp pc

def udpRemove (m : M) (id : Nat) : M :=
  match m.udp.find? (·.id == id) with
  | none => m
  | some c =>
    let m1 := { m with natRemoved := m.natRemoved + 1 }
    match c.addr.ipKey with
    | none => m1
    | some ip => { m1 with tt := stop m1.tt { ip := ip, key := c.accessKey } m1.now }

def scrape (m : M) : M := { m with tt := collect m.tt m.now }

end OutlineModel.Metrics
