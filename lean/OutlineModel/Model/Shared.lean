/-
Model of one shared listener (service/listeners.go: multiStreamListener / multiPacketListener with
their virtual handles, seen through the ListenerManager) as a labelled transition system.  Core only,
executable.  The real system is concurrent; an execution is a sequence of these events (each one is a
critical section of the listener's mutex or a channel hand-over: C19), and where the code makes a
free choice (which blocked handle receives an item) the event carries the choice, so the harness can
replay what it observed and the model says whether that step was allowed.

Items are connections (stream) or datagrams (packet).  `queue` holds what reached the socket and was
not handed to anyone yet: the kernel's queue plus the one item the shared accept/read loop holds.
-/
namespace OutlineModel.Shared

abbrev Handle := Nat
abbrev Item := Nat

structure St where
  next : Nat := 0                       -- id of the next handle
  opened : List Handle := []            -- handles currently open
  closedH : List Handle := []           -- handles that were closed
  waiting : List Handle := []           -- open handles blocked in AcceptStream / ReadFrom
  sock : Bool := false                  -- the socket is bound
  queue : List Item := []               -- reached the socket, not yet handed over
  seen : List Item := []                -- every item that reached the socket, in arrival order
  delivered : List (Item × Handle) := []
  dropped : List Item := []             -- closed/reset by the server: nobody can take them any more
  refused : List Item := []             -- arrived while nothing was bound
  errs : List Handle := []              -- accept/read calls that ended with the closed-network error
deriving Repr, DecidableEq

inductive Ev
  | acquire                       -- ListenStream / ListenPacket on the address: a new handle
  | arrive (i : Item)             -- a client connects / a datagram arrives
  | call (h : Handle)             -- h calls AcceptStream / ReadFrom
  | deliver (i : Item) (h : Handle)   -- the shared loop hands item i to the blocked handle h
  | close (h : Handle)
deriving Repr, DecidableEq

/-- one step; `none` = the event is not possible in this state (the code cannot do it) -/
def step (s : St) : Ev → Option St
  | .acquire =>
    some { s with next := s.next + 1, opened := s.next :: s.opened, sock := true }
  | .arrive i =>
    if s.seen.contains i || s.refused.contains i then none          -- item ids are unique
    else if s.sock then some { s with queue := s.queue ++ [i], seen := s.seen ++ [i] }
    else some { s with refused := s.refused ++ [i] }
  | .call h =>
    if s.closedH.contains h then some { s with errs := h :: s.errs }          -- every later call fails the same way
    else if s.opened.contains h && !s.waiting.contains h then some { s with waiting := h :: s.waiting }
    else none                                                                   -- unknown handle, or already blocked
  | .deliver i h =>
    if s.queue.contains i && s.waiting.contains h then
      some { s with queue := s.queue.erase i, waiting := s.waiting.erase h, delivered := (i, h) :: s.delivered }
    else none
  | .close h =>
    if s.opened.contains h then
      let opened' := s.opened.erase h
      let s1 := { s with opened := opened', closedH := h :: s.closedH,
                         waiting := s.waiting.erase h,
                         errs := if s.waiting.contains h then h :: s.errs else s.errs }
      if opened'.isEmpty then
        -- last handle: the socket goes, what was queued is closed/reset rather than left hanging
        some { s1 with sock := false, dropped := s1.dropped ++ s1.queue, queue := [] }
      else some s1
    else none                                                                   -- Close is called once per handle

def run (s : St) : List Ev → Option St
  | [] => some s
  | e :: es => (step s e).bind fun s' => run s' es

/-- reachable from the initial state -/
def Reachable (s : St) : Prop := ∃ evs, run {} evs = some s

end OutlineModel.Shared
