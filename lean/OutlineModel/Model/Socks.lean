/-
Model of go-shadowsocks2/socks address handling (SplitAddr, ReadAddr's framing, Addr.String's
indexing, ParseAddr's encoding of IP sources).  Core only.  Every slice/index the Go code performs
is an explicit bounds-checked step: `Except Panic` where Go would panic.
-/
namespace OutlineModel.Socks

inductive Panic
  | sliceBounds (site : String)
  | index (site : String)
deriving Repr, DecidableEq

inductive Target
  | v4 (ip : List UInt8) (port : Nat)
  | v6 (ip : List UInt8) (port : Nat)
  | domain (name : List UInt8) (port : Nat)
deriving Repr, DecidableEq

/-- `socks.SplitAddr(b)`: length of the address header at the front of `b`, or none (nil). -/
def splitAddrLen (b : List UInt8) : Option Nat :=
  match b with
  | [] => none
  | t :: rest =>
    let addrLen? : Option Nat :=
      if t == 3 then (match rest with | [] => none | l :: _ => some (1 + 1 + l.toNat + 2))
      else if t == 1 then some (1 + 4 + 2)
      else if t == 4 then some (1 + 16 + 2)
      else none
    match addrLen? with
    | none => none
    | some n => if b.length < n then none else some n

def port16 (hi lo : UInt8) : Nat := hi.toNat * 256 + lo.toNat

/-- checked slice `a[i:j]` -/
def slice (site : String) (a : List UInt8) (i j : Nat) : Except Panic (List UInt8) :=
  if i ≤ j ∧ j ≤ a.length then .ok ((a.take j).drop i) else .error (.sliceBounds site)

/-- checked index `a[i]` -/
def idx (site : String) (a : List UInt8) (i : Nat) : Except Panic UInt8 :=
  match a[i]? with
  | some x => .ok x
  | none => .error (.index site)

/-- `Addr.String()` as far as it matters: decode host and port, with Go's indexing made explicit. -/
def decode (a : List UInt8) : Except Panic (Option Target) := do
  let t ← idx "Addr.String a[0]" a 0
  if t == 3 then
    let l ← idx "Addr.String a[1]" a 1
    let host ← slice "Addr.String a[2:2+l]" a 2 (2 + l.toNat)
    let hi ← idx "Addr.String port hi" a (2 + l.toNat)
    let lo ← idx "Addr.String port lo" a (2 + l.toNat + 1)
    return some (.domain host (port16 hi lo))
  else if t == 1 then
    let ip ← slice "Addr.String a[1:5]" a 1 5
    let hi ← idx "Addr.String port hi" a 5
    let lo ← idx "Addr.String port lo" a 6
    return some (.v4 ip (port16 hi lo))
  else if t == 4 then
    let ip ← slice "Addr.String a[1:17]" a 1 17
    let hi ← idx "Addr.String port hi" a 17
    let lo ← idx "Addr.String port lo" a 18
    return some (.v6 ip (port16 hi lo))
  else
    return none   -- Addr.String of an unknown type prints ":" (unreachable after SplitAddr/ReadAddr)

/-- `socks.ParseAddr` on the "ip:port" text of an IP source address: 4-byte IPs and IPv4-mapped
    16-byte IPs become type 1, other 16-byte IPs type 4. -/
def encodeIP (ip : List UInt8) (port : Nat) : List UInt8 :=
  let p := [UInt8.ofNat (port / 256), UInt8.ofNat (port % 256)]
  if ip.length == 4 then 1 :: ip ++ p
  else if ip.length == 16 && (ip.take 10).all (· == 0) && ip.getD 10 0 == 0xff && ip.getD 11 0 == 0xff then 1 :: ip.drop 12 ++ p
  else 4 :: ip ++ p

/-- `socks.ReadAddr` framing on a byte stream: how many bytes it consumes and what it returns.
    `avail` is everything the reader can deliver before EOF/deadline. Result: `inl err` or the
    address bytes and the rest. -/
inductive ReadAddrErr | eof | unexpectedEof | notSupported
deriving Repr, DecidableEq

def readAddr (avail : List UInt8) : Except ReadAddrErr (List UInt8 × List UInt8) :=
  match avail with
  | [] => .error .eof
  | t :: rest =>
    if t == 3 then
      match rest with
      | [] => .error .eof
      | l :: rest2 =>
        let n := l.toNat + 2
        if rest2.length < n then (if rest2.isEmpty then .error .eof else .error .unexpectedEof)
        else .ok (t :: l :: rest2.take n, rest2.drop n)
    else if t == 1 then
      if rest.length < 6 then (if rest.isEmpty then .error .eof else .error .unexpectedEof)
      else .ok (t :: rest.take 6, rest.drop 6)
    else if t == 4 then
      if rest.length < 18 then (if rest.isEmpty then .error .eof else .error .unexpectedEof)
      else .ok (t :: rest.take 18, rest.drop 18)
    else .error .notSupported

end OutlineModel.Socks
