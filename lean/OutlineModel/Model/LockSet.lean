/-
Lock-set discipline: a generic trace model.  Core only.

Threads, locks and variables are `Nat`.  A trace is a `List Ev`; positions are list indices.
All locks are exclusive (an `RWMutex` read lock is treated like a write lock, which is the
conservative reading for the race-freedom argument).

Formulation notes (meaning as in the task statement, shape chosen for provability/decidability):
* `holder` is a left fold of a one-event step function, so that the holder after `n+1` events is
  the step of the holder after `n` events (`holder_take_succ` in the proofs file).
* `WellFormed` and `Guarded` are stated per position, bounded by `tr.length`, with a `match` on the
  event at that position.  That makes both decidable (so concrete traces are checked by `decide`).
  The proofs file shows they are equivalent to the unbounded, "for every thread" readings
  (`wellFormed_iff`, `guarded_iff`).
* `sections` lists the critical sections of one lock: for every `acq t g` at position `i`, the
  section `(t, i, first position > i holding a release of g)`.
-/
namespace OutlineModel.LockSet

inductive Ev
  | acq (t l : Nat)
  | rel (t l : Nat)
  | read (t x : Nat)
  | write (t x : Nat)
deriving DecidableEq, Repr

/-- effect of one event on the holder of lock `l` -/
def step (l : Nat) (h : Option Nat) : Ev → Option Nat
  | .acq t l' => if l' = l then some t else h
  | .rel _ l' => if l' = l then none else h
  | _ => h

/-- which thread holds `l` after executing `tr` from the all-free state -/
def holder (tr : List Ev) (l : Nat) : Option Nat :=
  tr.foldl (step l) none

/-- thread `t` holds `l` after the first `i` events, i.e. just before event `i` executes -/
def holdsAt (tr : List Ev) (i : Nat) (t l : Nat) : Prop :=
  holder (tr.take i) l = some t

instance (tr : List Ev) (i t l : Nat) : Decidable (holdsAt tr i t l) := by
  unfold holdsAt; infer_instance

/-- the mutex contract at position `i`: acquire only a free lock, release only a lock you hold -/
def okAt (tr : List Ev) (i : Nat) : Prop :=
  match tr[i]? with
  | some (.acq _ l) => holder (tr.take i) l = none
  | some (.rel t l) => holder (tr.take i) l = some t
  | _ => True

instance (tr : List Ev) (i : Nat) : Decidable (okAt tr i) := by
  unfold okAt; split <;> infer_instance

/-- every position respects the mutex contract -/
def WellFormed (tr : List Ev) : Prop :=
  ∀ i, i < tr.length → okAt tr i

instance (tr : List Ev) : Decidable (WellFormed tr) := by
  unfold WellFormed; infer_instance

/-- if position `i` accesses `x`, the accessing thread holds `g` at that moment -/
def guardedAt (tr : List Ev) (x g i : Nat) : Prop :=
  match tr[i]? with
  | some (.read t y) => y = x → holdsAt tr i t g
  | some (.write t y) => y = x → holdsAt tr i t g
  | _ => True

instance (tr : List Ev) (x g i : Nat) : Decidable (guardedAt tr x g i) := by
  unfold guardedAt; split <;> infer_instance

/-- every access to `x` happens while the accessing thread holds `g` -/
def Guarded (tr : List Ev) (x g : Nat) : Prop :=
  ∀ i, i < tr.length → guardedAt tr x g i

instance (tr : List Ev) (x g : Nat) : Decidable (Guarded tr x g) := by
  unfold Guarded; infer_instance

/-- position `i` of `tr` is an access (read or write) to `x` by thread `t` -/
def accessAt (tr : List Ev) (i t x : Nat) : Prop :=
  tr[i]? = some (.read t x) ∨ tr[i]? = some (.write t x)

instance (tr : List Ev) (i t x : Nat) : Decidable (accessAt tr i t x) := by
  unfold accessAt; infer_instance

/-! ### critical sections -/

/-- a critical section of some lock: who, where acquired, where released (`none`: still held) -/
structure Section where
  thread : Nat
  start : Nat
  stop : Option Nat
deriving DecidableEq, Repr

/-- event `e` releases lock `g` (by anybody) -/
def isRel (g : Nat) : Option Ev → Bool
  | some (.rel _ l) => l == g
  | _ => false

/-- first position in `[k, k + fuel)` that holds a release of `g` -/
def nextRelGo (tr : List Ev) (g : Nat) : Nat → Nat → Option Nat
  | 0, _ => none
  | fuel + 1, k => if isRel g tr[k]? then some k else nextRelGo tr g fuel (k + 1)

/-- first position `≥ k` that holds a release of `g` -/
def nextRel (tr : List Ev) (g k : Nat) : Option Nat :=
  nextRelGo tr g (tr.length - k) k

/-- the section opened at position `i`, if position `i` acquires `g` -/
def sectionAt (tr : List Ev) (g i : Nat) : Option Section :=
  match tr[i]? with
  | some (.acq t l) => if l = g then some ⟨t, i, nextRel tr g (i + 1)⟩ else none
  | _ => none

/-- the critical sections of lock `g`, in order of acquisition -/
def sections (tr : List Ev) (g : Nat) : List Section :=
  (List.range tr.length).filterMap (sectionAt tr g)

end OutlineModel.LockSet
