/-
Generic models for lock reasoning.  Core only.

`Locks`: threads as acquire/release programs over ranked locks (a lock is identified with its
rank); well-ranked programs never deadlock, for any number of threads (C13).
-/
namespace OutlineModel.Locks

inductive Ev | acq (l : Nat) | rel (l : Nat)
deriving Repr, DecidableEq

structure Thread where
  held : List Nat
  todo : List Ev

/-- well ranked & well bracketed from the current held set: every acquire is above everything
    held, releases only what is held, ends holding nothing -/
def WR : List Nat → List Ev → Prop
  | held, [] => held = []
  | held, .acq l :: rest => (∀ h ∈ held, h < l) ∧ WR (l :: held) rest
  | held, .rel l :: rest => l ∈ held ∧ WR (held.erase l) rest

def holds (ts : List Thread) (l : Nat) : Prop := ∃ t ∈ ts, l ∈ t.held

/-- thread `t` can take its next step in the system `ts` -/
def canStep (ts : List Thread) (t : Thread) : Prop :=
  match t.todo with
  | [] => False
  | .acq l :: _ => ¬ holds ts l
  | .rel _ :: _ => True

def finished (t : Thread) : Prop := t.todo = []

theorem climb (ts : List Thread) (hwr : ∀ t ∈ ts, WR t.held t.todo)
    (stuck : ∀ t ∈ ts, ¬ canStep ts t) :
    ∀ t ∈ ts, ∀ l rest, t.todo = .acq l :: rest →
      ∃ t' ∈ ts, ∃ l' rest', t'.todo = .acq l' :: rest' ∧ l < l' := by
  intro t ht l rest htodo
  have hs := stuck t ht
  simp only [canStep, htodo, Classical.not_not] at hs
  obtain ⟨o, ho, hlo⟩ := hs
  have hwo := hwr o ho
  cases hto : o.todo with
  | nil => rw [hto] at hwo; simp only [WR] at hwo; rw [hwo] at hlo; cases hlo
  | cons e rest' =>
    cases e with
    | rel l' =>
      have := stuck o ho
      simp [canStep, hto] at this
    | acq l' =>
      rw [hto] at hwo
      simp only [WR] at hwo
      exact ⟨o, ho, l', rest', hto, hwo.1 l hlo⟩

/-- No deadlock: if all ranks are < R and some thread is unfinished, some thread can step. -/
theorem no_deadlock (R : Nat) (ts : List Thread) (hwr : ∀ t ∈ ts, WR t.held t.todo)
    (hR : ∀ t ∈ ts, ∀ l rest, t.todo = .acq l :: rest → l < R)
    (hunf : ∃ t ∈ ts, ¬ finished t) : ∃ t ∈ ts, canStep ts t := by
  apply Classical.byContradiction
  intro hno
  have stuck : ∀ t ∈ ts, ¬ canStep ts t := fun t ht hc => hno ⟨t, ht, hc⟩
  obtain ⟨t, ht, hnf⟩ := hunf
  have key : ∀ k : Nat, ∀ t ∈ ts, ∀ l rest, t.todo = .acq l :: rest → R ≤ l + k → False := by
    intro k
    induction k with
    | zero => intro t ht l rest h hle; have := hR t ht l rest h; omega
    | succ k ih =>
      intro t ht l rest h hle
      obtain ⟨t', ht', l', rest', h', hlt⟩ := climb ts hwr stuck t ht l rest h
      exact ih t' ht' l' rest' h' (by omega)
  cases htodo : t.todo with
  | nil => exact hnf htodo
  | cons e rest =>
    cases e with
    | rel l => exact stuck t ht (by simp [canStep, htodo])
    | acq l => exact key R t ht l rest htodo (by omega)

/-- when every thread has finished, every lock is free (the manager remains usable) -/
theorem all_finished_all_free (ts : List Thread) (hwr : ∀ t ∈ ts, WR t.held t.todo)
    (hfin : ∀ t ∈ ts, finished t) (l : Nat) : ¬ holds ts l := by
  intro ⟨t, ht, hl⟩
  have h := hwr t ht
  rw [hfin t ht] at h
  simp only [WR] at h
  rw [h] at hl
  cases hl

end OutlineModel.Locks
