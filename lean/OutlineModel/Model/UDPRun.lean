import OutlineModel.Model.UDP
/- Histories of the packet handler: any interleaving of client datagrams, target datagrams on live
   associations, copier expiries and key-list replacements, over any number of clients. -/
namespace OutlineModel.UDP
open OutlineModel.CipherList OutlineModel.Socks

structure Cfg where
  dnsPort : Nat
  bufSize : Nat
  maxAddrLen : Nat
  ki : KeyInfo
  validate : List UInt8 → IP.Verdict

inductive Op
  | pkt (client : String) (cip : Option Nat) (wire : Nat) (opens : List Nat) (plain : List UInt8) (resolve : Target → Resolved)
  | pktFail (client : String) (cip : Option Nat) (wire : Nat) (opens : List Nat) (plain : List UInt8) (resolve : Target → Resolved)
      -- the same datagram when the operating system refuses the send (destination port 0, no route, EPERM)
  | reply (client : String) (srcIP : List UInt8) (srcPort : Nat) (body : List UInt8)
  | expire (client : String)
  | update (l : List Entry)

/-- what a refused send changes: nothing leaves, the datagram is reported ERR_WRITE with 0 bytes towards
    the target; everything else (the association, its deadline — natconn.WriteTo arms it BEFORE the
    send —, the key search report) is as for a successful send -/
def failSend (effs : List Eff) : List Eff :=
  effs.filterMap fun e =>
    match e with
    | .send _ _ _ _ => none
    | .report s w n => some (if s == "OK" then .report "ERR_WRITE" w 0 else .report s w n)
    | e => some e

def stepOp (c : Cfg) (st : State) : Op → State × List Eff
  | .pkt client cip wire opens plain resolve => upstream c.dnsPort c.ki c.validate resolve st client cip wire opens plain
  | .pktFail client cip wire opens plain resolve =>
    ((upstream c.dnsPort c.ki c.validate resolve st client cip wire opens plain).1,
     failSend (upstream c.dnsPort c.ki c.validate resolve st client cip wire opens plain).2)
  | .reply client srcIP srcPort body =>
    match lookupNat st.nat client with
    | none => (st, [])     -- no socket: nothing can arrive
    | some a => downstream c.dnsPort c.bufSize c.maxAddrLen st a srcIP srcPort body
  | .expire client => expire st client
  | .update l => ({ st with list := l }, [])

def run (c : Cfg) (st : State) : List Op → State
  | [] => st
  | o :: os => run c (stepOp c st o).1 os

/-- all effects of a history, in order -/
def trace (c : Cfg) (st : State) : List Op → List Eff
  | [] => []
  | o :: os => (stepOp c st o).2 ++ trace c (stepOp c st o).1 os

end OutlineModel.UDP
