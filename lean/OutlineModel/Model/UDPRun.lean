import OutlineModel.Model.UDP
/- Histories of the packet handler: any interleaving of client datagrams, target datagrams on live
   associations, copier expiries and key-list replacements, over any number of clients. -/
namespace OutlineModel.UDP
open OutlineModel.CipherList OutlineModel.Socks

structure Cfg where
  dnsPort : Nat
  bufSize : Nat
  maxAddrLen : Nat
  ki : KeyInfo
  validate : List UInt8 → IP.Verdict

inductive Op
  | pkt (client : String) (cip : Option Nat) (wire : Nat) (opens : List Nat) (plain : List UInt8) (resolve : Target → Resolved)
  | reply (client : String) (srcIP : List UInt8) (srcPort : Nat) (body : List UInt8)
  | expire (client : String)
  | update (l : List Entry)

def stepOp (c : Cfg) (st : State) : Op → State × List Eff
  | .pkt client cip wire opens plain resolve => upstream c.dnsPort c.ki c.validate resolve st client cip wire opens plain
  | .reply client srcIP srcPort body =>
    match lookupNat st.nat client with
    | none => (st, [])     -- no socket: nothing can arrive
    | some a => downstream c.dnsPort c.bufSize c.maxAddrLen st a srcIP srcPort body
  | .expire client => expire st client
  | .update l => ({ st with list := l }, [])

def run (c : Cfg) (st : State) : List Op → State
  | [] => st
  | o :: os => run c (stepOp c st o).1 os

/-- all effects of a history, in order -/
def trace (c : Cfg) (st : State) : List Op → List Eff
  | [] => []
  | o :: os => (stepOp c st o).2 ++ trace c (stepOp c st o).1 os

end OutlineModel.UDP
