/-
Run-time prelude for the code that `/verif/extract` (golean.go) TRANSLATES from the Go sources into
`Gen/Code*.lean`.  Core only, executable.

The translator turns a Go function into a Lean `do` block in the `Option` monad (`none` = the Go
function panics).  What Go gets from its run time or from the standard library is given a meaning
here, once, in the open; this file is part of the trusted base and is listed as such:

Go                                         here
------------------------------------------------------------------------------------------------
int, int64, time.Duration, time.Time       Int (times are nanoseconds; the zero time.Time is 0)
uint8 / byte, uint32                       UInt8, UInt32
[]T, [n]T                                  List T          (indexing is checked: `idx`, `set`)
string (as bytes)                          List UInt8 or String, chosen per translated function
map[K]V                                    GoMap K V       (association list without duplicate keys)
struct{}                                   Unit
sync.Once                                  Bool            ("already done")
error                                      Option String   (status or message literal; `none` = nil)
interface values the code only passes on   Opaque tag      (a token)
*list.List / *list.Element                 List (ListElem T) / ListElem T  (identity + value; front first)
a call whose callee is outside the repo
  and whose result is not used             Eff             (recorded in the `eff` field of the receiver)
float64 (only d.Seconds() given to a metric) Int            (nanoseconds; the division by 1e9 is not modelled)
*T for a repo struct T                     T + a nil flag  (a store through the pointer is written back to the map
                                                            element the pointer was taken from)
-/
namespace OutlineModel.GoRT

/-- an interface value that the translated code never looks into -/
structure Opaque (tag : String) where
  val : Nat
deriving DecidableEq, Repr

/-- an argument of a recorded call, flattened (a structure is the concatenation of its fields) -/
inductive Atom
  | int (i : Int) | str (s : String) | tok (n : Nat) | bool (b : Bool)
deriving DecidableEq, Repr

/-- a recorded call on something outside the translated code -/
structure Eff where
  name : String
  args : List Int
  strs : List String := []     -- label values of a metric call
  vals : List (List Atom) := [] -- arguments of a call on a shared object of the repository, one list per argument
deriving DecidableEq, Repr

/-! ### maps -/

structure GoMap (K V : Type) where
  ents : List (K × V)
deriving Repr

namespace GoMap
variable {K V : Type} [DecidableEq K]

def empty : GoMap K V := ⟨[]⟩
def keys (m : GoMap K V) : List K := m.ents.map (·.1)
def get? (m : GoMap K V) (k : K) : Option V := (m.ents.find? (fun e => e.1 = k)).map (·.2)
def contains (m : GoMap K V) (k : K) : Bool := decide (k ∈ m.keys)
def erase (m : GoMap K V) (k : K) : GoMap K V := ⟨m.ents.filter (fun e => ¬ e.1 = k)⟩
/-- `m[k] = v`: a present key keeps its place (its value is replaced), a new key goes to the front -/
def insert (m : GoMap K V) (k : K) (v : V) : GoMap K V :=
  if m.contains k then ⟨m.ents.map (fun e => if e.1 = k then (k, v) else e)⟩ else ⟨(k, v) :: m.ents⟩
/-- `len(m)` -/
def size (m : GoMap K V) : Int := m.ents.length
end GoMap

/-! ### slices, arrays, strings as byte lists -/

/-- `a[i]` with Go's bounds check -/
def idx {α : Type} (a : List α) (i : Int) : Option α := if i < 0 then none else a[i.toNat]?
/-- `a[i] = v` with Go's bounds check -/
def set {α : Type} (a : List α) (i : Int) (v : α) : Option (List α) :=
  if i < 0 then none else if i.toNat < a.length then some (a.set i.toNat v) else none
/-- `len(a)` -/
def len {α : Type} (a : List α) : Int := a.length
/-- the index values of `for i := lo; i < hi; i++` -/
def rangeInt (lo hi : Int) : List Int := (List.range (hi - lo).toNat).map (fun (k : Nat) => lo + (k : Int))
/-- the (index, element) pairs of `for i, v := range a` -/
def enum {α : Type} (a : List α) : List (Int × α) := a.zipIdx.map (fun p => ((p.2 : Int), p.1))
/-- `binary.BigEndian.Uint32(b)`: panics on fewer than four bytes -/
def beUint32 (b : List UInt8) : Option UInt32 :=
  match b with
  | b0 :: b1 :: b2 :: b3 :: _ => some ((b0.toUInt32 <<< 24) ||| (b1.toUInt32 <<< 16) ||| (b2.toUInt32 <<< 8) ||| b3.toUInt32)
  | _ => none
/-- `d.Seconds()` of a time.Duration handed to a metric: the unit conversion (a float division by 1e9) is not
    modelled; the value is kept as the duration in nanoseconds -/
def seconds (d : Int) : Int := d
/-- `a[lo:hi]` with Go's bounds checks (0 ≤ lo ≤ hi ≤ len; capacity is not modelled) -/
def slice {α : Type} (a : List α) (lo hi : Int) : Option (List α) :=
  if lo < 0 ∨ hi < lo ∨ (a.length : Int) < hi then none else some ((a.take hi.toNat).drop lo.toNat)

/-- `len(s)` of a string: its length in bytes -/
def strLen (s : String) : Int := s.utf8ByteSize
/-- `s[lo:hi]` of a string (byte offsets, checked); the cut is at character boundaries in every use that is translated
    (an offset found by strings.IndexByte of an ASCII byte) -/
def strSlice (s : String) (lo hi : Int) : Option String :=
  if lo < 0 ∨ hi < lo ∨ strLen s < hi then none
  else some (String.Pos.Raw.extract s ⟨lo.toNat⟩ ⟨hi.toNat⟩)

/-! ### container/list -/

/-- a `*list.Element`: its identity and its value (the lists of the repository hold one value type each) -/
structure ListElem (α : Type) where
  id : Nat
  Value : α
deriving Repr

/-- `l.MoveToFront(e)`: an element of another list (a stale pointer) leaves the list alone -/
def moveToFront {α : Type} (l : List (ListElem α)) (id : Nat) : List (ListElem α) :=
  match l.find? (fun x => x.id == id) with
  | none => l
  | some x => x :: l.filter (fun y => !(y.id == id))

/-- `l.PushBack(v)`: a new element at the back; its identity is new within the list -/
def pushBack {α : Type} (l : List (ListElem α)) (v : α) : List (ListElem α) :=
  l ++ [{ id := (l.map (·.id)).foldl max 0 + 1, Value := v }]

/-- a store through `e.Value.(*T)`: the object the element points to changes, wherever the element is -/
def setValue {α : Type} (l : List (ListElem α)) (id : Nat) (v : α) : List (ListElem α) :=
  l.map (fun x => if x.id == id then { x with Value := v } else x)

/-- the result of fmt.Sprintf / fmt.Sprint: message texts are not modelled -/
def formatted : String := "<formatted>"
/-- `a & b` on Go ints -/
def iand (a b : Int) : Int :=
  match a, b with
  | .ofNat m, .ofNat n => ((m &&& n : Nat) : Int)
  | .ofNat m, .negSucc n => ((m - (m &&& n) : Nat) : Int)      -- m AND NOT n (two's complement)
  | .negSucc m, .ofNat n => ((n - (n &&& m) : Nat) : Int)
  | .negSucc m, .negSucc n => .negSucc (m ||| n)

end OutlineModel.GoRT
