import OutlineModel.Model.Auth
import OutlineModel.Model.Socks
import OutlineModel.Model.IP
/-
Model of streamHandler.Handle / handleConnection / proxyConnection / absorbProbe (service/tcp.go) for
one accepted connection, at the level of a *script*: the structure of the byte stream the client
sends (which keys open its first length block, then a list of chunks each of which is well formed,
or corrupted in its length block, or corrupted in its payload block, or a tail of raw bytes),
whether the client half-closes after sending or stays open, and how the destination answers.
Real cryptography stays outside (the harness builds the bytes with a spec-level implementation).

The result is the list of observable effects, in program order: metric calls with their arguments,
what reaches the target, what the client can decrypt, and how the connection ends.
-/
namespace OutlineModel.TCP
open OutlineModel OutlineModel.Auth OutlineModel.CipherList OutlineModel.Socks

inductive Chunk
  | data (d : List UInt8)     -- well-formed chunk carrying d (possibly empty)
  | badLen                    -- length block does not authenticate
  | badPayload (n : Nat)      -- length block ok (n), payload block does not authenticate
  | raw (k : Nat)             -- k further raw bytes that are not a valid continuation
deriving Repr, DecidableEq

inductive ClientEnd | fin | idle
deriving Repr, DecidableEq

inductive DialOutcome
  | none                       -- script names no destination
  | ok (port : Nat)            -- destination accepts; behaviour selected by port
  | refused                    -- validator ok, connect fails
  | forbidden (ip : List UInt8) -- the dialled IP; the validator decides the status
deriving Repr, DecidableEq

structure Script where
  raw : Nat                 -- total bytes the client sends
  clientEnd : ClientEnd
  chunks : List Chunk       -- structure of the stream after the salt (meaningful when authenticated)
  dial : DialOutcome
deriving Repr

inductive Eff
  | search (found : Bool)
  | auth (id : String)
  | probe (status drain : String) (bytes : Nat)
  | dial
  | toTarget (data : List UInt8) (fin : Bool)
  | toClient (plain : List UInt8)
  | closed (status : String) (cp pt tp : Nat) (pcNonZero : Bool)
  | closeClass (c : String)
  | serverFin (when : String)   -- "early": the proxy's FIN reaches a client that has not half-closed; "late"; "-"
deriving Repr, DecidableEq

structure Cfg where
  saltSize : Nat
  tagSize : Nat
  bytesForKeyFinding : Nat
  validate : List UInt8 → IP.Verdict

/-- bytes of the wire consumed by decoding one chunk (or by failing on it) -/
def chunkWire (c : Cfg) : Chunk → Nat
  | .data d => 2 + c.tagSize + d.length + c.tagSize
  | .badLen => 2 + c.tagSize
  | .badPayload n => 2 + c.tagSize + n + c.tagSize
  | .raw k => min k (2 + c.tagSize)

inductive AddrResult
  | found (addrLen : Nat) (plain : List UInt8) (rest : List Chunk) (consumed : Nat)
  | failed          -- EOF, deadline, cipher error or unsupported type while reading the address
deriving Repr

/-- getProxyRequest: feed chunks to socks.ReadAddr until the address is complete -/
def readAddress (c : Cfg) (acc : List UInt8) (consumed : Nat) : List Chunk → AddrResult
  | [] => match readAddr acc with
    | .ok (a, _) => .found a.length acc [] consumed
    | .error _ => .failed
  | ch :: rest =>
    match readAddr acc with
    | .ok (a, _) => .found a.length acc (ch :: rest) consumed
    | .error .notSupported => .failed
    | .error _ =>
      match ch with
      | .data d => readAddress c (acc ++ d) (consumed + chunkWire c ch) rest
      | _ => .failed

/-- the plaintext the client→target copy delivers after the address, and whether it ended in error -/
def relayUp : List Chunk → List UInt8 × Bool
  | [] => ([], false)
  | .data d :: rest => let (p, e) := relayUp rest; (d ++ p, e)
  | _ :: _ => ([], true)

/-- what the scripted target answers -/
def targetReply (port : Nat) (received : List UInt8) (greeting : List UInt8) : List UInt8 :=
  if port == 9000 then received.reverse
  else if port == 9001 || port == 9002 || port == 9004 then greeting
  else []

def statusOfVerdict : IP.Verdict → String
  | .ok => "OK" | .invalid => "ERR_ADDRESS_INVALID" | .priv => "ERR_ADDRESS_PRIVATE"

/-- one accepted connection.  Authentication facts come with the script: `enough`, `valid`,
    `srvSalt`, `hash` as in Model/Auth. -/
def handle (c : Cfg) (st : AuthState) (s : Script) (valid : Nat → Bool) (srvSalt : Entry → Bool) (hash : Entry → UInt32)
    (greeting : Nat → List UInt8) : AuthState × List Eff :=
  let enough := decide (s.raw ≥ c.bytesForKeyFinding)
  let (st', r) := authenticate st (some 1) enough valid srvSalt hash
  let endClass := match s.clientEnd with | .fin => "fin@after-client-fin" | .idle => "fin@deadline"
  let lateClass := match s.clientEnd with | .fin => "fin@after-client-fin" | .idle => "fin-after-client-fin"
  let found := r.status != .errCipher
  match r.status with
  | .ok =>
    match readAddress c [] c.saltSize s.chunks with
    | .failed =>
      (st', [.search found, .auth r.id, .closed "ERR_READ_ADDRESS" s.raw 0 0 false, .closeClass lateClass])
    | .found alen plain rest consumed =>
      match s.dial with
      | .none => (st', [.search found, .auth r.id, .closed "ERR_CONNECT" (max consumed c.bytesForKeyFinding) 0 0 false, .closeClass "quick"])
      | .refused => (st', [.search found, .auth r.id, .closed "ERR_CONNECT" (max consumed c.bytesForKeyFinding) 0 0 false, .closeClass "quick"])
      | .forbidden ip =>
        (st', [.search found, .auth r.id, .closed (statusOfVerdict (c.validate ip)) (max consumed c.bytesForKeyFinding) 0 0 false, .closeClass "quick"])
      | .ok port =>
        let (more, err) := relayUp rest
        let up := plain.drop alen ++ more
        let reply := targetReply port up (greeting port)
        let status := if err then "ERR_RELAY_CLIENT" else "OK"
        -- the proxy half-closes towards the client when the TARGET's stream ends: before the client's own
        -- FIN only for a target that half-closes first (port 9002)
        let sfin := match s.clientEnd with | .fin => "-" | .idle => if port == 9002 then "early" else "late"
        (st', [.search found, .auth r.id, .dial, .toTarget up true] ++ (if reply.isEmpty then [] else [.toClient reply]) ++
              [.closed status s.raw up.length reply.length (!reply.isEmpty), .closeClass lateClass, .serverFin sfin])
  | status =>
    let drain := match s.clientEnd with | .fin => "eof" | .idle => "timeout"
    (st', [.search found, .probe status.toString drain s.raw, .closed status.toString s.raw 0 0 false, .closeClass endClass])

end OutlineModel.TCP
