/-
Model of service/metrics.measuredConn (MeasureConn): the wrapper that feeds the four byte counters of
a TCP connection.  Each operation carries what the UNDERLYING connection (and, for the copy paths,
the other end of the copy) answered, so the counters can be compared with the bytes that really
crossed.  Core only, executable.
-/
namespace OutlineModel.MConn

structure St where
  rd : Nat := 0      -- *readCount
  wr : Nat := 0      -- *writeCount
deriving Repr, DecidableEq

/-- one step of an io.Copy loop: the source returned `nr` bytes, the destination accepted `nw` -/
abbrev CopyStep := Nat × Nat

/-- io.Copy: bytes written to the destination; the loop stops after the first step whose write was
    short (nw < nr: ErrShortWrite or the destination's error) -/
def copied : List CopyStep → Nat
  | [] => 0
  | (nr, nw) :: rest => if nw < nr then nw else nw + copied rest

inductive Op
  | read (n : Nat)                       -- Read(b): the underlying connection returned n
  | write (len acc : Nat)                -- Write(b), |b| = len: the underlying connection accepted acc
  | writeTo (steps : List CopyStep)      -- WriteTo(w) = io.Copy(w, underlying): per step underlying read nr, w accepted nw
  | readFrom (direct : Bool) (steps : List CopyStep)
      -- ReadFrom(r): the underlying ReaderFrom (direct) or io.Copy(underlying, r): per step r gave nr, underlying accepted nw
deriving Repr

def step (s : St) : Op → St
  | .read n => { s with rd := s.rd + n }
  | .write _ acc => { s with wr := s.wr + acc }
  | .writeTo steps => { s with rd := s.rd + copied steps }
  | .readFrom _ steps => { s with wr := s.wr + copied steps }

def run (s : St) (ops : List Op) : St := ops.foldl step s

/-! the independent account: what the underlying connection itself took and gave -/

/-- bytes the underlying connection accepted in a copy towards it (stops like io.Copy) -/
def acceptedIn : List CopyStep → Nat := copied

/-- bytes the underlying connection delivered in a copy out of it: everything it returned up to and
    including the step at which the destination fell short -/
def deliveredIn : List CopyStep → Nat
  | [] => 0
  | (nr, nw) :: rest => if nw < nr then nr else nr + deliveredIn rest

def sentToPeer : List Op → Nat
  | [] => 0
  | .write _ acc :: r => acc + sentToPeer r
  | .readFrom _ steps :: r => acceptedIn steps + sentToPeer r
  | _ :: r => sentToPeer r

def receivedFromPeer : List Op → Nat
  | [] => 0
  | .read n :: r => n + receivedFromPeer r
  | .writeTo steps :: r => deliveredIn steps + receivedFromPeer r
  | _ :: r => receivedFromPeer r

def requested : List Op → Nat
  | [] => 0
  | .write len _ :: r => len + requested r
  | .readFrom _ steps :: r => (steps.map (·.1)).sum + requested r
  | _ :: r => requested r

end OutlineModel.MConn
