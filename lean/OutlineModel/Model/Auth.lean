import OutlineModel.Model.CipherList
import OutlineModel.Model.Replay
/-
Model of NewShadowsocksStreamAuthenticator (service/tcp.go) and of the server-salt marking
(service/server_salt.go, MakeCipherEntry in service/cipher_list.go).  Core only.

HMAC is a parameter (`mac key prefix` = the full HMAC-SHA1 output); the RNG is the list of prefixes it
delivers.  `keyOf e` is the HMAC key derived from entry e's secret.
-/
namespace OutlineModel.Auth
open OutlineModel OutlineModel.CipherList OutlineModel.Replay

/-- `serverSaltGenerator.GetSalt`: random prefix of `saltSize - markLen` bytes, then the first
    `markLen` bytes of its HMAC. -/
def getSalt (mac : List UInt8 → List UInt8) (markLen : Nat) (prefixBytes : List UInt8) : List UInt8 :=
  prefixBytes ++ (mac prefixBytes).take markLen

/-- `serverSaltGenerator.IsServerSalt`: splitSalt, recompute, compare. Short salts are not server salts. -/
def isServerSalt (mac : List UInt8 → List UInt8) (markLen : Nat) (salt : List UInt8) : Bool :=
  if salt.length < markLen then false
  else
    let pre := salt.take (salt.length - markLen)
    let mark := salt.drop (salt.length - markLen)
    (mac pre).take markLen == mark

/-- `MakeCipherEntry`: salts are marked iff enough random bytes remain -/
def marked (saltSize markLen minEntropy : Nat) : Bool := decide (saltSize - markLen ≥ minEntropy) && decide (markLen ≤ saltSize)

inductive Status | ok | errCipher | errReplayServer | errReplayClient
deriving DecidableEq, Repr

def Status.toString : Status → String
  | .ok => "OK" | .errCipher => "ERR_CIPHER" | .errReplayServer => "ERR_REPLAY_SERVER" | .errReplayClient => "ERR_REPLAY_CLIENT"

structure AuthState where
  list : List Entry
  cache : Option RC       -- none = nil *ReplayCache

structure AuthResult where
  status : Status
  id : String                 -- "" on ERR_CIPHER (findAccessKey failed), the entry's id otherwise
  entry : Option (Entry × Nat) -- the matched entry and its snapshot index
deriving Repr

/-- One call of the authenticator.
    `enough` = the client delivered at least bytesForKeyFinding bytes before EOF/deadline;
    `valid k` = the first length block opens under key k;
    `srvSalt e` = e's salt generator recognises the first saltSize(e) bytes as its own;
    `hash e` = preHash(e.id, salt(e)). -/
def authenticate (st : AuthState) (ip : Option Nat) (enough : Bool) (valid : Nat → Bool)
    (srvSalt : Entry → Bool) (hash : Entry → UInt32) : AuthState × AuthResult :=
  if !enough then (st, { status := .errCipher, id := "", entry := none })   -- snapshot taken, nothing marked
  else
    let (list', found) := lookup st.list ip valid
    match found with
    | none => ({ st with list := list' }, { status := .errCipher, id := "", entry := none })
    | some (e, i) =>
      if srvSalt e then ({ st with list := list' }, { status := .errReplayServer, id := e.id, entry := some (e, i) })
      else
        let (cache', fresh) := addNilable st.cache (hash e)
        if fresh then ({ list := list', cache := cache' }, { status := .ok, id := e.id, entry := some (e, i) })
        else ({ list := list', cache := cache' }, { status := .errReplayClient, id := e.id, entry := some (e, i) })

end OutlineModel.Auth
