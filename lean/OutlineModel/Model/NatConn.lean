/-
Model of natconn's deadline logic (service/udp.go: onWrite, onRead), with explicit time.
Times are nanoseconds on a non-decreasing clock; 0 is the zero time.Time.
-/
namespace OutlineModel.NatConn

structure S where
  rd : Nat               -- natconn.readDeadline (0 = zero value)
  sock : Option Nat      -- the deadline actually set on the socket (none = never set)
  armed : Bool           -- fastClose (sync.Once) not yet consumed
  writes : Nat           -- number of WriteTo calls so far
  dnsWrites : Nat        -- how many of them went to the DNS port
  fired : Bool           -- fast close has fired
deriving Repr, DecidableEq

def init : S := { rd := 0, sock := none, armed := true, writes := 0, dnsWrites := 0, fired := false }

/-- `onWrite(addr)`; `dns` = destination port is the DNS port; `timeout` = configured NAT timeout,
    `dnsTimeout` = the generated 17 s constant. Returns the new state and the SetReadDeadline
    argument if it was called. -/
def onWrite (c : S) (dns : Bool) (now timeout dnsTimeout : Nat) : S × Option Nat :=
  let isFirst := c.rd == 0
  let armed' := if !dns || !isFirst then false else c.armed
  let t := if dns then dnsTimeout else timeout
  let nd := now + t
  let c' := { c with armed := armed', writes := c.writes + 1, dnsWrites := c.dnsWrites + (if dns then 1 else 0) }
  if nd > c.rd then ({ c' with rd := nd, sock := some nd }, some nd) else (c', none)

/-- `onRead(addr)` after a successful ReadFrom; `dns` = source port is the DNS port. -/
def onRead (c : S) (dns : Bool) (now : Nat) : S × Option Nat :=
  if c.armed then
    (if dns then ({ c with armed := false, sock := some now, fired := true }, some now)
     else ({ c with armed := false }, none))
  else (c, none)

inductive Op
  | write (dns : Bool) (now : Nat)
  | read (dns : Bool) (now : Nat)
deriving Repr

def Op.now : Op → Nat | .write _ n => n | .read _ n => n

def step (timeout dnsTimeout : Nat) (c : S) : Op → S
  | .write dns now => (onWrite c dns now timeout dnsTimeout).1
  | .read dns now => (onRead c dns now).1

def run (timeout dnsTimeout : Nat) (c : S) : List Op → S
  | [] => c
  | o :: os => run timeout dnsTimeout (step timeout dnsTimeout c o) os

/-- the clock never goes back along a history that starts at `t` -/
def Monotone (t : Nat) : List Op → Prop
  | [] => True
  | o :: os => t ≤ o.now ∧ Monotone o.now os

end OutlineModel.NatConn
