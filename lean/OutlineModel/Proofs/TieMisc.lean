import OutlineModel.Proofs.GoRT
import OutlineModel.Proofs.TieCipherList
import OutlineModel.Gen.Code
import OutlineModel.Gen.Consts
import OutlineModel.Model.Auth
/-
More ties between TRANSLATED functions (Gen/Code.lean, regenerated from the source on every run) and the models:
MakeCipherEntry (which keys get marked salts), findAccessKeyUDP (the UDP trial-decryption search), drainErrToString.
-/
set_option linter.unusedSimpArgs false
set_option linter.unusedVariables false
namespace OutlineModel.Tie.Misc
open OutlineModel OutlineModel.GoRT
open OutlineModel.Gen

/-- **MakeCipherEntry**: never panics; the entry carries the id and the key it was given; its salt generator is the marking
    one exactly when the model's `marked` says so for the generated mark length and minimum entropy (for a salt size that
    is at least the mark length — all ciphers of the generated table) -/
theorem makeCipherEntry_tie (saltSize : Opaque "shadowsocks.EncryptionKey" → Int)
    (newGen : String → Opaque "service.ServerSaltGenerator") (rnd : Opaque "service.ServerSaltGenerator")
    (id secret : String) (k : Opaque "shadowsocks.EncryptionKey") (n : Nat) (hn : saltSize k = (n : Int))
    (hmark : Gen.serverSaltMarkLen ≤ n) :
    Code.MakeCipherEntry saltSize newGen rnd id k secret =
      some (⟨id, k, (if Auth.marked n Gen.serverSaltMarkLen Gen.minSaltEntropy = true then newGen secret else rnd), ⟨0⟩⟩ : Code.CipherEntry) := by
  unfold Code.MakeCipherEntry Auth.marked
  have h4 : Gen.serverSaltMarkLen = 4 := rfl
  have h16 : Gen.minSaltEntropy = 16 := rfl
  rw [h4] at hmark
  simp only [hn, h4, h16]
  by_cases h : (n : Int) - 4 ≥ 16
  · have h' : n - 4 ≥ 16 := by omega
    have h'' : 4 ≤ n := hmark
    simp [h, h', h'', Code.CipherEntry.zero]
  · have h' : ¬ (n - 4 ≥ 16) := by omega
    simp [h, h', Code.CipherEntry.zero]

/-- **drainErrToString**: "eof" for the nil error, "timeout" for a net.Error that timed out, "other" otherwise — and nothing else -/
theorem drainErrToString_tie (timeout impl : Option String → Bool) (e : Option String) :
    Code.drainErrToString timeout impl e =
      some (if e = none then "eof" else if impl e && timeout e then "timeout" else "other") := by
  unfold Code.drainErrToString
  by_cases h : e = none
  · simp [h]
  · cases hi : impl e <;> cases ht : timeout e <;> simp [h, hi, ht]

/-! ### findAccessKeyUDP (service/udp.go): the trial-decryption search of the UDP handler -/

section
variable (unpack : List UInt8 → List UInt8 → Opaque "shadowsocks.EncryptionKey" → List UInt8 × Option String)
  (dst src : List UInt8) (cl : Opaque "service.CipherList") (ip : Opaque "netip.Addr")

/-- the datagram opens under this key -/
def opensU (k : Opaque "shadowsocks.EncryptionKey") : Bool := (unpack dst src k).2.isNone

/-- the call the search makes on the key list for the entry it found -/
def markEff (e : ListElem Code.CipherEntry) : Eff :=
  { name := "CipherList.MarkUsedByClientIP", args := [], vals := [[Atom.tok cl.val], [Atom.tok e.id], [Atom.tok ip.val]] }

abbrev UR := List UInt8 × String × Opaque "shadowsocks.EncryptionKey" × Option String × List Eff

/-- the search loop for ANY body that stops at an entry whose key opens the datagram (marking it used) and goes on otherwise -/
theorem udpLoop (snap : List (ListElem Code.CipherEntry))
    (body : Int × ListElem Code.CipherEntry → Option UR × List Eff → Option (ForInStep (Option UR × List Eff)))
    (hbody : ∀ (i : Int) (e : ListElem Code.CipherEntry), e ∈ snap → body (i, e) (none, []) =
      if opensU unpack dst src e.Value.CryptoKey
      then some (ForInStep.done (some ((unpack dst src e.Value.CryptoKey).1, e.Value.ID, e.Value.CryptoKey, none, [markEff cl ip e]), [markEff cl ip e]))
      else some (ForInStep.yield (none, []))) :
    ∀ (n : Nat), forIn ((snap.zipIdx n).map (fun p => (((p.2 : Nat) : Int), p.1))) (none, []) body =
      some (match snap.find? (fun e => opensU unpack dst src e.Value.CryptoKey) with
        | some e => (some ((unpack dst src e.Value.CryptoKey).1, e.Value.ID, e.Value.CryptoKey, none, [markEff cl ip e]), [markEff cl ip e])
        | none => (none, [])) := by
  induction snap with
  | nil => intro n; rfl
  | cons e rest ih =>
    intro n
    simp only [List.zipIdx_cons, List.map_cons, List.forIn_cons, hbody _ e List.mem_cons_self, List.find?_cons]
    cases ho : opensU unpack dst src e.Value.CryptoKey
    · simp only [Bool.false_eq_true, if_false, Option.bind_eq_bind, Option.bind_some]
      exact ih (fun i x h => hbody i x (List.mem_cons_of_mem _ h)) (n + 1)
    · simp

/-- **findAccessKeyUDP**: never panics; tries the entries of the snapshot in order and returns the plaintext, id and key of
    the FIRST one whose key opens the datagram, marking exactly that entry used; when none opens it, an error, no plaintext
    and no call on the list — for every key list and order (search soundness and completeness for UDP) -/
theorem findAccessKeyUDP_tie (snapOf : Opaque "service.CipherList" → Opaque "netip.Addr" → List (ListElem Code.CipherEntry))
    (l : Opaque "slog.Logger") :
    Code.findAccessKeyUDP snapOf unpack ip dst src cl l =
      some (match (snapOf cl ip).find? (fun e => opensU unpack dst src e.Value.CryptoKey) with
        | some e => ((unpack dst src e.Value.CryptoKey).1, e.Value.ID, e.Value.CryptoKey, none, [markEff cl ip e])
        | none => ([], "", ⟨0⟩, some "could not find valid UDP cipher", [])) := by
  unfold Code.findAccessKeyUDP
  simp only [GoRT.enum, Option.bind_eq_bind]
  rw [udpLoop unpack dst src cl ip (snapOf cl ip) _ ?_ 0]
  · cases (snapOf cl ip).find? (fun e => opensU unpack dst src e.Value.CryptoKey) <;> rfl
  · intro i e _
    unfold opensU markEff
    by_cases hnone : (unpack dst src e.Value.CryptoKey).2 = none
    · simp [hnone]
    · have : (unpack dst src e.Value.CryptoKey).2.isNone = false := by
        cases h : (unpack dst src e.Value.CryptoKey).2 with
        | none => exact absurd h hnone
        | some _ => rfl
      simp [hnone, this]
end

end OutlineModel.Tie.Misc
