/-
Theorems about the Shadowsocks AEAD stream framing model (Model/SSStream).  Core only.
-/
import OutlineModel.Model.SSStream

namespace OutlineModel.SSStream

/-! ### 16-bit length prefix -/

theorem encodeLen_length (n : Nat) : (encodeLen n).length = 2 := rfl

theorem decodeLen_encodeLen (n : Nat) (h : n ≤ 16383) : decodeLen (encodeLen n) = some n := by
  have h1 : n / 256 < 256 := by omega
  have h2 : n % 256 < 256 := by omega
  simp only [encodeLen, decodeLen, UInt8.toNat_ofNat', Nat.mod_eq_of_lt h1, Nat.mod_eq_of_lt h2]
  congr 1
  omega

/-! ### lengths -/

theorem encodeChunk_length {a : AEAD} (hc : a.Correct) (n : Nat) (p : List UInt8) :
    (encodeChunk a n p).length = (2 + a.tagSize) + (p.length + a.tagSize) := by
  simp [encodeChunk, hc.seal_length, encodeLen_length]

theorem encodeChunks_append (a : AEAD) (n : Nat) (cs ds : List (List UInt8)) :
    encodeChunks a n (cs ++ ds) = encodeChunks a n cs ++ encodeChunks a (n + 2 * cs.length) ds := by
  induction cs generalizing n with
  | nil => simp [encodeChunks]
  | cons c cs ih =>
    simp only [List.cons_append, encodeChunks, ih, List.append_assoc, List.length_cons]
    have : n + 2 + 2 * cs.length = n + 2 * (cs.length + 1) := by omega
    rw [this]

theorem encodeChunks_length_ge {a : AEAD} (hc : a.Correct) (n : Nat) (cs : List (List UInt8)) :
    2 * cs.length ≤ (encodeChunks a n cs).length := by
  induction cs generalizing n with
  | nil => simp
  | cons c cs ih =>
    have := ih (n + 2)
    simp only [encodeChunks, List.length_append, encodeChunk_length hc, List.length_cons]
    omega

/-! ### the reader on well-formed input -/

theorem decodeChunks_nil (a : AEAD) (fuel n : Nat) (acc : List UInt8) :
    decodeChunks a fuel n acc [] = .ok acc := by
  cases fuel <;> simp [decodeChunks]

/-- one chunk at the front of the input is delivered and the reader goes on with the rest -/
theorem decodeChunks_encodeChunk {a : AEAD} (hc : a.Correct) (fuel n : Nat)
    (acc p rest : List UInt8) (hp : p.length ≤ 16383) :
    decodeChunks a (fuel + 1) n acc (encodeChunk a n p ++ rest)
      = decodeChunks a fuel (n + 2) (acc ++ p) rest := by
  have hL : (a.seal n (encodeLen p.length)).length = 2 + a.tagSize := by
    rw [hc.seal_length, encodeLen_length]
  have hP : (a.seal (n + 1) p).length = p.length + a.tagSize := hc.seal_length _ _
  have hne : (encodeChunk a n p ++ rest).isEmpty = false := by
    have := encodeChunk_length hc n p
    cases h : encodeChunk a n p ++ rest with
    | nil => rw [List.append_eq_nil_iff] at h; rw [h.1] at this; simp at this; omega
    | cons _ _ => rfl
  have hlen : ¬ (encodeChunk a n p ++ rest).length < 2 + a.tagSize := by
    rw [List.length_append, encodeChunk_length hc]; omega
  rw [decodeChunks]
  simp only [hne, hlen, Bool.false_eq_true, if_false]
  simp only [encodeChunk, List.append_assoc, List.take_left' hL, List.drop_left' hL,
    hc.open_seal, decodeLen_encodeLen _ hp]
  have hlen2 : ¬ (a.seal (n + 1) p ++ rest).length < p.length + a.tagSize := by
    rw [List.length_append, hP]; omega
  simp only [hlen2, if_false, List.take_left' hP, List.drop_left' hP, hc.open_seal]

/-- a well-formed run of chunks at the front of the input is delivered in order -/
theorem decodeChunks_encodeChunks {a : AEAD} (hc : a.Correct) (cs : List (List UInt8))
    (hcs : ∀ c ∈ cs, c.length ≤ 16383) (fuel n : Nat) (acc rest : List UInt8) :
    decodeChunks a (cs.length + fuel) n acc (encodeChunks a n cs ++ rest)
      = decodeChunks a fuel (n + 2 * cs.length) (acc ++ cs.flatten) rest := by
  induction cs generalizing n acc with
  | nil => simp [encodeChunks]
  | cons c cs ih =>
    have hc1 : c.length ≤ 16383 := hcs c (by simp)
    have hcs' : ∀ d ∈ cs, d.length ≤ 16383 := fun d hd => hcs d (by simp [hd])
    have e1 : (c :: cs).length + fuel = (cs.length + fuel) + 1 := by simp; omega
    rw [e1, encodeChunks, List.append_assoc, decodeChunks_encodeChunk hc _ _ _ _ _ hc1,
      ih hcs']
    have e2 : n + 2 + 2 * cs.length = n + 2 * (c :: cs).length := by simp; omega
    rw [e2, List.flatten_cons, List.append_assoc]

theorem encode_length_ge {a : AEAD} (hc : a.Correct) (salt : List UInt8)
    (chunks : List (List UInt8)) :
    salt.length + 2 * chunks.length ≤ (encode a salt chunks).length := by
  have := encodeChunks_length_ge hc 0 chunks
  simp only [encode, List.length_append]
  omega

/-- 1. For every chunking the reader delivers exactly the bytes written, in order, then EOF. -/
theorem decode_encode {a : AEAD} (hc : a.Correct) (saltSize : Nat) (salt : List UInt8)
    (hs : salt.length = saltSize) (chunks : List (List UInt8))
    (hcs : ∀ c ∈ chunks, c.length ≤ 16383) :
    decode a saltSize (encode a salt chunks) = .ok chunks.flatten := by
  have hge := encode_length_ge hc salt chunks
  have hlt : ¬ (encode a salt chunks).length < saltSize := by omega
  obtain ⟨f, hf⟩ : ∃ f, (encode a salt chunks).length = chunks.length + f :=
    ⟨(encode a salt chunks).length - chunks.length, by omega⟩
  unfold decode
  rw [if_neg hlt, hf]
  have hd : (encode a salt chunks).drop saltSize = encodeChunks a 0 chunks ++ [] := by
    rw [encode, List.drop_left' hs, List.append_nil]
  rw [hd, decodeChunks_encodeChunks hc chunks hcs, decodeChunks_nil]
  simp

/-- 2. The delivered plaintext does not depend on how the writer chunked it. -/
theorem decode_encode_chunking_independent {a : AEAD} (hc : a.Correct) (saltSize : Nat)
    (salt : List UInt8) (hs : salt.length = saltSize) (cs₁ cs₂ : List (List UInt8))
    (h₁ : ∀ c ∈ cs₁, c.length ≤ 16383) (h₂ : ∀ c ∈ cs₂, c.length ≤ 16383)
    (hflat : cs₁.flatten = cs₂.flatten) :
    decode a saltSize (encode a salt cs₁) = decode a saltSize (encode a salt cs₂) := by
  rw [decode_encode hc saltSize salt hs cs₁ h₁, decode_encode hc saltSize salt hs cs₂ h₂, hflat]

/-- 3. Replaying the first 50 bytes in front of the rest of the connection changes nothing. -/
theorem first_bytes_replayed (a : AEAD) (saltSize : Nat) (s : List UInt8) :
    decode a saltSize (multiReader (s.take 50) (s.drop 50)) = decode a saltSize s := by
  rw [multiReader, List.take_append_drop]

/-! ### nonces -/

/-- `sealCalls` really is the list of `Seal` invocations that make up the encoding -/
theorem encodeChunks_eq_sealCalls (a : AEAD) (n : Nat) (cs : List (List UInt8)) :
    encodeChunks a n cs = ((sealCalls n cs).map fun c => a.seal c.1 c.2).flatten := by
  induction cs generalizing n with
  | nil => rfl
  | cons c cs ih => simp [encodeChunks, sealCalls, encodeChunk, ih]

theorem sealCalls_nonces (n : Nat) (cs : List (List UInt8)) :
    (sealCalls n cs).map (·.1) = List.range' n (2 * cs.length) := by
  induction cs generalizing n with
  | nil => simp [sealCalls]
  | cons c cs ih =>
    have e : 2 * (c :: cs).length = (2 * cs.length + 1) + 1 := by simp; omega
    rw [e, List.range'_succ, List.range'_succ]
    simp [sealCalls, ih]

/-- 4. The writer uses the nonces 0, 1, …, 2·|chunks|-1, each exactly once. -/
theorem nonces_never_reused (chunks : List (List UInt8)) :
    noncesUsed chunks = List.range (2 * chunks.length) := by
  rw [noncesUsed, sealCalls_nonces, List.range_eq_range']

theorem noncesUsed_nodup (chunks : List (List UInt8)) : (noncesUsed chunks).Nodup := by
  rw [nonces_never_reused]; exact List.nodup_range

/-! ### truncation -/

/-- a non-empty proper prefix of one chunk makes the reader fail without delivering anything -/
theorem decodeChunks_truncated_chunk {a : AEAD} (hc : a.Correct) (fuel n : Nat)
    (acc p : List UInt8) (hp : p.length ≤ 16383) (j : Nat) (hj0 : 0 < j)
    (hj : j < (encodeChunk a n p).length) :
    ∃ why, decodeChunks a (fuel + 1) n acc ((encodeChunk a n p).take j) = .error acc why := by
  have hL : (a.seal n (encodeLen p.length)).length = 2 + a.tagSize := by
    rw [hc.seal_length, encodeLen_length]
  have hP : (a.seal (n + 1) p).length = p.length + a.tagSize := hc.seal_length _ _
  have htl : ((encodeChunk a n p).take j).length = j := by
    rw [List.length_take]; omega
  have hne : ((encodeChunk a n p).take j).isEmpty = false := by
    cases h : (encodeChunk a n p).take j with
    | nil => rw [h] at htl; simp at htl; omega
    | cons _ _ => rfl
  rw [encodeChunk_length hc] at hj
  rw [decodeChunks]
  simp only [hne, Bool.false_eq_true, if_false, htl]
  by_cases hshort : j < 2 + a.tagSize
  · exact ⟨_, by rw [if_pos hshort]⟩
  · rw [if_neg hshort]
    have htake : ((encodeChunk a n p).take j).take (2 + a.tagSize)
        = a.seal n (encodeLen p.length) := by
      rw [List.take_take, Nat.min_eq_left (by omega), encodeChunk, List.take_left' hL]
    have hdrop : ((encodeChunk a n p).take j).drop (2 + a.tagSize)
        = (a.seal (n + 1) p).take (j - (2 + a.tagSize)) := by
      rw [List.drop_take, encodeChunk, List.drop_left' hL]
    simp only [htake, hdrop, hc.open_seal, decodeLen_encodeLen _ hp]
    have : ((a.seal (n + 1) p).take (j - (2 + a.tagSize))).length < p.length + a.tagSize := by
      rw [List.length_take, hP]; omega
    exact ⟨_, by rw [if_pos this]⟩

/-- 5. Cutting the stream strictly inside the last chunk: the reader delivers all earlier chunks
    and then fails (unexpected EOF). -/
theorem truncated_is_error {a : AEAD} (hc : a.Correct) (saltSize : Nat) (salt : List UInt8)
    (hs : salt.length = saltSize) (init : List (List UInt8)) (last : List UInt8)
    (hinit : ∀ c ∈ init, c.length ≤ 16383) (hlast : last.length ≤ 16383) (k : Nat)
    (hlo : (encode a salt init).length < k)
    (hhi : k < (encode a salt (init ++ [last])).length) :
    ∃ why, decode a saltSize ((encode a salt (init ++ [last])).take k)
      = .error init.flatten why := by
  have hge := encode_length_ge hc salt init
  -- shape of the truncated stream
  have hshape : (encode a salt (init ++ [last])).take k
      = salt ++ (encodeChunks a 0 init
          ++ (encodeChunk a (0 + 2 * init.length) last).take
              (k - salt.length - (encodeChunks a 0 init).length)) := by
    simp only [encode, List.length_append] at hlo
    rw [encode, encodeChunks_append]
    simp only [encodeChunks, List.append_nil]
    rw [List.take_append, List.take_of_length_le (by omega), List.take_append,
      List.take_of_length_le (by omega)]
  have hlen : ((encode a salt (init ++ [last])).take k).length = k := by
    rw [List.length_take]; omega
  have hlt : ¬ ((encode a salt (init ++ [last])).take k).length < saltSize := by
    rw [hlen]; omega
  unfold decode
  rw [if_neg hlt, hlen, hshape, List.drop_left' hs]
  obtain ⟨f, hf⟩ : ∃ f, k = init.length + (f + 1) := ⟨k - init.length - 1, by omega⟩
  rw [hf, decodeChunks_encodeChunks hc init hinit, ← hf, List.nil_append]
  simp only [encode, List.length_append] at hlo hhi
  rw [encodeChunks_append] at hhi
  simp only [encodeChunks, List.append_nil, List.length_append] at hhi
  exact decodeChunks_truncated_chunk hc _ _ _ _ hlast _ (by omega) (by omega)

/-- 5, single-chunk case: a cut strictly inside the only chunk delivers nothing and fails. -/
theorem truncated_single_chunk_is_error {a : AEAD} (hc : a.Correct) (saltSize : Nat)
    (salt : List UInt8) (hs : salt.length = saltSize) (p : List UInt8) (hp : p.length ≤ 16383)
    (k : Nat) (hlo : salt.length < k) (hhi : k < (encode a salt [p]).length) :
    ∃ why, decode a saltSize ((encode a salt [p]).take k) = .error [] why := by
  have := truncated_is_error hc saltSize salt hs [] p (by simp) hp k
    (by simpa [encode, encodeChunks] using hlo) (by simpa using hhi)
  simpa using this

/-! ### non-vacuity -/

theorem toy_correct : toy.Correct where
  seal_length := by intro n p; simp [toy]
  open_seal := by
    intro n p
    simp [toy, List.map_map, Function.comp_def, UInt8.add_sub_cancel]

example : ∃ a : AEAD, a.Correct := ⟨toy, toy_correct⟩

example :
    decode toy 4 (encode toy [9, 9, 9, 9] [[1, 2, 3], [], [4]]) = .ok [1, 2, 3, 4] := by
  decide

example :
    decode toy 4 (encode toy [9, 9, 9, 9] []) = .ok [] := by
  decide

/-- cut inside the second chunk: first chunk delivered, then error -/
example :
    (decode toy 4 ((encode toy [9, 9, 9, 9] [[1, 2, 3], [4]]).take 60)).plain = [1, 2, 3]
    ∧ (decode toy 4 ((encode toy [9, 9, 9, 9] [[1, 2, 3], [4]]).take 60)).isOk = false := by
  decide

/-- a corrupted tag byte is an error -/
example :
    (decode toy 1 ((encode toy [7] [[1, 2, 3]]).set 5 255)).isOk = false := by
  decide

#print axioms decodeLen_encodeLen
#print axioms decodeChunks_encodeChunk
#print axioms decodeChunks_encodeChunks
#print axioms decode_encode
#print axioms decode_encode_chunking_independent
#print axioms first_bytes_replayed
#print axioms encodeChunks_eq_sealCalls
#print axioms nonces_never_reused
#print axioms noncesUsed_nodup
#print axioms decodeChunks_truncated_chunk
#print axioms truncated_is_error
#print axioms truncated_single_chunk_is_error
#print axioms toy_correct

end OutlineModel.SSStream
