/-
Lock-set discipline: race freedom and serial critical sections.  Core only.

Positions: `holder (tr.take i) l` is the holder of `l` just before event `i` executes.

Main results
* `lockset_race_free`   – two accesses to a guarded variable by different threads are separated by
                          a release of the guard by the first thread (strictly in between).
* `lockset_happens_before` – ... followed by an acquire of the guard by the second thread, i.e.
                          access₁ <po rel(g) <sw acq(g) <po access₂.
* `sections_serial`     – two acquisitions of one lock are separated by a release by the first
                          acquirer: critical sections of one lock never overlap.
* `sections_ordered`    – the computed list `sections tr g` is pairwise ordered: each section is
                          closed (by its own thread) strictly before every later section starts.
* `wellFormed_iff`, `guarded_iff` – the decidable, position-bounded definitions mean what the
                          informal statement says.
-/
import OutlineModel.Model.LockSet

namespace OutlineModel.LockSet

/-! ### basic facts about `holder` -/

theorem lt_length_of_getElem? {tr : List Ev} {i : Nat} {e : Ev} (h : tr[i]? = some e) :
    i < tr.length := by
  obtain ⟨hi, _⟩ := List.getElem?_eq_some_iff.1 h
  exact hi

theorem holder_take_succ (tr : List Ev) (l n : Nat) :
    holder (tr.take (n + 1)) l =
      match tr[n]? with
      | some e => step l (holder (tr.take n) l) e
      | none => holder (tr.take n) l := by
  unfold holder
  rw [List.take_add_one, List.foldl_append]
  cases tr[n]? <;> simp

theorem holder_take_succ_some {tr : List Ev} {n : Nat} {e : Ev} (h : tr[n]? = some e) (l : Nat) :
    holder (tr.take (n + 1)) l = step l (holder (tr.take n) l) e := by
  rw [holder_take_succ, h]

theorem holder_take_succ_none {tr : List Ev} {n : Nat} (h : tr[n]? = none) (l : Nat) :
    holder (tr.take (n + 1)) l = holder (tr.take n) l := by
  rw [holder_take_succ, h]

theorem wf_acq {tr : List Ev} (hw : WellFormed tr) {i t l : Nat} (h : tr[i]? = some (.acq t l)) :
    holder (tr.take i) l = none := by
  have := hw i (lt_length_of_getElem? h)
  simp only [okAt, h] at this
  exact this

theorem wf_rel {tr : List Ev} (hw : WellFormed tr) {i t l : Nat} (h : tr[i]? = some (.rel t l)) :
    holder (tr.take i) l = some t := by
  have := hw i (lt_length_of_getElem? h)
  simp only [okAt, h] at this
  exact this

/-- the definitions mean what they say: unbounded, explicit form of `WellFormed` -/
theorem wellFormed_iff (tr : List Ev) :
    WellFormed tr ↔
      (∀ i t l, tr[i]? = some (.acq t l) → holder (tr.take i) l = none) ∧
      (∀ i t l, tr[i]? = some (.rel t l) → holdsAt tr i t l) := by
  constructor
  · intro hw
    exact ⟨fun i t l h => wf_acq hw h, fun i t l h => wf_rel hw h⟩
  · intro ⟨ha, hr⟩ i _
    unfold okAt
    split
    · next t l h => exact ha i t l h
    · next t l h => exact hr i t l h
    · trivial

/-- the definitions mean what they say: unbounded, explicit form of `Guarded` -/
theorem guarded_iff (tr : List Ev) (x g : Nat) :
    Guarded tr x g ↔
      ∀ i t, (tr[i]? = some (.read t x) ∨ tr[i]? = some (.write t x)) → holdsAt tr i t g := by
  constructor
  · intro hg i t h
    rcases h with h | h
    · have := hg i (lt_length_of_getElem? h)
      simp only [guardedAt, h] at this
      exact this trivial
    · have := hg i (lt_length_of_getElem? h)
      simp only [guardedAt, h] at this
      exact this trivial
  · intro hg i _
    unfold guardedAt
    split
    · next t y h => intro hy; subst hy; exact hg i t (Or.inl h)
    · next t y h => intro hy; subst hy; exact hg i t (Or.inr h)
    · trivial

/-! ### the two interval lemmas -/

/-- If `t` holds `l` before position `i` and does not hold it before position `j ≥ i`, then `t`
    released `l` at some position in `[i, j)`. -/
theorem release_between {tr : List Ev} (hw : WellFormed tr) {l t i : Nat}
    (hi : holder (tr.take i) l = some t) :
    ∀ j, i ≤ j → holder (tr.take j) l ≠ some t →
      ∃ k, i ≤ k ∧ k < j ∧ tr[k]? = some (.rel t l) := by
  intro j
  induction j with
  | zero =>
    intro hij hj
    have : i = 0 := Nat.le_zero.1 hij
    subst this
    exact absurd hi hj
  | succ j ih =>
    intro hij hj
    by_cases hlt : i = j + 1
    · subst hlt; exact absurd hi hj
    have hij' : i ≤ j := by omega
    by_cases hh : holder (tr.take j) l = some t
    · refine ⟨j, hij', Nat.lt_succ_self j, ?_⟩
      cases he : tr[j]? with
      | none => rw [holder_take_succ_none he] at hj; exact absurd hh hj
      | some e =>
        rw [holder_take_succ_some he, hh] at hj
        cases e with
        | acq t' l' =>
          by_cases hl : l' = l
          · subst hl
            have := wf_acq hw he
            rw [hh] at this
            cases this
          · simp [step, hl] at hj
        | rel t' l' =>
          by_cases hl : l' = l
          · subst hl
            have := wf_rel hw he
            rw [hh] at this
            cases this
            rfl
          · simp [step, hl] at hj
        | read _ _ => simp [step] at hj
        | write _ _ => simp [step] at hj
    · obtain ⟨k, h1, h2, h3⟩ := ih hij' hh
      exact ⟨k, h1, Nat.lt_succ_of_lt h2, h3⟩

/-- If `t` does not hold `l` before position `i` and holds it before position `j ≥ i`, then `t`
    acquired `l` at some position in `[i, j)`.  (Needs no well-formedness.) -/
theorem acquire_between {tr : List Ev} {l t i : Nat}
    (hi : holder (tr.take i) l ≠ some t) :
    ∀ j, i ≤ j → holder (tr.take j) l = some t →
      ∃ k, i ≤ k ∧ k < j ∧ tr[k]? = some (.acq t l) := by
  intro j
  induction j with
  | zero =>
    intro hij hj
    have : i = 0 := Nat.le_zero.1 hij
    subst this
    exact absurd hj hi
  | succ j ih =>
    intro hij hj
    by_cases hlt : i = j + 1
    · subst hlt; exact absurd hj hi
    have hij' : i ≤ j := by omega
    by_cases hh : holder (tr.take j) l = some t
    · obtain ⟨k, h1, h2, h3⟩ := ih hij' hh
      exact ⟨k, h1, Nat.lt_succ_of_lt h2, h3⟩
    · refine ⟨j, hij', Nat.lt_succ_self j, ?_⟩
      cases he : tr[j]? with
      | none => rw [holder_take_succ_none he] at hj; exact absurd hj hh
      | some e =>
        rw [holder_take_succ_some he] at hj
        cases e with
        | acq t' l' =>
          by_cases hl : l' = l
          · subst hl
            simp [step] at hj
            subst hj
            rfl
          · simp [step, hl] at hj; exact absurd hj hh
        | rel t' l' =>
          by_cases hl : l' = l
          · simp [step, hl] at hj
          · simp [step, hl] at hj; exact absurd hj hh
        | read _ _ => simp [step] at hj; exact absurd hj hh
        | write _ _ => simp [step] at hj; exact absurd hj hh

/-! ### race freedom -/

/-- **Lock-set race freedom.**  In a well-formed trace where `x` is guarded by `g`, two accesses
    to `x` at positions `i < j` by different threads `t1 ≠ t2` are separated by a release of `g`
    by `t1` at a position strictly between them. -/
theorem lockset_race_free {tr : List Ev} {x g i j t1 t2 : Nat}
    (hw : WellFormed tr) (hg : Guarded tr x g)
    (hi : accessAt tr i t1 x) (hj : accessAt tr j t2 x)
    (hij : i < j) (hne : t1 ≠ t2) :
    ∃ k, i < k ∧ k < j ∧ tr[k]? = some (.rel t1 g) := by
  have h1 : holder (tr.take i) g = some t1 := (guarded_iff tr x g).1 hg i t1 hi
  have h2 : holder (tr.take j) g = some t2 := (guarded_iff tr x g).1 hg j t2 hj
  have h2' : holder (tr.take j) g ≠ some t1 := by
    rw [h2]; intro h; cases h; exact hne rfl
  obtain ⟨k, hik, hkj, hk⟩ := release_between hw h1 j (Nat.le_of_lt hij) h2'
  refine ⟨k, ?_, hkj, hk⟩
  rcases Nat.lt_or_eq_of_le hik with h | h
  · exact h
  · subst h
    rcases hi with hi | hi <;> rw [hi] at hk <;> cases hk

/-- **Happens-before chain.**  Same hypotheses; the release by `t1` is followed, still before the
    second access, by an acquire of `g` by `t2`:
    `access₁ (i) < rel t1 g (k) < acq t2 g (k') < access₂ (j)`. -/
theorem lockset_happens_before {tr : List Ev} {x g i j t1 t2 : Nat}
    (hw : WellFormed tr) (hg : Guarded tr x g)
    (hi : accessAt tr i t1 x) (hj : accessAt tr j t2 x)
    (hij : i < j) (hne : t1 ≠ t2) :
    ∃ k k', i < k ∧ k < k' ∧ k' < j ∧
      tr[k]? = some (.rel t1 g) ∧ tr[k']? = some (.acq t2 g) := by
  obtain ⟨k, hik, hkj, hk⟩ := lockset_race_free hw hg hi hj hij hne
  have h2 : holder (tr.take j) g = some t2 := (guarded_iff tr x g).1 hg j t2 hj
  have hfree : holder (tr.take (k + 1)) g ≠ some t2 := by
    rw [holder_take_succ_some hk]; simp [step]
  obtain ⟨k', h1, h2', h3⟩ := acquire_between hfree j hkj h2
  exact ⟨k, k', hik, h1, h2', hk, h3⟩

/-! ### serial critical sections -/

/-- **Critical sections of one lock are totally ordered by acquisition.**  Between two
    acquisitions of `g` (by any threads, possibly the same) the first acquirer releases `g`. -/
theorem sections_serial {tr : List Ev} {g i j t1 t2 : Nat}
    (hw : WellFormed tr)
    (hi : tr[i]? = some (.acq t1 g)) (hj : tr[j]? = some (.acq t2 g)) (hij : i < j) :
    ∃ k, i < k ∧ k < j ∧ tr[k]? = some (.rel t1 g) := by
  have h1 : holder (tr.take (i + 1)) g = some t1 := by
    rw [holder_take_succ_some hi]; simp [step]
  have h2 : holder (tr.take j) g ≠ some t1 := by
    rw [wf_acq hw hj]; intro h; cases h
  obtain ⟨k, hik, hkj, hk⟩ := release_between hw h1 j hij h2
  exact ⟨k, hik, hkj, hk⟩

/-! ### the computed section list -/

theorem isRel_iff {g : Nat} {o : Option Ev} : isRel g o = true ↔ ∃ t, o = some (.rel t g) := by
  unfold isRel
  split
  · next t l => simp
  · next h =>
    constructor
    · intro h'; cases h'
    · intro ⟨t, ht⟩; exact absurd ht (h t g)

theorem nextRelGo_spec (tr : List Ev) (g : Nat) :
    ∀ fuel k m, k ≤ m → m < k + fuel → isRel g tr[m]? = true →
      ∃ k0, nextRelGo tr g fuel k = some k0 ∧ k ≤ k0 ∧ k0 ≤ m ∧ isRel g tr[k0]? = true ∧
        ∀ n, k ≤ n → n < k0 → isRel g tr[n]? = false := by
  intro fuel
  induction fuel with
  | zero => intro k m h1 h2; omega
  | succ fuel ih =>
    intro k m h1 h2 hm
    unfold nextRelGo
    by_cases hk : isRel g tr[k]? = true
    · refine ⟨k, by simp [hk], Nat.le_refl k, h1, hk, ?_⟩
      intro n hn1 hn2; omega
    · have hkm : k ≠ m := by intro h; subst h; exact hk hm
      obtain ⟨k0, e, h3, h4, h5, h6⟩ := ih (k + 1) m (by omega) (by omega) hm
      refine ⟨k0, by simp [hk, e], by omega, h4, h5, ?_⟩
      intro n hn1 hn2
      by_cases hnk : n = k
      · subst hnk; simpa using hk
      · exact h6 n (by omega) hn2

/-- In a well-formed trace, the release that `sections` pairs with an acquisition is the first
    acquirer's own release, and it precedes any later acquisition of the same lock. -/
theorem nextRel_of_acq {tr : List Ev} {g i j t1 t2 : Nat}
    (hw : WellFormed tr)
    (hi : tr[i]? = some (.acq t1 g)) (hj : tr[j]? = some (.acq t2 g)) (hij : i < j) :
    ∃ k, nextRel tr g (i + 1) = some k ∧ i < k ∧ k < j ∧ tr[k]? = some (.rel t1 g) := by
  obtain ⟨k, hik, hkj, hk⟩ := sections_serial hw hi hj hij
  have hjl := lt_length_of_getElem? hj
  obtain ⟨k0, e, h1, h2, h3, h4⟩ :=
    nextRelGo_spec tr g (tr.length - (i + 1)) (i + 1) k hik (by omega) (isRel_iff.2 ⟨t1, hk⟩)
  refine ⟨k0, e, h1, by omega, ?_⟩
  obtain ⟨t', ht'⟩ := isRel_iff.1 h3
  have hold : holder (tr.take (i + 1)) g = some t1 := by
    rw [holder_take_succ_some hi]; simp [step]
  have hk0 : holder (tr.take k0) g = some t' := wf_rel hw ht'
  by_cases htt : t' = t1
  · subst htt; exact ht'
  · exfalso
    have hne : holder (tr.take k0) g ≠ some t1 := by
      rw [hk0]; intro h; cases h; exact htt rfl
    obtain ⟨n, hn1, hn2, hn3⟩ := release_between hw hold k0 h1 hne
    have := h4 n hn1 hn2
    rw [isRel_iff.2 ⟨t1, hn3⟩] at this
    cases this

/-- **The section list is serial.**  Every section of `g` is closed, by its own thread, strictly
    before any later section of `g` starts. -/
theorem sections_ordered {tr : List Ev} (hw : WellFormed tr) (g : Nat) :
    (sections tr g).Pairwise fun a b =>
      ∃ k, a.stop = some k ∧ a.start < k ∧ k < b.start ∧ tr[k]? = some (.rel a.thread g) := by
  unfold sections
  refine List.Pairwise.filterMap _ ?_ (List.pairwise_lt_range (n := tr.length))
  intro i j hij a ha b hb
  unfold sectionAt at ha hb
  split at ha
  · next t1 l1 hi =>
    split at hb
    · next t2 l2 hj =>
      by_cases h1 : l1 = g
      · by_cases h2 : l2 = g
        · subst h1
          subst h2
          simp at ha hb
          subst ha
          subst hb
          exact nextRel_of_acq hw hi hj hij
        · simp [h2] at hb
      · simp [h1] at ha
    · cases hb
  · cases ha

/-- every acquisition of `g` shows up in `sections tr g` -/
theorem mem_sections {tr : List Ev} {g i t : Nat} (h : tr[i]? = some (.acq t g)) :
    ⟨t, i, nextRel tr g (i + 1)⟩ ∈ sections tr g := by
  unfold sections
  rw [List.mem_filterMap]
  exact ⟨i, List.mem_range.2 (lt_length_of_getElem? h), by simp [sectionAt, h]⟩

/-! ### non-vacuity: concrete traces -/

/-- two threads, one lock `0`, one variable `7`: each does acq / access / rel -/
def demo : List Ev :=
  [.acq 1 0, .write 1 7, .rel 1 0, .acq 2 0, .read 2 7, .write 2 7, .rel 2 0]

example : WellFormed demo := by decide
example : Guarded demo 7 0 := by decide
example : accessAt demo 1 1 7 ∧ accessAt demo 5 2 7 := by decide
example : sections demo 0 = [⟨1, 0, some 2⟩, ⟨2, 3, some 6⟩] := by decide

/-- the theorem applied to the concrete trace: a release by thread 1 lies between 1 and 5 -/
example : ∃ k, 1 < k ∧ k < 5 ∧ demo[k]? = some (.rel 1 0) :=
  lockset_race_free (x := 7) (t2 := 2) (by decide) (by decide) (by decide) (by decide)
    (by decide) (by decide)

/-- interleaved with a second lock and an unguarded-by-0 variable; still well formed and guarded -/
def demo2 : List Ev :=
  [.acq 1 0, .acq 2 5, .write 2 9, .write 1 7, .rel 1 0, .acq 2 0, .rel 2 5, .write 2 7, .rel 2 0]

example : WellFormed demo2 ∧ Guarded demo2 7 0 ∧ Guarded demo2 9 5 := by decide

/-- negative controls: a double acquire is not well formed; an unlocked write is not guarded -/
example : ¬ WellFormed [.acq 1 0, .acq 2 0] := by decide
example : ¬ Guarded [.acq 1 0, .write 1 7, .rel 1 0, .write 2 7] 7 0 := by decide

end OutlineModel.LockSet

#print axioms OutlineModel.LockSet.lockset_race_free
#print axioms OutlineModel.LockSet.lockset_happens_before
#print axioms OutlineModel.LockSet.sections_serial
#print axioms OutlineModel.LockSet.sections_ordered
#print axioms OutlineModel.LockSet.wellFormed_iff
#print axioms OutlineModel.LockSet.guarded_iff
