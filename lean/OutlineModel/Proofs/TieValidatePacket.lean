import OutlineModel.Proofs.GoRT
import OutlineModel.Proofs.TieSalt
import OutlineModel.Gen.Code
/-
Tie for the TRANSLATED `packetHandler.validatePacket` (service/udp.go; Gen/Code.lean, regenerated from the source on
every run).  socks.SplitAddr, socks.Addr.String, net.ResolveUDPAddr, the target IP validator stored in the handler and
ensureConnectionError are parameters.  The lemma is the function's decision tree, for every value of every parameter;
the one precondition — SplitAddr returns no more bytes than it was given (it returns a prefix) — is what keeps
`textData[len(tgtAddr):]` in range, and is exactly the panic condition of the code.
-/
set_option linter.unusedSimpArgs false
set_option linter.unusedVariables false
namespace OutlineModel.Tie.ValidatePacket
open OutlineModel OutlineModel.GoRT
open OutlineModel.Gen

abbrev UAddr := Opaque "net.UDPAddr"

/-- the decision tree of validatePacket: (payload, target, error status) -/
def decide' (addrString : List UInt8 → String) (resolve : String → String → UAddr × Option String)
    (split : List UInt8 → List UInt8) (ensure : Option String → String → String → Option String)
    (validator : List UInt8 → Option String) (ipOf : UAddr → List UInt8) (text : List UInt8) :
    List UInt8 × UAddr × Option String :=
  if split text = [] then ([], ⟨0⟩, some "ERR_READ_ADDRESS")
  else if (resolve "udp" (addrString (split text))).2 ≠ none then ([], ⟨0⟩, some "ERR_RESOLVE_ADDRESS")
  else if validator (ipOf (resolve "udp" (addrString (split text))).1) ≠ none then
    ([], ⟨0⟩, ensure (validator (ipOf (resolve "udp" (addrString (split text))).1)) "ERR_ADDRESS_INVALID" "invalid address")
  else (text.drop (split text).length, (resolve "udp" (addrString (split text))).1, none)

theorem validatePacket_tie (addrString : List UInt8 → String) (resolve : String → String → UAddr × Option String)
    (split : List UInt8 → List UInt8) (ensure : Option String → String → String → Option String)
    (validator : List UInt8 → Option String) (ipOf : UAddr → List UInt8) (h : Code.packetHandler) (text : List UInt8)
    (hpre : (split text).length ≤ text.length) :
    Code.packetHandler.validatePacket addrString resolve split ensure validator ipOf h text =
      (let r := decide' addrString resolve split ensure validator ipOf text
       some (h, r.1, r.2.1, r.2.2)) := by
  unfold Code.packetHandler.validatePacket decide'
  have hs := Tie.Salt.slice_nat text (split text).length text.length hpre (Nat.le_refl _)
  by_cases h1 : split text = []
  · simp [h1]
  · by_cases h2 : (resolve "udp" (addrString (split text))).2 = none
    · by_cases h3 : validator (ipOf (resolve "udp" (addrString (split text))).1) = none
      · simp [h1, h2, h3, GoRT.len, hs]
      · simp [h1, h2, h3]
    · simp [h1, h2]

/-- without the precondition the translated code panics exactly there: a SplitAddr that returned more than it was given
    makes the final slice expression fail -/
theorem validatePacket_panics_iff_bad_split (addrString : List UInt8 → String) (resolve : String → String → UAddr × Option String)
    (split : List UInt8 → List UInt8) (ensure : Option String → String → String → Option String)
    (validator : List UInt8 → Option String) (ipOf : UAddr → List UInt8) (h : Code.packetHandler) (text : List UInt8)
    (hbad : text.length < (split text).length)
    (h2 : (resolve "udp" (addrString (split text))).2 = none)
    (h3 : validator (ipOf (resolve "udp" (addrString (split text))).1) = none) :
    Code.packetHandler.validatePacket addrString resolve split ensure validator ipOf h text = none := by
  unfold Code.packetHandler.validatePacket
  have h1 : split text ≠ [] := by intro h; rw [h] at hbad; simp at hbad
  have : GoRT.slice text (GoRT.len (split text)) (GoRT.len text) = none := by
    unfold GoRT.slice GoRT.len
    have : ((text.length : Int) < ((split text).length : Int)) := by omega
    simp [this]
  simp [h1, h2, h3, this]

end OutlineModel.Tie.ValidatePacket
