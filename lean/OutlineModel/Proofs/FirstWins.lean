import OutlineModel.Model.CipherList
import OutlineModel.Proofs.CipherList
/-
"First configured wins".  Several access keys may be configured with the same (cipher, secret)
pair (`Entry.key`) under different ids.  In every state reachable from a freshly configured
list by lookups (and wholesale updates to freshly configured lists) a lookup never returns a
shadowed entry: it returns the first entry of its key group, and the key groups keep their
configured relative order.

All statements of the task hold for the model as written; the invariant was not adjusted.
One generalisation (not a restriction): preservation is proved for `markUsed l r ip` with any
`r` that is not the ref of a shadowed entry of `l` (`markUsed_preserves_inv`, also covers stale
refs, for which `markUsed` is the identity); `lookup_preserves_inv` is the special case.
`OnlyLookups` excludes `.mark` entirely: a bare `.mark` of a shadowed ref really breaks the
invariant (last `example`).
-/
namespace OutlineModel.CipherList

def Fresh (l : List Entry) : Prop := (l.map (·.ref)).Nodup ∧ ∀ e ∈ l, e.lastIP = none

def Shadowed (l : List Entry) (b : Entry) : Prop :=
  ∃ pre post a, l = pre ++ b :: post ∧ a ∈ pre ∧ a.key = b.key

def FirstWinsInv (l : List Entry) : Prop :=
  (l.map (·.ref)).Nodup ∧ ∀ b, Shadowed l b → b.lastIP = none

/-! ### auxiliary facts -/

theorem shadowed_mem {l : List Entry} {b : Entry} (h : Shadowed l b) : b ∈ l := by
  obtain ⟨pre, post, a, rfl, _, _⟩ := h
  simp

theorem eq_of_ref_eq {l : List Entry} (hnd : (l.map (·.ref)).Nodup) {x y : Entry}
    (hx : x ∈ l) (hy : y ∈ l) (h : x.ref = y.ref) : x = y := by
  induction l with
  | nil => cases hx
  | cons z zs ih =>
    simp only [List.map_cons, List.nodup_cons, List.mem_map, not_exists, not_and] at hnd
    rcases List.mem_cons.1 hx with rfl | hx'
    · rcases List.mem_cons.1 hy with rfl | hy'
      · rfl
      · exact absurd h.symm (hnd.1 y hy')
    · rcases List.mem_cons.1 hy with rfl | hy'
      · exact absurd h (hnd.1 x hx')
      · exact ih hnd.2 hx' hy'

theorem not_mem_of_nodup_refs {pre post : List Entry} {b : Entry}
    (hnd : ((pre ++ b :: post).map (·.ref)).Nodup) : b ∉ pre ∧ b ∉ post := by
  have h : (pre ++ b :: post).Nodup :=
    List.Pairwise.of_map (·.ref) (fun _ _ hne heq => hne (congrArg _ heq)) hnd
  rw [List.nodup_append] at h
  obtain ⟨_, h2, h3⟩ := h
  rw [List.nodup_cons] at h2
  exact ⟨fun hb => h3 b hb b (List.mem_cons_self) rfl, h2.1⟩

/-- if some element of `xs` satisfies `q`, `find?` on `xs ++ ys` answers from `xs` -/
theorem find?_append_mem {q : Entry → Bool} {xs ys : List Entry} {a e : Entry}
    (ha : a ∈ xs) (hq : q a = true) (h : (xs ++ ys).find? q = some e) : e ∈ xs := by
  rw [List.find?_append] at h
  cases hx : xs.find? q with
  | none =>
    rw [List.find?_eq_none] at hx
    exact absurd hq (hx a ha)
  | some x =>
    rw [hx] at h
    simp at h
    subst h
    exact List.mem_of_find?_eq_some hx

/-! ### 1. a freshly configured list satisfies the invariant -/

theorem fresh_inv {l : List Entry} (h : Fresh l) : FirstWinsInv l :=
  ⟨h.1, fun b hb => h.2 b (shadowed_mem hb)⟩

/-! ### 2. the entry found is never shadowed -/

theorem findEntry_not_shadowed {l : List Entry} {ip : Option Nat} {valid : Nat → Bool} {e : Entry}
    (hinv : FirstWinsInv l) (hf : findEntry valid (snapshot l ip) = some e) : ¬ Shadowed l e := by
  intro hs
  have hnone := hinv.2 e hs
  have hnd := hinv.1
  obtain ⟨pre, post, a, rfl, ha, hk⟩ := hs
  have hm : matchesIP ip e = false := by
    unfold matchesIP
    rw [hnone]
    cases ip <;> rfl
  have hv : valid e.key = true := (findEntry_sound valid _ ip e hf).2
  unfold findEntry snapshot at hf
  have hsplit : List.filter (fun e => !matchesIP ip e) (pre ++ e :: post) =
      pre.filter (fun e => !matchesIP ip e) ++ e :: post.filter (fun e => !matchesIP ip e) := by
    simp [List.filter_append, hm]
  rw [hsplit, ← List.append_assoc] at hf
  have hamem : a ∈ List.filter (matchesIP ip) (pre ++ e :: post) ++
      pre.filter (fun e => !matchesIP ip e) := by
    cases hma : matchesIP ip a
    · exact List.mem_append_right _ (List.mem_filter.2 ⟨ha, by simp [hma]⟩)
    · exact List.mem_append_left _ (List.mem_filter.2 ⟨by simp [ha], hma⟩)
  have hmem := find?_append_mem (q := fun e => valid e.key) hamem (by simp only [hk]; exact hv) hf
  rcases List.mem_append.1 hmem with h1 | h2
  · have := (List.mem_filter.1 h1).2
    rw [hm] at this
    cases this
  · exact (not_mem_of_nodup_refs hnd).1 (List.mem_filter.1 h2).1

theorem lookup_not_shadowed {l : List Entry} {ip : Option Nat} {valid : Nat → Bool} {e : Entry} {i : Nat}
    (hinv : FirstWinsInv l) (h : (lookup l ip valid).2 = some (e, i)) : ¬ Shadowed l e := by
  rcases lookup_cases l ip valid with ⟨e', i', hf, hl⟩ | ⟨_, hl⟩
  · rw [hl] at h
    simp at h
    obtain ⟨rfl, _⟩ := h
    exact findEntry_not_shadowed hinv hf
  · rw [hl] at h; simp at h

/-! ### 3. moving a non-shadowed entry to the front preserves the invariant -/

theorem markUsed_preserves_inv {l : List Entry} {t : Nat} {ip : Option Nat} (hinv : FirstWinsInv l)
    (ht : ∀ b ∈ l, b.ref = t → ¬ Shadowed l b) : FirstWinsInv (markUsed l t ip) := by
  refine ⟨(markUsed_refs_perm l t ip hinv.1).nodup_iff.2 hinv.1, ?_⟩
  intro b hb
  unfold markUsed at hb
  cases hf : l.find? (fun x => x.ref == t) with
  | none => rw [hf] at hb; exact hinv.2 b hb
  | some e =>
    rw [hf] at hb
    simp only at hb
    have hel : e ∈ l := List.mem_of_find?_eq_some hf
    have her : e.ref = t := by simpa using List.find?_some hf
    have hens := ht e hel her
    obtain ⟨pre, post, a, heq, ha, hk⟩ := hb
    cases pre with
    | nil => cases ha
    | cons p pre' =>
      simp only [List.cons_append, List.cons.injEq] at heq
      obtain ⟨hp, hfl⟩ := heq
      rw [List.filter_eq_append_iff] at hfl
      obtain ⟨l1, l2, hl, h1, h2⟩ := hfl
      rw [List.filter_eq_cons_iff] at h2
      obtain ⟨l3, l4, hl2, _, hfb, _⟩ := h2
      have hl' : l = (l1 ++ l3) ++ b :: l4 := by rw [hl, hl2, List.append_assoc]
      apply hinv.2
      have hbr : b.ref ≠ t := by simpa using hfb
      rcases List.mem_cons.1 ha with hae | hap
      · -- the shadower is the moved entry: it was already in front of `b`
        have hak : e.key = b.key := by rw [← hk, hae, ← hp]
        have : e ∈ (l1 ++ l3) ++ b :: l4 := hl' ▸ hel
        rcases List.mem_append.1 this with h | h
        · exact ⟨l1 ++ l3, l4, e, hl', h, hak⟩
        · rcases List.mem_cons.1 h with h | h
          · exact absurd (h ▸ her) hbr
          · obtain ⟨l5, l6, rfl⟩ := List.append_of_mem h
            exfalso
            apply hens
            exact ⟨l1 ++ l3 ++ b :: l5, l6, b, by rw [hl']; simp, by simp, hak.symm⟩
      · -- the shadower is another entry: `filter` preserved its position relative to `b`
        have : a ∈ l1 := by rw [← h1] at hap; exact (List.mem_filter.1 hap).1
        exact ⟨l1 ++ l3, l4, a, hl', List.mem_append_left _ this, hk⟩

theorem lookup_preserves_inv {l : List Entry} {ip : Option Nat} {valid : Nat → Bool}
    (hinv : FirstWinsInv l) : FirstWinsInv (lookup l ip valid).1 := by
  rcases lookup_cases l ip valid with ⟨e, i, hf, hl⟩ | ⟨_, hl⟩
  · rw [hl]
    apply markUsed_preserves_inv hinv
    intro b hb hbr
    have hel : e ∈ l := (findEntry_sound valid l ip e hf).1
    rw [eq_of_ref_eq hinv.1 hb hel hbr]
    exact findEntry_not_shadowed hinv hf
  · rw [hl]; exact hinv

/-! ### 4. reachable states -/

/-- operations admitted: lookups, and updates to freshly configured lists; no bare `.mark` -/
def Allowed : Op → Prop
  | .lookup _ _ => True
  | .mark _ _ => False
  | .update src => Fresh src

def OnlyLookups (ops : List Op) : Prop := ∀ o ∈ ops, Allowed o

theorem step_preserves_inv {l : List Entry} {o : Op} (hinv : FirstWinsInv l) (ho : Allowed o) :
    FirstWinsInv (step l o) := by
  cases o with
  | lookup ip vs => exact lookup_preserves_inv hinv
  | mark r ip => exact absurd ho id
  | update src => exact fresh_inv ho

theorem run_preserves_inv {l : List Entry} {ops : List Op} (hinv : FirstWinsInv l)
    (hops : OnlyLookups ops) : FirstWinsInv (run l ops) := by
  induction ops generalizing l with
  | nil => exact hinv
  | cons o os ih =>
    exact ih (step_preserves_inv hinv (hops o (List.mem_cons_self)))
      (fun o' ho' => hops o' (List.mem_cons_of_mem _ ho'))

/-- In every state reachable from a freshly configured list the invariant holds, and every
    lookup performed in that state returns a non-shadowed entry (the first of its key group). -/
theorem first_configured_wins {l0 : List Entry} {ops : List Op} (hfresh : Fresh l0)
    (hops : OnlyLookups ops) :
    FirstWinsInv (run l0 ops) ∧
    ∀ ip valid e i, (lookup (run l0 ops) ip valid).2 = some (e, i) → ¬ Shadowed (run l0 ops) e :=
  have hinv := run_preserves_inv (fresh_inv hfresh) hops
  ⟨hinv, fun _ _ _ _ h => lookup_not_shadowed hinv h⟩

/-! ### 4b. the key groups keep their configured relative order -/

/-- the entry with ref `r` occurs strictly before the entry with ref `s`, and both have the same key -/
def KeyBefore (l : List Entry) (r s : Nat) : Prop :=
  ∃ pre mid post x y, l = pre ++ x :: (mid ++ y :: post) ∧ x.ref = r ∧ y.ref = s ∧ x.key = y.key

theorem markUsed_keyBefore {l : List Entry} {t r s : Nat} {ip : Option Nat} (hinv : FirstWinsInv l)
    (ht : ∀ b ∈ l, b.ref = t → ¬ Shadowed l b) (h : KeyBefore l r s) :
    KeyBefore (markUsed l t ip) r s := by
  unfold markUsed
  cases hf : l.find? (fun x => x.ref == t) with
  | none => exact h
  | some e =>
    simp only
    have hel : e ∈ l := List.mem_of_find?_eq_some hf
    have her : e.ref = t := by simpa using List.find?_some hf
    have hens := ht e hel her
    obtain ⟨pre, mid, post, x, y, rfl, hx, hy, hk⟩ := h
    -- `y` is shadowed by `x`, so it is not the entry moved
    have hys : Shadowed (pre ++ x :: (mid ++ y :: post)) y :=
      ⟨pre ++ x :: mid, post, x, by simp, by simp, hk⟩
    have hyt : y.ref ≠ t := by
      intro hyt
      have : y = e := eq_of_ref_eq hinv.1 (shadowed_mem hys) hel (hyt.trans her.symm)
      exact hens (this ▸ hys)
    have hfy : (!(y.ref == t)) = true := by simpa using hyt
    by_cases hxt : x.ref = t
    · -- `x` itself is moved to the front
      have hxe : x = e := eq_of_ref_eq hinv.1 (by simp) hel (hxt.trans her.symm)
      subst hxe
      refine ⟨[], (pre ++ x :: mid).filter (fun z => !(z.ref == t)),
        post.filter (fun z => !(z.ref == t)), { x with lastIP := ip }, y, ?_, hx, hy, hk⟩
      simp [List.filter_append, hfy, hxt]
    · have hfx : (!(x.ref == t)) = true := by simpa using hxt
      refine ⟨{ e with lastIP := ip } :: pre.filter (fun z => !(z.ref == t)),
        mid.filter (fun z => !(z.ref == t)), post.filter (fun z => !(z.ref == t)), x, y, ?_, hx, hy, hk⟩
      simp [List.filter_append, hfy, hfx]

theorem lookup_keyBefore {l : List Entry} {ip : Option Nat} {valid : Nat → Bool} {r s : Nat}
    (hinv : FirstWinsInv l) (h : KeyBefore l r s) : KeyBefore (lookup l ip valid).1 r s := by
  rcases lookup_cases l ip valid with ⟨e, i, hf, hl⟩ | ⟨_, hl⟩
  · rw [hl]
    apply markUsed_keyBefore hinv _ h
    intro b hb hbr
    have hel : e ∈ l := (findEntry_sound valid l ip e hf).1
    rw [eq_of_ref_eq hinv.1 hb hel hbr]
    exact findEntry_not_shadowed hinv hf
  · rw [hl]; exact h

def IsLookup : Op → Prop
  | .lookup _ _ => True
  | _ => False

theorem run_keyBefore {l : List Entry} {ops : List Op} {r s : Nat} (hinv : FirstWinsInv l)
    (hops : ∀ o ∈ ops, IsLookup o) (h : KeyBefore l r s) : KeyBefore (run l ops) r s := by
  induction ops generalizing l with
  | nil => exact h
  | cons o os ih =>
    have ho := hops o (List.mem_cons_self)
    cases o with
    | lookup ip vs =>
      exact ih (lookup_preserves_inv hinv) (fun o' ho' => hops o' (List.mem_cons_of_mem _ ho'))
        (lookup_keyBefore hinv h)
    | mark r ip => exact absurd ho id
    | update src => exact absurd ho id

/-- If `a` is configured before `b` with the same key, then after any sequence of lookups the
    entry with `a`'s ref still occurs before the entry with `b`'s ref (and they still share a key). -/
theorem key_order_preserved {l0 : List Entry} {ops : List Op} {pre mid post : List Entry} {a b : Entry}
    (hfresh : Fresh l0) (hops : ∀ o ∈ ops, IsLookup o)
    (hl0 : l0 = pre ++ a :: (mid ++ b :: post)) (hk : a.key = b.key) :
    ∃ pre' mid' post' a' b', run l0 ops = pre' ++ a' :: (mid' ++ b' :: post') ∧
      a'.ref = a.ref ∧ b'.ref = b.ref ∧ a'.key = b'.key :=
  run_keyBefore (fresh_inv hfresh) hops ⟨pre, mid, post, a, b, hl0, rfl, rfl, hk⟩

/-! ### 5. non-vacuity on a concrete list: ids "a" and "b" share key 7 -/

def ex0 : List Entry :=
  [⟨0, "a", 7, none⟩, ⟨1, "b", 7, none⟩, ⟨2, "c", 9, none⟩]

/-- first lookup with key 7 from ip 1 returns "a" -/
example : ((lookup ex0 (some 1) (fun k => k == 7)).2.map (·.1.id)) = some "a" := by decide

/-- after lookups from ip 1 (key 7), ip 2 (key 9), a lookup from a third ip with key 7 returns "a" again -/
example :
    ((lookup (run ex0 [.lookup (some 1) [7], .lookup (some 2) [9]]) (some 3) (fun k => k == 7)).2.map
      (·.1.id)) = some "a" := by decide

/-- the duplicate "b" stays behind "a" and never gets an ip -/
example :
    (run ex0 [.lookup (some 1) [7], .lookup (some 2) [9], .lookup (some 3) [7], .lookup none [7]]).map
      (fun e => (e.id, e.lastIP)) = [("a", none), ("c", some 2), ("b", none)] := by decide

/-- a bare `.mark` of the shadowed ref (excluded by `OnlyLookups`) does break "first wins":
    afterwards ip 5 is served "b". -/
example :
    ((lookup (run ex0 [.mark 1 (some 5)]) (some 5) (fun k => k == 7)).2.map (·.1.id)) = some "b" := by
  decide

end OutlineModel.CipherList

#print axioms OutlineModel.CipherList.fresh_inv
#print axioms OutlineModel.CipherList.lookup_not_shadowed
#print axioms OutlineModel.CipherList.markUsed_preserves_inv
#print axioms OutlineModel.CipherList.lookup_preserves_inv
#print axioms OutlineModel.CipherList.run_preserves_inv
#print axioms OutlineModel.CipherList.first_configured_wins
#print axioms OutlineModel.CipherList.key_order_preserved
