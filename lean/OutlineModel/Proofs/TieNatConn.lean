import OutlineModel.Proofs.GoRT
import OutlineModel.Gen.Code
import OutlineModel.Gen.Consts
import OutlineModel.Model.NatConn
/-
Tie between the TRANSLATED natconn.onWrite / natconn.onRead (service/udp.go; Gen/Code.lean, regenerated
from the source on every run) and the hand-written model Model/NatConn.lean, for all inputs.
The model carries ghost counters (writes, dnsWrites, fired) that the code does not have, so the tie is a
simulation relation rather than an abstraction function.
-/
set_option linter.unusedSimpArgs false
namespace OutlineModel.Tie.NatConn
open OutlineModel OutlineModel.GoRT OutlineModel.NatConn
open OutlineModel.Gen

/-- the argument of the most recent recorded `SetReadDeadline` call -/
def lastSet : List Eff → Option Int
  | [] => none
  | e :: rest => match lastSet rest with
    | some d => some d
    | none => if e.name = "SetReadDeadline" then e.args.head? else none

theorem lastSet_append_one (es : List Eff) (d : Int) : lastSet (es ++ [{ name := "SetReadDeadline", args := [d] }]) = some d := by
  induction es with
  | nil => simp [lastSet]
  | cons e rest ih => simp [lastSet, ih]

/-- simulation relation between the translated state and the model state (timeout = configured NAT timeout) -/
def R (timeout : Nat) (c : Code.natconn) (s : S) : Prop :=
  c.defaultTimeout = (timeout : Int) ∧ c.readDeadline = (s.rd : Int) ∧ c.fastClose = !s.armed ∧
  lastSet c.eff = s.sock.map (fun (d : Nat) => (d : Int))

/-- what the translated function appended to the effect log, given the model's answer -/
def effOf : Option Nat → List Eff
  | some d => [{ name := "SetReadDeadline", args := [(d : Int)] }]
  | none => []

theorem dnsTimeout_is_generated : (17000000000 : Int) = (Gen.dnsTimeoutNs : Int) := by decide

/-- **onWrite**, with the DNS timeout as a variable `D` (kept symbolic: the kernel must never be asked to
    compute with a 17-billion literal next to a variable) -/
theorem onWrite_tie_gen (D : Nat) (hD : (17000000000 : Int) = (D : Int))
    (isDNS : Opaque "net.Addr" → Bool) (now timeout : Nat) (c : Code.natconn) (s : S) (addr : Opaque "net.Addr")
    (hR : R timeout c s) :
    ∃ c', Code.natconn.onWrite isDNS (now : Int) c addr = some c' ∧
      R timeout c' (onWrite s (isDNS addr) now timeout D).1 ∧
      c'.eff = c.eff ++ effOf (onWrite s (isDNS addr) now timeout D).2 := by
  obtain ⟨h1, h2, h3, h4⟩ := hR
  unfold Code.natconn.onWrite onWrite
  simp only [hD]
  have k1 : ((now : Int) + (timeout : Int) > (s.rd : Int)) ↔ now + timeout > s.rd := by omega
  have k2 : ((now : Int) + (D : Int) > (s.rd : Int)) ↔ now + D > s.rd := by omega
  have k3 : ((0 : Int) < (now : Int) + (timeout : Int)) ↔ 0 < now + timeout := by omega
  have k4 : ((0 : Int) < (now : Int) + (D : Int)) ↔ 0 < now + D := by omega
  cases hd : isDNS addr <;> cases ha : s.armed <;> by_cases hz : s.rd = 0 <;>
    (try simp only [hz] at k1 k2) <;>
    simp only [ha, h1, h2, h3, hz, R, effOf] <;>
    simp only [Bool.not_false, Bool.not_true, Bool.true_or, Bool.or_true, Bool.or_false, Bool.false_or, if_true, if_false,
      Bool.false_eq_true, decide_eq_true_eq, k1, k2, k3, k4, Int.natCast_zero, gt_iff_lt, Nat.add_zero, beq_self_eq_true,
      Bool.not_not, ite_self, reduceIte, Int.natCast_eq_zero, beq_iff_eq, decide_true, decide_false, Bool.and_true, Bool.true_and,
      Bool.and_false, Bool.false_and, bne_iff_ne, ne_eq, not_true_eq_false, not_false_eq_true, Bool.true_eq_false] <;>
    by_cases hcD : s.rd < now + D <;> by_cases hcT : s.rd < now + timeout <;>
    (try simp only [hz] at hcD hcT) <;>
    (try simp only [hcD, hcT, hz, decide_false, decide_true, Bool.not_false, Bool.not_true, Bool.false_eq_true, ↓reduceIte]) <;>
    refine ⟨_, rfl, ?_, ?_⟩ <;>
    (first
      | rfl
      | (simp only [List.append_nil]; done)
      | (simp only [h1, h2, h3, h4, ha, hz, lastSet_append_one, Bool.not_false, Bool.not_true, Option.map_some, Option.map_none, true_and, and_true,
          Int.natCast_add, Int.natCast_zero, and_self]; done)
      | (simp [hz, h1, h2, h3, h4, ha, lastSet_append_one]; done))

/-- **onWrite** against the model with the generated DNS timeout -/
theorem onWrite_tie (isDNS : Opaque "net.Addr" → Bool) (now timeout : Nat) (c : Code.natconn) (s : S) (addr : Opaque "net.Addr")
    (hR : R timeout c s) :
    ∃ c', Code.natconn.onWrite isDNS (now : Int) c addr = some c' ∧
      R timeout c' (onWrite s (isDNS addr) now timeout Gen.dnsTimeoutNs).1 ∧
      c'.eff = c.eff ++ effOf (onWrite s (isDNS addr) now timeout Gen.dnsTimeoutNs).2 :=
  onWrite_tie_gen Gen.dnsTimeoutNs dnsTimeout_is_generated isDNS now timeout c s addr hR

/-- **onRead**: never panics; stays in the relation; sets the deadline to `now` exactly when the model fires -/
theorem onRead_tie (isDNS : Opaque "net.Addr" → Bool) (now timeout : Nat) (c : Code.natconn) (s : S) (addr : Opaque "net.Addr")
    (hR : R timeout c s) :
    ∃ c', Code.natconn.onRead isDNS (now : Int) c addr = some c' ∧
      R timeout c' (onRead s (isDNS addr) now).1 ∧
      c'.eff = c.eff ++ effOf (onRead s (isDNS addr) now).2 := by
  obtain ⟨h1, h2, h3, h4⟩ := hR
  unfold Code.natconn.onRead onRead
  cases hd : isDNS addr <;> cases ha : s.armed <;>
    simp only [hd, ha, h3, Bool.not_false, Bool.not_true, Bool.false_eq_true, ↓reduceIte] <;>
    refine ⟨_, rfl, ?_, ?_⟩ <;>
    (first
      | rfl
      | (simp [R, effOf, h1, h2, h3, h4, ha, lastSet_append_one]; done))


/-! ### Histories of translated operations -/

inductive COp
  | write (addr : Opaque "net.Addr") (now : Nat)
  | read (addr : Opaque "net.Addr") (now : Nat)

def codeStep (isDNS : Opaque "net.Addr" → Bool) (c : Code.natconn) : COp → Option Code.natconn
  | .write a now => Code.natconn.onWrite isDNS (now : Int) c a
  | .read a now => Code.natconn.onRead isDNS (now : Int) c a

def codeRun (isDNS : Opaque "net.Addr" → Bool) (c : Code.natconn) : List COp → Option Code.natconn
  | [] => some c
  | o :: os => (codeStep isDNS c o).bind (fun c' => codeRun isDNS c' os)

def absOp (isDNS : Opaque "net.Addr" → Bool) : COp → Op
  | .write a now => .write (isDNS a) now
  | .read a now => .read (isDNS a) now

/-- **every history of translated onWrite / onRead calls never panics and is simulated by the model's run** -/
theorem codeRun_sim (isDNS : Opaque "net.Addr" → Bool) (timeout : Nat) :
    ∀ (os : List COp) (c : Code.natconn) (s : S), R timeout c s →
      ∃ c', codeRun isDNS c os = some c' ∧ R timeout c' (run timeout Gen.dnsTimeoutNs s (os.map (absOp isDNS))) := by
  intro os
  induction os with
  | nil => intro c s h; exact ⟨c, rfl, h⟩
  | cons o os ih =>
    intro c s h
    cases o with
    | write a now =>
      obtain ⟨c1, h1, h2, _⟩ := onWrite_tie isDNS now timeout c s a h
      obtain ⟨c', h3, h4⟩ := ih c1 _ h2
      exact ⟨c', by simp [codeRun, codeStep, h1, h3], by simpa [List.map_cons, run, step, absOp] using h4⟩
    | read a now =>
      obtain ⟨c1, h1, h2, _⟩ := onRead_tie isDNS now timeout c s a h
      obtain ⟨c', h3, h4⟩ := ih c1 _ h2
      exact ⟨c', by simp [codeRun, codeStep, h1, h3], by simpa [List.map_cons, run, step, absOp] using h4⟩

theorem R_init (timeout : Nat) : R timeout { Code.natconn.zero with defaultTimeout := (timeout : Int) } init := by
  simp [R, Code.natconn.zero, init, lastSet]

/-- **natconn.WriteTo**: `onWrite` for the destination first, then the write on the wrapped socket — and nothing else -/
theorem writeTo_tie (w : Opaque "net.PacketConn" → List UInt8 → Opaque "net.Addr" → Int × Option String)
    (isDNS : Opaque "net.Addr" → Bool) (now : Int) (c : Code.natconn) (buf : List UInt8) (dst : Opaque "net.Addr") :
    Code.natconn.WriteTo w isDNS now c buf dst =
      (Code.natconn.onWrite isDNS now c dst).map (fun c' => (c', w c'.PacketConn buf dst)) := by
  unfold Code.natconn.WriteTo
  simp only []
  cases h : Code.natconn.onWrite isDNS now c dst <;> simp [h]

/-- **natconn.ReadFrom**: the read on the wrapped socket first; `onRead` for the source exactly when the read succeeded;
    the socket's answer is handed through unchanged -/
theorem readFrom_tie (rd : Opaque "net.PacketConn" → List UInt8 → Int × Opaque "net.Addr" × Option String)
    (isDNS : Opaque "net.Addr" → Bool) (now : Int) (c : Code.natconn) (buf : List UInt8) :
    Code.natconn.ReadFrom rd isDNS now c buf =
      if (rd c.PacketConn buf).2.2 = none then
        (Code.natconn.onRead isDNS now c (rd c.PacketConn buf).2.1).map (fun c' => (c', rd c.PacketConn buf))
      else some (c, rd c.PacketConn buf) := by
  unfold Code.natconn.ReadFrom
  by_cases h : (rd c.PacketConn buf).2.2 = none
  · simp only [h, decide_true, if_true]
    cases h2 : Code.natconn.onRead isDNS now c (rd c.PacketConn buf).2.1 <;> simp [h2]
    rw [← h]
  · simp [h]

end OutlineModel.Tie.NatConn
