import OutlineModel.Proofs.UDP
/- Invariant of the NAT table model, preserved by every step (client datagram, target datagram,
   copier expiry), for any number of clients and steps. -/
namespace OutlineModel.UDP
open OutlineModel.CipherList OutlineModel.Socks

/-- one entry per client string, one socket per entry, sockets are fresh identities, a live entry's
    socket is not closed -/
structure NatInv (st : State) : Prop where
  clients_nodup : (st.nat.map (·.client)).Nodup
  socks_nodup : (st.nat.map (·.sock)).Nodup
  socks_lt : ∀ a ∈ st.nat, a.sock < st.nextSock
  closed_lt : ∀ s ∈ st.closedSocks, s < st.nextSock
  live_open : ∀ a ∈ st.nat, a.sock ∉ st.closedSocks

theorem eq_of_nodup_map {α β : Type} (f : α → β) : ∀ (l : List α), (l.map f).Nodup → ∀ x ∈ l, ∀ y ∈ l, f x = f y → x = y := by
  intro l
  induction l with
  | nil => intro _ x hx; cases hx
  | cons z zs ih =>
    intro hnd x hx y hy hxy
    simp only [List.map_cons, List.nodup_cons] at hnd
    rcases List.mem_cons.1 hx with h1 | h1
    · rcases List.mem_cons.1 hy with h2 | h2
      · rw [h1, h2]
      · exfalso; apply hnd.1; rw [← h1, hxy]; exact List.mem_map_of_mem h2
    · rcases List.mem_cons.1 hy with h2 | h2
      · exfalso; apply hnd.1; rw [← h2, ← hxy]; exact List.mem_map_of_mem h1
      · exact ih hnd.2 x h1 y h2 hxy

theorem lookupNat_none (nat : List Assoc) (c : String) (h : lookupNat nat c = none) : c ∉ nat.map (·.client) := by
  unfold lookupNat at h
  rw [List.find?_eq_none] at h
  intro hm
  obtain ⟨a, ha, rfl⟩ := List.mem_map.1 hm
  exact h a ha (by simp)

theorem lookupNat_some (nat : List Assoc) (c : String) (a : Assoc) (h : lookupNat nat c = some a) :
    a ∈ nat ∧ a.client = c := by
  unfold lookupNat at h
  exact ⟨List.mem_of_find?_eq_some h, by simpa using List.find?_some h⟩

theorem updateAssoc_clients (nat : List Assoc) (c : String) (f : Assoc → Assoc) (hf : ∀ x, (f x).client = x.client) :
    (updateAssoc nat c f).map (·.client) = nat.map (·.client) := by
  unfold updateAssoc
  rw [List.map_map]
  apply List.map_congr_left
  intro x _
  simp only [Function.comp]
  split <;> simp [hf]

theorem updateAssoc_socks (nat : List Assoc) (c : String) (f : Assoc → Assoc) (hf : ∀ x, (f x).sock = x.sock) :
    (updateAssoc nat c f).map (·.sock) = nat.map (·.sock) := by
  unfold updateAssoc
  rw [List.map_map]
  apply List.map_congr_left
  intro x _
  simp only [Function.comp]
  split <;> simp [hf]

theorem mem_updateAssoc (nat : List Assoc) (c : String) (f : Assoc → Assoc) (y : Assoc) (h : y ∈ updateAssoc nat c f) :
    ∃ x ∈ nat, y = x ∨ y = f x := by
  unfold updateAssoc at h
  obtain ⟨x, hx, rfl⟩ := List.mem_map.1 h
  refine ⟨x, hx, ?_⟩
  split
  · exact Or.inr rfl
  · exact Or.inl rfl

theorem lookupNat_updateAssoc (nat : List Assoc) (c c' : String) (f : Assoc → Assoc) (hf : ∀ x, (f x).client = x.client) :
    lookupNat (updateAssoc nat c f) c' = (lookupNat nat c').map (fun x => if x.client == c then f x else x) := by
  unfold lookupNat updateAssoc
  induction nat with
  | nil => rfl
  | cons y ys ih =>
    simp only [List.map_cons, List.find?_cons]
    have hcl : (if (y.client == c) = true then f y else y).client = y.client := by split <;> simp [hf]
    rw [hcl]
    cases hy : (y.client == c') with
    | true => simp
    | false => simpa using ih

theorem NatInv.update {st : State} (inv : NatInv st) (c : String) (f : Assoc → Assoc)
    (hc : ∀ x, (f x).client = x.client) (hs : ∀ x, (f x).sock = x.sock) :
    NatInv { st with nat := updateAssoc st.nat c f } := by
  refine ⟨?_, ?_, ?_, inv.closed_lt, ?_⟩
  · simp only; rw [updateAssoc_clients _ _ _ hc]; exact inv.clients_nodup
  · simp only; rw [updateAssoc_socks _ _ _ hs]; exact inv.socks_nodup
  · intro y hy
    obtain ⟨x, hx, h | h⟩ := mem_updateAssoc _ _ _ _ hy
    · rw [h]; exact inv.socks_lt x hx
    · rw [h, hs]; exact inv.socks_lt x hx
  · intro y hy
    obtain ⟨x, hx, h | h⟩ := mem_updateAssoc _ _ _ _ hy
    · rw [h]; exact inv.live_open x hx
    · rw [h, hs]; exact inv.live_open x hx

theorem NatInv.setList {st : State} (inv : NatInv st) (l : List Entry) : NatInv { st with list := l } :=
  ⟨inv.clients_nodup, inv.socks_nodup, inv.socks_lt, inv.closed_lt, inv.live_open⟩

theorem onWrite_client (a : Assoc) (p d : Nat) : (a.onWrite p d).client = a.client := by unfold Assoc.onWrite; rfl
theorem onWrite_sock (a : Assoc) (p d : Nat) : (a.onWrite p d).sock = a.sock := by unfold Assoc.onWrite; rfl
theorem onWrite_key (a : Assoc) (p d : Nat) : (a.onWrite p d).key = a.key := by unfold Assoc.onWrite; rfl

variable (dnsPort : Nat) (ki : KeyInfo) (validate : List UInt8 → IP.Verdict) (resolve : Target → Resolved)

/-- a client datagram preserves the invariant -/
theorem NatInv.upstream {st : State} (inv : NatInv st) (client : String) (cip : Option Nat) (wire : Nat)
    (opens : List Nat) (plain : List UInt8) :
    NatInv (upstream dnsPort ki validate resolve st client cip wire opens plain).1 := by
  unfold UDP.upstream
  cases hn : lookupNat st.nat client with
  | none =>
    simp only
    cases hl : lookup st.list cip (fun k => opens.contains k) with
    | mk list' found =>
      cases found with
      | none => exact inv.setList _
      | some ei =>
        obtain ⟨e, i⟩ := ei
        simp only
        cases hv : validatePacket validate resolve plain with
        | error p => exact inv.setList _
        | ok r =>
          cases r with
          | error s => exact inv.setList _
          | ok t =>
            obtain ⟨pl, ip', port'⟩ := t
            simp only
            have hnot := lookupNat_none st.nat client hn
            refine ⟨?_, ?_, ?_, ?_, ?_⟩
            · simp only [List.map_cons, onWrite_client]
              exact List.nodup_cons.2 ⟨hnot, inv.clients_nodup⟩
            · simp only [List.map_cons, onWrite_sock]
              refine List.nodup_cons.2 ⟨?_, inv.socks_nodup⟩
              intro hm
              obtain ⟨a, ha, he⟩ := List.mem_map.1 hm
              have := inv.socks_lt a ha
              omega
            · intro a ha
              simp only at ha ⊢
              rcases List.mem_cons.1 ha with rfl | ha
              · rw [onWrite_sock]; simp
              · have := inv.socks_lt a ha; omega
            · intro s hs
              have := inv.closed_lt s hs
              simp only; omega
            · intro a ha
              simp only at ha ⊢
              rcases List.mem_cons.1 ha with rfl | ha
              · rw [onWrite_sock]
                intro hc
                have := inv.closed_lt _ hc
                simp at this
              · exact inv.live_open a ha
  | some a =>
    simp only
    by_cases ho : opens.contains a.key = true
    · rw [if_pos ho]
      cases hv : validatePacket validate resolve plain with
      | error p => exact inv
      | ok r =>
        cases r with
        | error s => exact inv
        | ok t =>
          obtain ⟨pl, ip', port'⟩ := t
          exact inv.update client _ (fun x => onWrite_client x _ _) (fun x => onWrite_sock x _ _)
    · rw [if_neg ho]; exact inv

theorem NatInv.remove {st : State} (inv : NatInv st) (a : Assoc) (ha : a ∈ st.nat) :
    NatInv { st with nat := st.nat.filter (fun x => !(x.client == a.client)), closedSocks := a.sock :: st.closedSocks } := by
  refine ⟨?_, ?_, ?_, ?_, ?_⟩
  · exact (List.filter_sublist.map _).nodup inv.clients_nodup
  · exact (List.filter_sublist.map _).nodup inv.socks_nodup
  · intro x hx; exact inv.socks_lt x ((List.mem_filter.1 hx).1)
  · intro s hs
    rcases List.mem_cons.1 hs with rfl | hs
    · exact inv.socks_lt a ha
    · exact inv.closed_lt s hs
  · intro x hx
    have hxm := (List.mem_filter.1 hx).1
    have hne : x.client ≠ a.client := by
      have := (List.mem_filter.1 hx).2
      simpa using this
    intro hc
    rcases List.mem_cons.1 hc with h | h
    · -- same socket ⇒ same entry ⇒ same client
      have : x = a := by
        have hnd := inv.socks_nodup
        exact eq_of_nodup_map (·.sock) _ hnd x hxm a ha h
      exact hne (by rw [this])
    · exact inv.live_open x hxm h

theorem NatInv.expire {st : State} (inv : NatInv st) (client : String) : NatInv (expire st client).1 := by
  unfold UDP.expire
  cases hn : lookupNat st.nat client with
  | none => exact inv
  | some a =>
    obtain ⟨ha, hc⟩ := lookupNat_some st.nat client a hn
    simp only
    rw [← hc]
    exact inv.remove a ha

theorem NatInv.downstream {st : State} (inv : NatInv st) (bufSize maxAddrLen : Nat) (a : Assoc) (ha : a ∈ st.nat)
    (srcIP : List UInt8) (srcPort : Nat) (body : List UInt8) :
    NatInv (downstream dnsPort bufSize maxAddrLen st a srcIP srcPort body).1 := by
  unfold UDP.downstream
  simp only
  split
  · exact inv
  · split
    · exact inv.remove a ha
    · exact inv.update _ _ (fun _ => rfl) (fun _ => rfl)

theorem NatInv.init (l : List Entry) : NatInv (UDP.init l) := by
  refine ⟨?_, ?_, ?_, ?_, ?_⟩ <;> simp [UDP.init]

end OutlineModel.UDP
