import OutlineModel.Proofs.GoRT
import OutlineModel.Gen.Code
/-
Tie for the TRANSLATED `streamHandler.handleConnection` (service/tcp.go; Gen/Code.lean, regenerated from the source on
every run).  The function's collaborators — the authenticate function stored in the handler, getProxyRequest,
proxyConnection, absorbProbe, ctx.Deadline, the clock — are parameters; the calls it makes on the client connection and
on the connection metrics are its effect log, in program order; the calls of the collaborators that read or write the
connections (authenticate, getProxyRequest, proxyConnection) are entered in the same log ("call …"), so that the order of
"arm the deadline" / "read the first bytes" / "report" / "clear the deadline" / "relay" is part of what is proved.  The lemma gives the closed form of the result and of
the log for every value of every parameter.
-/
set_option linter.unusedSimpArgs false
set_option linter.unusedVariables false
namespace OutlineModel.Tie.Handle
open OutlineModel OutlineModel.GoRT
open OutlineModel.Gen

abbrev Conn := Opaque "transport.StreamConn"

/-- the read deadline the handler arms before authenticating: its own timeout from now, or the context's deadline if sooner -/
def readDeadline (cd : Int × Bool) (now rt : Int) : Int :=
  if cd.2 = true ∧ cd.1 < now + rt then cd.1 else now + rt

/-- what is done to the client connection before the first byte is read -/
def armEffs (cd : Int × Bool) (now rt : Int) (oc : Conn) : List Eff :=
  (if cd.2 = true then [({ name := "Conn.SetDeadline", args := [], vals := [[Atom.tok oc.val], [Atom.int cd.1]] } : Eff)] else [])
  ++ [{ name := "Conn.SetReadDeadline", args := [], vals := [[Atom.tok oc.val], [Atom.int (readDeadline cd now rt)]] }]

def absorbEff (oc : Conn) (cm : Opaque "service.TCPConnMetrics") (status : String) : Eff :=
  { name := "absorbProbe", args := [], vals := [[Atom.tok oc.val], [Atom.tok cm.val], [Atom.str status], []] }
def authEff (cm : Opaque "service.TCPConnMetrics") (id : String) : Eff :=
  { name := "TCPConnMetrics.AddAuthenticated", args := [], vals := [[Atom.tok cm.val], [Atom.str id]] }
def clearEff (oc : Conn) : Eff :=
  { name := "Conn.SetReadDeadline", args := [], vals := [[Atom.tok oc.val], [Atom.int 0]] }
def drainEff (disc : Opaque "io.Writer") (oc : Conn) : Eff :=
  { name := "io.Copy", args := [], vals := [[Atom.tok disc.val], [Atom.tok oc.val]] }

def callAuth (oc : Conn) : Eff := { name := "call authenticate", args := [], vals := [[Atom.tok oc.val]] }
def callReq (inner : Conn) : Eff := { name := "call getProxyRequest", args := [], vals := [[Atom.tok inner.val]] }
def callRelay (lg : Opaque "slog.Logger") (ctx : Opaque "context.Context") (dial : Opaque "transport.FuncStreamDialer")
    (addr : String) (inner oc : Conn) : Eff :=
  { name := "call proxyConnection", args := [],
    vals := [[Atom.tok lg.val], [Atom.tok ctx.val], [Atom.tok dial.val], [Atom.str addr], [Atom.tok inner.val], [Atom.tok oc.val]] }

/-- the closed form: status returned and calls made, by the three ways a connection can go -/
def outcome (cd : Int × Bool) (now rt : Int) (oc : Conn) (cm : Opaque "service.TCPConnMetrics") (disc : Opaque "io.Writer")
    (auth : String × Conn × Option String) (req : Conn → String × Option String)
    (relay : String → Conn → Option String) (relayEff : String → Conn → Eff) : Option String × List Eff :=
  match auth.2.2 with
  | some st => (some st, armEffs cd now rt oc ++ [callAuth oc, absorbEff oc cm st])
  | none =>
    match (req auth.2.1).2 with
    | some _ => (some "ERR_READ_ADDRESS",
        armEffs cd now rt oc ++ [callAuth oc, authEff cm auth.1, callReq auth.2.1, clearEff oc, drainEff disc oc])
    | none => (relay (req auth.2.1).1 auth.2.1,
        armEffs cd now rt oc ++ [callAuth oc, authEff cm auth.1, callReq auth.2.1, clearEff oc, relayEff (req auth.2.1).1 auth.2.1])

theorem handleConnection_tie
    (ctxDeadline : Opaque "context.Context" → Int × Bool) (dial : Opaque "transport.FuncStreamDialer")
    (authenticate : Conn → String × Conn × Option String) (getProxyRequest : Conn → String × Option String)
    (disc : Opaque "io.Writer") (now : Int)
    (proxyConnection : Opaque "slog.Logger" → Opaque "context.Context" → Opaque "transport.FuncStreamDialer" → String → Conn → Conn → Option String)
    (h : Code.streamHandler) (ctx : Opaque "context.Context") (oc : Conn) (cm : Opaque "service.TCPConnMetrics")
    (pm : Code.ProxyMetrics) :
    Code.streamHandler.handleConnection ctxDeadline dial authenticate getProxyRequest disc now proxyConnection h ctx oc cm pm =
      (let o := outcome (ctxDeadline ctx) now h.readTimeout oc cm disc (authenticate oc) getProxyRequest
                  (fun addr inner => proxyConnection h.logger ctx dial addr inner oc)
                  (fun addr inner => callRelay h.logger ctx dial addr inner oc)
       some (h, pm, o.1, o.2)) := by
  unfold Code.streamHandler.handleConnection outcome armEffs readDeadline absorbEff authEff clearEff drainEff callAuth callReq callRelay
  rcases hcd : ctxDeadline ctx with ⟨d, ok⟩
  rcases ha : authenticate oc with ⟨id, inner, aerr⟩
  rcases hr : getProxyRequest inner with ⟨addr, rerr⟩
  cases ok <;> cases aerr <;> cases rerr <;> (try by_cases hlt : d < now + h.readTimeout) <;> simp [hcd, ha, hr, hlt]

/-- **ssService.HandleStream** (service/shadowsocks.go): exactly one call of the stream handler, for this connection, with
    the per-connection metrics object obtained from (exactly one) `AddOpenTCPConnection` on this connection — or the nil
    metrics when the service has none; nothing else -/
theorem handleStream_tie (addOpen : Opaque "service.ServiceMetrics" → Opaque "net.Conn" → Opaque "service.TCPConnMetrics")
    (s : Code.ssService) (ctx : Opaque "context.Context") (conn : Conn) :
    Code.ssService.HandleStream addOpen s ctx conn =
      some { s with eff := s.eff ++ [{ name := "sh.Handle", args := [], vals :=
        [[Atom.tok ctx.val], [Atom.tok conn.val],
         [Atom.tok (if s.metrics ≠ ⟨0⟩ then addOpen s.metrics ⟨conn.val⟩ else ⟨0⟩).val]] }] } := by
  unfold Code.ssService.HandleStream
  by_cases h : s.metrics = ⟨0⟩ <;> simp [h]

/-! ### streamHandler.Handle (service/tcp.go): the frame around handleConnection -/

def measureEff (conn : Conn) : Eff := { name := "call MeasureConn", args := [], vals := [[Atom.tok conn.val], [], []] }
/-- `AddClosed(status, proxyMetrics, duration)`: the byte counters are written by the counting connection behind the
    translation's back (pointers into them were handed to MeasureConn), so their value is not part of the log (`[]`) -/
def closedEff (cm : Opaque "service.TCPConnMetrics") (status : String) (duration : Int) : Eff :=
  { name := "TCPConnMetrics.AddClosed", args := [], vals := [[Atom.tok cm.val], [Atom.str status], [], [Atom.int duration]] }
def closeEff (mc : Conn) : Eff := { name := "Conn.Close", args := [], vals := [[Atom.tok mc.val]] }
/-- the status reported with the close: OK exactly when handleConnection reported no error -/
def statusOf : Option String → String
  | none => "OK"
  | some st => st

/-- **streamHandler.Handle**: nil metrics are replaced by the no-op object; the client connection is wrapped by the
    counting connection; handleConnection runs on the wrapped connection (its whole log appears in place); then exactly one
    `AddClosed` with the status of its result, and only then the wrapped connection is closed. -/
theorem handle_tie
    (ctxDeadline : Opaque "context.Context" → Int × Bool) (measure : Conn → Conn) (since : Int → Int)
    (dial : Opaque "transport.FuncStreamDialer")
    (authenticate : Conn → String × Conn × Option String) (getProxyRequest : Conn → String × Option String)
    (disc : Opaque "io.Writer") (noop : Opaque "service.TCPConnMetrics") (now : Int)
    (proxyConnection : Opaque "slog.Logger" → Opaque "context.Context" → Opaque "transport.FuncStreamDialer" → String → Conn → Conn → Option String)
    (h : Code.streamHandler) (ctx : Opaque "context.Context") (conn : Conn) (cm : Opaque "service.TCPConnMetrics") :
    Code.streamHandler.Handle ctxDeadline measure since dial authenticate getProxyRequest disc noop now proxyConnection h ctx conn cm =
      (let cm' := if cm = ⟨0⟩ then noop else cm
       let mc := measure conn
       let o := outcome (ctxDeadline ctx) now h.readTimeout mc cm' disc (authenticate mc) getProxyRequest
                  (fun addr inner => proxyConnection h.logger ctx dial addr inner mc)
                  (fun addr inner => callRelay h.logger ctx dial addr inner mc)
       some (h, [measureEff conn] ++ o.2 ++ [closedEff cm' (statusOf o.1) (since now), closeEff mc])) := by
  unfold Code.streamHandler.Handle
  simp only [handleConnection_tie]
  by_cases hc : cm = ⟨0⟩
  · cases ho : (outcome (ctxDeadline ctx) now h.readTimeout (measure conn) noop disc (authenticate (measure conn)) getProxyRequest
        (fun addr inner => proxyConnection h.logger ctx dial addr inner (measure conn))
        (fun addr inner => callRelay h.logger ctx dial addr inner (measure conn))).1 <;>
      simp [hc, ho, measureEff, closedEff, closeEff, statusOf]
  · cases ho : (outcome (ctxDeadline ctx) now h.readTimeout (measure conn) cm disc (authenticate (measure conn)) getProxyRequest
        (fun addr inner => proxyConnection h.logger ctx dial addr inner (measure conn))
        (fun addr inner => callRelay h.logger ctx dial addr inner (measure conn))).1 <;>
      simp [hc, ho, measureEff, closedEff, closeEff, statusOf]

end OutlineModel.Tie.Handle
