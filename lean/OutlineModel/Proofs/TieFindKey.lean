import OutlineModel.Proofs.GoRT
import OutlineModel.Proofs.TieCipherList
import OutlineModel.Gen.Code
/-
Tie for the TRANSLATED `findAccessKey` (service/tcp.go; Gen/Code.lean, regenerated from the source on every run): take a
snapshot of the key list for the client's IP, read the first 50 bytes, run the (translated) trial-decryption loop
`findEntry` over the snapshot, mark the entry found as used, and hand back the entry, a reader that replays the 50 bytes,
and the salt.  `io.ReadFull` FILLS the buffer it is given — the one aliasing this function has — and the translation makes
that explicit: the parameter returns the new contents (assumed to have the length of the buffer: `hlen`).  The snapshot
and the mark are calls on the `CipherList` interface: the first a parameter, the second an entry of the effect log.
-/
set_option linter.unusedSimpArgs false
set_option linter.unusedVariables false
namespace OutlineModel.Tie.FindKey
open OutlineModel OutlineModel.GoRT
open OutlineModel.Gen
open OutlineModel.Tie.CipherList

def markEff (cl : Opaque "service.CipherList") (elt : Nat) (ip : Opaque "netip.Addr") : Eff :=
  { name := "CipherList.MarkUsedByClientIP", args := [], vals := [[Atom.tok cl.val], [Atom.tok elt], [Atom.tok ip.val]] }

/-- closed form: (entry, reader to continue with, salt, search time, error, calls on the key list) -/
def outcome (snapshot : List (ListElem Code.CipherEntry)) (saltSize tagSize : Opaque "shadowsocks.EncryptionKey" → Int)
    (multi : Opaque "bytes.Reader" → Opaque "io.Reader" → Opaque "io.Reader") (newReader : List UInt8 → Opaque "bytes.Reader")
    (since : Int → Int) (unpack : List UInt8 → List UInt8 → Opaque "shadowsocks.EncryptionKey" → List UInt8 × Option String)
    (read : List UInt8 × Int × Option String) (now : Int) (rd : Opaque "io.Reader") (ip : Opaque "netip.Addr")
    (cl : Opaque "service.CipherList") :
    Option Code.CipherEntry × Opaque "io.Reader" × List UInt8 × Int × Option String × List Eff :=
  if read.2.2 ≠ none then (none, rd, [], 0, some "reading header failed after %d bytes: %w", [])
  else match snapshot.find? (fun elt => opens saltSize tagSize unpack read.1 elt.Value.CryptoKey) with
    | none => (none, rd, [], since now, some "could not find valid TCP cipher", [])
    | some elt => (some elt.Value, multi (newReader read.1) rd, read.1.take (saltSize elt.Value.CryptoKey).toNat, since now, none,
        [markEff cl elt.id ip])

section
variable (snapshot : List (ListElem Code.CipherEntry)) (saltSize tagSize : Opaque "shadowsocks.EncryptionKey" → Int)
    (multi : Opaque "bytes.Reader" → Opaque "io.Reader" → Opaque "io.Reader") (newReader : List UInt8 → Opaque "bytes.Reader")
    (since : Int → Int) (unpack : List UInt8 → List UInt8 → Opaque "shadowsocks.EncryptionKey" → List UInt8 × Option String)
    (read : List UInt8 × Int × Option String) (now : Int) (rd : Opaque "io.Reader") (ip : Opaque "netip.Addr")
    (cl : Opaque "service.CipherList")

theorem outcome_read_error (h : read.2.2 ≠ none) :
    outcome snapshot saltSize tagSize multi newReader since unpack read now rd ip cl =
      (none, rd, [], 0, some "reading header failed after %d bytes: %w", []) := by
  unfold outcome; rw [if_pos h]

theorem outcome_not_found (h : read.2.2 = none)
    (hf : snapshot.find? (fun elt => opens saltSize tagSize unpack read.1 elt.Value.CryptoKey) = none) :
    outcome snapshot saltSize tagSize multi newReader since unpack read now rd ip cl =
      (none, rd, [], since now, some "could not find valid TCP cipher", []) := by
  unfold outcome; rw [if_neg (by simp [h]), hf]

theorem outcome_found (h : read.2.2 = none) (elt : ListElem Code.CipherEntry)
    (hf : snapshot.find? (fun elt => opens saltSize tagSize unpack read.1 elt.Value.CryptoKey) = some elt) :
    outcome snapshot saltSize tagSize multi newReader since unpack read now rd ip cl =
      (some elt.Value, multi (newReader read.1) rd, read.1.take (saltSize elt.Value.CryptoKey).toNat, since now, none,
        [markEff cl elt.id ip]) := by
  unfold outcome; rw [if_neg (by simp [h]), hf]
end

theorem findAccessKey_tie
    (snapshot : Opaque "service.CipherList" → Opaque "netip.Addr" → List (ListElem Code.CipherEntry))
    (saltSize tagSize : Opaque "shadowsocks.EncryptionKey" → Int)
    (multi : Opaque "bytes.Reader" → Opaque "io.Reader" → Opaque "io.Reader") (newReader : List UInt8 → Opaque "bytes.Reader")
    (since : Int → Int) (unpack : List UInt8 → List UInt8 → Opaque "shadowsocks.EncryptionKey" → List UInt8 × Option String)
    (readFull : Opaque "io.Reader" → Int → List UInt8 × Int × Option String) (now : Int)
    (rd : Opaque "io.Reader") (ip : Opaque "netip.Addr") (cl : Opaque "service.CipherList") (l : Opaque "slog.Logger")
    (hlen : (readFull rd 50).1.length = 50)
    (hfits : ∀ elt ∈ snapshot cl ip, 0 ≤ saltSize elt.Value.CryptoKey ∧ 0 ≤ tagSize elt.Value.CryptoKey ∧
      saltSize elt.Value.CryptoKey + 2 + tagSize elt.Value.CryptoKey ≤ 50) :
    Code.findAccessKey snapshot saltSize tagSize multi newReader since unpack readFull now rd ip cl l =
      some (outcome (snapshot cl ip) saltSize tagSize multi newReader since unpack (readFull rd 50) now rd ip cl) := by
  unfold Code.findAccessKey outcome
  have h50 : GoRT.len (List.replicate ((50 : Int)).toNat (0 : UInt8)) = 50 := by simp [GoRT.len]
  simp only [h50]
  by_cases herr : (readFull rd 50).2.2 = none
  · have hfits' : ∀ elt ∈ snapshot cl ip, 0 ≤ saltSize elt.Value.CryptoKey + 2 + tagSize elt.Value.CryptoKey ∧
        saltSize elt.Value.CryptoKey + 2 + tagSize elt.Value.CryptoKey ≤ ((readFull rd 50).1.length : Int) := by
      intro elt h; obtain ⟨a, b, c⟩ := hfits elt h; rw [hlen]; omega
    rw [findEntry_tie saltSize tagSize unpack (readFull rd 50).1 (snapshot cl ip) l hfits']
    cases hf : (snapshot cl ip).find? (fun elt => opens saltSize tagSize unpack (readFull rd 50).1 elt.Value.CryptoKey) with
    | none => simp [herr]
    | some elt =>
      have hmem : elt ∈ snapshot cl ip := List.mem_of_find?_eq_some hf
      obtain ⟨a, b, c⟩ := hfits elt hmem
      have hs := slice_prefix (readFull rd 50).1 (saltSize elt.Value.CryptoKey) a (by rw [hlen]; omega)
      simp [herr, hs, markEff]
  · simp [herr]

end OutlineModel.Tie.FindKey
