import OutlineModel.Proofs.GoRT
import OutlineModel.Gen.Code
import OutlineModel.Model.Replay
import OutlineModel.Proofs.Replay
/-
Tie between the TRANSLATED service/replay.go (Gen/Code.lean, regenerated from the source on every run)
and the hand-written model Model/Replay.lean, for all inputs.
-/
namespace OutlineModel.Tie.Replay
open OutlineModel OutlineModel.GoRT OutlineModel.Replay
open OutlineModel.Gen

/-- abstraction: the translated cache seen as the model's cache (key sets of the two maps) -/
def abs (c : Code.ReplayCache) : RC := { cap := c.capacity, active := c.active.keys, archive := c.archive.keys }

/-- `ReplayCache.Add` after the checksum has been computed: the translated code does what the model does,
    and never panics. -/
theorem add_tie (c : Code.ReplayCache) (id salt : List UInt8) (h : UInt32) (hp : Code.preHash id salt = some h) :
    (Code.ReplayCache.Add c id salt).map (fun p => (abs p.1, p.2)) = some ((abs c).add h) := by
  unfold Code.ReplayCache.Add RC.add
  simp only [hp, abs]
  by_cases h0 : c.capacity = 0
  · simp [h0]
  · by_cases h1 : h ∈ c.active.keys
    · simp [h0, h1]
    · by_cases h2 : (c.active.keys.length : Int) ≥ c.capacity
      · simp [h0, h1, h2, GoMap.keys_insert_absent]
        exact decide_eq_decide.mpr Iff.rfl
      · simp [h0, h1, h2, GoMap.keys_insert_absent]
        exact decide_eq_decide.mpr Iff.rfl

end OutlineModel.Tie.Replay

namespace OutlineModel.Tie.Replay
open OutlineModel OutlineModel.GoRT OutlineModel.Replay
open OutlineModel.Gen

/-- `ReplayCache.Resize`: refusal is an error value, acceptance only sets the capacity -/
theorem resize_tie (c : Code.ReplayCache) (n : Int) :
    (Code.ReplayCache.Resize c n).map (fun p => (abs p.1, p.2.isNone)) = some ((abs c).resize 20000 n) := by
  unfold Code.ReplayCache.Resize RC.resize
  by_cases h : n > 20000 <;> simp [h, abs]

/-- `NewReplayCache`: panics (none) above MaxCapacity, otherwise an empty cache of that capacity -/
theorem new_tie (n : Int) : (Code.NewReplayCache n).map abs = RC.new 20000 n := by
  unfold Code.NewReplayCache RC.new
  by_cases h : n > 20000 <;> simp [h, abs, Code.ReplayCache.zero]

/-! ### preHash: the two loops are the model's lane fold -/

def toL (L : UInt8 × UInt8 × UInt8 × UInt8) : List UInt8 := [L.1, L.2.1, L.2.2.1, L.2.2.2]

def laneStep (L : UInt8 × UInt8 × UInt8 × UInt8) (k : Nat) (b : UInt8) : UInt8 × UInt8 × UInt8 × UInt8 :=
  match k % 4 with
  | 0 => (L.1 ^^^ b, L.2.1, L.2.2.1, L.2.2.2)
  | 1 => (L.1, L.2.1 ^^^ b, L.2.2.1, L.2.2.2)
  | 2 => (L.1, L.2.1, L.2.2.1 ^^^ b, L.2.2.2)
  | _ => (L.1, L.2.1, L.2.2.1, L.2.2.2 ^^^ b)

theorem foldLanes_cons (L : UInt8 × UInt8 × UInt8 × UInt8) (b : UInt8) (rest : List UInt8) (i : Nat) :
    foldLanes L (b :: rest) i = foldLanes (laneStep L i b) rest (i + 1) := by
  obtain ⟨l0, l1, l2, l3⟩ := L
  have hk : i % 4 = 0 ∨ i % 4 = 1 ∨ i % 4 = 2 ∨ i % 4 = 3 := by omega
  rcases hk with h | h | h | h <;> simp [foldLanes, laneStep, h]

theorem and3 (k : Nat) : k &&& 3 = k % 4 := Nat.and_two_pow_sub_one_eq_mod k 2

/-- one loop iteration on the 4-byte buffer -/
theorem step_tie (L : UInt8 × UInt8 × UInt8 × UInt8) (k : Nat) (v : UInt8) :
    (do let a ← idx (toL L) (iand (k : Int) 3); GoRT.set (toL L) (iand (k : Int) 3) (a ^^^ v)) = some (toL (laneStep L k v)) := by
  obtain ⟨l0, l1, l2, l3⟩ := L
  have h3 : (3 : Int) = ((3 : Nat) : Int) := rfl
  rw [h3, iand_ofNat, and3, idx_ofNat]
  have hk : k % 4 = 0 ∨ k % 4 = 1 ∨ k % 4 = 2 ∨ k % 4 = 3 := by omega
  rcases hk with h | h | h | h <;> simp [h, toL, laneStep, GoRT.set]


/-- second loop: `for i, v := range salt` starting at index `i0` -/
theorem loop2_tie (salt : List UInt8) : ∀ (L : UInt8 × UInt8 × UInt8 × UInt8) (i0 : Nat),
    forIn ((salt.zipIdx i0).map (fun p => (((p.2 : Nat) : Int), p.1))) (toL L)
      (fun (x : Int × UInt8) (s : List UInt8) =>
        match x with
        | (i, v) => do
          let a ← idx s (iand i 3)
          let r ← GoRT.set s (iand i 3) (a ^^^ v)
          pure (ForInStep.yield r))
      = some (toL (foldLanes L salt i0)) := by
  induction salt with
  | nil => intro L i0; simp [foldLanes]
  | cons b rest ih =>
    intro L i0
    simp only [List.zipIdx_cons, List.map_cons, List.forIn_cons]
    have hs := step_tie L i0 b
    simp only [Option.bind_eq_bind] at hs ⊢
    cases hi : idx (toL L) (iand (↑i0) 3) with
    | none => simp [hi] at hs
    | some a =>
      simp only [hi, Option.bind_some] at hs ⊢
      simp only [hs, Option.bind_some, pure]
      rw [foldLanes_cons]
      exact ih _ _


/-- first loop: `for i := 0; i < len(id); i++` reading `id[i]` (never out of range) -/
theorem loop1_tie (id : List UInt8) : ∀ (n s : Nat) (L : UInt8 × UInt8 × UInt8 × UInt8), s + n = id.length →
    forIn ((List.range' s n).map (fun (k : Nat) => (0 : Int) + (k : Int))) (toL L)
      (fun (i : Int) (b : List UInt8) => do
          let a ← idx b (iand i 3)
          let c ← idx id i
          let r ← GoRT.set b (iand i 3) (a ^^^ c)
          pure (ForInStep.yield r))
      = some (toL (foldLanes L (id.drop s) s)) := by
  intro n
  induction n with
  | zero =>
    intro s L h
    have : id.drop s = [] := by apply List.drop_eq_nil_of_le; omega
    simp [this, foldLanes]
  | succ n ih =>
    intro s L h
    have hlt : s < id.length := by omega
    simp only [List.range'_succ, List.map_cons, List.forIn_cons, Int.zero_add]
    have hs := step_tie L s id[s]
    simp only [Option.bind_eq_bind] at hs ⊢
    cases hi : idx (toL L) (iand (↑s) 3) with
    | none => simp [hi] at hs
    | some a =>
      simp only [hi, Option.bind_some] at hs ⊢
      rw [idx_ofNat, List.getElem?_eq_getElem hlt]
      simp only [Option.bind_some, hs, pure]
      rw [List.drop_eq_getElem_cons hlt, foldLanes_cons]
      have := ih (s + 1) (laneStep L s id[s]) (by omega)
      simpa [Int.zero_add] using this

/-- **preHash**: the translated function never panics and computes the model's checksum (both loops are in the
    canonical range form: the translator turns `for i := 0; i < len(id); i++ { … id[i] … }` into it) -/
theorem preHash_tie (id salt : List UInt8) : Code.preHash id salt = some (Replay.preHash id salt) := by
  unfold Code.preHash Replay.preHash
  have h1 := loop2_tie id (0, 0, 0, 0) 0
  have h2 := loop2_tie salt (foldLanes (0, 0, 0, 0) id) 0
  have h0 : (List.replicate 4 (0 : UInt8)) = toL (0, 0, 0, 0) := rfl
  simp only [Option.bind_eq_bind] at h1 h2
  simp only [h0, Option.bind_eq_bind, enum]
  rw [h1]
  simp only [Option.bind_some]
  rw [h2]
  simp only [Option.bind_some]
  obtain ⟨l0, l1, l2, l3⟩ := foldLanes (foldLanes (0, 0, 0, 0) id) salt
  rfl

theorem capsGE_map_add (N : Nat) (l : List (List UInt8 × List UInt8)) :
    capsGE N (l.map fun p => Op.add (Replay.preHash p.1 p.2)) := by
  induction l with
  | nil => trivial
  | cons _ _ ih => simpa [capsGE] using ih

theorem numAdds_map_add (l : List (List UInt8 × List UInt8)) :
    numAdds (l.map fun p => Op.add (Replay.preHash p.1 p.2)) = l.length := by
  induction l with
  | nil => rfl
  | cons _ _ ih => simp [numAdds, ih]

end OutlineModel.Tie.Replay
