import OutlineModel.Model.CipherList
/- Lemmas about the cipher-list model: snapshot is a permutation, lookups are sound and complete,
   the configured (id, key) pairs are invariant under lookups and (stale or fresh) markings. -/
namespace OutlineModel.CipherList

theorem snapshot_perm (l : List Entry) (ip : Option Nat) : (snapshot l ip).Perm l := by
  unfold snapshot
  exact List.filter_append_perm (matchesIP ip) l

theorem mem_snapshot (l : List Entry) (ip : Option Nat) (e : Entry) : e ∈ snapshot l ip ↔ e ∈ l :=
  (snapshot_perm l ip).mem_iff

theorem findEntry_none_iff (valid : Nat → Bool) (l : List Entry) (ip : Option Nat) :
    findEntry valid (snapshot l ip) = none ↔ ∀ e ∈ l, valid e.key = false := by
  unfold findEntry
  rw [List.find?_eq_none]
  constructor
  · intro h e he
    have := h e ((mem_snapshot l ip e).2 he)
    simpa using this
  · intro h e he
    have := h e ((mem_snapshot l ip e).1 he)
    simp [this]

theorem findEntry_sound (valid : Nat → Bool) (l : List Entry) (ip : Option Nat) (e : Entry)
    (h : findEntry valid (snapshot l ip) = some e) : e ∈ l ∧ valid e.key = true := by
  unfold findEntry at h
  exact ⟨(mem_snapshot l ip e).1 (List.mem_of_find?_eq_some h), by simpa using List.find?_some h⟩

theorem findIndex_isSome_iff (valid : Nat → Bool) (snap : List Entry) :
    (findIndex valid snap).isSome = (findEntry valid snap).isSome := by
  unfold findIndex findEntry
  by_cases h : List.findIdx (fun e => valid e.key) snap < snap.length
  · simp only [h, if_true, Option.isSome_some]
    rw [List.findIdx_lt_length] at h
    obtain ⟨x, hx, hv⟩ := h
    symm
    rw [List.find?_isSome]
    exact ⟨x, hx, hv⟩
  · simp only [h, if_false, Option.isSome_none]
    symm
    rw [Bool.eq_false_iff]
    intro hs
    rw [List.find?_isSome] at hs
    exact h (List.findIdx_lt_length.2 hs)

/-- the two possible outcomes of one lookup -/
theorem lookup_cases (l : List Entry) (ip : Option Nat) (valid : Nat → Bool) :
    (∃ e i, findEntry valid (snapshot l ip) = some e ∧ lookup l ip valid = (markUsed l e.ref ip, some (e, i))) ∨
    (findEntry valid (snapshot l ip) = none ∧ lookup l ip valid = (l, none)) := by
  have hiff := findIndex_isSome_iff valid (snapshot l ip)
  cases hf : findEntry valid (snapshot l ip) with
  | none => right; exact ⟨rfl, by unfold lookup; simp [hf]⟩
  | some e =>
    rw [hf] at hiff
    cases hi : findIndex valid (snapshot l ip) with
    | none => rw [hi] at hiff; simp at hiff
    | some i => left; exact ⟨e, i, rfl, by unfold lookup; simp [hf, hi]⟩

/-- what one lookup returns -/
theorem lookup_found (l : List Entry) (ip : Option Nat) (valid : Nat → Bool) (e : Entry) (i : Nat)
    (h : (lookup l ip valid).2 = some (e, i)) : e ∈ l ∧ valid e.key = true := by
  rcases lookup_cases l ip valid with ⟨e', i', hf, hl⟩ | ⟨_, hl⟩
  · rw [hl] at h
    simp at h
    obtain ⟨rfl, _⟩ := h
    exact findEntry_sound valid l ip e' hf
  · rw [hl] at h; simp at h

theorem lookup_none_iff (l : List Entry) (ip : Option Nat) (valid : Nat → Bool) :
    (lookup l ip valid).2 = none ↔ ∀ e ∈ l, valid e.key = false := by
  rw [← findEntry_none_iff valid l ip]
  rcases lookup_cases l ip valid with ⟨e', i', hf, hl⟩ | ⟨hf, hl⟩
  · rw [hl, hf]; simp
  · rw [hl, hf]; simp

theorem lookup_none_list (l : List Entry) (ip : Option Nat) (valid : Nat → Bool)
    (h : (lookup l ip valid).2 = none) : (lookup l ip valid).1 = l := by
  rcases lookup_cases l ip valid with ⟨e', i', _, hl⟩ | ⟨_, hl⟩
  · rw [hl] at h; simp at h
  · rw [hl]

/-- the configured (id, key) pair of an entry -/
def cfg (e : Entry) : String × Nat := (e.id, e.key)

theorem filter_ne_of_not_mem (l : List Entry) (r : Nat) (h : r ∉ l.map (·.ref)) :
    l.filter (fun x => !(x.ref == r)) = l := by
  rw [List.filter_eq_self]
  intro x hx
  have : x.ref ≠ r := fun e => h (by rw [← e]; exact List.mem_map_of_mem hx)
  simpa using this

/-- with pairwise distinct element identities, move-to-front is a permutation -/
theorem markUsed_perm_aux (l : List Entry) (r : Nat) (e : Entry) (hnd : (l.map (·.ref)).Nodup)
    (hf : l.find? (fun x => x.ref == r) = some e) :
    (e :: l.filter (fun x => !(x.ref == r))).Perm l := by
  induction l with
  | nil => simp at hf
  | cons x xs ih =>
    simp only [List.map_cons, List.nodup_cons] at hnd
    by_cases hx : x.ref = r
    · have : e = x := by simpa [List.find?_cons, hx] using hf.symm
      subst this
      have hnot : r ∉ xs.map (·.ref) := by rw [← hx]; exact hnd.1
      simp [List.filter_cons, hx, filter_ne_of_not_mem xs r hnot]
    · have hf' : xs.find? (fun x => x.ref == r) = some e := by
        simpa [List.find?_cons, hx] using hf
      have := ih hnd.2 hf'
      have hb : (!(x.ref == r)) = true := by simpa using hx
      rw [List.filter_cons, if_pos hb]
      exact (List.Perm.swap x e _).trans (List.Perm.cons x this)

theorem markUsed_cfg_perm (l : List Entry) (r : Nat) (ip : Option Nat) (hnd : (l.map (·.ref)).Nodup) :
    ((markUsed l r ip).map cfg).Perm (l.map cfg) := by
  unfold markUsed
  cases hf : l.find? (fun x => x.ref == r) with
  | none => exact List.Perm.refl _
  | some e =>
    have hp := markUsed_perm_aux l r e hnd hf
    have : ({ e with lastIP := ip } :: l.filter (fun x => !(x.ref == r))).map cfg =
        (e :: l.filter (fun x => !(x.ref == r))).map cfg := by simp [cfg]
    simp only []
    rw [this]
    exact hp.map cfg

theorem markUsed_refs_perm (l : List Entry) (r : Nat) (ip : Option Nat) (hnd : (l.map (·.ref)).Nodup) :
    ((markUsed l r ip).map (·.ref)).Perm (l.map (·.ref)) := by
  unfold markUsed
  cases hf : l.find? (fun x => x.ref == r) with
  | none => exact List.Perm.refl _
  | some e =>
    have hp := markUsed_perm_aux l r e hnd hf
    have : ({ e with lastIP := ip } :: l.filter (fun x => !(x.ref == r))).map (·.ref) =
        (e :: l.filter (fun x => !(x.ref == r))).map (·.ref) := by simp
    simp only []
    rw [this]
    exact hp.map _

theorem lookup_cfg_perm (l : List Entry) (ip : Option Nat) (valid : Nat → Bool) (hnd : (l.map (·.ref)).Nodup) :
    ((lookup l ip valid).1.map cfg).Perm (l.map cfg) := by
  rcases lookup_cases l ip valid with ⟨e', i', _, hl⟩ | ⟨_, hl⟩
  · rw [hl]; exact markUsed_cfg_perm l e'.ref ip hnd
  · rw [hl]

theorem lookup_refs_perm (l : List Entry) (ip : Option Nat) (valid : Nat → Bool) (hnd : (l.map (·.ref)).Nodup) :
    ((lookup l ip valid).1.map (·.ref)).Perm (l.map (·.ref)) := by
  rcases lookup_cases l ip valid with ⟨e', i', _, hl⟩ | ⟨_, hl⟩
  · rw [hl]; exact markUsed_refs_perm l e'.ref ip hnd
  · rw [hl]

end OutlineModel.CipherList
