import OutlineModel.Proofs.GoRT
import OutlineModel.Gen.Code
/-
The TRANSLATED per-connection metric objects of prometheus/metrics.go (tcpConnMetrics.AddAuthenticated / AddClosed,
udpConnMetrics.RemoveNatEntry — Gen/Code.lean, regenerated from the source on every run): which calls they make on
the tunnel-time collector.  The collectors they call are shared objects: their calls appear in the effect log of the
connection object, with flattened arguments.  `toIPKey` is a parameter (any function).
-/
set_option linter.unusedSimpArgs false
namespace OutlineModel.Tie.ConnMetrics
open OutlineModel OutlineModel.GoRT
open OutlineModel.Gen

def keyAtoms (k : Code.IPKey) : List Atom := [Atom.tok k.ip.val] ++ [Atom.str k.accessKey]

def startEff (k : Code.IPKey) : Eff := { name := "tunnelTimeMetrics.startConnection", args := [], vals := [keyAtoms k] }
def stopEff (k : Code.IPKey) : Eff := { name := "tunnelTimeMetrics.stopConnection", args := [], vals := [keyAtoms k] }

/-- the calls on the tunnel-time collector in an effect log -/
def isTT (n : String) : Bool := n == "tunnelTimeMetrics.startConnection" || n == "tunnelTimeMetrics.stopConnection"
def ttCalls (es : List Eff) : List Eff := es.filter (fun e => isTT e.name)

variable (toIPKey : Opaque "net.Addr" → String → Code.IPKey × Option String)

/-- **AddAuthenticated**: never panics; records the key and that the connection authenticated; starts a tunnel for
    (client IP, key) exactly when the client address yields an IP key -/
theorem addAuthenticated_eq (cm : Code.tcpConnMetrics) (key : String) :
    Code.tcpConnMetrics.AddAuthenticated toIPKey cm key =
      some { cm with accessKey := key, authenticated := true,
                     eff := cm.eff ++ (if (toIPKey cm.clientAddr key).2 = none then [startEff (toIPKey cm.clientAddr key).1] else []) } := by
  unfold Code.tcpConnMetrics.AddAuthenticated
  by_cases h : (toIPKey cm.clientAddr key).2 = none <;> simp [h, startEff, keyAtoms]

theorem tt_start : isTT "tunnelTimeMetrics.startConnection" = true := by decide
theorem tt_stop : isTT "tunnelTimeMetrics.stopConnection" = true := by decide
theorem tt_n1 : isTT "tcpServiceMetrics.proxyCollector.addClientTarget" = false := by decide
theorem tt_n2 : isTT "tcpServiceMetrics.proxyCollector.addTargetClient" = false := by decide
theorem tt_n3 : isTT "tcpServiceMetrics.closeConnection" = false := by decide
theorem tt_n4 : isTT "udpServiceMetrics.removeNatEntry" = false := by decide

/-- **AddClosed**: never panics; among its calls, the only one on the tunnel-time collector is a stop, made exactly when
    the connection had authenticated (the flag, not the key id — an empty id counts) and the client address yields an IP
    key, with the key recorded at authentication; flag, key and address are left as they were -/
theorem addClosed_tt (cm : Code.tcpConnMetrics) (status : String) (data : Code.ProxyMetrics) (d : Int) :
    ∃ cm', Code.tcpConnMetrics.AddClosed toIPKey cm status data d = some cm' ∧
      ttCalls cm'.eff = ttCalls cm.eff ++
        (if cm.authenticated = true ∧ (toIPKey cm.clientAddr cm.accessKey).2 = none
         then [stopEff (toIPKey cm.clientAddr cm.accessKey).1] else []) ∧
      cm'.authenticated = cm.authenticated ∧ cm'.accessKey = cm.accessKey ∧ cm'.clientAddr = cm.clientAddr := by
  unfold Code.tcpConnMetrics.AddClosed
  by_cases ha : cm.authenticated = true <;> by_cases h : (toIPKey cm.clientAddr cm.accessKey).2 = none <;>
    simp only [ha, h, if_true, if_false, decide_true, decide_false, Bool.false_eq_true, true_and, false_and, and_true,
      pure, bind, Option.bind_eq_bind, Option.bind_some, ne_eq, not_true_eq_false, not_false_eq_true, and_self] <;>
    refine ⟨_, rfl, ?_, ?_⟩ <;>
    simp [ttCalls, List.filter_append, List.filter_cons, tt_stop, tt_n1, tt_n2, tt_n3, stopEff, keyAtoms, ha]

/-- **udpConnMetrics.RemoveNatEntry**: reports the removal and stops the association's tunnel when the client address
    yields an IP key -/
theorem removeNatEntry_tt (cm : Code.udpConnMetrics) :
    ∃ cm', Code.udpConnMetrics.RemoveNatEntry toIPKey cm = some cm' ∧
      ttCalls cm'.eff = ttCalls cm.eff ++
        (if (toIPKey cm.clientAddr cm.accessKey).2 = none then [stopEff (toIPKey cm.clientAddr cm.accessKey).1] else []) := by
  unfold Code.udpConnMetrics.RemoveNatEntry
  by_cases h : (toIPKey cm.clientAddr cm.accessKey).2 = none <;>
    simp only [h, if_true, if_false, decide_true, decide_false, Bool.false_eq_true, pure, bind, Option.bind_eq_bind,
      Option.bind_some, not_true_eq_false] <;>
    refine ⟨_, rfl, ?_⟩ <;>
    simp [ttCalls, List.filter_append, List.filter_cons, tt_stop, tt_n4, stopEff, keyAtoms]

/-- **a connection's tunnel is started and stopped in a pair**: AddAuthenticated(key) followed by AddClosed makes, on the
    tunnel-time collector, exactly a start and a stop of the same (client IP, key) when the address yields an IP key
    and nothing otherwise — for every key id, the empty one included; a connection that never authenticated makes none -/
theorem auth_then_close_pairs (cm : Code.tcpConnMetrics) (key status : String) (data : Code.ProxyMetrics) (d : Int) :
    ∃ cm1 cm2, Code.tcpConnMetrics.AddAuthenticated toIPKey cm key = some cm1 ∧
      Code.tcpConnMetrics.AddClosed toIPKey cm1 status data d = some cm2 ∧
      ttCalls cm2.eff = ttCalls cm.eff ++
        (if (toIPKey cm.clientAddr key).2 = none
         then [startEff (toIPKey cm.clientAddr key).1, stopEff (toIPKey cm.clientAddr key).1] else []) := by
  obtain ⟨cm2, h1, h2, _⟩ := addClosed_tt toIPKey
    { cm with accessKey := key, authenticated := true,
              eff := cm.eff ++ (if (toIPKey cm.clientAddr key).2 = none then [startEff (toIPKey cm.clientAddr key).1] else []) }
    status data d
  refine ⟨_, cm2, addAuthenticated_eq toIPKey cm key, h1, ?_⟩
  rw [h2]
  by_cases h : (toIPKey cm.clientAddr key).2 = none <;>
    simp [h, ttCalls, List.filter_append, startEff, tt_start]

theorem unauthenticated_close_makes_no_tunnel_call (cm : Code.tcpConnMetrics) (status : String) (data : Code.ProxyMetrics) (d : Int)
    (h : cm.authenticated = false) :
    ∃ cm', Code.tcpConnMetrics.AddClosed toIPKey cm status data d = some cm' ∧ ttCalls cm'.eff = ttCalls cm.eff := by
  obtain ⟨cm', h1, h2, _⟩ := addClosed_tt toIPKey cm status data d
  exact ⟨cm', h1, by simpa [h] using h2⟩

end OutlineModel.Tie.ConnMetrics
