import OutlineModel.Proofs.GoRT
import OutlineModel.Proofs.TieIP
import OutlineModel.Gen.Code
import OutlineModel.Model.TunnelTime
import OutlineModel.Proofs.TunnelTime
/-
Tie between the TRANSLATED tunnelTimeMetrics (prometheus/metrics.go: reportTunnelTime, startConnection,
stopConnection, Collect — Gen/Code.lean, regenerated from the source on every run) and the hand-written
model Model/TunnelTime.lean, for all inputs: a simulation relation `Sim` that every translated operation
preserves while doing what the model's operation does, and never panicking.

The two counter vectors are seen through the effect log: the per-key vector is called with one label value,
the per-location vector with three.
-/
set_option linter.unusedSimpArgs false
set_option linter.unusedVariables false
namespace OutlineModel.Tie.TunnelTime
open OutlineModel OutlineModel.GoRT OutlineModel.TunnelTime
open OutlineModel.Gen

def absKey (k : Code.IPKey) : IPKey := { ip := k.ip.val, key := k.accessKey }

theorem absKey_inj {a b : Code.IPKey} (h : absKey a = absKey b) : a = b := by
  cases a with | mk ipa ka => cases b with | mk ipb kb =>
  cases ipa; cases ipb
  simp [absKey] at h
  simp [h.1, h.2]

/-- the location label tuple of a client as one string -/
def locOf (asnLabel : Int → String) (i : Code.IPInfo) : String :=
  i.CountryCode ++ "|" ++ asnLabel i.ASN.Number ++ "|" ++ i.ASN.Organization

def absClient (asnLabel : Int → String) (e : Code.IPKey × Code.activeClient) : Client :=
  { k := absKey e.1, count := e.2.connCount, start := e.2.startTime.toNat, loc := locOf asnLabel e.2.info }

/-- what the effect log has added to the per-key vector (calls with one label value) -/
def perKeyOf (es : List Eff) : List (String × Nat) :=
  es.foldl (fun m e => if e.strs.length = 1 then addTo m (e.strs.headD "") (e.args.headD 0).toNat else m) []

/-- what the effect log has added to the per-location vector (calls with three label values) -/
def perLocOf (es : List Eff) : List (String × Nat) :=
  es.foldl (fun m e => match e.strs with
    | [a, b, c] => addTo m (a ++ "|" ++ b ++ "|" ++ c) (e.args.headD 0).toNat
    | _ => m) []

structure Sim (asnLabel : Int → String) (c : Code.tunnelTimeMetrics) (t : TT) : Prop where
  active : t.active = c.activeClients.ents.map (absClient asnLabel)
  perKey : t.perKey = perKeyOf c.eff
  perLoc : t.perLoc = perLocOf c.eff
  nodup : c.activeClients.keys.Nodup
  nonneg : ∀ e ∈ c.activeClients.ents, 0 ≤ e.2.startTime

/-- **reportTunnelTime** in closed form: two metric calls, then the period restarts -/
theorem report_eq (asnLabel : Int → String) (c : Code.tunnelTimeMetrics) (k : Code.IPKey) (cl : Code.activeClient) (tNow : Int) :
    Code.tunnelTimeMetrics.reportTunnelTime asnLabel c k cl tNow =
      some ({ c with eff := c.eff ++ [
                { name := "tunnelTimePerKey.Add", args := [tNow - cl.startTime], strs := [k.accessKey] },
                { name := "tunnelTimePerLocation.Add", args := [tNow - cl.startTime],
                  strs := [cl.info.CountryCode, asnLabel cl.info.ASN.Number, cl.info.ASN.Organization] }] },
            { cl with startTime := tNow }) := by
  unfold Code.tunnelTimeMetrics.reportTunnelTime
  simp [GoRT.seconds, List.append_assoc]

theorem perKeyOf_report (es : List Eff) (a : String) (d : Int) (x y z : String) :
    perKeyOf (es ++ [{ name := "tunnelTimePerKey.Add", args := [d], strs := [a] },
                     { name := "tunnelTimePerLocation.Add", args := [d], strs := [x, y, z] }]) =
      addTo (perKeyOf es) a d.toNat := by
  simp [perKeyOf, List.foldl_append]

theorem perLocOf_report (es : List Eff) (a : String) (d : Int) (x y z : String) :
    perLocOf (es ++ [{ name := "tunnelTimePerKey.Add", args := [d], strs := [a] },
                     { name := "tunnelTimePerLocation.Add", args := [d], strs := [x, y, z] }]) =
      addTo (perLocOf es) (x ++ "|" ++ y ++ "|" ++ z) d.toNat := by
  simp [perLocOf, List.foldl_append]

theorem beq_absKey (asnLabel : Int → String) (e : Code.IPKey × Code.activeClient) (k : Code.IPKey) :
    ((absClient asnLabel e).k == absKey k) = decide (e.1 = k) := by
  by_cases h : e.1 = k
  · simp [h, absClient]
  · have : absKey e.1 ≠ absKey k := fun hh => h (absKey_inj hh)
    simp [h, absClient, this]

theorem find_abs (asnLabel : Int → String) (ents : List (Code.IPKey × Code.activeClient)) (k : Code.IPKey) :
    (ents.map (absClient asnLabel)).find? (fun x => x.k == absKey k) =
      (ents.find? (fun e => e.1 = k)).map (absClient asnLabel) := by
  induction ents with
  | nil => rfl
  | cons e rest ih =>
    simp only [List.map_cons, List.find?_cons, beq_absKey]
    by_cases h : e.1 = k <;> simp [h, ih]

theorem map_mapIf_abs (asnLabel : Int → String) (ents : List (Code.IPKey × Code.activeClient)) (k : Code.IPKey)
    (v : Code.activeClient) (g : Client → Client)
    (hg : ∀ e ∈ ents, e.1 = k → absClient asnLabel (k, v) = g (absClient asnLabel e)) :
    (ents.map (fun e => if e.1 = k then (k, v) else e)).map (absClient asnLabel) =
      (ents.map (absClient asnLabel)).map (fun x => if x.k == absKey k then g x else x) := by
  induction ents with
  | nil => rfl
  | cons e rest ih =>
    have ih' := ih (fun e' he' => hg e' (List.mem_cons_of_mem _ he'))
    simp only [List.map_cons, beq_absKey]
    by_cases h : e.1 = k
    · simp only [h, if_true, decide_true]
      rw [hg e List.mem_cons_self h]
      simp only [List.map_map] at ih' ⊢
      simp [h, ih']
    · simp only [h, if_false, decide_false, Bool.false_eq_true]
      simp only [List.map_map] at ih' ⊢
      simp [ih']

theorem filter_abs (asnLabel : Int → String) (ents : List (Code.IPKey × Code.activeClient)) (k : Code.IPKey) :
    (ents.filter (fun e => ¬ e.1 = k)).map (absClient asnLabel) =
      (ents.map (absClient asnLabel)).filter (fun x => !(x.k == absKey k)) := by
  induction ents with
  | nil => rfl
  | cons e rest ih =>
    simp only [List.map_cons, List.filter_cons, beq_absKey, decide_not] at ih ⊢
    by_cases h : e.1 = k <;> simp [h, ih]

theorem toNat_sub_nat (now : Nat) (s : Int) (hs : 0 ≤ s) : ((now : Int) - s).toNat = now - s.toNat := by
  omega

theorem eq_of_nodup_keys {V : Type} (ents : List (Code.IPKey × V)) (hnd : (ents.map (·.1)).Nodup)
    {e : Code.IPKey × V} {k : Code.IPKey} {v : V} (he : e ∈ ents) (hin : (k, v) ∈ ents) (hk : e.1 = k) : e = (k, v) := by
  induction ents with
  | nil => cases he
  | cons x rest ih =>
    simp only [List.map_cons, List.nodup_cons, List.mem_map, not_exists, not_and] at hnd
    rcases List.mem_cons.1 he with h1 | h1 <;> rcases List.mem_cons.1 hin with h2 | h2
    · rw [h1, h2]
    · exact absurd (by rw [← h1, hk]) (hnd.1 (k, v) h2)
    · exact absurd (by rw [← h2]; exact hk) (hnd.1 e h1)
    · exact ih hnd.2 h1 h2

/-- **stopConnection**: never panics, preserves the simulation, does what the model's `stop` does -/
theorem stop_tie (asnLabel : Int → String) (now : Nat) (c : Code.tunnelTimeMetrics) (t : TT) (k : Code.IPKey)
    (h : Sim asnLabel c t) :
    ∃ c', Code.tunnelTimeMetrics.stopConnection asnLabel (now : Int) c k = some c' ∧ c'.ip2info = c.ip2info ∧
      Sim asnLabel c' (stop t (absKey k) now) := by
  obtain ⟨hact, hpk, hpl, hnd, hnn⟩ := h
  unfold Code.tunnelTimeMetrics.stopConnection
  by_cases hmem : k ∈ c.activeClients.keys
  · -- the client is registered
    obtain ⟨cl, hget, hin⟩ := GoMap.get?_isSome_of_mem c.activeClients k hmem
    have hfind : find t (absKey k) = some (absClient asnLabel (k, cl)) := by
      unfold find
      rw [hact, find_abs]
      have := hget
      rw [GoMap.get?_eq] at this
      cases hf : c.activeClients.ents.find? (fun e => e.1 = k) with
      | none => simp [hf] at this
      | some e =>
        simp only [hf, Option.map_some, Option.some.injEq] at this ⊢
        have hk : e.1 = k := by simpa using List.find?_some hf
        cases e with | mk a b => simp at hk this; simp [hk, this]
    have hstart : 0 ≤ cl.startTime := hnn _ hin
    simp only [GoMap.contains_eq, hmem, decide_true, Bool.not_true, Bool.false_eq_true, if_false, hget, Option.getD_some,
      GoMap.contains_eq]
    by_cases hle : cl.connCount - 1 ≤ 0
    · -- last tunnel: report and remove
      simp only [hle, decide_true, if_true, report_eq, Option.bind_eq_bind, Option.bind_some, pure, bind]
      refine ⟨_, rfl, rfl, ?_⟩
      unfold stop
      simp only [hfind]
      have hc : (absClient asnLabel (k, cl)).count - 1 ≤ 0 := by simpa [absClient] using hle
      simp only [hc, if_true]
      constructor
      · simp only [report, GoMap.ents_erase]
        rw [GoMap.ents_insert_present, GoMap.ents_insert_present]
        · rw [GoMap.filter_mapIf, GoMap.filter_mapIf, filter_abs, hact]
        · simpa [GoMap.keys] using hmem
        · rw [GoMap.keys, GoMap.ents_insert_present _ _ _ hmem, GoMap.keys_mapIf]; exact hmem
      · simp only [report, perKeyOf_report, hpk, absClient, absKey, toNat_sub_nat now cl.startTime hstart]
      · simp only [report, perLocOf_report, hpl, absClient, locOf, toNat_sub_nat now cl.startTime hstart]
      · simp only [GoMap.keys, GoMap.ents_erase]
        rw [GoMap.ents_insert_present, GoMap.ents_insert_present]
        · rw [GoMap.filter_mapIf, GoMap.filter_mapIf]
          have := hnd
          simp only [GoMap.keys] at this
          exact (List.Nodup.sublist (List.Sublist.map _ List.filter_sublist) this)
        · simpa [GoMap.keys] using hmem
        · rw [GoMap.keys, GoMap.ents_insert_present _ _ _ hmem, GoMap.keys_mapIf]; exact hmem
      · intro e he
        simp only [GoMap.ents_erase] at he
        rw [GoMap.ents_insert_present, GoMap.ents_insert_present] at he
        · rw [GoMap.filter_mapIf, GoMap.filter_mapIf] at he
          exact hnn e (List.mem_filter.1 he).1
        · simpa [GoMap.keys] using hmem
        · rw [GoMap.keys, GoMap.ents_insert_present _ _ _ hmem, GoMap.keys_mapIf]; exact hmem
    · -- other tunnels of the client remain: only the count goes down
      simp only [hle, decide_false, Bool.false_eq_true, if_false, pure, bind, Option.bind_eq_bind, Option.bind_some]
      refine ⟨_, rfl, rfl, ?_⟩
      unfold stop
      simp only [hfind]
      have hc : ¬ (absClient asnLabel (k, cl)).count - 1 ≤ 0 := by simpa [absClient] using hle
      simp only [hc, if_false]
      constructor
      · simp only []
        rw [GoMap.ents_insert_present _ _ _ hmem, hact]
        symm
        apply map_mapIf_abs asnLabel c.activeClients.ents k _ (fun x => { x with count := x.count - 1 })
        intro e he hek
        have : e = (k, cl) := eq_of_nodup_keys c.activeClients.ents hnd he hin hek
        subst this
        simp [absClient]
      · exact hpk
      · exact hpl
      · rw [GoMap.keys, GoMap.ents_insert_present _ _ _ hmem, GoMap.keys_mapIf]; exact hnd
      · intro e he
        rw [GoMap.ents_insert_present _ _ _ hmem] at he
        obtain ⟨e0, he0, rfl⟩ := List.mem_map.1 he
        by_cases hk : e0.1 = k
        · simp only [hk, if_true]; exact hstart
        · simp only [hk, if_false]; exact hnn e0 he0
  · -- "Failed to find active client": nothing changes
    have hfind : find t (absKey k) = none := by
      unfold find
      rw [hact, find_abs]
      have : c.activeClients.ents.find? (fun e => e.1 = k) = none := by
        apply List.find?_eq_none.2
        intro e he hk
        apply hmem
        simp only [GoMap.keys, List.mem_map]
        exact ⟨e, he, by simpa using hk⟩
      simp [this]
    simp only [GoMap.contains_eq, hmem, decide_false, Bool.not_false, if_true, pure]
    refine ⟨c, rfl, rfl, ?_⟩
    unfold stop
    simp only [hfind]
    exact ⟨hact, hpk, hpl, hnd, hnn⟩

theorem mapIf_absent {V : Type} (ents : List (Code.IPKey × V)) (k : Code.IPKey) (v : V) (h : k ∉ ents.map (·.1)) :
    ents.map (fun e => if e.1 = k then (k, v) else e) = ents := by
  induction ents with
  | nil => rfl
  | cons e rest ih =>
    simp only [List.map_cons, List.mem_cons, not_or] at h
    have h1 : ¬ e.1 = k := fun hh => h.1 hh.symm
    simp [h1, ih h.2]

/-- what the location lookup of `startConnection` answers for this client (the translated GetIPInfoFromIP never panics) -/
def lookupInfo (get : Opaque "ipinfo.IPInfoMap" → List UInt8 → Code.IPInfo × Option String)
    (asSlice : Opaque "netip.Addr" → List UInt8) (c : Code.tunnelTimeMetrics) (k : Code.IPKey) : Code.IPInfo :=
  ((Code.GetIPInfoFromIP get c.ip2info (asSlice k.ip)).getD (Code.IPInfo.zero, none)).1

theorem lookup_some (get : Opaque "ipinfo.IPInfoMap" → List UInt8 → Code.IPInfo × Option String)
    (asSlice : Opaque "netip.Addr" → List UInt8) (c : Code.tunnelTimeMetrics) (k : Code.IPKey) :
    ∃ e, Code.GetIPInfoFromIP get c.ip2info (asSlice k.ip) = some (lookupInfo get asSlice c k, e) := by
  have h := Tie.IP.getIPInfoFromIP_tie get c.ip2info (asSlice k.ip)
  unfold lookupInfo
  cases hr : Code.GetIPInfoFromIP get c.ip2info (asSlice k.ip) with
  | none => simp [hr] at h
  | some r => exact ⟨r.2, by simp⟩

/-- **startConnection**: never panics, preserves the simulation, does what the model's `start` does -/
theorem start_tie (get : Opaque "ipinfo.IPInfoMap" → List UInt8 → Code.IPInfo × Option String)
    (asSlice : Opaque "netip.Addr" → List UInt8) (asnLabel : Int → String) (now : Nat)
    (c : Code.tunnelTimeMetrics) (t : TT) (k : Code.IPKey) (h : Sim asnLabel c t) :
    ∃ c', Code.tunnelTimeMetrics.startConnection asSlice get (now : Int) c k = some c' ∧ c'.ip2info = c.ip2info ∧
      Sim asnLabel c' (start t (absKey k) now (locOf asnLabel (lookupInfo get asSlice c k))) := by
  obtain ⟨hact, hpk, hpl, hnd, hnn⟩ := h
  unfold Code.tunnelTimeMetrics.startConnection
  by_cases hmem : k ∈ c.activeClients.keys
  · obtain ⟨cl, hget, hin⟩ := GoMap.get?_isSome_of_mem c.activeClients k hmem
    have hfind : find t (absKey k) = some (absClient asnLabel (k, cl)) := by
      unfold find
      rw [hact, find_abs]
      have := hget
      rw [GoMap.get?_eq] at this
      cases hf : c.activeClients.ents.find? (fun e => e.1 = k) with
      | none => simp [hf] at this
      | some e =>
        simp only [hf, Option.map_some, Option.some.injEq] at this ⊢
        have hk : e.1 = k := by simpa using List.find?_some hf
        cases e with | mk a b => simp at hk this; simp [hk, this]
    simp only [GoMap.contains_eq, hmem, decide_true, Bool.not_true, Bool.false_eq_true, if_false, hget, Option.getD_some,
      pure, bind, Option.bind_eq_bind, Option.bind_some]
    refine ⟨_, rfl, rfl, ?_⟩
    unfold start
    simp only [hfind]
    constructor
    · simp only []
      rw [GoMap.ents_insert_present _ _ _ hmem, hact]
      symm
      apply map_mapIf_abs asnLabel c.activeClients.ents k _ (fun x => { x with count := x.count + 1 })
      intro e he hek
      have : e = (k, cl) := eq_of_nodup_keys c.activeClients.ents hnd he hin hek
      subst this
      simp [absClient]
    · exact hpk
    · exact hpl
    · rw [GoMap.keys, GoMap.ents_insert_present _ _ _ hmem, GoMap.keys_mapIf]; exact hnd
    · intro e he
      rw [GoMap.ents_insert_present _ _ _ hmem] at he
      obtain ⟨e0, he0, rfl⟩ := List.mem_map.1 he
      by_cases hk : e0.1 = k
      · simp only [hk, if_true]; exact hnn _ hin
      · simp only [hk, if_false]; exact hnn e0 he0
  · have hfind : find t (absKey k) = none := by
      unfold find
      rw [hact, find_abs]
      have : c.activeClients.ents.find? (fun e => e.1 = k) = none := by
        apply List.find?_eq_none.2
        intro e he hk
        apply hmem
        simp only [GoMap.keys, List.mem_map]
        exact ⟨e, he, by simpa using hk⟩
      simp [this]
    obtain ⟨er, hlook⟩ := lookup_some get asSlice c k
    simp only [GoMap.contains_eq, hmem, decide_false, Bool.not_false, if_true, hlook, pure, bind, Option.bind_eq_bind,
      Option.bind_some, Bool.false_eq_true, if_false]
    refine ⟨_, rfl, rfl, ?_⟩
    unfold start
    simp only [hfind]
    have hk1 : k ∈ (GoMap.insert c.activeClients k
        { Code.activeClient.zero with info := lookupInfo get asSlice c k, startTime := (now : Int) }).keys := by
      rw [GoMap.keys_insert_absent _ _ _ hmem]; exact List.mem_cons_self
    constructor
    · simp only []
      rw [GoMap.ents_insert_present _ _ _ hk1, GoMap.ents_insert_absent _ _ _ hmem]
      simp only [List.map_cons, if_true]
      rw [mapIf_absent _ _ _ (by simpa [GoMap.keys] using hmem), hact]
      simp [absClient, Code.activeClient.zero]
    · exact hpk
    · exact hpl
    · rw [GoMap.keys, GoMap.ents_insert_present _ _ _ hk1, GoMap.keys_mapIf, ← GoMap.keys,
        GoMap.keys_insert_absent _ _ _ hmem]
      exact List.nodup_cons.2 ⟨hmem, hnd⟩
    · intro e he
      rw [GoMap.ents_insert_present _ _ _ hk1, GoMap.ents_insert_absent _ _ _ hmem] at he
      simp only [List.map_cons, if_true] at he
      rw [mapIf_absent _ _ _ (by simpa [GoMap.keys] using hmem)] at he
      rcases List.mem_cons.1 he with h1 | h1
      · rw [h1]; simp
      · exact hnn e h1

/-! ### Collect: the loop over the active clients -/

/-- the two metric calls `reportTunnelTime` makes for an entry -/
def effsOf (asnLabel : Int → String) (now : Nat) (e : Code.IPKey × Code.activeClient) : List Eff :=
  [{ name := "tunnelTimePerKey.Add", args := [(now : Int) - e.2.startTime], strs := [e.1.accessKey] },
   { name := "tunnelTimePerLocation.Add", args := [(now : Int) - e.2.startTime],
     strs := [e.2.info.CountryCode, asnLabel e.2.info.ASN.Number, e.2.info.ASN.Organization] }]

def restart (now : Nat) (e : Code.IPKey × Code.activeClient) : Code.IPKey × Code.activeClient :=
  (e.1, { e.2 with startTime := (now : Int) })

theorem find_in_append {V : Type} (pre rest : List (Code.IPKey × V)) (e : Code.IPKey × V)
    (h : e.1 ∉ pre.map (·.1)) : (pre ++ e :: rest).find? (fun x => x.1 = e.1) = some e := by
  induction pre with
  | nil => simp
  | cons p ps ih =>
    simp only [List.map_cons, List.mem_cons, not_or] at h
    have : ¬ p.1 = e.1 := fun hh => h.1 hh.symm
    simp [List.find?_cons, this, ih h.2]

theorem mapIf_in_append {V : Type} (pre rest : List (Code.IPKey × V)) (e : Code.IPKey × V) (v : V)
    (h1 : e.1 ∉ pre.map (·.1)) (h2 : e.1 ∉ rest.map (·.1)) :
    (pre ++ e :: rest).map (fun x => if x.1 = e.1 then (e.1, v) else x) = pre ++ (e.1, v) :: rest := by
  rw [List.map_append, List.map_cons, mapIf_absent pre e.1 v h1, mapIf_absent rest e.1 v h2]
  simp

/-- what one iteration of `Collect`'s loop does to the collector, for a key that is registered -/
def collectStep (asnLabel : Int → String) (now : Nat) (c : Code.tunnelTimeMetrics) (k : Code.IPKey) (cl : Code.activeClient) :
    Code.tunnelTimeMetrics :=
  { c with activeClients := c.activeClients.insert k { cl with startTime := (now : Int) },
           eff := c.eff ++ effsOf asnLabel now (k, cl) }

/-- the loop of `Collect` for ANY body that does `collectStep` on registered keys: every entry is reported once, in
    map order, and its period restarts -/
theorem collect_loop (asnLabel : Int → String) (now : Nat)
    (body : Code.IPKey → Code.tunnelTimeMetrics → Option (ForInStep Code.tunnelTimeMetrics))
    (hbody : ∀ (k : Code.IPKey) (c : Code.tunnelTimeMetrics) (cl : Code.activeClient),
      c.activeClients.get? k = some cl → k ∈ c.activeClients.keys →
      body k c = some (ForInStep.yield (collectStep asnLabel now c k cl))) :
    ∀ (rest pre : List (Code.IPKey × Code.activeClient)) (c : Code.tunnelTimeMetrics),
      c.activeClients.ents = pre ++ rest → ((pre ++ rest).map (·.1)).Nodup →
      forIn (rest.map (·.1)) c body =
        some { c with activeClients := ⟨pre ++ rest.map (restart now)⟩, eff := c.eff ++ rest.flatMap (effsOf asnLabel now) } := by
  intro rest
  induction rest with
  | nil =>
    intro pre c h _
    have : c.activeClients = ⟨pre⟩ := by cases hc : c.activeClients; simp [hc] at h; simp [h]
    simp [← this]
  | cons e rest ih =>
    intro pre c h hnd
    have hnd' := hnd
    rw [List.map_append, List.map_cons] at hnd'
    have hpre : e.1 ∉ pre.map (·.1) := by
      intro hh
      have := (List.nodup_append.1 hnd').2.2 _ hh _ List.mem_cons_self
      exact this rfl
    have hrest : e.1 ∉ rest.map (·.1) := (List.nodup_cons.1 (List.nodup_append.1 hnd').2.1).1
    have hget : c.activeClients.get? e.1 = some e.2 := by
      rw [GoMap.get?_eq, h, find_in_append pre rest e hpre]; rfl
    have hmem : e.1 ∈ c.activeClients.keys := by
      simp only [GoMap.keys, h, List.map_append, List.map_cons, List.mem_append, List.mem_cons, true_or, or_true]
    simp only [List.map_cons, List.forIn_cons, hbody e.1 c e.2 hget hmem, Option.bind_eq_bind, Option.bind_some]
    have hc1 : (collectStep asnLabel now c e.1 e.2).activeClients.ents = (pre ++ [restart now e]) ++ rest := by
      show (GoMap.insert c.activeClients e.1 _).ents = _
      rw [GoMap.ents_insert_present _ _ _ hmem, h, mapIf_in_append pre rest e _ hpre hrest]
      simp [restart]
    have hnd1 : (((pre ++ [restart now e]) ++ rest).map (·.1)).Nodup := by
      have : ((pre ++ [restart now e]) ++ rest).map (·.1) = (pre ++ e :: rest).map (·.1) := by simp [restart]
      rw [this]; exact hnd
    rw [ih (pre ++ [restart now e]) (collectStep asnLabel now c e.1 e.2) hc1 hnd1]
    simp [collectStep, List.append_assoc]

theorem fold_counters (asnLabel : Int → String) (now : Nat) :
    ∀ (ents : List (Code.IPKey × Code.activeClient)) (es : List Eff) (t : TT),
      t.perKey = perKeyOf es → t.perLoc = perLocOf es → (∀ e ∈ ents, 0 ≤ e.2.startTime) →
      ((ents.map (absClient asnLabel)).foldl (fun acc c => report acc c now) t).perKey =
          perKeyOf (es ++ ents.flatMap (effsOf asnLabel now)) ∧
      ((ents.map (absClient asnLabel)).foldl (fun acc c => report acc c now) t).perLoc =
          perLocOf (es ++ ents.flatMap (effsOf asnLabel now)) := by
  intro ents
  induction ents with
  | nil => intro es t h1 h2 _; simpa using ⟨h1, h2⟩
  | cons e rest ih =>
    intro es t h1 h2 hnn
    have hs : 0 ≤ e.2.startTime := hnn e List.mem_cons_self
    simp only [List.map_cons, List.foldl_cons, List.flatMap_cons]
    rw [← List.append_assoc]
    apply ih
    · simp only [report, effsOf, perKeyOf_report, h1, absClient, absKey, toNat_sub_nat now e.2.startTime hs]
    · simp only [report, effsOf, perLocOf_report, h2, absClient, locOf, toNat_sub_nat now e.2.startTime hs]
    · intro x hx; exact hnn x (List.mem_cons_of_mem _ hx)

/-- **Collect**: never panics, preserves the simulation, does what the model's `collect` does (every active
    client is reported once and its period restarts), whatever the order of the map -/
theorem collect_tie (asnLabel : Int → String) (now : Nat) (c : Code.tunnelTimeMetrics) (t : TT)
    (h : Sim asnLabel c t) :
    ∃ c', Code.tunnelTimeMetrics.Collect asnLabel (now : Int) c = some c' ∧ c'.ip2info = c.ip2info ∧
      Sim asnLabel c' (collect t now) := by
  obtain ⟨hact, hpk, hpl, hnd, hnn⟩ := h
  have hloop : Code.tunnelTimeMetrics.Collect asnLabel (now : Int) c =
      some { c with activeClients := ⟨c.activeClients.ents.map (restart now)⟩,
                    eff := c.eff ++ c.activeClients.ents.flatMap (effsOf asnLabel now) } := by
    unfold Code.tunnelTimeMetrics.Collect
    simp only [GoMap.keys, Option.bind_eq_bind]
    rw [collect_loop asnLabel now _ ?_ c.activeClients.ents [] c (by simp) (by simpa [GoMap.keys] using hnd)]
    · rfl
    · intro k c0 cl hget hmem
      simp [hget, hmem, report_eq, collectStep, effsOf, GoMap.contains_eq]
  refine ⟨_, hloop, rfl, ?_⟩
  have h3 : (⟨c.activeClients.ents.map (restart now)⟩ : GoMap Code.IPKey Code.activeClient).ents = c.activeClients.ents.map (restart now) := rfl
  have h4 : ({ c with activeClients := ⟨c.activeClients.ents.map (restart now)⟩,
                      eff := c.eff ++ c.activeClients.ents.flatMap (effsOf asnLabel now) } : Code.tunnelTimeMetrics).eff =
      c.eff ++ c.activeClients.ents.flatMap (effsOf asnLabel now) := rfl
  have hf := fold_counters asnLabel now c.activeClients.ents c.eff t hpk hpl hnn
  unfold collect
  constructor
  · simp only [foldl_report_active, hact, h3, List.map_map]
    apply List.map_congr_left
    intro e _
    simp [absClient, restart]
  · simp only []; rw [hact, hf.1]
  · simp only []; rw [hact, hf.2]
  · rw [GoMap.keys, h3, List.map_map]
    have : ((fun x : Code.IPKey × Code.activeClient => x.1) ∘ restart now) = (fun x => x.1) := by funext x; rfl
    rw [this]; exact hnd
  · intro e he
    rw [h3] at he
    obtain ⟨e0, _, rfl⟩ := List.mem_map.1 he
    simp [restart]

/-! ### Histories of translated operations -/

inductive COp
  | start (k : Code.IPKey) (now : Nat)
  | stop (k : Code.IPKey) (now : Nat)
  | collect (now : Nat)

section
variable (get : Opaque "ipinfo.IPInfoMap" → List UInt8 → Code.IPInfo × Option String)
  (asSlice : Opaque "netip.Addr" → List UInt8) (asnLabel : Int → String)

def codeStep (c : Code.tunnelTimeMetrics) : COp → Option Code.tunnelTimeMetrics
  | .start k now => Code.tunnelTimeMetrics.startConnection asSlice get (now : Int) c k
  | .stop k now => Code.tunnelTimeMetrics.stopConnection asnLabel (now : Int) c k
  | .collect now => Code.tunnelTimeMetrics.Collect asnLabel (now : Int) c

def codeRun (c : Code.tunnelTimeMetrics) : List COp → Option Code.tunnelTimeMetrics
  | [] => some c
  | o :: os => (codeStep get asSlice asnLabel c o).bind (fun c' => codeRun c' os)

/-- the model operation a translated operation amounts to (the location is what the lookup answers) -/
def absOp (db : Opaque "ipinfo.IPInfoMap") : COp → Op
  | .start k now => .start (absKey k) now
      (locOf asnLabel ((Code.GetIPInfoFromIP get db (asSlice k.ip)).getD (Code.IPInfo.zero, none)).1)
  | .stop k now => .stop (absKey k) now
  | .collect now => .collect now

/-- **every history of translated operations never panics and is simulated by the model's run** -/
theorem codeRun_sim : ∀ (os : List COp) (c : Code.tunnelTimeMetrics) (t : TT), Sim asnLabel c t →
    ∃ c', codeRun get asSlice asnLabel c os = some c' ∧
      Sim asnLabel c' (run t (os.map (absOp get asSlice asnLabel c.ip2info))) := by
  intro os
  induction os with
  | nil => intro c t h; exact ⟨c, rfl, h⟩
  | cons o os ih =>
    intro c t h
    cases o with
    | start k now =>
      obtain ⟨c1, h1, h2, h3⟩ := start_tie get asSlice asnLabel now c t k h
      obtain ⟨c', h4, h5⟩ := ih c1 _ h3
      refine ⟨c', by simp [codeRun, codeStep, h1, h4], ?_⟩
      rw [h2] at h5
      simpa [List.map_cons, run, step, absOp, lookupInfo] using h5
    | stop k now =>
      obtain ⟨c1, h1, h2, h3⟩ := stop_tie asnLabel now c t k h
      obtain ⟨c', h4, h5⟩ := ih c1 _ h3
      refine ⟨c', by simp [codeRun, codeStep, h1, h4], ?_⟩
      rw [h2] at h5
      simpa [List.map_cons, run, step, absOp] using h5
    | collect now =>
      obtain ⟨c1, h1, h2, h3⟩ := collect_tie asnLabel now c t h
      obtain ⟨c', h4, h5⟩ := ih c1 _ h3
      refine ⟨c', by simp [codeRun, codeStep, h1, h4], ?_⟩
      rw [h2] at h5
      simpa [List.map_cons, run, step, absOp] using h5

theorem sim_zero (db : Opaque "ipinfo.IPInfoMap") :
    Sim asnLabel { Code.tunnelTimeMetrics.zero with ip2info := db } TT.init :=
  ⟨rfl, rfl, rfl, List.nodup_nil, by intro e he; cases he⟩
end

end OutlineModel.Tie.TunnelTime
