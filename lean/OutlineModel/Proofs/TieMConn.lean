import OutlineModel.Proofs.GoRT
import OutlineModel.Gen.Code
import OutlineModel.Model.MConn
/-
Tie between the TRANSLATED service/metrics.measuredConn (Read, Write, WriteTo, ReadFrom — Gen/Code.lean,
regenerated from the source on every run) and the counting model Model/MConn.lean: every method hands the
underlying connection's answer through unchanged and adds exactly the returned byte count to exactly one
of the two counters.  The underlying operations are parameters (any functions).
-/
set_option linter.unusedSimpArgs false
namespace OutlineModel.Tie.MConn
open OutlineModel OutlineModel.GoRT OutlineModel.MConn
open OutlineModel.Gen

/-- the two counters of a translated wrapper as the model's state (counters never go below zero as long as
    the underlying connection reports non-negative counts, which is io.Reader's / io.Writer's contract) -/
def abs (c : Code.measuredConn) : St := { rd := c.readCount.toNat, wr := c.writeCount.toNat }

theorem read_tie (R : Opaque "transport.StreamConn" → List UInt8 → Int × Option String) (c : Code.measuredConn) (b : List UInt8)
    (h0 : 0 ≤ c.readCount) (hn : 0 ≤ (R c.StreamConn b).1) :
    ∃ c', Code.measuredConn.Read R c b = some (c', (R c.StreamConn b).1, (R c.StreamConn b).2) ∧
      abs c' = step (abs c) (.read (R c.StreamConn b).1.toNat) ∧ c'.StreamConn = c.StreamConn := by
  refine ⟨{ c with readCount := c.readCount + (R c.StreamConn b).1 }, rfl, ?_, rfl⟩
  simp only [abs, step, St.mk.injEq, and_true]
  omega

theorem write_tie (W : Opaque "transport.StreamConn" → List UInt8 → Int × Option String) (c : Code.measuredConn) (b : List UInt8)
    (h0 : 0 ≤ c.writeCount) (hn : 0 ≤ (W c.StreamConn b).1) :
    ∃ c', Code.measuredConn.Write W c b = some (c', (W c.StreamConn b).1, (W c.StreamConn b).2) ∧
      abs c' = step (abs c) (.write b.length (W c.StreamConn b).1.toNat) ∧ c'.StreamConn = c.StreamConn := by
  refine ⟨{ c with writeCount := c.writeCount + (W c.StreamConn b).1 }, rfl, ?_, rfl⟩
  simp only [abs, step, St.mk.injEq, true_and]
  omega

/-- WriteTo = io.Copy(w, underlying): the read counter grows by what io.Copy reports (the model's `copied steps`) -/
theorem writeTo_tie (copy : Opaque "io.Writer" → Opaque "transport.StreamConn" → Int × Option String)
    (c : Code.measuredConn) (w : Opaque "io.Writer") (steps : List CopyStep)
    (h0 : 0 ≤ c.readCount) (hn : (copy w c.StreamConn).1 = (copied steps : Int)) :
    ∃ c', Code.measuredConn.WriteTo copy c w = some (c', (copy w c.StreamConn).1, (copy w c.StreamConn).2) ∧
      abs c' = step (abs c) (.writeTo steps) := by
  refine ⟨{ c with readCount := c.readCount + (copy w c.StreamConn).1 }, rfl, ?_⟩
  simp only [abs, step, St.mk.injEq, and_true, hn]
  omega

/-- ReadFrom: through the underlying ReaderFrom when there is one, else io.Copy(underlying, r); either way
    the write counter grows by the reported count -/
theorem readFrom_tie (impl : Opaque "transport.StreamConn" → Bool)
    (rf : Opaque "io.ReaderFrom" → Opaque "io.Reader" → Int × Option String)
    (copy : Opaque "transport.StreamConn" → Opaque "io.Reader" → Int × Option String)
    (c : Code.measuredConn) (r : Opaque "io.Reader") (steps : List CopyStep) (h0 : 0 ≤ c.writeCount)
    (hn : (if impl c.StreamConn then rf ⟨c.StreamConn.val⟩ r else copy c.StreamConn r).1 = (copied steps : Int)) :
    ∃ c', Code.measuredConn.ReadFrom rf impl copy c r =
        some (c', (if impl c.StreamConn then rf ⟨c.StreamConn.val⟩ r else copy c.StreamConn r).1,
                  (if impl c.StreamConn then rf ⟨c.StreamConn.val⟩ r else copy c.StreamConn r).2) ∧
      abs c' = step (abs c) (.readFrom (impl c.StreamConn) steps) := by
  unfold Code.measuredConn.ReadFrom
  cases hi : impl c.StreamConn <;>
    simp only [hi, Bool.false_eq_true, if_false, if_true, Bool.not_false, Bool.not_true] at hn ⊢ <;>
    refine ⟨_, rfl, ?_⟩ <;>
    simp only [abs, step, St.mk.injEq, true_and, hn] <;>
    omega

end OutlineModel.Tie.MConn
