/-
Proofs about configuration loading and hot reload (OutlineModel/Model/Config.lean).

Main results (all for arbitrary `canon`, `addrOK`, configuration and fault):
  * `startAll_spec`, `releaseAll_spec`          : what the two phases of `load` compute
  * `load_ok_eq_accepts`                        : whether a load succeeds does not depend on the server
  * `load_failed_restores`                      : a failed reload keeps the old configuration, nothing leaks
  * `load_ok_replaces`, `consistent_preserved`  : manager = handles of the serving configuration
  * `reload_all_or_nothing`                     : bound/served = the most recent successful configuration
  * `retained_never_unbound`                    : a retained listener key is bound in every intermediate state
  * `authOn_first`, `authOn_none_of_not_listed` : attribution on a listener uses only its own service's keys

No extra hypotheses (no `Nodup`) were needed for any of the requested statements; the only deviation
from the informal request is in `startAll_spec`: "all of them iff the Bool is true" is stated as
"the un-started remainder `rest` of the plan is empty iff the Bool is true", because
`started = plan.filterMap id` alone does NOT imply success (counterexample `plan = [none]`: nothing is
started, `filterMap id = []`, yet the Bool is `false`; see the `example` after `startAll_spec`).
-/
import OutlineModel.Model.Config

namespace OutlineModel.Config

abbrev PlanEntry := Option (String × List (String × ClientKey))

/-- the manager holds exactly the handles of the serving configuration -/
def Consistent (s : Server) : Prop := s.mgr.Perm (s.cur.map (·.1))

/-! ### 1. `startAll` -/

/-- `startAll` splits the plan into the started prefix (all `some`) and an un-started remainder;
    the Bool says the remainder is empty; the manager gets the started keys pushed in order; every
    state added to the trace has the initial manager as a suffix (nothing old is ever removed). -/
theorem startAll_spec (fault : Fault) (pl : List PlanEntry) :
    ∀ (i : Nat) (m : Mgr) (acc : Serving) (tr : List Mgr),
    ∃ (started : Serving) (rest : List PlanEntry) (trNew : List Mgr),
      pl = started.map some ++ rest ∧
      startAll fault i pl m acc tr =
        (rest.isEmpty, (started.map (·.1)).reverse ++ m, acc.reverse ++ started, tr ++ trNew) ∧
      started <+: pl.filterMap id ∧
      (rest = [] → started = pl.filterMap id) ∧
      ((startAll fault i pl m acc tr).2.1).Perm (started.map (·.1) ++ m) ∧
      trNew.length = started.length ∧
      (∀ m' ∈ trNew, m <:+ m') ∧
      (∀ m' ∈ trNew, m.Sublist m') ∧
      (∀ m' ∈ trNew, ∀ x ∈ m, x ∈ m') := by
  -- the last five conjuncts follow from the first two plus the suffix property
  suffices h : ∀ (i : Nat) (m : Mgr) (acc : Serving) (tr : List Mgr),
      ∃ (started : Serving) (rest : List PlanEntry) (trNew : List Mgr),
        pl = started.map some ++ rest ∧
        startAll fault i pl m acc tr =
          (rest.isEmpty, (started.map (·.1)).reverse ++ m, acc.reverse ++ started, tr ++ trNew) ∧
        trNew.length = started.length ∧
        (∀ m' ∈ trNew, m <:+ m') by
    intro i m acc tr
    obtain ⟨started, rest, trNew, hpl, heq, hlen, hsuf⟩ := h i m acc tr
    have hfm : pl.filterMap id = started ++ rest.filterMap id := by
      rw [hpl, List.filterMap_append, List.filterMap_map]
      have : (id ∘ some : (String × List (String × ClientKey)) → _) = some := rfl
      rw [this, List.filterMap_some]
    refine ⟨started, rest, trNew, hpl, heq, ?_, ?_, ?_, hlen, hsuf, ?_, ?_⟩
    · rw [hfm]; exact List.prefix_append _ _
    · intro hr; rw [hfm, hr]; simp
    · rw [heq]
      exact (List.reverse_perm _).append_right m
    · intro m' hm'; exact (hsuf m' hm').sublist
    · intro m' hm' x hx; exact (hsuf m' hm').subset hx
  induction pl with
  | nil =>
    intro i m acc tr
    exact ⟨[], [], [], by simp, by simp [startAll], rfl, by simp⟩
  | cons e r ih =>
    intro i m acc tr
    cases e with
    | none =>
      exact ⟨[], none :: r, [], by simp, by simp [startAll], rfl, by simp⟩
    | some p =>
      obtain ⟨lk, ks⟩ := p
      by_cases hf : (fault == Fault.bind i) = true
      · exact ⟨[], some (lk, ks) :: r, [], by simp, by simp [startAll, hf], rfl, by simp⟩
      · obtain ⟨st, rest, trN, hpl, heq, hlen, hsuf⟩ :=
          ih (i + 1) (lk :: m) ((lk, ks) :: acc) (tr ++ [lk :: m])
        refine ⟨(lk, ks) :: st, rest, (lk :: m) :: trN, ?_, ?_, ?_, ?_⟩
        · simp [hpl]
        · simp only [startAll, hf]
          rw [heq]
          simp
        · simp [hlen]
        · intro m' hm'
          rcases List.mem_cons.1 hm' with h | h
          · subst h; exact List.suffix_cons _ _
          · exact List.IsSuffix.trans (List.suffix_cons _ _) (hsuf m' h)

/-- why "all started iff the Bool is true" needs the remainder formulation -/
example : (startAll .none 0 [none] [] [] []).1 = false ∧
    (startAll .none 0 [none] [] [] []).2.2.1 = ([none] : List PlanEntry).filterMap id := by decide

/-- when a load succeeds, independent of the server: readable, valid, every cipher accepted, and the
    injected bind fault (if any) lies beyond the plan -/
def accepts (canon : String → Option Nat) (addrOK : String → Bool) (c : Cfg) (fault : Fault) : Bool :=
  !(fault == .read) && validate addrOK c && (plan canon c).all Option.isSome &&
    (match fault with
     | .bind k => decide ((plan canon c).length ≤ k)
     | _ => true)

theorem startAll_ok (fault : Fault) (pl : List PlanEntry) :
    ∀ (i : Nat) (m : Mgr) (acc : Serving) (tr : List Mgr),
      (startAll fault i pl m acc tr).1 =
        (pl.all Option.isSome &&
          (match fault with
           | .bind k => decide (k < i ∨ i + pl.length ≤ k)
           | _ => true)) := by
  induction pl with
  | nil =>
    intro i m acc tr
    cases fault <;> simp [startAll]
    omega
  | cons e r ih =>
    intro i m acc tr
    cases e with
    | none => simp [startAll]
    | some p =>
      obtain ⟨lk, ks⟩ := p
      by_cases hf : (fault == Fault.bind i) = true
      · have : fault = Fault.bind i := by simpa using hf
        subst this
        simp [startAll]
      · simp only [startAll, hf, Bool.false_eq_true, if_false]
        rw [ih]
        cases fault with
        | none => simp
        | read => simp
        | bind k =>
          have hk : k ≠ i := by
            intro h; apply hf; simp [h]
          simp only [List.all_cons, Option.isSome_some, Bool.true_and, List.length_cons]
          congr 1
          apply decide_eq_decide.2
          omega

/-! ### 2. `releaseAll` -/

/-- the states `releaseAll` records -/
def relTrace : Mgr → List String → List Mgr
  | _, [] => []
  | m, h :: r => m.erase h :: relTrace (m.erase h) r

theorem releaseAll_fold (hs : List String) : ∀ (a : Mgr) (t : List Mgr),
    hs.foldl (fun (acc : Mgr × List Mgr) h => (acc.1.erase h, acc.2 ++ [acc.1.erase h])) (a, t) =
      (hs.foldl List.erase a, t ++ relTrace a hs) := by
  induction hs with
  | nil => intro a t; simp [relTrace]
  | cons h r ih => intro a t; simp [List.foldl_cons, ih, relTrace]

theorem releaseAll_eq (m : Mgr) (hs : List String) :
    releaseAll m hs = (hs.foldl List.erase m, relTrace m hs) := by
  unfold releaseAll
  rw [releaseAll_fold]; simp

theorem foldl_erase_perm (hs : List String) : ∀ (m rest : List String),
    (hs ++ rest).Perm m → (hs.foldl List.erase m).Perm rest := by
  induction hs with
  | nil => intro m rest h; exact h.symm
  | cons h r ih =>
    intro m rest hp
    simp only [List.foldl_cons]
    apply ih
    have := hp.erase h
    simpa using this

theorem releaseAll_spec (m : Mgr) (hs : List String) :
    (releaseAll m hs).1 = hs.foldl List.erase m ∧
    (∀ rest, (hs ++ rest).Perm m → (releaseAll m hs).1.Perm rest) := by
  rw [releaseAll_eq]
  exact ⟨rfl, fun rest h => foldl_erase_perm hs m rest h⟩

/-- releasing can lower the count of `x` by at most the number of `x` among the released handles,
    in the final and in every intermediate state -/
theorem count_relTrace (x : String) (hs : List String) : ∀ (m : Mgr),
    ∀ m' ∈ relTrace m hs, m.count x - hs.count x ≤ m'.count x := by
  induction hs with
  | nil => intro m m' h; simp [relTrace] at h
  | cons h r ih =>
    intro m m' hm'
    simp only [relTrace, List.mem_cons] at hm'
    have hc : (m.erase h).count x = m.count x - if (h == x) = true then 1 else 0 := List.count_erase
    rw [List.count_cons]
    rcases hm' with rfl | hm'
    · rw [hc]; omega
    · have := ih (m.erase h) m' hm'
      rw [hc] at this
      omega

/-! ### 3.–5. `load` -/

theorem load_ok_eq_accepts (canon : String → Option Nat) (addrOK : String → Bool) (s : Server)
    (c : Cfg) (fault : Fault) :
    (load canon addrOK s c fault).2.1 = accepts canon addrOK c fault := by
  unfold load accepts
  by_cases hr : (fault == Fault.read) = true
  · simp [hr]
  · by_cases hv : validate addrOK c = true
    · have hok := startAll_ok fault (plan canon c) 0 s.mgr [] []
      simp only [hr, hv]
      generalize startAll fault 0 (plan canon c) s.mgr [] [] = r at hok
      obtain ⟨ok, m1, started, tr1⟩ := r
      simp only at hok
      subst hok
      cases hall : (plan canon c).all Option.isSome <;> cases fault <;> simp at hr ⊢
      split <;> simp [*]
    · simp [hr, hv]

/-- the result of `load` when it gets past reading and validation, in terms of the `startAll_spec`
    decomposition -/
theorem load_unfold (canon : String → Option Nat) (addrOK : String → Bool) (s : Server)
    (c : Cfg) (fault : Fault) :
    (load canon addrOK s c fault = (s, false, [])) ∨
    ∃ (started : Serving) (rest : List PlanEntry) (tr1 : List Mgr),
      plan canon c = started.map some ++ rest ∧
      (∀ m' ∈ tr1, s.mgr <:+ m') ∧
      ((rest = [] ∧
        load canon addrOK s c fault =
          ({ mgr := (s.cur.map (·.1)).foldl List.erase ((started.map (·.1)).reverse ++ s.mgr),
             cur := started }, true,
           tr1 ++ relTrace ((started.map (·.1)).reverse ++ s.mgr) (s.cur.map (·.1)))) ∨
       (rest ≠ [] ∧
        load canon addrOK s c fault =
          ({ s with mgr := (started.map (·.1)).foldl List.erase ((started.map (·.1)).reverse ++ s.mgr) },
           false,
           tr1 ++ relTrace ((started.map (·.1)).reverse ++ s.mgr) (started.map (·.1))))) := by
  unfold load
  by_cases hr : (fault == Fault.read) = true
  · left; simp [hr]
  · by_cases hv : validate addrOK c = true
    · right
      obtain ⟨started, rest, trNew, hpl, heq, -, -, -, -, hsuf, -, -⟩ :=
        startAll_spec fault (plan canon c) 0 s.mgr [] []
      refine ⟨started, rest, trNew, hpl, hsuf, ?_⟩
      simp only [hr, hv, heq, releaseAll_eq]
      cases rest with
      | nil => left; simp
      | cons e r => right; simp
    · left; simp [hr, hv]

theorem load_failed_restores (canon : String → Option Nat) (addrOK : String → Bool) (s : Server)
    (c : Cfg) (fault : Fault) (hfail : (load canon addrOK s c fault).2.1 = false) :
    (load canon addrOK s c fault).1.cur = s.cur ∧ (load canon addrOK s c fault).1.mgr.Perm s.mgr := by
  rcases load_unfold canon addrOK s c fault with h | ⟨started, rest, tr1, -, -, h | h⟩
  · rw [h]; exact ⟨rfl, List.Perm.refl _⟩
  · rw [h.2] at hfail; simp at hfail
  · rw [h.2]
    refine ⟨rfl, ?_⟩
    apply foldl_erase_perm
    exact ((List.reverse_perm _).append_right s.mgr).symm

theorem load_ok_replaces (canon : String → Option Nat) (addrOK : String → Bool) (s : Server)
    (c : Cfg) (fault : Fault) (hs : Consistent s)
    (hok : (load canon addrOK s c fault).2.1 = true) :
    Consistent (load canon addrOK s c fault).1 ∧
    (load canon addrOK s c fault).1.cur = (plan canon c).filterMap id ∧
    plan canon c = ((load canon addrOK s c fault).1.cur).map some := by
  rcases load_unfold canon addrOK s c fault with h | ⟨started, rest, tr1, hpl, -, h | h⟩
  · rw [h] at hok; simp at hok
  · obtain ⟨hrest, h⟩ := h
    subst hrest
    rw [h]
    refine ⟨?_, ?_, ?_⟩
    · show List.Perm _ _
      simp only
      apply foldl_erase_perm
      -- old handles ++ new keys  ~  new keys reversed ++ old manager
      exact (List.perm_append_comm).trans
        (((List.reverse_perm _).symm).append hs.symm)
    · simp only [hpl, List.append_nil, List.filterMap_map]
      have : (id ∘ some : (String × List (String × ClientKey)) → _) = some := rfl
      rw [this, List.filterMap_some]
    · simpa using hpl
  · rw [h.2] at hok; simp at hok

theorem consistent_init : Consistent Server.init := List.Perm.refl _

theorem consistent_preserved (canon : String → Option Nat) (addrOK : String → Bool) (s : Server)
    (c : Cfg) (fault : Fault) (hs : Consistent s) :
    Consistent (load canon addrOK s c fault).1 := by
  cases hok : (load canon addrOK s c fault).2.1
  · obtain ⟨hcur, hmgr⟩ := load_failed_restores canon addrOK s c fault hok
    show List.Perm _ _
    rw [hcur]
    exact hmgr.trans hs
  · exact (load_ok_replaces canon addrOK s c fault hs hok).1

/-! ### 6. sequences of (re)loads -/

def runLoads (canon : String → Option Nat) (addrOK : String → Bool) : Server → List (Cfg × Fault) → Server
  | s, [] => s
  | s, (c, f) :: r => runLoads canon addrOK (load canon addrOK s c f).1 r

/-- replay the inputs remembering the serving list of the last configuration that was accepted -/
def lastOK (canon : String → Option Nat) (addrOK : String → Bool) : Serving → List (Cfg × Fault) → Serving
  | last, [] => last
  | last, (c, f) :: r =>
    lastOK canon addrOK (if accepts canon addrOK c f then (plan canon c).filterMap id else last) r

/-- `lastOK` really is "the last accepted input": search from the end -/
theorem lastOK_eq_find (canon : String → Option Nat) (addrOK : String → Bool)
    (inputs : List (Cfg × Fault)) : ∀ (last : Serving),
    lastOK canon addrOK last inputs =
      match inputs.reverse.find? (fun cf => accepts canon addrOK cf.1 cf.2) with
      | none => last
      | some cf => (plan canon cf.1).filterMap id := by
  induction inputs with
  | nil => intro last; simp [lastOK]
  | cons x r ih =>
    intro last
    obtain ⟨c, f⟩ := x
    simp only [lastOK, List.reverse_cons, List.find?_append]
    rw [ih]
    cases hfind : List.find? (fun cf => accepts canon addrOK cf.1 cf.2) r.reverse with
    | some cf => simp
    | none =>
      cases hacc : accepts canon addrOK c f <;> simp [hacc]

theorem runLoads_spec (canon : String → Option Nat) (addrOK : String → Bool)
    (inputs : List (Cfg × Fault)) : ∀ (s : Server), Consistent s →
    (runLoads canon addrOK s inputs).cur = lastOK canon addrOK s.cur inputs ∧
    Consistent (runLoads canon addrOK s inputs) := by
  induction inputs with
  | nil => intro s hs; exact ⟨rfl, hs⟩
  | cons x r ih =>
    intro s hs
    obtain ⟨c, f⟩ := x
    simp only [runLoads, lastOK]
    have hcons := consistent_preserved canon addrOK s c f hs
    obtain ⟨h1, h2⟩ := ih _ hcons
    refine ⟨?_, h2⟩
    rw [h1, ← load_ok_eq_accepts canon addrOK s c f]
    cases hok : (load canon addrOK s c f).2.1
    · rw [(load_failed_restores canon addrOK s c f hok).1]; simp
    · rw [(load_ok_replaces canon addrOK s c f hs hok).2.1]; simp

/-- Whatever faults happen before and after: after any sequence of loads from the initial server,
    what is served is exactly the serving list of the most recent input that loaded successfully
    (nothing if none did), and what is bound is exactly its listener keys. -/
theorem reload_all_or_nothing (canon : String → Option Nat) (addrOK : String → Bool)
    (inputs : List (Cfg × Fault)) :
    let final := runLoads canon addrOK Server.init inputs
    let served : Serving :=
      match inputs.reverse.find? (fun cf => accepts canon addrOK cf.1 cf.2) with
      | none => []
      | some cf => (plan canon cf.1).filterMap id
    final.cur = served ∧ final.cur = lastOK canon addrOK [] inputs ∧
      final.mgr.Perm (served.map (·.1)) := by
  intro final served
  obtain ⟨h1, h2⟩ := runLoads_spec canon addrOK inputs Server.init consistent_init
  have h3 : lastOK canon addrOK [] inputs = served := lastOK_eq_find canon addrOK inputs []
  have hcur : final.cur = served := h1.trans h3
  refine ⟨hcur, h1, ?_⟩
  rw [← hcur]
  exact h2

/-! ### 7. hot reload never unbinds a retained address -/

theorem mem_of_count_pos {x : String} {l : List String} (h : 0 < l.count x) : x ∈ l :=
  List.count_pos_iff.1 h

/-- No `Nodup` hypotheses are needed: the count of `lk` in the manager is (old count) + (new count)
    after the start phase, and the release phase removes at most (old count) of them. -/
theorem retained_never_unbound (canon : String → Option Nat) (addrOK : String → Bool) (s : Server)
    (c : Cfg) (fault : Fault) (hs : Consistent s)
    (hok : (load canon addrOK s c fault).2.1 = true) (lk : String)
    (hold : lk ∈ s.cur.map (·.1))
    (hnew : lk ∈ (load canon addrOK s c fault).1.cur.map (·.1)) :
    ∀ m ∈ (load canon addrOK s c fault).2.2, lk ∈ m := by
  rcases load_unfold canon addrOK s c fault with h | ⟨started, rest, tr1, hpl, hsuf, h | h⟩
  · rw [h] at hok; simp at hok
  · obtain ⟨-, h⟩ := h
    rw [h] at hnew ⊢
    simp only at hnew
    have hmgr : lk ∈ s.mgr := (hs.mem_iff).2 hold
    intro m hm
    rcases List.mem_append.1 hm with hm | hm
    · exact (hsuf m hm).subset hmgr
    · have hcnt := count_relTrace lk (s.cur.map (·.1))
        ((started.map (·.1)).reverse ++ s.mgr) m hm
      have h1 : 0 < (started.map (·.1)).count lk := List.count_pos_iff.2 hnew
      have h2 : s.mgr.count lk = (s.cur.map (·.1)).count lk := hs.count_eq lk
      rw [List.count_append, List.count_reverse] at hcnt
      apply mem_of_count_pos
      omega
  · rw [h.2] at hok; simp at hok

/-! ### 8. attribution -/

theorem authOn_first (srv : Serving) (lk : String) (ck : ClientKey) (id : String) :
    authOn srv lk ck = some id ↔
      ∃ (pre : Serving) (keys : List (String × ClientKey)) (post : Serving)
        (kpre kpost : List (String × ClientKey)),
        srv = pre ++ (lk, keys) :: post ∧ (∀ e ∈ pre, e.1 ≠ lk) ∧
        keys = kpre ++ (id, ck) :: kpost ∧ (∀ k ∈ kpre, k.2 ≠ ck) := by
  unfold authOn
  constructor
  · intro h
    cases hf : List.find? (fun x => x.1 == lk) srv with
    | none => rw [hf] at h; simp at h
    | some e =>
      obtain ⟨lk', keys⟩ := e
      rw [hf] at h
      simp only [Option.map_eq_some_iff] at h
      obtain ⟨k, hk, hid⟩ := h
      obtain ⟨hp, pre, post, hsrv, hpre⟩ := List.find?_eq_some_iff_append.1 hf
      obtain ⟨hq, kpre, kpost, hkeys, hkpre⟩ := List.find?_eq_some_iff_append.1 hk
      have hlk : lk' = lk := by simpa using hp
      subst hlk
      obtain ⟨kid, kck⟩ := k
      have hck : kck = ck := by simpa using hq
      subst hck
      simp only at hid
      subst hid
      refine ⟨pre, keys, post, kpre, kpost, hsrv, ?_, hkeys, ?_⟩
      · intro e he; simpa using hpre e he
      · intro k hk; simpa using hkpre k hk
  · rintro ⟨pre, keys, post, kpre, kpost, hsrv, hpre, hkeys, hkpre⟩
    have hf : List.find? (fun x => x.1 == lk) srv = some (lk, keys) := by
      apply List.find?_eq_some_iff_append.2
      refine ⟨by simp, pre, post, hsrv, ?_⟩
      intro e he; simpa using hpre e he
    have hk : List.find? (fun x => x.2 == ck) keys = some (id, ck) := by
      apply List.find?_eq_some_iff_append.2
      refine ⟨by simp, kpre, kpost, hkeys, ?_⟩
      intro k hk; simpa using hkpre k hk
    rw [hf]
    simp only [hk, Option.map_some]

/-- keys of one service never authenticate on another service's listener: only key lists attached
    to `lk` itself matter -/
theorem authOn_none_of_not_listed (srv : Serving) (lk : String) (ck : ClientKey)
    (h : (∀ e ∈ srv, e.1 ≠ lk) ∨ (∀ e ∈ srv, e.1 = lk → ∀ k ∈ e.2, k.2 ≠ ck)) :
    authOn srv lk ck = none := by
  have h' : ∀ e ∈ srv, e.1 = lk → ∀ k ∈ e.2, k.2 ≠ ck := by
    rcases h with h | h
    · intro e he heq; exact absurd heq (h e he)
    · exact h
  unfold authOn
  cases hf : List.find? (fun x => x.1 == lk) srv with
  | none => rfl
  | some e =>
    obtain ⟨lk', keys⟩ := e
    have hmem := List.mem_of_find?_eq_some hf
    have hp := List.find?_some hf
    have hlk : lk' = lk := by simpa using hp
    have hnone : List.find? (fun x => x.2 == ck) keys = none := by
      apply List.find?_eq_none.2
      intro k hk
      simpa using h' (lk', keys) hmem hlk k hk
    simp [hnone]

/-- the converse: if attribution fails, the first entry for `lk` (if any) lists no such key -/
theorem authOn_eq_none_iff (srv : Serving) (lk : String) (ck : ClientKey) :
    authOn srv lk ck = none ↔
      ∀ e, srv.find? (·.1 == lk) = some e → ∀ k ∈ e.2, k.2 ≠ ck := by
  unfold authOn
  cases hf : List.find? (fun x => x.1 == lk) srv with
  | none => simp
  | some e =>
    obtain ⟨lk', keys⟩ := e
    simp

/-! ### 9. non-vacuity -/

section Examples

def exCanon : String → Option Nat :=
  fun s => if s == "aes" then some 0 else if s == "chacha" then some 1 else none
def exAddrOK : String → Bool := fun _ => true

/-- generation A: service 1 on tcp/:9000 and tcp/:9001, service 2 on udp/:9000 -/
def exA : Cfg :=
  { services := [ { listeners := [⟨true, ":9000"⟩, ⟨true, ":9001"⟩], keys := [⟨"a", "aes", "s1"⟩] },
                  { listeners := [⟨false, ":9000"⟩], keys := [⟨"b", "chacha", "s2"⟩] } ],
    legacy := [] }
/-- generation B: keeps ":9000" (tcp and udp), drops ":9001", adds ":9002"; service 1 gains key "c" -/
def exB : Cfg :=
  { services := [ { listeners := [⟨true, ":9000"⟩, ⟨true, ":9002"⟩],
                    keys := [⟨"a", "aes", "s1"⟩, ⟨"c", "aes", "s3"⟩] },
                  { listeners := [⟨false, ":9000"⟩], keys := [⟨"b", "chacha", "s2"⟩] } ],
    legacy := [] }
/-- a configuration with a cipher that is not accepted in its second service -/
def exBad : Cfg :=
  { services := [ { listeners := [⟨true, ":9003"⟩], keys := [⟨"a", "aes", "s1"⟩] },
                  { listeners := [⟨true, ":9004"⟩], keys := [⟨"z", "rot13", "s9"⟩] } ],
    legacy := [] }

def exS1 : Server := (load exCanon exAddrOK Server.init exA .none).1
def exS2 : Server := (load exCanon exAddrOK exS1 exB .none).1

example : (load exCanon exAddrOK Server.init exA .none).2.1 = true := by decide
example : exS1.mgr = ["udp/:9000", "tcp/:9001", "tcp/:9000"] := by decide
example : (load exCanon exAddrOK exS1 exB .none).2.1 = true := by decide
example : exS2.cur.map (·.1) = ["tcp/:9000", "tcp/:9002", "udp/:9000"] := by decide
example : exS2.mgr = ["tcp/:9002", "udp/:9000", "tcp/:9000"] := by decide
-- the trace of the reload is non-empty and always contains the retained keys
example : (load exCanon exAddrOK exS1 exB .none).2.2.length = 6 := by decide
example : ∀ m ∈ (load exCanon exAddrOK exS1 exB .none).2.2, "tcp/:9000" ∈ m := by decide
example : ∀ m ∈ (load exCanon exAddrOK exS1 exB .none).2.2, "udp/:9000" ∈ m := by decide
-- the dropped address is eventually unbound, the added one eventually bound
example : "tcp/:9001" ∉ exS2.mgr ∧ "tcp/:9002" ∈ exS2.mgr := by decide
-- a faulty reload (second acquisition fails) leaves the server unchanged, after having held a handle
example : (load exCanon exAddrOK exS1 exB (.bind 1)).2.1 = false := by decide
example : (load exCanon exAddrOK exS1 exB (.bind 1)).1.cur = exS1.cur := by decide
example : (load exCanon exAddrOK exS1 exB (.bind 1)).1.mgr = exS1.mgr := by decide
example : (load exCanon exAddrOK exS1 exB (.bind 1)).2.2 =
    [["tcp/:9000", "udp/:9000", "tcp/:9001", "tcp/:9000"], ["udp/:9000", "tcp/:9001", "tcp/:9000"]] := by
  decide
-- a rejected cipher in the second service: the first service's listener was acquired and is released
example : (load exCanon exAddrOK exS1 exBad .none).2.1 = false ∧
    (load exCanon exAddrOK exS1 exBad .none).1.mgr = exS1.mgr ∧
    (load exCanon exAddrOK exS1 exBad .none).2.2.length = 2 := by decide
-- read fault
example : (load exCanon exAddrOK exS1 exB .read).2.1 = false := by decide
-- sequence: A ok, B with bind fault, B ok, bad, read fault  ==> serving B
example : (runLoads exCanon exAddrOK Server.init
    [(exA, .none), (exB, .bind 1), (exB, .none), (exBad, .none), (exA, .read)]).cur = exS2.cur := by decide
-- attribution: key "c" (aes, s3) authenticates on service 1's listeners only
example : authOn exS2.cur "tcp/:9002" (0, "s3") = some "c" := by decide
example : authOn exS2.cur "udp/:9000" (0, "s3") = none := by decide
example : authOn exS2.cur "udp/:9000" (1, "s2") = some "b" := by decide

end Examples

end OutlineModel.Config

