import OutlineModel.Proofs.GoRT
import OutlineModel.Gen.Code
import OutlineModel.Model.IP
import OutlineModel.Model.IPInfo
/-
Tie between the TRANSLATED net/private_net.go (IsPrivateAddress, RequirePublicIP) and ipinfo/ipinfo.go
(GetIPInfoFromIP) — Gen/Code.lean, regenerated from the source on every run — and the hand-written models
Model/IP.lean and Model/IPInfo.lean, for all inputs.  The net.IP predicates themselves (IsGlobalUnicast,
IPNet.Contains) are the prelude's: they are Go's standard library, modelled in Model/IP.lean and validated
by the `ip` campaign.
-/
set_option linter.unusedSimpArgs false
namespace OutlineModel.Tie.IP
open OutlineModel OutlineModel.GoRT OutlineModel.IP
open OutlineModel.Gen

/-- the range loop with an early `return true`: its final state says whether some network contains `ip` -/
theorem anyLoop (nets : List (List UInt8 × List UInt8)) (ip : List UInt8) :
    (forIn nets ((none, ()) : Option Bool × Unit) (fun network _ =>
        if contains network ip = true then (pure (ForInStep.done (some true, ())) : Option _)
        else pure (ForInStep.yield (none, ()))))
      = some (if nets.any (contains · ip) then (some true, ()) else (none, ())) := by
  induction nets with
  | nil => rfl
  | cons n rest ih =>
    simp only [List.forIn_cons, List.any_cons]
    by_cases h : contains n ip = true
    · simp [h]
    · simp only [h, Bool.false_eq_true, ↓reduceIte, Bool.false_or]
      simpa using ih

/-- **IsPrivateAddress** is the model's `isPrivate` over the generated CIDR table; it never panics -/
theorem isPrivate_tie (ip : List UInt8) : Code.IsPrivateAddress ip = some (isPrivate Gen.privateNets ip) := by
  unfold Code.IsPrivateAddress isPrivate
  simp only [anyLoop, Option.bind_eq_bind, Option.bind_some]
  cases (Gen.privateNets.any (contains · ip)) <;> rfl

/-- error values of the translated code as the model's verdicts -/
def verdictOf : Option String → Option Verdict
  | none => some .ok
  | some "ERR_ADDRESS_INVALID" => some .invalid
  | some "ERR_ADDRESS_PRIVATE" => some .priv
  | some _ => none

/-- **RequirePublicIP** returns exactly the model's verdict (nil error = ok), for every byte string -/
theorem requirePublicIP_tie (ip : List UInt8) :
    (Code.RequirePublicIP ip).bind verdictOf = some (requirePublicIP Gen.privateNets ip) := by
  unfold Code.RequirePublicIP requirePublicIP
  simp only [isPrivate_tie]
  cases isGlobalUnicast ip <;> cases isPrivate Gen.privateNets ip <;> rfl

/-- what the database parameter of the translated function amounts to in the model's terms -/
def dbOf (get : Opaque "ipinfo.IPInfoMap" → List UInt8 → Code.IPInfo × Option String) (ip2info : Opaque "ipinfo.IPInfoMap")
    (ip : List UInt8) : IPInfo.DB :=
  if ip2info = ⟨0⟩ then .disabled
  else match (get ip2info ip).2 with
    | none => .answers (get ip2info ip).1.CountryCode
    | some _ => .fails (get ip2info ip).1.CountryCode

/-- **GetIPInfoFromIP**: the location label and the error flag are the model's, for every database
    behaviour and every byte string; the function never panics -/
theorem getIPInfoFromIP_tie (get : Opaque "ipinfo.IPInfoMap" → List UInt8 → Code.IPInfo × Option String)
    (ip2info : Opaque "ipinfo.IPInfoMap") (ip : List UInt8) :
    (Code.GetIPInfoFromIP get ip2info ip).map (fun r => (r.1.CountryCode, r.2.isSome)) =
      some ((IPInfo.fromIP (dbOf get ip2info ip) ip).label, (IPInfo.fromIP (dbOf get ip2info ip) ip).isErr) := by
  unfold Code.GetIPInfoFromIP dbOf IPInfo.fromIP
  by_cases h0 : ip2info = ⟨0⟩
  · simp [h0, Code.IPInfo.zero]
  · by_cases h1 : ip = []
    · cases hg : (get ip2info ip).2 <;> simp [h0, h1, hg, Code.IPInfo.zero]
    · have h1' : ip.isEmpty = false := by cases ip <;> simp_all
      cases hgu : isGlobalUnicast ip
      · cases hg : (get ip2info ip).2 <;> simp [h0, h1, h1', hg, hgu, Code.IPInfo.zero]
      · cases hg : (get ip2info ip).2
        · by_cases hc : (get ip2info ip).1.CountryCode = "" <;> simp [h0, h1, h1', hg, hgu, hc]
        · simp [h0, h1, h1', hg, hgu]

end OutlineModel.Tie.IP
