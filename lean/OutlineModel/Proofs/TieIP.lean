import OutlineModel.Proofs.GoRT
import OutlineModel.Gen.Code
import OutlineModel.Model.IP
import OutlineModel.Model.IPInfo
/-
Tie between the TRANSLATED net/private_net.go (IsPrivateAddress, RequirePublicIP) and ipinfo/ipinfo.go
(GetIPInfoFromIP) — Gen/Code.lean, regenerated from the source on every run — and the hand-written models
Model/IP.lean and Model/IPInfo.lean, for all inputs.  The net.IP predicates themselves (IsGlobalUnicast,
IPNet.Contains) are the prelude's: they are Go's standard library, modelled in Model/IP.lean and validated
by the `ip` campaign.
-/
set_option linter.unusedSimpArgs false
namespace OutlineModel.Tie.IP
open OutlineModel OutlineModel.GoRT OutlineModel.IP
open OutlineModel.Gen

/-- a loop with an early `return true` over ANY list whose elements project (by `π`) onto the networks, for ANY body
    that stops with `true` at a network containing `ip` and goes on otherwise: its final state says whether some network
    contains `ip`.  Covers `for _, n := range nets` (π = id) and the index form `for i := 0; i < len(nets); i++` (which the
    translator turns into a range over (index, element) pairs: π = second component). -/
theorem anyLoopG {β : Type} (π : β → List UInt8 × List UInt8) (ip : List UInt8)
    (body : β → Option Bool × Unit → Option (ForInStep (Option Bool × Unit)))
    (hbody : ∀ x, body x (none, ()) =
      if contains (π x) ip = true then some (ForInStep.done (some true, ())) else some (ForInStep.yield (none, ()))) :
    ∀ (L : List β), forIn L (none, ()) body =
      some (if (L.map π).any (contains · ip) then (some true, ()) else (none, ())) := by
  intro L
  induction L with
  | nil => rfl
  | cons x rest ih =>
    simp only [List.forIn_cons, hbody, List.map_cons, List.any_cons]
    by_cases h : contains (π x) ip = true
    · simp [h]
    · simp only [h, Bool.false_eq_true, if_false, Bool.false_or, Option.bind_eq_bind, Option.bind_some]
      exact ih

theorem enum_map_snd {α : Type} (l : List α) : (GoRT.enum l).map (·.2) = l := by
  simp only [GoRT.enum, List.map_map]
  have : ∀ (n : Nat), List.map ((fun (x : Int × α) => x.2) ∘ fun (p : α × Nat) => ((p.2 : Int), p.1)) (l.zipIdx n) = l := by
    induction l with
    | nil => intro n; rfl
    | cons a rest ih => intro n; simp [List.zipIdx_cons, ih]
  exact this 0

/-- **IsPrivateAddress** is the model's `isPrivate` over the generated CIDR table; it never panics -/
theorem isPrivate_tie (ip : List UInt8) : Code.IsPrivateAddress ip = some (isPrivate Gen.privateNets ip) := by
  unfold Code.IsPrivateAddress isPrivate
  simp only [Option.bind_eq_bind]
  first
    | (rw [anyLoopG (fun n => n) ip _ ?_ Gen.privateNets]
       · simp only [List.map_id', Option.bind_some]
         cases (Gen.privateNets.any (contains · ip)) <;> rfl
       · intro x; by_cases h : contains x ip = true <;> simp [h])
    | (rw [anyLoopG (fun (p : Int × (List UInt8 × List UInt8)) => p.2) ip _ ?_ (GoRT.enum Gen.privateNets)]
       · simp only [enum_map_snd, Option.bind_some]
         cases (Gen.privateNets.any (contains · ip)) <;> rfl
       · intro x; by_cases h : contains x.2 ip = true <;> simp [h])

/-- error values of the translated code as the model's verdicts -/
def verdictOf : Option String → Option Verdict
  | none => some .ok
  | some "ERR_ADDRESS_INVALID" => some .invalid
  | some "ERR_ADDRESS_PRIVATE" => some .priv
  | some _ => none

/-- **RequirePublicIP** returns exactly the model's verdict (nil error = ok), for every byte string -/
theorem requirePublicIP_tie (ip : List UInt8) :
    (Code.RequirePublicIP ip).bind verdictOf = some (requirePublicIP Gen.privateNets ip) := by
  unfold Code.RequirePublicIP requirePublicIP
  simp only [isPrivate_tie]
  cases isGlobalUnicast ip <;> cases isPrivate Gen.privateNets ip <;> rfl

/-- what the database parameter of the translated function amounts to in the model's terms -/
def dbOf (get : Opaque "ipinfo.IPInfoMap" → List UInt8 → Code.IPInfo × Option String) (ip2info : Opaque "ipinfo.IPInfoMap")
    (ip : List UInt8) : IPInfo.DB :=
  if ip2info = ⟨0⟩ then .disabled
  else match (get ip2info ip).2 with
    | none => .answers (get ip2info ip).1.CountryCode
    | some _ => .fails (get ip2info ip).1.CountryCode

/-- **GetIPInfoFromIP**: the location label and the error flag are the model's, for every database
    behaviour and every byte string; the function never panics -/
theorem getIPInfoFromIP_tie (get : Opaque "ipinfo.IPInfoMap" → List UInt8 → Code.IPInfo × Option String)
    (ip2info : Opaque "ipinfo.IPInfoMap") (ip : List UInt8) :
    (Code.GetIPInfoFromIP get ip2info ip).map (fun r => (r.1.CountryCode, r.2.isSome)) =
      some ((IPInfo.fromIP (dbOf get ip2info ip) ip).label, (IPInfo.fromIP (dbOf get ip2info ip) ip).isErr) := by
  unfold Code.GetIPInfoFromIP dbOf IPInfo.fromIP
  by_cases h0 : ip2info = ⟨0⟩
  · simp [h0, Code.IPInfo.zero]
  · by_cases h1 : ip = []
    · cases hg : (get ip2info ip).2 <;> simp [h0, h1, hg, Code.IPInfo.zero]
    · have h1' : ip.isEmpty = false := by cases ip <;> simp_all
      cases hgu : isGlobalUnicast ip
      · cases hg : (get ip2info ip).2 <;> simp [h0, h1, h1', hg, hgu, Code.IPInfo.zero]
      · cases hg : (get ip2info ip).2
        · by_cases hc : (get ip2info ip).1.CountryCode = "" <;> simp [h0, h1, h1', hg, hgu, hc]
        · simp [h0, h1, h1', hg, hgu]

/-! ### GetIPInfoFromAddr: from a client address to its class -/

section
variable (str : Opaque "net.Addr" → String) (get : Opaque "ipinfo.IPInfoMap" → List UInt8 → Code.IPInfo × Option String)
  (idx : String → UInt8 → Int) (parseIP : String → List UInt8) (split : String → String × String × Option String)

/-- the host after the zone of a scoped IPv6 address has been dropped -/
def hostOf (h : String) : String :=
  if idx h 37 ≥ 0 then (GoRT.strSlice h 0 (idx h 37)).getD h else h

/-- how the client address parses, in the model's terms -/
def parsedOf (addr : Opaque "net.Addr") : IPInfo.Parsed :=
  if addr = ⟨0⟩ then .nilAddr
  else if (split (str addr)).2.2 ≠ none then .noHostPort
  else if parseIP (hostOf idx (split (str addr)).1) = [] then .notIP
  else .ip (parseIP (hostOf idx (split (str addr)).1))

/-- **GetIPInfoFromAddr**: as long as `IndexByte` answers an offset inside the string, the translated function never panics
    and the label and error flag are the model's `fromAddr` of the parse outcome: XA for a nil address, a host:port that
    does not split, or a host that is no IP literal (after dropping an IPv6 zone); otherwise the class of the IP -/
theorem getIPInfoFromAddr_tie (ip2info : Opaque "ipinfo.IPInfoMap") (addr : Opaque "net.Addr")
    (hidx : ∀ h, idx h 37 ≤ GoRT.strLen h) :
    (Code.GetIPInfoFromAddr str get idx parseIP split ip2info addr).map (fun r => (r.1.CountryCode, r.2.isSome)) =
      some ((IPInfo.fromAddr (dbOf get ip2info (parseIP (hostOf idx (split (str addr)).1))) (parsedOf str idx parseIP split addr)).label,
            (IPInfo.fromAddr (dbOf get ip2info (parseIP (hostOf idx (split (str addr)).1))) (parsedOf str idx parseIP split addr)).isErr) := by
  unfold Code.GetIPInfoFromAddr parsedOf
  by_cases h0 : addr = ⟨0⟩
  · simp [h0, IPInfo.fromAddr, Code.IPInfo.zero]
  · by_cases h1 : (split (str addr)).2.2 ≠ none
    · simp [h0, h1, IPInfo.fromAddr, Code.IPInfo.zero]
    · simp only [h0, h1, decide_false, decide_true, Bool.false_eq_true, if_false, ne_eq, not_true_eq_false, not_false_eq_true]
      generalize hH : (split (str addr)).1 = H
      have hslice : idx H 37 ≥ 0 → GoRT.strSlice H 0 (idx H 37) = some (hostOf idx H) := by
        intro hge
        have hb : ¬ ((0 : Int) < 0 ∨ idx H 37 < 0 ∨ GoRT.strLen H < idx H 37) := by
          have := hidx H; omega
        simp only [hostOf, hge, if_true, GoRT.strSlice, hb, if_false, Option.getD_some]
      have key : ∀ (hn : String), hn = hostOf idx H →
          ((if decide (parseIP hn = []) = true then
              (pure ({ Code.IPInfo.zero with CountryCode := "XA" }, some "failed to parse address as IP") : Option (Code.IPInfo × Option String))
            else Code.GetIPInfoFromIP get ip2info (parseIP hn)).map (fun r => (r.1.CountryCode, r.2.isSome))) =
          some ((IPInfo.fromAddr (dbOf get ip2info (parseIP (hostOf idx H)))
                  (if parseIP (hostOf idx H) = [] then IPInfo.Parsed.notIP else IPInfo.Parsed.ip (parseIP (hostOf idx H)))).label,
                (IPInfo.fromAddr (dbOf get ip2info (parseIP (hostOf idx H)))
                  (if parseIP (hostOf idx H) = [] then IPInfo.Parsed.notIP else IPInfo.Parsed.ip (parseIP (hostOf idx H)))).isErr) := by
        intro hn hhn
        subst hhn
        by_cases hp : parseIP (hostOf idx H) = []
        · simp [hp, IPInfo.fromAddr, Code.IPInfo.zero]
        · simp only [hp, decide_false, Bool.false_eq_true, if_false, IPInfo.fromAddr]
          exact getIPInfoFromIP_tie get ip2info (parseIP (hostOf idx H))
      by_cases hi : idx H 37 ≥ 0
      · simp only [hi, decide_true, if_true, hslice hi, Option.bind_eq_bind, Option.bind_some]
        exact key (hostOf idx H) rfl
      · simp only [hi, decide_false, Bool.false_eq_true, if_false]
        have hh : H = hostOf idx H := by simp [hostOf, hi]
        exact key H hh
end

end OutlineModel.Tie.IP
