import OutlineModel.Proofs.GoRT
import OutlineModel.Gen.Code
import OutlineModel.Model.CipherList
/-
Tie between the TRANSLATED service/cipher_list.go (matchesIP, SnapshotForClientIP, MarkUsedByClientIP, Update) and
findEntry of service/tcp.go — Gen/Code.lean, regenerated from the source on every run — and the hand-written model
Model/CipherList.lean, for all inputs.  container/list is the prelude's (elements with an identity, front first).
-/
set_option linter.unusedSimpArgs false
set_option linter.unusedVariables false
namespace OutlineModel.Tie.CipherList
open OutlineModel OutlineModel.GoRT OutlineModel.CipherList
open OutlineModel.Gen

def absIP (a : Opaque "netip.Addr") : Option Nat := if a = ⟨0⟩ then none else some a.val

def absEntry (e : ListElem Code.CipherEntry) : Entry :=
  { ref := e.id, id := e.Value.ID, key := e.Value.CryptoKey.val, lastIP := absIP e.Value.lastClientIP }

/-- **matchesIP**: never panics; the model's predicate -/
theorem matchesIP_tie (e : ListElem Code.CipherEntry) (ip : Opaque "netip.Addr") :
    Code.matchesIP e ip = some (matchesIP (absIP ip) (absEntry e)) := by
  unfold Code.matchesIP matchesIP absEntry absIP
  cases ip with | mk a =>
  cases hl : e.Value.lastClientIP with | mk b =>
  by_cases ha : a = 0 <;> by_cases hb : b = 0 <;> by_cases hab : a = b <;>
    simp [ha, hb, hab, hl, Opaque.mk.injEq] <;> omega

theorem set_fill {α : Type} (done : List α) (k : Nat) (z e : α) :
    GoRT.set (done ++ List.replicate (k + 1) z) (done.length : Int) e = some (done ++ e :: List.replicate k z) := by
  rw [set_ofNat _ _ _ (by simp)]
  congr 1
  induction done with
  | nil => simp [List.replicate_succ]
  | cons d ds ih => simpa using ih

/-- one filling pass of SnapshotForClientIP: the elements that satisfy `q` are stored, in order, from index
    `done.length` on; the stores never go out of range as long as the array has room for them -/
theorem fill {α : Type} (z : α) (q : α → Bool) (body : α → List α × Int → Option (ForInStep (List α × Int)))
    (hbody : ∀ e arr i, body e (arr, i) =
      if q e then (GoRT.set arr i e).bind (fun a => some (ForInStep.yield (a, i + 1))) else some (ForInStep.yield (arr, i))) :
    ∀ (rest done : List α) (k : Nat), (rest.filter q).length ≤ k →
      forIn rest (done ++ List.replicate k z, (done.length : Int)) body =
        some (done ++ rest.filter q ++ List.replicate (k - (rest.filter q).length) z,
              ((done.length + (rest.filter q).length : Nat) : Int)) := by
  intro rest
  induction rest with
  | nil => intro done k _; simp
  | cons e rest ih =>
    intro done k hk
    simp only [List.forIn_cons, hbody]
    by_cases hq : q e = true
    · simp only [hq, if_true, List.filter_cons] at hk ⊢
      obtain ⟨k', rfl⟩ : ∃ k', k = k' + 1 := ⟨k - 1, by simp at hk; omega⟩
      rw [set_fill]
      simp only [Option.bind_eq_bind, Option.bind_some]
      have := ih (done ++ [e]) k' (by simp at hk; omega)
      simp only [List.append_assoc, List.singleton_append, List.length_append, List.length_singleton, Int.natCast_add,
        Int.natCast_one] at this
      rw [this]
      have e1 : k' + 1 - ((List.filter q rest).length + 1) = k' - (List.filter q rest).length := by omega
      have e2 : ((done.length : Int) + 1 + ((List.filter q rest).length : Int)) =
          ((done.length + ((List.filter q rest).length + 1) : Nat) : Int) := by omega
      simp only [List.length_cons, List.append_assoc, List.cons_append, List.nil_append, e1, e2]
    · have hq' : q e = false := by simpa using hq
      simp only [hq', Bool.false_eq_true, if_false, List.filter_cons] at hk ⊢
      exact ih done k hk

theorem filter_lengths {α : Type} (l : List α) (q : α → Bool) :
    (l.filter q).length + (l.filter (fun e => !q e)).length = l.length := by
  induction l with
  | nil => rfl
  | cons e rest ih => cases h : q e <;> simp [List.filter_cons, h] <;> omega

theorem filter_map_abs (l : List (ListElem Code.CipherEntry)) (p : Entry → Bool) :
    (l.filter (fun e => p (absEntry e))).map absEntry = (l.map absEntry).filter p := by
  induction l with
  | nil => rfl
  | cons e rest ih => cases h : p (absEntry e) <;> simp [List.filter_cons, h, ih]

/-- the snapshot, explicitly: the elements whose entry was last used by this client IP, then the others -/
def snapOf (l : List (ListElem Code.CipherEntry)) (ip : Opaque "netip.Addr") : List (ListElem Code.CipherEntry) :=
  l.filter (fun e => matchesIP (absIP ip) (absEntry e)) ++ l.filter (fun e => !matchesIP (absIP ip) (absEntry e))

theorem mem_snapOf (l : List (ListElem Code.CipherEntry)) (ip : Opaque "netip.Addr") (e : ListElem Code.CipherEntry) :
    e ∈ snapOf l ip ↔ e ∈ l := by
  simp only [snapOf, List.mem_append, List.mem_filter]
  constructor
  · rintro (h | h) <;> exact h.1
  · intro h
    cases hq : matchesIP (absIP ip) (absEntry e)
    · exact Or.inr ⟨h, by simp [hq]⟩
    · exact Or.inl ⟨h, by simp [hq]⟩

/-- **SnapshotForClientIP**: never panics (every store is within the array), leaves the list alone, and returns
    the model's two-pass permutation: the entries last used by this client IP first, the others after, each
    group in list order -/
theorem snapshot_tie (cl : Code.cipherList) (ip : Opaque "netip.Addr") :
    Code.cipherList.SnapshotForClientIP cl ip = some (cl, snapOf cl.list ip) ∧
      (snapOf cl.list ip).map absEntry = snapshot (cl.list.map absEntry) (absIP ip) := by
  let q : ListElem Code.CipherEntry → Bool := fun e => matchesIP (absIP ip) (absEntry e)
  let z : ListElem Code.CipherEntry := { id := 0, Value := Code.CipherEntry.zero }
  refine ⟨?_, ?_⟩
  · unfold Code.cipherList.SnapshotForClientIP snapOf
    have hlen : (GoRT.len cl.list).toNat = cl.list.length := by simp [GoRT.len]
    have h1 := fill z q
      (fun e s => do
        let m ← Code.matchesIP e ip
        if m = true then do
          let a ← GoRT.set s.1 s.2 e
          pure (ForInStep.yield (a, s.2 + 1))
        else pure (ForInStep.yield (s.1, s.2)))
      (by intro e arr i; simp only [matchesIP_tie, Option.bind_eq_bind, Option.bind_some, pure]; cases hq : q e <;> simp [q] at hq ⊢ <;> simp [hq] <;> rfl)
      cl.list [] cl.list.length (List.length_filter_le _ _)
    have hcap : (cl.list.filter (fun e => !q e)).length ≤ cl.list.length - (cl.list.filter q).length := by
      have := filter_lengths cl.list q; omega
    have h2 := fill z (fun e => !q e)
      (fun e s => do
        let m ← Code.matchesIP e ip
        if (!m) = true then do
          let a ← GoRT.set s.1 s.2 e
          pure (ForInStep.yield (a, s.2 + 1))
        else pure (ForInStep.yield (s.1, s.2)))
      (by intro e arr i; simp only [matchesIP_tie, Option.bind_eq_bind, Option.bind_some, pure]; cases hq : q e <;> simp [q] at hq ⊢ <;> simp [hq] <;> rfl)
      cl.list (cl.list.filter q) (cl.list.length - (cl.list.filter q).length) hcap
    simp only [List.nil_append, List.length_nil, Int.natCast_zero, Nat.zero_add] at h1
    have hz : cl.list.length - (cl.list.filter q).length - (cl.list.filter (fun e => !q e)).length = 0 := by
      have := filter_lengths cl.list q; omega
    simp only [hlen, Option.bind_eq_bind, z, hz, List.replicate_zero, List.append_nil] at h1 h2 ⊢
    rw [h1]
    simp only [Option.bind_some]
    rw [h2]
    simp only [Option.bind_some, pure]
    rfl
  · simp only [snapOf, List.map_append, snapshot]
    rw [← filter_map_abs, ← filter_map_abs]

/-- **Update** replaces the list wholesale -/
theorem update_tie (cl : Code.cipherList) (src : List (ListElem Code.CipherEntry)) :
    Code.cipherList.Update cl src = some { cl with list := src } := rfl

theorem setValue_filtered {α : Type} (l : List (ListElem α)) (id : Nat) (v : α) :
    setValue (l.filter (fun y => !(y.id == id))) id v = l.filter (fun y => !(y.id == id)) := by
  induction l with
  | nil => rfl
  | cons x rest ih =>
    by_cases h : x.id = id
    · simp [List.filter_cons, h]; exact ih
    · simp only [setValue, beq_iff_eq] at ih
      simp [List.filter_cons, h, setValue, ih]

theorem find_map_abs (l : List (ListElem Code.CipherEntry)) (id : Nat) :
    (l.map absEntry).find? (fun e => e.ref == id) = (l.find? (fun x => x.id == id)).map absEntry := by
  induction l with
  | nil => rfl
  | cons x rest ih => by_cases h : x.id = id <;> simp [List.find?_cons, absEntry, h] <;> simpa [absEntry] using ih

/-- **MarkUsedByClientIP**: never panics; move-to-front of the element when it belongs to the current list (a stale
    element leaves the list alone) and the client IP recorded on its entry — the model's `markUsed`.  Hypothesis:
    an element's identity determines the immutable fields of its entry (the caller's `e` and the list's element
    with the same identity are the same Go object). -/
theorem markUsed_tie (cl : Code.cipherList) (e : ListElem Code.CipherEntry) (ip : Opaque "netip.Addr")
    (hid : ∀ x ∈ cl.list, x.id = e.id → x.Value.ID = e.Value.ID ∧ x.Value.CryptoKey = e.Value.CryptoKey) :
    ∃ cl', Code.cipherList.MarkUsedByClientIP cl e ip = some cl' ∧ cl'.CipherList = cl.CipherList ∧
      cl'.list.map absEntry = markUsed (cl.list.map absEntry) e.id (absIP ip) := by
  refine ⟨_, rfl, rfl, ?_⟩
  simp only [markUsed, find_map_abs, moveToFront]
  cases hf : cl.list.find? (fun x => x.id == e.id) with
  | none =>
    simp only [Option.map_none]
    have : ∀ x ∈ cl.list, ¬ x.id = e.id := by
      intro x hx hxe
      have := List.find?_eq_none.1 hf x hx
      simp [hxe] at this
    have hs : setValue cl.list e.id { e.Value with lastClientIP := ip } = cl.list := by
      simp only [setValue]
      conv => rhs; rw [← List.map_id cl.list]
      apply List.map_congr_left
      intro x hx
      simp [this x hx]
    rw [hs]
  | some x =>
    have hx : x ∈ cl.list := List.mem_of_find?_eq_some hf
    have hxe : x.id = e.id := by simpa using List.find?_some hf
    obtain ⟨h1, h2⟩ := hid x hx hxe
    simp only [Option.map_some, setValue, List.map_cons, hxe, beq_self_eq_true, if_true]
    have := setValue_filtered cl.list e.id { e.Value with lastClientIP := ip }
    simp only [setValue] at this
    rw [this]
    congr 1
    · simp [absEntry, h1, h2, hxe]
    · induction cl.list with
      | nil => rfl
      | cons y rest ih => by_cases hy : y.id = e.id <;> simp [List.filter_cons, hy, absEntry] <;> simpa [absEntry] using ih

/-! ### findEntry (service/tcp.go): the trial-decryption loop -/

section
variable (saltSize tagSize : Opaque "shadowsocks.EncryptionKey" → Int)
  (unpack : List UInt8 → List UInt8 → Opaque "shadowsocks.EncryptionKey" → List UInt8 × Option String)
  (firstBytes : List UInt8)

/-- the header opens under this key: `Unpack` of the first salt+2+tag bytes reports no error -/
def opens (k : Opaque "shadowsocks.EncryptionKey") : Bool :=
  (unpack [] (firstBytes.take (saltSize k + 2 + tagSize k).toNat) k).2.isNone

theorem slice_prefix (n : Int) (h0 : 0 ≤ n) (hn : n ≤ (firstBytes.length : Int)) :
    GoRT.slice firstBytes 0 n = some (firstBytes.take n.toNat) := by
  unfold GoRT.slice
  have : ¬ ((0 : Int) < 0 ∨ n < 0 ∨ (firstBytes.length : Int) < n) := by omega
  simp [this, h0, hn]

/-- the trial loop for ANY body that, on an element, stops with it when its key opens the header and goes on otherwise -/
theorem findLoop (ciphers : List (ListElem Code.CipherEntry))
    (body : Int × ListElem Code.CipherEntry → Option (Option Code.CipherEntry × Option (ListElem Code.CipherEntry)) × Unit →
      Option (ForInStep (Option (Option Code.CipherEntry × Option (ListElem Code.CipherEntry)) × Unit)))
    (hbody : ∀ (i : Int) (elt : ListElem Code.CipherEntry), elt ∈ ciphers → body (i, elt) (none, ()) =
      if opens saltSize tagSize unpack firstBytes elt.Value.CryptoKey then some (ForInStep.done (some (some elt.Value, some elt), ()))
      else some (ForInStep.yield (none, ()))) :
    ∀ (n : Nat),
    forIn ((ciphers.zipIdx n).map (fun p => (((p.2 : Nat) : Int), p.1))) (none, ()) body
      = some (match ciphers.find? (fun elt => opens saltSize tagSize unpack firstBytes elt.Value.CryptoKey) with
              | some elt => (some (some elt.Value, some elt), ())
              | none => (none, ())) := by
  induction ciphers with
  | nil => intro n; rfl
  | cons e rest ih =>
    intro n
    simp only [List.zipIdx_cons, List.map_cons, List.forIn_cons, hbody _ e List.mem_cons_self, List.find?_cons]
    cases ho : opens saltSize tagSize unpack firstBytes e.Value.CryptoKey
    · simp only [Bool.false_eq_true, if_false, Option.bind_eq_bind, Option.bind_some]
      exact ih (fun i elt h => hbody i elt (List.mem_cons_of_mem _ h)) (n + 1)
    · simp

/-- **findEntry**: as long as the 50 bytes read for the key search cover salt+2+tag of every key tried (the generated
    cipher table and `bytesForKeyFinding` say so), the translated loop never panics and returns the FIRST element of the
    snapshot whose key opens the header, or (nil, nil) when none does -/
theorem findEntry_tie (ciphers : List (ListElem Code.CipherEntry)) (l : Opaque "slog.Logger")
    (hfits : ∀ elt ∈ ciphers, 0 ≤ saltSize elt.Value.CryptoKey + 2 + tagSize elt.Value.CryptoKey ∧
      saltSize elt.Value.CryptoKey + 2 + tagSize elt.Value.CryptoKey ≤ (firstBytes.length : Int)) :
    Code.findEntry saltSize tagSize unpack firstBytes ciphers l =
      some (match ciphers.find? (fun elt => opens saltSize tagSize unpack firstBytes elt.Value.CryptoKey) with
            | some elt => (some elt.Value, some elt)
            | none => (none, none)) := by
  unfold Code.findEntry
  simp only [GoRT.enum, Option.bind_eq_bind]
  rw [findLoop saltSize tagSize unpack firstBytes ciphers _ ?_ 0]
  · cases ciphers.find? (fun elt => opens saltSize tagSize unpack firstBytes elt.Value.CryptoKey) <;> rfl
  · intro i elt helt
    obtain ⟨h0, hn⟩ := hfits elt helt
    have hs0 : GoRT.slice (List.replicate 2 (0 : UInt8)) 0 0 = some [] := by simp [GoRT.slice]
    have hs1 : GoRT.slice ([0, 0] : List UInt8) 0 0 = some [] := by simp [GoRT.slice]
    simp only [hs0, hs1, slice_prefix firstBytes _ h0 hn, Option.bind_some, opens, pure]
    by_cases hnone : (unpack [] (firstBytes.take (saltSize elt.Value.CryptoKey + 2 + tagSize elt.Value.CryptoKey).toNat) elt.Value.CryptoKey).2 = none
    · simp [hnone]
    · have : (unpack [] (firstBytes.take (saltSize elt.Value.CryptoKey + 2 + tagSize elt.Value.CryptoKey).toNat) elt.Value.CryptoKey).2.isNone = false := by
        cases h : (unpack [] (firstBytes.take (saltSize elt.Value.CryptoKey + 2 + tagSize elt.Value.CryptoKey).toNat) elt.Value.CryptoKey).2 with
        | none => exact absurd h hnone
        | some _ => rfl
      simp [hnone, this]
end

/-- the element found, seen through the abstraction, is the model's `findEntry` over the abstracted snapshot
    (validity is a function of the key) -/
theorem find_abs (ciphers : List (ListElem Code.CipherEntry)) (valid : Nat → Bool) :
    (ciphers.find? (fun elt => valid elt.Value.CryptoKey.val)).map absEntry = findEntry valid (ciphers.map absEntry) := by
  unfold findEntry
  induction ciphers with
  | nil => rfl
  | cons e rest ih => cases h : valid e.Value.CryptoKey.val <;> simp [List.find?_cons, absEntry, h] <;> simpa [absEntry] using ih

end OutlineModel.Tie.CipherList
