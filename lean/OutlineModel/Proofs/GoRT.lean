import OutlineModel.Model.GoRT
/-
Lemmas about the run-time prelude of the translated code (Model/GoRT.lean).
-/
namespace OutlineModel.GoRT
namespace GoMap
variable {K V : Type}

@[simp] theorem keys_empty : (GoMap.empty : GoMap K V).keys = [] := rfl
@[simp] theorem size_eq (m : GoMap K V) : m.size = (m.keys.length : Int) := by simp [size, keys]
variable [DecidableEq K]
@[simp] theorem contains_eq (m : GoMap K V) (k : K) : m.contains k = decide (k ∈ m.keys) := rfl

theorem keys_insert_absent (m : GoMap K V) (k : K) (v : V) (h : k ∉ m.keys) : (m.insert k v).keys = k :: m.keys := by
  have hc : m.contains k = false := by simpa using h
  simp only [insert, hc]
  rfl

theorem keys_insert_present (m : GoMap K V) (k : K) (v : V) (h : k ∈ m.keys) : (m.insert k v).keys = m.keys := by
  cases m with | mk ents =>
  have hc : (GoMap.mk ents).contains k = true := by simpa using h
  simp only [insert, hc, if_true, keys, List.map_map]
  apply List.map_congr_left
  intro e _
  by_cases he : e.1 = k <;> simp [he]
end GoMap

theorem iand_ofNat (m n : Nat) : iand (m : Int) (n : Int) = ((m &&& n : Nat) : Int) := rfl

theorem idx_ofNat {α : Type} (a : List α) (i : Nat) : idx a (i : Int) = a[i]? := by
  have : ¬ ((i : Int) < 0) := by omega
  simp [idx, this]

theorem set_ofNat {α : Type} (a : List α) (i : Nat) (v : α) (h : i < a.length) : set a (i : Int) v = some (a.set i v) := by
  have : ¬ ((i : Int) < 0) := by omega
  simp [set, h, this]

end OutlineModel.GoRT
