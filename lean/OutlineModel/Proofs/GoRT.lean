import OutlineModel.Model.GoRT
/-
Lemmas about the run-time prelude of the translated code (Model/GoRT.lean).
-/
namespace OutlineModel.GoRT
namespace GoMap
variable {K V : Type}

@[simp] theorem keys_empty : (GoMap.empty : GoMap K V).keys = [] := rfl
@[simp] theorem size_eq (m : GoMap K V) : m.size = (m.keys.length : Int) := by simp [size, keys]
variable [DecidableEq K]
@[simp] theorem contains_eq (m : GoMap K V) (k : K) : m.contains k = decide (k ∈ m.keys) := rfl

theorem keys_insert_absent (m : GoMap K V) (k : K) (v : V) (h : k ∉ m.keys) : (m.insert k v).keys = k :: m.keys := by
  have hc : m.contains k = false := by simpa using h
  simp only [insert, hc]
  rfl

theorem keys_insert_present (m : GoMap K V) (k : K) (v : V) (h : k ∈ m.keys) : (m.insert k v).keys = m.keys := by
  cases m with | mk ents =>
  have hc : (GoMap.mk ents).contains k = true := by simpa using h
  simp only [insert, hc, if_true, keys, List.map_map]
  apply List.map_congr_left
  intro e _
  by_cases he : e.1 = k <;> simp [he]

theorem ents_insert_present (m : GoMap K V) (k : K) (v : V) (h : k ∈ m.keys) :
    (m.insert k v).ents = m.ents.map (fun e => if e.1 = k then (k, v) else e) := by
  have hc : m.contains k = true := by simpa using h
  simp only [insert, hc, if_true]

theorem ents_insert_absent (m : GoMap K V) (k : K) (v : V) (h : k ∉ m.keys) : (m.insert k v).ents = (k, v) :: m.ents := by
  have hc : m.contains k = false := by simpa using h
  simp only [insert, hc]
  rfl

theorem ents_erase (m : GoMap K V) (k : K) : (m.erase k).ents = m.ents.filter (fun e => ¬ e.1 = k) := rfl

theorem filter_mapIf (l : List (K × V)) (k : K) (v : V) :
    (l.map (fun e => if e.1 = k then (k, v) else e)).filter (fun e => ¬ e.1 = k) = l.filter (fun e => ¬ e.1 = k) := by
  induction l with
  | nil => rfl
  | cons e rest ih =>
    simp only [decide_not] at ih ⊢
    by_cases he : e.1 = k <;> simp [he, ih]

theorem keys_mapIf (l : List (K × V)) (k : K) (v : V) :
    (l.map (fun e => if e.1 = k then (k, v) else e)).map (·.1) = l.map (·.1) := by
  induction l with
  | nil => rfl
  | cons e rest ih =>
    by_cases he : e.1 = k <;> simp [he, ih]

theorem get?_eq (m : GoMap K V) (k : K) : m.get? k = (m.ents.find? (fun e => e.1 = k)).map (·.2) := rfl

theorem get?_isSome_of_mem (m : GoMap K V) (k : K) (h : k ∈ m.keys) : ∃ v, m.get? k = some v ∧ (k, v) ∈ m.ents := by
  cases m with | mk ents =>
  simp only [keys, List.mem_map] at h
  obtain ⟨e, he, hk⟩ := h
  induction ents with
  | nil => cases he
  | cons x rest ih =>
    by_cases hx : x.1 = k
    · refine ⟨x.2, ?_, ?_⟩
      · simp [get?, hx]
      · have : x = (k, x.2) := by rw [← hx]
        rw [← this]; exact List.mem_cons_self
    · have he' : e ∈ rest := by
        rcases List.mem_cons.1 he with h1 | h1
        · exact absurd (h1 ▸ hk) hx
        · exact h1
      obtain ⟨v, hv1, hv2⟩ := ih he'
      refine ⟨v, ?_, List.mem_cons_of_mem _ hv2⟩
      simpa [get?, hx] using hv1
end GoMap

theorem iand_ofNat (m n : Nat) : iand (m : Int) (n : Int) = ((m &&& n : Nat) : Int) := rfl

theorem idx_ofNat {α : Type} (a : List α) (i : Nat) : idx a (i : Int) = a[i]? := by
  have : ¬ ((i : Int) < 0) := by omega
  simp [idx, this]

theorem set_ofNat {α : Type} (a : List α) (i : Nat) (v : α) (h : i < a.length) : set a (i : Int) v = some (a.set i v) := by
  have : ¬ ((i : Int) < 0) := by omega
  simp [set, h, this]

end OutlineModel.GoRT
