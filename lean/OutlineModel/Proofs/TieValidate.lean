import OutlineModel.Proofs.GoRT
import OutlineModel.Gen.Code
import OutlineModel.Model.Config
import OutlineModel.Proofs.ConfigOwner
/-
Tie between the TRANSLATED Config.Validate (cmd/outline-ss-server/config.go — Gen/Code.lean, regenerated from the source
on every run) and the model's `validate` (Model/Config.lean).  net.SplitHostPort and net.ParseIP are parameters.
-/
set_option linter.unusedSimpArgs false
set_option linter.unusedVariables false
namespace OutlineModel.Tie.Validate
open OutlineModel OutlineModel.GoRT OutlineModel.Config
open OutlineModel.Gen

section
variable (parseIP : String → List UInt8) (split : String → String × String × Option String)

/-- the listener key Validate computes -/
def ckey (l : Code.ListenerConfig) : String := l.Type_ ++ "/" ++ l.Address

/-- what Validate says about ONE listener, given the keys seen so far: an error message, or nothing -/
def chk (seen : List String) (l : Code.ListenerConfig) : Option String :=
  if l.Type_ ≠ "tcp" ∧ l.Type_ ≠ "udp" then some "unsupported listener type: %s"
  else if (split l.Address).2.2 ≠ none then some "invalid listener address `%s`: %v"
  else if parseIP (split l.Address).1 = [] then some "address must be IP, found: %s"
  else if ckey l ∈ seen then some "listener of type %s with address %s already exists."
  else none

/-- scanning a list of listeners: the first error, or the keys seen at the end -/
def scan : List String → List Code.ListenerConfig → Option String × List String
  | seen, [] => (none, seen)
  | seen, l :: rest => match chk parseIP split seen l with
    | some e => (some e, seen)
    | none => scan (ckey l :: seen) rest


/-- the same scan on the map Validate keeps -/
def scanM : GoMap String Bool → List Code.ListenerConfig → Option String × GoMap String Bool
  | m, [] => (none, m)
  | m, l :: rest => match chk parseIP split m.keys l with
    | some e => (some e, m)
    | none => scanM (m.insert (ckey l) true) rest

theorem chk_none_absent {seen : List String} {l : Code.ListenerConfig} (hc : chk parseIP split seen l = none) : ckey l ∉ seen := by
  intro hin
  unfold chk at hc
  simp only [hin, if_true] at hc
  split at hc
  · simp at hc
  · split at hc
    · simp at hc
    · split at hc <;> simp at hc

theorem scanM_keys : ∀ (ls : List Code.ListenerConfig) (m : GoMap String Bool),
    (scanM parseIP split m ls).1 = (scan parseIP split m.keys ls).1 := by
  intro ls
  induction ls with
  | nil => intro m; rfl
  | cons l rest ih =>
    intro m
    simp only [scanM, scan]
    cases hc : chk parseIP split m.keys l with
    | some e => rfl
    | none =>
      simp only []
      rw [ih, GoMap.keys_insert_absent _ _ _ (chk_none_absent parseIP split hc)]

theorem scanM_append (m : GoMap String Bool) (a b : List Code.ListenerConfig) :
    scanM parseIP split m (a ++ b) =
      match scanM parseIP split m a with
      | (some e, s) => (some e, s)
      | (none, s) => scanM parseIP split s b := by
  induction a generalizing m with
  | nil => simp [scanM]
  | cons l rest ih =>
    simp only [List.cons_append, scanM]
    cases chk parseIP split m.keys l with
    | some e => rfl
    | none => exact ih _

/-- the inner loop (the listeners of one service) for ANY body that checks one listener as `chk` says and
    remembers its key -/
theorem innerLoop (R : Type) (mk : String → R)
    (body : Code.ListenerConfig → Option R × GoMap String Bool → Option (ForInStep (Option R × GoMap String Bool)))
    (hbody : ∀ l m, body l (none, m) = match chk parseIP split m.keys l with
      | some e => some (ForInStep.done (some (mk e), m))
      | none => some (ForInStep.yield (none, m.insert (ckey l) true))) :
    ∀ (ls : List Code.ListenerConfig) (m : GoMap String Bool),
      forIn ls (none, m) body = some ((scanM parseIP split m ls).1.map mk, (scanM parseIP split m ls).2) := by
  intro ls
  induction ls with
  | nil => intro m; rfl
  | cons l rest ih =>
    intro m
    simp only [List.forIn_cons, hbody, scanM]
    cases hc : chk parseIP split m.keys l with
    | some e => rfl
    | none => simpa using ih (m.insert (ckey l) true)

/-- the outer loop (the services) for ANY body that scans the listeners of one service -/
theorem outerLoop (R : Type) (mk : String → R)
    (outer : Code.ServiceConfig → Option R × GoMap String Bool → Option (ForInStep (Option R × GoMap String Bool)))
    (hout : ∀ svc m, outer svc (none, m) = some (match (scanM parseIP split m svc.Listeners).1 with
        | some e => ForInStep.done (some (mk e), (scanM parseIP split m svc.Listeners).2)
        | none => ForInStep.yield (none, (scanM parseIP split m svc.Listeners).2))) :
    ∀ (svcs : List Code.ServiceConfig) (m : GoMap String Bool),
      forIn svcs (none, m) outer =
        some ((scanM parseIP split m (svcs.flatMap (·.Listeners))).1.map mk, (scanM parseIP split m (svcs.flatMap (·.Listeners))).2) := by
  intro svcs
  induction svcs with
  | nil => intro m; rfl
  | cons svc rest ih =>
    intro m
    simp only [List.forIn_cons, hout, List.flatMap_cons, scanM_append]
    cases hs : scanM parseIP split m svc.Listeners with
    | mk r m1 =>
      cases r with
      | some e => rfl
      | none => simpa using ih m1

/-- **Validate**: the translated function never panics and its verdict is the first error of the scan over all listeners of
    all services, in file order (nil when there is none) -/
theorem validate_eq (c : Code.Config) :
    Code.Config.Validate parseIP split c = some (c, (scan parseIP split [] (c.Services.flatMap (·.Listeners))).1) := by
  unfold Code.Config.Validate
  simp only [Option.bind_eq_bind]
  rw [outerLoop parseIP split (Code.Config × Option String) (fun e => (c, some e)) _ ?_ c.Services GoMap.empty]
  · simp only [Option.bind_some, scanM_keys, GoMap.keys_empty]
    cases (scan parseIP split [] (c.Services.flatMap (·.Listeners))).1 <;> rfl
  · intro svc m
    simp only [Option.bind_eq_bind]
    rw [innerLoop parseIP split (Code.Config × Option String) (fun e => (c, some e)) _ ?_ svc.Listeners m]
    · cases (scanM parseIP split m svc.Listeners).1 <;> rfl
    · intro l m0
      unfold chk
      by_cases ht : l.Type_ ≠ "tcp" ∧ l.Type_ ≠ "udp"
      · simp [ht]
      · by_cases hs : (split l.Address).2.2 ≠ none
        · simp [ht, hs]
        · by_cases hp : parseIP (split l.Address).1 = []
          · simp [ht, hs, hp]
          · by_cases hk : ckey l ∈ m0.keys
            · have hk' : l.Type_ ++ "/" ++ l.Address ∈ m0.keys := hk
              simp [ht, hs, hp, hk', ckey]
            · have hk' : ¬ (l.Type_ ++ "/" ++ l.Address ∈ m0.keys) := hk
              simp [ht, hs, hp, hk', ckey]


theorem eraseDups_of_nodup {α} [BEq α] [LawfulBEq α] : ∀ (l : List α), l.Nodup → l.eraseDups = l
  | [] => by simp
  | a :: as => by
    intro h
    obtain ⟨hna, hnd⟩ := List.nodup_cons.1 h
    rw [List.eraseDups_cons]
    have h4 : as.filter (fun b => !b == a) = as := by
      apply List.filter_eq_self.2
      intro b hb
      have : b ≠ a := fun e => hna (e ▸ hb)
      simp [this]
    rw [h4, eraseDups_of_nodup as hnd]

/-- a listener address is acceptable: host and port split, and the host is an IP literal -/
def addrOK (a : String) : Bool := decide ((split a).2.2 = none) && decide (parseIP (split a).1 ≠ [])

def typeOK (l : Code.ListenerConfig) : Prop := l.Type_ = "tcp" ∨ l.Type_ = "udp"

theorem scan_none_iff : ∀ (ls : List Code.ListenerConfig) (seen : List String),
    (scan parseIP split seen ls).1 = none ↔
      (∀ l ∈ ls, typeOK l ∧ addrOK parseIP split l.Address = true) ∧ (ls.map ckey).Nodup ∧ (∀ l ∈ ls, ckey l ∉ seen) := by
  intro ls
  induction ls with
  | nil => intro seen; simp [scan]
  | cons l rest ih =>
    intro seen
    simp only [scan]
    cases hc : chk parseIP split seen l with
    | some e =>
      simp only [reduceCtorEq, false_iff]
      intro ⟨h1, h2, h3⟩
      have ht := (h1 l List.mem_cons_self)
      have hk := h3 l List.mem_cons_self
      unfold chk at hc
      have t1 : ¬ (l.Type_ ≠ "tcp" ∧ l.Type_ ≠ "udp") := by
        rcases ht.1 with h | h <;> simp [h]
      have a := ht.2
      simp only [addrOK, Bool.and_eq_true, decide_eq_true_eq] at a
      simp [t1, a.1, a.2, hk] at hc
    | none =>
      simp only []
      rw [ih]
      have hk : ckey l ∉ seen := chk_none_absent parseIP split hc
      unfold chk at hc
      have t1 : ¬ (l.Type_ ≠ "tcp" ∧ l.Type_ ≠ "udp") := by
        intro h; simp [h] at hc
      have t2 : (split l.Address).2.2 = none := by
        apply Classical.byContradiction; intro h; simp [t1, h] at hc
      have t3 : parseIP (split l.Address).1 ≠ [] := by
        intro h; simp [t1, t2, h] at hc
      have tOK : typeOK l := by
        unfold typeOK
        by_cases h : l.Type_ = "tcp"
        · exact Or.inl h
        · right
          apply Classical.byContradiction
          intro h2
          exact t1 ⟨h, h2⟩
      constructor
      · intro ⟨h1, h2, h3⟩
        refine ⟨?_, ?_, ?_⟩
        · intro x hx
          rcases List.mem_cons.1 hx with rfl | hx
          · exact ⟨tOK, by simp [addrOK, t2, t3]⟩
          · exact h1 x hx
        · simp only [List.map_cons, List.nodup_cons, List.mem_map, not_exists, not_and]
          refine ⟨?_, h2⟩
          intro x hx heq
          exact (h3 x hx) (by rw [heq]; exact List.mem_cons_self)
        · intro x hx
          rcases List.mem_cons.1 hx with rfl | hx
          · exact hk
          · intro hin; exact (h3 x hx) (List.mem_cons_of_mem _ hin)
      · intro ⟨h1, h2, h3⟩
        simp only [List.map_cons, List.nodup_cons, List.mem_map, not_exists, not_and] at h2
        refine ⟨fun x hx => h1 x (List.mem_cons_of_mem _ hx), h2.2, ?_⟩
        intro x hx hin
        rcases List.mem_cons.1 hin with heq | hin
        · exact h2.1 x hx heq
        · exact h3 x (List.mem_cons_of_mem _ hx) hin

def absL (l : Code.ListenerConfig) : Listener := { tcp := decide (l.Type_ = "tcp"), addr := l.Address }

def absCfg (c : Code.Config) : Cfg :=
  { services := c.Services.map (fun s => { listeners := s.Listeners.map absL, keys := [] }), legacy := [] }

theorem lkey_abs (l : Code.ListenerConfig) (h : typeOK l) : lkey (absL l) = ckey l := by
  have e1 : "tcp" ++ "/" = "tcp/" := by decide
  have e2 : "udp" ++ "/" = "udp/" := by decide
  have ne : ("udp" : String) ≠ "tcp" := by decide
  rcases h with h | h
  · simp [lkey, absL, ckey, h, e1]
  · simp [lkey, absL, ckey, h, e2, ne]

/-- **Validate against the model**: for configurations whose listener types are `tcp` or `udp` (any other type is
    rejected: `unsupported_type_rejected`), the translated Validate accepts exactly what the model's `validate` accepts -/
theorem validate_tie (c : Code.Config)
    (htypes : ∀ l ∈ c.Services.flatMap (·.Listeners), typeOK l) :
    (Code.Config.Validate parseIP split c).map (fun r => r.2.isNone) =
      some (validate (addrOK parseIP split) (absCfg c)) := by
  rw [validate_eq]
  simp only [Option.map_some, Option.some.injEq]
  have hflat : (absCfg c).services.flatMap (·.listeners) = (c.Services.flatMap (·.Listeners)).map absL := by
    simp only [absCfg, List.flatMap_map]
    induction c.Services with
    | nil => rfl
    | cons s rest ih => simp [List.flatMap_cons, ih]
  generalize c.Services.flatMap (·.Listeners) = ls at htypes hflat
  have hkeys : (ls.map absL).map lkey = ls.map ckey := by
    rw [List.map_map]
    apply List.map_congr_left
    intro l hl
    exact lkey_abs l (htypes l hl)
  unfold validate
  simp only [hflat, hkeys]
  have hiff := scan_none_iff parseIP split ls []
  by_cases hn : (scan parseIP split [] ls).1 = none
  · obtain ⟨h1, h2, _⟩ := hiff.1 hn
    rw [hn]
    simp only [Option.isNone_none, List.all_map, Bool.true_eq, Bool.and_eq_true, List.all_eq_true, beq_iff_eq]
    refine ⟨fun l hl => by simpa [absL] using (h1 l hl).2, ?_⟩
    rw [eraseDups_of_nodup _ h2, List.length_map, List.length_map]
  · have : (scan parseIP split [] ls).1.isNone = false := by
      cases h : (scan parseIP split [] ls).1 with
      | none => exact absurd h hn
      | some _ => rfl
    rw [this]
    symm
    apply Bool.eq_false_iff.2
    intro hv
    simp only [Bool.and_eq_true, List.all_map, List.all_eq_true, beq_iff_eq] at hv
    apply hn
    apply hiff.2
    refine ⟨fun l hl => ⟨htypes l hl, by simpa [absL] using hv.1 l hl⟩, ?_, by simp⟩
    apply OutlineModel.Config.nodup_of_eraseDups_length
    rw [hv.2, List.length_map, List.length_map]

/-- a listener type other than tcp / udp makes Validate fail -/
theorem unsupported_type_rejected (c : Code.Config) (l : Code.ListenerConfig)
    (hl : l ∈ c.Services.flatMap (·.Listeners)) (ht : ¬ typeOK l) :
    ∃ e, Code.Config.Validate parseIP split c = some (c, some e) := by
  rw [validate_eq]
  cases hs : (scan parseIP split [] (c.Services.flatMap (·.Listeners))).1 with
  | some e => exact ⟨e, rfl⟩
  | none => exact absurd (((scan_none_iff parseIP split _ []).1 hs).1 l hl).1 ht

end
end OutlineModel.Tie.Validate
