import OutlineModel.Model.UDP
import OutlineModel.Proofs.CipherList
/- Lemmas about the UDP handler model: the address parser never panics on any byte string, and
   what validatePacket returns. -/
namespace OutlineModel.Socks

theorem splitAddrLen_bounds (b : List UInt8) (n : Nat) (h : splitAddrLen b = some n) :
    n ≤ b.length ∧ 7 ≤ n + 3 ∧
    ((b.head? = some 1 ∧ n = 7) ∨ (b.head? = some 4 ∧ n = 19) ∨
     (b.head? = some 3 ∧ ∃ l, b[1]? = some l ∧ n = 4 + l.toNat)) := by
  unfold splitAddrLen at h
  cases b with
  | nil => simp at h
  | cons t rest =>
    simp only at h
    by_cases h3 : t = 3
    · subst h3
      cases rest with
      | nil => simp at h
      | cons l rest2 =>
        simp at h
        obtain ⟨hlen, rfl⟩ := h
        refine ⟨by simp; omega, by omega, Or.inr (Or.inr ⟨rfl, l, rfl, by omega⟩)⟩
    · by_cases h1 : t = 1
      · subst h1
        simp at h
        obtain ⟨hlen, rfl⟩ := h
        exact ⟨by simp; omega, by omega, Or.inl ⟨rfl, rfl⟩⟩
      · by_cases h4 : t = 4
        · subst h4
          simp at h
          obtain ⟨hlen, rfl⟩ := h
          exact ⟨by simp; omega, by omega, Or.inr (Or.inl ⟨rfl, rfl⟩)⟩
        · simp [h3, h1, h4] at h

theorem slice_ok (site : String) (a : List UInt8) (i j : Nat) (h : i ≤ j ∧ j ≤ a.length) :
    slice site a i j = .ok ((a.take j).drop i) := by
  unfold slice; simp [h]

theorem idx_ok (site : String) (a : List UInt8) (i : Nat) (h : i < a.length) :
    idx site a i = .ok a[i] := by
  unfold idx; simp [h]

theorem idx_ok' (site : String) (a : List UInt8) (i : Nat) (h : i < a.length) :
    ∃ x, idx site a i = .ok x := ⟨_, idx_ok site a i h⟩

theorem decode_ok_of (a : List UInt8)
    (h : (a[0]? = some 1 ∧ a.length = 7) ∨ (a[0]? = some 4 ∧ a.length = 19) ∨
         (a[0]? = some 3 ∧ ∃ l, a[1]? = some l ∧ a.length = 4 + l.toNat)) :
    ∃ r, decode a = .ok r := by
  unfold decode
  rcases h with ⟨h0, hl⟩ | ⟨h0, hl⟩ | ⟨h0, l, h1, hl⟩
  · have e0 : idx "Addr.String a[0]" a 0 = .ok 1 := by unfold idx; rw [h0]
    simp only [e0, bind, Except.bind]
    simp
    rw [slice_ok _ _ _ _ (by omega)]
    obtain ⟨x, hx⟩ := idx_ok' "Addr.String port hi" a 5 (by omega)
    obtain ⟨y, hy⟩ := idx_ok' "Addr.String port lo" a 6 (by omega)
    rw [hx, hy]
    exact ⟨_, rfl⟩
  · have e0 : idx "Addr.String a[0]" a 0 = .ok 4 := by unfold idx; rw [h0]
    simp only [e0, bind, Except.bind]
    simp
    rw [slice_ok _ _ _ _ (by omega)]
    obtain ⟨x, hx⟩ := idx_ok' "Addr.String port hi" a 17 (by omega)
    obtain ⟨y, hy⟩ := idx_ok' "Addr.String port lo" a 18 (by omega)
    rw [hx, hy]
    exact ⟨_, rfl⟩
  · have e0 : idx "Addr.String a[0]" a 0 = .ok 3 := by unfold idx; rw [h0]
    have e1 : idx "Addr.String a[1]" a 1 = .ok l := by unfold idx; rw [h1]
    simp only [e0, e1, bind, Except.bind]
    simp
    rw [slice_ok _ _ _ _ (by omega)]
    obtain ⟨x, hx⟩ := idx_ok' "Addr.String port hi" a (2 + l.toNat) (by omega)
    obtain ⟨y, hy⟩ := idx_ok' "Addr.String port lo" a (2 + l.toNat + 1) (by omega)
    rw [hx, hy]
    exact ⟨_, rfl⟩

/-- `Addr.String` never indexes out of range on what SplitAddr returned -/
theorem decode_no_panic (b : List UInt8) (n : Nat) (h : splitAddrLen b = some n) :
    ∃ r, decode (b.take n) = .ok r := by
  obtain ⟨hle, hn, hcase⟩ := splitAddrLen_bounds b n h
  have hlen : (b.take n).length = n := by simp [List.length_take]; omega
  apply decode_ok_of
  have h0 : (b.take n)[0]? = b.head? := by
    cases b with
    | nil => simp
    | cons t rest =>
      have : n = (n - 1) + 1 := by omega
      rw [this]; simp
  rcases hcase with ⟨ht, rfl⟩ | ⟨ht, rfl⟩ | ⟨ht, l, hl, rfl⟩
  · exact Or.inl ⟨by rw [h0, ht], hlen⟩
  · exact Or.inr (Or.inl ⟨by rw [h0, ht], hlen⟩)
  · refine Or.inr (Or.inr ⟨by rw [h0, ht], l, ?_, hlen⟩)
    rw [List.getElem?_take]; simp [hl]; omega

end OutlineModel.Socks

namespace OutlineModel.UDP
open OutlineModel.Socks

variable (validate : List UInt8 → IP.Verdict) (resolve : Target → Resolved)

/-- validatePacket never panics, on any plaintext -/
theorem validatePacket_no_panic (text : List UInt8) : ∃ r, validatePacket validate resolve text = .ok r := by
  unfold validatePacket
  cases hs : splitAddrLen text with
  | none => exact ⟨_, rfl⟩
  | some n =>
    obtain ⟨hle, _, _⟩ := splitAddrLen_bounds text n hs
    obtain ⟨r, hr⟩ := decode_no_panic text n hs
    simp only [bind, Except.bind, pure, Except.pure]
    rw [slice_ok _ _ _ _ (by omega)]
    simp only [List.drop_zero, hr]
    cases r with
    | none => exact ⟨_, rfl⟩
    | some tgt =>
      simp only []
      cases resolve tgt with
      | fail => exact ⟨_, rfl⟩
      | ip ip =>
        simp only []
        cases validate ip with
        | invalid => exact ⟨_, rfl⟩
        | priv => exact ⟨_, rfl⟩
        | ok =>
          simp only []
          rw [slice_ok _ _ _ _ (by omega)]
          exact ⟨_, rfl⟩

/-- what a successful validatePacket returned: the payload is the text after the address header,
    and the address it returns passed the validator -/
theorem validatePacket_ok (text payload ip : List UInt8) (port : Nat)
    (h : validatePacket validate resolve text = .ok (.ok (payload, ip, port))) :
    ∃ n, splitAddrLen text = some n ∧ payload = text.drop n ∧ validate ip = .ok := by
  unfold validatePacket at h
  cases hs : splitAddrLen text with
  | none => simp [hs, pure, Except.pure] at h
  | some n =>
    obtain ⟨hle, _, _⟩ := splitAddrLen_bounds text n hs
    obtain ⟨r, hr⟩ := decode_no_panic text n hs
    simp only [hs, bind, Except.bind, pure, Except.pure] at h
    rw [slice_ok _ _ _ _ (by omega)] at h
    simp only [List.drop_zero, hr] at h
    cases r with
    | none => simp at h
    | some tgt =>
      simp only [] at h
      cases hres : resolve tgt with
      | fail => simp [hres] at h
      | ip ip' =>
        simp only [hres] at h
        cases hv : validate ip' with
        | invalid => simp [hv] at h
        | priv => simp [hv] at h
        | ok =>
          simp only [hv] at h
          rw [slice_ok _ _ _ _ (by omega)] at h
          simp at h
          obtain ⟨rfl, rfl, _⟩ := h
          exact ⟨n, rfl, by simp, hv⟩

/-- the error statuses of validatePacket are never "OK" -/
theorem validatePacket_error_ne_ok (text : List UInt8) (s : String)
    (h : validatePacket validate resolve text = .ok (.error s)) : s ≠ "OK" := by
  unfold validatePacket at h
  intro hs
  subst hs
  cases hsp : splitAddrLen text with
  | none => simp [hsp, pure, Except.pure] at h
  | some n =>
    obtain ⟨hle, _, _⟩ := splitAddrLen_bounds text n hsp
    obtain ⟨d, hd⟩ := decode_no_panic text n hsp
    simp only [hsp, bind, Except.bind, pure, Except.pure] at h
    rw [slice_ok _ _ _ _ (by omega)] at h
    simp only [List.drop_zero, hd] at h
    cases d with
    | none => simp at h
    | some tgt =>
      simp only [] at h
      cases hres : resolve tgt with
      | fail => simp [hres] at h
      | ip ip' =>
        simp only [hres] at h
        cases hv : validate ip' with
        | invalid => simp [hv] at h
        | priv => simp [hv] at h
        | ok =>
          simp only [hv] at h
          rw [slice_ok _ _ _ _ (by omega)] at h
          simp at h

/-- Every possible outcome of one client datagram, state and effects (there is no panic case). -/
theorem upstream_cases (dnsPort : Nat) (ki : KeyInfo) (st : State) (client : String) (cip : Option Nat) (wire : Nat)
    (opens : List Nat) (plain : List UInt8) :
    let res := upstream dnsPort ki validate resolve st client cip wire opens plain
    -- A: new client, no configured key opens it
    (lookupNat st.nat client = none ∧ (∀ e ∈ st.list, opens.contains e.key = false) ∧ res = (st, [.search false])) ∨
    -- B: new client, authenticated, destination refused / unreadable: nothing but the search report
    (lookupNat st.nat client = none ∧ ∃ list' s, validatePacket validate resolve plain = .ok (.error s) ∧
        res = ({ st with list := list' }, [.search true])) ∨
    -- C: new client, association created
    (lookupNat st.nat client = none ∧ ∃ list' e pl ip port, e ∈ st.list ∧ opens.contains e.key = true ∧
        validatePacket validate resolve plain = .ok (.ok (pl, ip, port)) ∧
        res = ({ st with list := list',
                         nat := ({ client := client, sock := st.nextSock, key := e.key, keyId := e.id,
                                   saltSize := (ki e.key).1, tagSize := (ki e.key).2 } : Assoc).onWrite port dnsPort :: st.nat,
                         nextSock := st.nextSock + 1 },
               [.search true, .natAdd client e.id st.nextSock, .send st.nextSock ip port pl, .report "OK" wire pl.length])) ∨
    -- D: known client, forwarded
    (∃ a, lookupNat st.nat client = some a ∧ opens.contains a.key = true ∧ ∃ pl ip port,
        validatePacket validate resolve plain = .ok (.ok (pl, ip, port)) ∧
        res = ({ st with nat := updateAssoc st.nat client (fun x => x.onWrite port dnsPort) },
               [.search true, .send a.sock ip port pl, .report "OK" wire pl.length])) ∨
    -- E: known client, authenticated, destination refused / unreadable
    (∃ a, lookupNat st.nat client = some a ∧ opens.contains a.key = true ∧ ∃ s,
        validatePacket validate resolve plain = .ok (.error s) ∧ s ≠ "OK" ∧
        res = (st, [.search true, .report s wire 0])) ∨
    -- F: known client, does not open under the association's key
    (∃ a, lookupNat st.nat client = some a ∧ opens.contains a.key = false ∧
        res = (st, [.search false, .report "ERR_CIPHER" wire 0])) := by
  intro res
  obtain ⟨r, hr⟩ := validatePacket_no_panic validate resolve plain
  simp only [res]
  unfold upstream
  cases hn : lookupNat st.nat client with
  | none =>
    simp only
    rcases CipherList.lookup_cases st.list cip (fun k => opens.contains k) with ⟨e, i, hf, hl⟩ | ⟨hf, hl⟩
    · have hfound := CipherList.findEntry_sound (fun k => opens.contains k) st.list cip e hf
      rw [hl]
      simp only [hr]
      cases r with
      | error s => right; left; exact ⟨trivial, _, s, rfl, rfl⟩
      | ok t =>
        obtain ⟨pl, ip', port'⟩ := t
        right; right; left
        exact ⟨trivial, _, e, pl, ip', port', hfound.1, hfound.2, rfl, rfl⟩
    · rw [hl]
      left
      exact ⟨trivial, (CipherList.findEntry_none_iff _ _ _).1 hf, rfl⟩
  | some a =>
    simp only
    by_cases ho : opens.contains a.key = true
    · rw [if_pos ho]
      simp only [hr]
      cases r with
      | error s =>
        right; right; right; right; left
        exact ⟨a, rfl, ho, s, rfl, validatePacket_error_ne_ok validate resolve plain s hr, rfl⟩
      | ok t =>
        obtain ⟨pl, ip', port'⟩ := t
        right; right; right; left
        exact ⟨a, rfl, ho, pl, ip', port', rfl, rfl⟩
    · rw [if_neg ho]
      right; right; right; right; right
      exact ⟨a, rfl, by simpa using ho, rfl⟩

/-- the SOCKS header timedCopy builds for an IP source is 7 bytes (IPv4, IPv4-mapped) or 19 bytes -/
theorem encodeIP_length (ip : List UInt8) (port : Nat) (h : ip.length = 4 ∨ ip.length = 16) :
    (encodeIP ip port).length = 7 ∨ (encodeIP ip port).length = 19 := by
  unfold encodeIP
  rcases h with h4 | h16
  · left; simp [h4]
  · simp only [h16]
    split
    · rename_i hc; simp at hc
    · split
      · left; simp [List.length_drop, h16]
      · right; simp [h16]

/-- the in-place layout of timedCopy: when the address header fits the reserved room and the body
    fits the buffer, nothing is out of range and Pack is given exactly `srcaddr ‖ body`. -/
theorem relayReply_ok (bufSize maxAddrLen : Nat) (a : Assoc) (srcIP : List UInt8) (srcPort : Nat) (body : List UInt8)
    (hal : (encodeIP srcIP srcPort).length ≤ maxAddrLen)
    (hfit : a.saltSize + maxAddrLen + body.length + a.tagSize ≤ bufSize) :
    relayReply bufSize maxAddrLen a srcIP srcPort body =
      [.toClient a.client a.key (encodeIP srcIP srcPort ++ body) (a.saltSize + (encodeIP srcIP srcPort ++ body).length + a.tagSize),
       .fromTarget "OK" body.length (a.saltSize + (encodeIP srcIP srcPort ++ body).length + a.tagSize)] := by
  unfold relayReply
  simp only [List.length_append]
  generalize hA : (encodeIP srcIP srcPort).length = alen at *
  rw [if_neg (by omega), if_neg (by omega), if_neg (by omega)]

/-- a read that filled the whole read buffer (a truncated datagram) is never relayed: Pack has no
    room for the tag. -/
theorem relayReply_truncated (bufSize maxAddrLen : Nat) (a : Assoc) (srcIP : List UInt8) (srcPort : Nat) (body : List UInt8)
    (hal : (encodeIP srcIP srcPort).length ≤ maxAddrLen) (hbuf : a.saltSize + maxAddrLen ≤ bufSize)
    (hfull : body.length = bufSize - (a.saltSize + maxAddrLen)) (htag : 0 < a.tagSize) :
    relayReply bufSize maxAddrLen a srcIP srcPort body = [.fromTarget "ERR_PACK" body.length 0] := by
  unfold relayReply
  simp only [List.length_append]
  generalize hA : (encodeIP srcIP srcPort).length = alen at *
  rw [if_neg (by omega), if_neg (by omega), if_pos (by omega)]

end OutlineModel.UDP
