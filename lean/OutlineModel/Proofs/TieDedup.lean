import OutlineModel.Proofs.GoRT
import OutlineModel.Gen.Code
import OutlineModel.Model.Config
/-
Tie for the TRANSLATED newCipherListFromConfig (cmd/outline-ss-server/main.go — Gen/Code.lean, regenerated from the
source on every run): which keys of a service end up in its key list, in which order, and when the whole service is
refused.  `shadowsocks.NewEncryptionKey`, `service.NewCipherList` and the salt generators are parameters; the call
`ciphers.Update(list)` on the (interface) key list is in the function's effect log.
-/
set_option linter.unusedSimpArgs false
set_option linter.unusedVariables false
namespace OutlineModel.Tie.Dedup
open OutlineModel OutlineModel.GoRT OutlineModel.Config
open OutlineModel.Gen

section
variable (saltSize : Opaque "shadowsocks.EncryptionKey" → Int)
  (newList : Opaque "service.CipherList")
  (newKey : String → String → Opaque "shadowsocks.EncryptionKey" × Option String)
  (newGen : String → Opaque "service.ServerSaltGenerator") (rnd : Opaque "service.ServerSaltGenerator")

/-- MakeCipherEntry never panics: its closed form -/
theorem makeEntry_eq (id secret : String) (k : Opaque "shadowsocks.EncryptionKey") :
    Code.MakeCipherEntry saltSize newGen rnd id k secret =
      some (⟨id, k, (if saltSize k - 4 ≥ 16 then newGen secret else rnd), ⟨0⟩⟩ : Code.CipherEntry) := by
  unfold Code.MakeCipherEntry
  by_cases h : saltSize k - 4 ≥ 16 <;> simp [h, Code.CipherEntry.zero]

/-- the entry built for one key of the configuration -/
def entryOf (kc : Code.KeyConfig) : Code.CipherEntry :=
  ⟨kc.ID, (newKey kc.Cipher kc.Secret).1,
   (if saltSize (newKey kc.Cipher kc.Secret).1 - 4 ≥ 16 then newGen kc.Secret else rnd), ⟨0⟩⟩

def ckOf (kc : Code.KeyConfig) : Code.cipherKey := { cipher := kc.Cipher, secret := kc.Secret }

/-- the scan the loop performs: `seen` are the (cipher, secret) pairs met so far, `acc` the list built so far;
    `none` = a first occurrence whose key cannot be created -/
def scan : List Code.cipherKey → List (ListElem Code.CipherEntry) → List Code.KeyConfig →
    Option (List (ListElem Code.CipherEntry))
  | _, acc, [] => some acc
  | seen, acc, kc :: rest =>
    if ckOf kc ∈ seen then scan seen acc rest
    else if (newKey kc.Cipher kc.Secret).2 ≠ none then none
    else scan (ckOf kc :: seen) (pushBack acc (entryOf saltSize newKey newGen rnd kc)) rest


/-- the same scan on the map the loop keeps; the Boolean says whether a key could not be created -/
def scanM : GoMap Code.cipherKey Bool → List (ListElem Code.CipherEntry) → List Code.KeyConfig →
    Bool × List (ListElem Code.CipherEntry) × GoMap Code.cipherKey Bool
  | m, acc, [] => (false, acc, m)
  | m, acc, kc :: rest =>
    if m.contains (ckOf kc) then scanM m acc rest
    else if (newKey kc.Cipher kc.Secret).2 ≠ none then (true, acc, m)
    else scanM (m.insert (ckOf kc) true) (pushBack acc (entryOf saltSize newKey newGen rnd kc)) rest

theorem scanM_scan : ∀ (keys : List Code.KeyConfig) (m : GoMap Code.cipherKey Bool) (acc : List (ListElem Code.CipherEntry)),
    (if (scanM saltSize newKey newGen rnd m acc keys).1 then none else some (scanM saltSize newKey newGen rnd m acc keys).2.1) =
      scan saltSize newKey newGen rnd m.keys acc keys := by
  intro keys
  induction keys with
  | nil => intro m acc; rfl
  | cons kc rest ih =>
    intro m acc
    simp only [scanM, scan, GoMap.contains_eq, decide_eq_true_eq]
    by_cases hin : ckOf kc ∈ m.keys
    · simp only [hin, if_true]; exact ih m acc
    · simp only [hin, if_false]
      by_cases he : (newKey kc.Cipher kc.Secret).2 ≠ none
      · simp [he]
      · simp only [he, if_false]
        rw [← GoMap.keys_insert_absent m (ckOf kc) true hin]
        exact ih _ _

/-- the loop for ANY body that treats one key as the scan says -/
theorem dedupLoop (R : Type) (errR : R)
    (body : Code.KeyConfig → Option R × List (ListElem Code.CipherEntry) × GoMap Code.cipherKey Bool →
      Option (ForInStep (Option R × List (ListElem Code.CipherEntry) × GoMap Code.cipherKey Bool)))
    (hbody : ∀ kc acc m, body kc (none, acc, m) =
      if m.contains (ckOf kc) then some (ForInStep.yield (none, acc, m))
      else if (newKey kc.Cipher kc.Secret).2 ≠ none then some (ForInStep.done (some errR, acc, m))
      else some (ForInStep.yield (none, pushBack acc (entryOf saltSize newKey newGen rnd kc), m.insert (ckOf kc) true))) :
    ∀ (keys : List Code.KeyConfig) (acc : List (ListElem Code.CipherEntry)) (m : GoMap Code.cipherKey Bool),
      forIn keys (none, acc, m) body =
        some ((if (scanM saltSize newKey newGen rnd m acc keys).1 then some errR else none),
              (scanM saltSize newKey newGen rnd m acc keys).2.1, (scanM saltSize newKey newGen rnd m acc keys).2.2) := by
  intro keys
  induction keys with
  | nil => intro acc m; rfl
  | cons kc rest ih =>
    intro acc m
    simp only [List.forIn_cons, hbody, scanM]
    by_cases hc : m.contains (ckOf kc) = true
    · simp only [hc, if_true, Option.bind_eq_bind, Option.bind_some]; exact ih acc m
    · simp only [hc, Bool.false_eq_true, if_false]
      by_cases he : (newKey kc.Cipher kc.Secret).2 ≠ none
      · simp [he]
      · simp only [he, if_false, Option.bind_eq_bind, Option.bind_some]; exact ih _ _

/-- the call on the new key list -/
def updateEff (l : List (ListElem Code.CipherEntry)) : Eff :=
  { name := "CipherList.Update", args := [],
    vals := [[Atom.tok newList.val], l.flatMap (fun x => [Atom.tok x.id] ++ Code.CipherEntry.atoms x.Value)] }

/-- **newCipherListFromConfig**: never panics; the keys of the service are taken in file order, a key whose (cipher name,
    secret) pair was already met is skipped BEFORE anything else is done with it, the first key that cannot be created
    refuses the whole service (no list, nothing installed), otherwise ONE `Update` installs the entries built, in order -/
theorem newCipherList_eq (config : Code.ServiceConfig) :
    Code.newCipherListFromConfig saltSize newList newKey newGen rnd config =
      some (match scan saltSize newKey newGen rnd [] [] config.Keys with
        | none => (⟨0⟩, some "failed to create encyption key for key %v: %w", [])
        | some l => (newList, none, [updateEff newList l])) := by
  unfold Code.newCipherListFromConfig
  simp only [Option.bind_eq_bind]
  rw [dedupLoop saltSize newKey newGen rnd _ (⟨0⟩, some "failed to create encyption key for key %v: %w", []) _ ?_ config.Keys [] GoMap.empty]
  · have h := scanM_scan saltSize newKey newGen rnd config.Keys GoMap.empty []
    simp only [GoMap.keys_empty] at h
    rw [← h]
    cases (scanM saltSize newKey newGen rnd GoMap.empty [] config.Keys).1 <;> simp [updateEff]
  · intro kc acc m
    by_cases hin : ckOf kc ∈ m.keys
    · have hin' : ({ cipher := kc.Cipher, secret := kc.Secret } : Code.cipherKey) ∈ m.keys := hin
      simp [hin, hin']
    · have hin' : ¬ (({ cipher := kc.Cipher, secret := kc.Secret } : Code.cipherKey) ∈ m.keys) := hin
      by_cases he : (newKey kc.Cipher kc.Secret).2 ≠ none
      · simp [hin, hin', he]
      · simp [hin, hin', he, makeEntry_eq, entryOf, ckOf]


def absK (kc : Code.KeyConfig) : Key := { id := kc.ID, cipher := kc.Cipher, secret := kc.Secret }
def pairOf (ck : Code.cipherKey) : String × String := (ck.cipher, ck.secret)

theorem contains_pairs (seen : List Code.cipherKey) (kc : Code.KeyConfig) :
    (seen.map pairOf).contains (kc.Cipher, kc.Secret) = decide (ckOf kc ∈ seen) := by
  induction seen with
  | nil => simp
  | cons x rest ih =>
    simp only [List.map_cons, List.contains_cons, ih, List.mem_cons]
    cases x with | mk c s =>
    by_cases h : ckOf kc = ⟨c, s⟩
    · have : kc.Cipher = c ∧ kc.Secret = s := by simpa [ckOf] using h
      simp [h, pairOf, this.1, this.2]
    · have h2 : ¬ ((kc.Cipher, kc.Secret) = (c, s)) := by
        intro hh
        apply h
        simp only [Prod.mk.injEq] at hh
        simp [ckOf, hh.1, hh.2]
      simp [h, pairOf, h2]

theorem ids_pushBack (acc : List (ListElem Code.CipherEntry)) (e : Code.CipherEntry) :
    (pushBack acc e).map (·.Value.ID) = acc.map (·.Value.ID) ++ [e.ID] := by
  simp [pushBack]

/-- **against the model**: when key creation fails exactly for the cipher names the model's `canon` rejects, the ids of the
    entries installed — and whether the service is refused — are the model's `dedupKeys`: first occurrence of each raw
    (cipher name, secret) pair, in file order -/
theorem scan_dedup (canon : String → Option Nat)
    (hcanon : ∀ c s, (newKey c s).2 = none ↔ (canon c).isSome = true) :
    ∀ (keys : List Code.KeyConfig) (seen : List Code.cipherKey) (acc : List (ListElem Code.CipherEntry)),
      (scan saltSize newKey newGen rnd seen acc keys).map (fun l => l.map (·.Value.ID)) =
        (dedupKeys.go canon (seen.map pairOf) (keys.map absK)).map (fun l => acc.map (·.Value.ID) ++ l.map (·.1)) := by
  intro keys
  induction keys with
  | nil => intro seen acc; simp [scan, dedupKeys.go]
  | cons kc rest ih =>
    intro seen acc
    simp only [scan, List.map_cons, dedupKeys.go, absK, contains_pairs]
    by_cases hin : ckOf kc ∈ seen
    · simp only [hin, if_true, decide_true]
      exact ih seen acc
    · simp only [hin, if_false, decide_false, Bool.false_eq_true]
      cases hc : canon kc.Cipher with
      | none =>
        have : (newKey kc.Cipher kc.Secret).2 ≠ none := by
          intro h
          have := (hcanon kc.Cipher kc.Secret).1 h
          simp [hc] at this
        simp [this]
      | some cid =>
        have : (newKey kc.Cipher kc.Secret).2 = none := (hcanon kc.Cipher kc.Secret).2 (by simp [hc])
        simp only [this, ne_eq, not_true_eq_false, if_false]
        have h := ih (ckOf kc :: seen) (pushBack acc (entryOf saltSize newKey newGen rnd kc))
        rw [h]
        have e1 : (entryOf saltSize newKey newGen rnd kc).ID = kc.ID := rfl
        simp only [List.map_cons, pairOf, ckOf, ids_pushBack, e1]
        simp only [Option.map_map]
        congr 1
        funext l
        simp [List.append_assoc]

end
end OutlineModel.Tie.Dedup
