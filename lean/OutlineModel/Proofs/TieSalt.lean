import OutlineModel.Proofs.GoRT
import OutlineModel.Gen.Code
import OutlineModel.Gen.Consts
import OutlineModel.Model.Auth
/-
Tie between the TRANSLATED serverSaltGenerator.splitSalt / IsServerSalt (service/server_salt.go — Gen/Code.lean,
regenerated from the source on every run) and the model Model/Auth.lean (`isServerSalt`), for all inputs.
HMAC (`getTag`) is a parameter: any function.
-/
set_option linter.unusedSimpArgs false
namespace OutlineModel.Tie.Salt
open OutlineModel OutlineModel.GoRT OutlineModel.Auth
open OutlineModel.Gen

theorem slice_nat {α : Type} (a : List α) (lo hi : Nat) (h1 : lo ≤ hi) (h2 : hi ≤ a.length) :
    GoRT.slice a (lo : Int) (hi : Int) = some ((a.take hi).drop lo) := by
  unfold GoRT.slice
  have : ¬ ((lo : Int) < 0 ∨ (hi : Int) < (lo : Int) ∨ (a.length : Int) < (hi : Int)) := by omega
  simp [this, h1, h2]

theorem splitSalt_short (sg : Code.serverSaltGenerator) (salt : List UInt8) (h : salt.length < 4) :
    ∃ e, Code.serverSaltGenerator.splitSalt sg salt = some ([], [], some e) := by
  unfold Code.serverSaltGenerator.splitSalt
  have : (GoRT.len salt - 4 < 0) := by simp [GoRT.len]; omega
  refine ⟨"salt is too short: %d < %d", ?_⟩
  simp [this]

theorem splitSalt_ok (sg : Code.serverSaltGenerator) (salt : List UInt8) (h : 4 ≤ salt.length) :
    Code.serverSaltGenerator.splitSalt sg salt = some (salt.take (salt.length - 4), salt.drop (salt.length - 4), none) := by
  unfold Code.serverSaltGenerator.splitSalt
  have h1 : ¬ (GoRT.len salt - 4 < 0) := by simp [GoRT.len]; omega
  have e1 : GoRT.len salt - 4 = ((salt.length - 4 : Nat) : Int) := by simp [GoRT.len]; omega
  have e2 : GoRT.len salt = ((salt.length : Nat) : Int) := by simp [GoRT.len]
  have s1 := slice_nat salt 0 (salt.length - 4) (by omega) (by omega)
  have s2 := slice_nat salt (salt.length - 4) salt.length (by omega) (by omega)
  simp only [List.drop_zero, List.take_length] at s1 s2
  have h1' : ¬ (((salt.length - 4 : Nat) : Int) < 0) := by omega
  have e1' : ((salt.length : Nat) : Int) - 4 = ((salt.length - 4 : Nat) : Int) := by omega
  simp only [e2, e1', h1', decide_false, Bool.false_eq_true, if_false]
  have s1' : GoRT.slice salt 0 ((salt.length - 4 : Nat) : Int) = some (salt.take (salt.length - 4)) := s1
  simp [s1', s2]

/-- **IsServerSalt**: as long as the tag has at least 4 bytes (HMAC-SHA1 has 20), the translated function never panics and
    is the model's `isServerSalt` with the generated mark length — for every HMAC, key and salt (short ones included) -/
theorem isServerSalt_tie (getTag : Code.serverSaltGenerator → List UInt8 → List UInt8) (sg : Code.serverSaltGenerator)
    (salt : List UInt8) (htag : ∀ p, 4 ≤ (getTag sg p).length) :
    Code.serverSaltGenerator.IsServerSalt getTag sg salt = some (isServerSalt (getTag sg) Gen.serverSaltMarkLen salt) := by
  unfold Code.serverSaltGenerator.IsServerSalt isServerSalt
  have hm : Gen.serverSaltMarkLen = 4 := rfl
  rw [hm]
  by_cases h : salt.length < 4
  · obtain ⟨e, he⟩ := splitSalt_short sg salt h
    simp [he, h]
  · have h' : 4 ≤ salt.length := by omega
    have st : GoRT.slice (getTag sg (salt.take (salt.length - 4))) 0 4 = some ((getTag sg (salt.take (salt.length - 4))).take 4) := by
      have := slice_nat (getTag sg (salt.take (salt.length - 4))) 0 4 (by omega) (htag _)
      simpa using this
    simp only [splitSalt_ok sg salt h', h, if_false, Option.bind_eq_bind, Option.bind_some, ne_eq, not_true_eq_false,
      decide_false, Bool.false_eq_true, st, pure]
    congr 1
    cases hd : decide (List.take 4 (getTag sg (List.take (salt.length - 4) salt)) = List.drop (salt.length - 4) salt) with
    | true => have := of_decide_eq_true hd; rw [this]; simp
    | false =>
      have := of_decide_eq_false hd
      symm
      exact beq_false_of_ne this

end OutlineModel.Tie.Salt
