import OutlineModel.Model.TunnelTime
/-!
Refinement proof for the tunnel-time collector model (`OutlineModel.Model.TunnelTime`):
the collector reports exactly the time during which a client (IPKey) had at least one tunnel open.

Method: the real model `run` and the per-IPKey specifications `specRun k` are run side by side and
`Inv` is shown to hold after every operation.  `Inv` carries an existentially quantified ghost
function `rep : IPKey → Nat` (amount already reported on behalf of each IPKey) with
  * `rep k + pending k = covered k`                         (per IPKey)
  * `getOf perKey a = Σ_{k ∈ ks, k.key = a} rep k`          (per access key)
  * `k` active ↔ `depth k > 0`, with `count = depth`; the active list has one entry per IPKey.
Each spec step is split into `tick` (time passes) and `bump` (depth changes).

Main results: `per_key_equals_covered`, `per_key_reported_plus_pending`, `active_iff_depth`,
`per_location_equals_per_key`, `unauthenticated_contributes_zero`, `no_double_count_overlap`,
`covered_le_elapsed`.

Side conditions of `per_key_equals_covered` (all necessary or harmless):
  * `Monotone t0 ops` and `lastTime t0 ops ≤ tEnd`: necessary — see the counterexample in the
    Examples section (clock going back: model 10, specification 15).
  * `ks.Nodup` and `ks` contains every IPKey occurring in a `.start` of `ops` (IPKeys that occur
    only in `.stop`s need not be listed; extra members of `ks` are harmless: they contribute 0).
  * No side condition is needed for `stop`s of inactive IPKeys or for equal timestamps.
-/
namespace OutlineModel.TunnelTime

/-! ## sums -/
theorem sum_map_add {α} (l : List α) (f g : α → Nat) :
    (l.map (fun x => f x + g x)).sum = (l.map f).sum + (l.map g).sum := by
  induction l with
  | nil => rfl
  | cons x l ih => simp only [List.map_cons, List.sum_cons, ih]; omega

theorem sum_map_zero {α} (l : List α) (f : α → Nat) (h : ∀ x ∈ l, f x = 0) :
    (l.map f).sum = 0 := by
  induction l with
  | nil => rfl
  | cons x l ih =>
    simp only [List.map_cons, List.sum_cons]
    rw [h x (by simp), ih (fun y hy => h y (by simp [hy]))]

theorem sum_indicator {α} [DecidableEq α] (l : List α) (k0 : α) (d : Nat)
    (hnd : l.Nodup) (hin : k0 ∈ l) :
    (l.map (fun k => if k = k0 then d else 0)).sum = d := by
  induction l with
  | nil => cases hin
  | cons x l ih =>
    simp only [List.map_cons, List.sum_cons]
    rw [List.nodup_cons] at hnd
    by_cases hx : x = k0
    · subst hx
      rw [sum_map_zero]
      · simp
      · intro y hy
        have : y ≠ x := fun e => hnd.1 (e ▸ hy)
        simp [this]
    · have : k0 ∈ l := by
        cases hin with
        | head => exact absurd rfl hx
        | tail _ h => exact h
      rw [ih hnd.2 this]; simp [hx]

theorem sum_filter_map {α} (l : List α) (p : α → Bool) (f : α → Nat) :
    ((l.filter p).map f).sum = (l.map (fun k => if p k then f k else 0)).sum := by
  induction l with
  | nil => rfl
  | cons x l ih =>
    by_cases hp : p x <;> simp [hp, ih]

/-! ## counter maps -/
@[simp] theorem getOf_nil (a : String) : getOf [] a = 0 := rfl

theorem getOf_cons (k' : String) (v' : Nat) (m : List (String × Nat)) (a : String) :
    getOf ((k', v') :: m) a = if k' = a then v' else getOf m a := by
  unfold getOf
  simp only [List.find?_cons]
  by_cases h : k' = a
  · simp [h]
  · have : (k' == a) = false := by simp [h]
    simp [this, h]

theorem getOf_addTo (m : List (String × Nat)) (k a : String) (v : Nat) :
    getOf (addTo m k v) a = getOf m a + (if k = a then v else 0) := by
  induction m with
  | nil => simp [addTo, getOf_cons]
  | cons p m ih =>
    obtain ⟨k', v'⟩ := p
    unfold addTo
    by_cases h : k' = k
    · subst h
      simp only [beq_self_eq_true, if_true, getOf_cons]
      split <;> simp
    · have : (k' == k) = false := by simp [h]
      rw [if_neg (by simp [h]), getOf_cons, getOf_cons, ih]
      by_cases h1 : k' = a <;> by_cases h2 : k = a <;> simp_all

theorem sumVals_addTo (m : List (String × Nat)) (k : String) (v : Nat) :
    ((addTo m k v).map (·.2)).sum = (m.map (·.2)).sum + v := by
  induction m with
  | nil => simp [addTo]
  | cons p m ih =>
    obtain ⟨k', v'⟩ := p
    unfold addTo
    split
    · simp; omega
    · simp [ih]; omega


/-! ## per-location totals equal per-key totals -/
def Bal (t : TT) : Prop := (t.perLoc.map (·.2)).sum = (t.perKey.map (·.2)).sum

theorem bal_report (t : TT) (c : Client) (now : Nat) (h : Bal t) : Bal (report t c now) := by
  unfold Bal at *
  simp only [report, sumVals_addTo, h]

theorem bal_foldl (now : Nat) (l : List Client) :
    ∀ t, Bal t → Bal (l.foldl (fun acc c => report acc c now) t) := by
  induction l with
  | nil => intro t h; exact h
  | cons c l ih => intro t h; exact ih _ (bal_report t c now h)

theorem bal_step (t : TT) (o : Op) (h : Bal t) : Bal (step t o) := by
  cases o with
  | start k now loc =>
    simp only [step, start]
    split <;> exact h
  | stop k now =>
    simp only [step, stop]
    split
    · exact h
    · split
      · exact bal_report t _ now h
      · exact h
  | collect now =>
    exact bal_foldl now t.active t h

theorem bal_run (ops : List Op) : ∀ t, Bal t → Bal (run t ops) := by
  induction ops with
  | nil => intro t h; exact h
  | cons o os ih => intro t h; exact ih _ (bal_step t o h)

/-- Per-location totals equal per-key totals: every report adds the same amount to both maps. -/
theorem per_location_equals_per_key (ops : List Op) :
    ((run TT.init ops).perLoc.map (·.2)).sum = ((run TT.init ops).perKey.map (·.2)).sum :=
  bal_run ops TT.init rfl

/-! ## lookups after each operation -/
theorem find?_mapIf (l : List Client) (k0 k : IPKey) (g : Client → Client)
    (hg : ∀ c, (g c).k = c.k) :
    (l.map (fun c => if c.k == k0 then g c else c)).find? (·.k == k) =
      if k = k0 then (l.find? (·.k == k0)).map g else l.find? (·.k == k) := by
  induction l with
  | nil => simp
  | cons c l ih =>
    rw [List.map_cons, List.find?_cons, ih, List.find?_cons, List.find?_cons]
    by_cases h1 : c.k = k0 <;> by_cases h2 : k = k0 <;> by_cases h3 : c.k = k <;>
      grind

theorem find?_filterNe (l : List Client) (k0 k : IPKey) :
    (l.filter (fun x => !(x.k == k0))).find? (·.k == k) =
      if k = k0 then none else l.find? (·.k == k) := by
  induction l with
  | nil => simp
  | cons c l ih =>
    rw [List.filter_cons, List.find?_cons]
    by_cases h1 : c.k = k0 <;> by_cases h2 : k = k0 <;> by_cases h3 : c.k = k <;>
      grind

theorem keys_mapIf (l : List Client) (k0 : IPKey) (g : Client → Client)
    (hg : ∀ c, (g c).k = c.k) :
    (l.map (fun c => if c.k == k0 then g c else c)).map (·.k) = l.map (·.k) := by
  induction l with
  | nil => rfl
  | cons c l ih =>
    simp only [List.map_cons, ih]
    by_cases h : c.k = k0 <;> simp [h, hg]

theorem find_k {t : TT} {k : IPKey} {c : Client} (h : find t k = some c) : c.k = k := by
  have := List.find?_some h
  simpa using this

theorem find_mem {t : TT} {k : IPKey} {c : Client} (h : find t k = some c) : c ∈ t.active :=
  List.mem_of_find?_eq_some h

theorem foldl_report_active (now : Nat) (l : List Client) :
    ∀ t, (l.foldl (fun acc c => report acc c now) t).active = t.active := by
  induction l with
  | nil => intro t; rfl
  | cons c l ih => intro t; rw [List.foldl_cons, ih]; rfl

theorem foldl_report_perKey (now : Nat) (a : String) (l : List Client) :
    ∀ t, getOf (l.foldl (fun acc c => report acc c now) t).perKey a =
      getOf t.perKey a + (l.map (fun c => if c.k.key = a then now - c.start else 0)).sum := by
  induction l with
  | nil => intro t; simp
  | cons c l ih =>
    intro t
    rw [List.foldl_cons, ih]
    simp only [report, getOf_addTo, List.map_cons, List.sum_cons]
    omega

/-- the sum over a duplicate-free key list of a quantity looked up in the active list equals
    the sum over the active list -/
theorem sum_active_eq (l : List Client) (ks : List IPKey) (G : Client → Nat)
    (hnd : (l.map (·.k)).Nodup) (hks : ks.Nodup) (hin : ∀ c ∈ l, c.k ∈ ks) :
    (ks.map (fun k => match l.find? (·.k == k) with | some c => G c | none => 0)).sum =
      (l.map G).sum := by
  induction l with
  | nil => exact sum_map_zero _ _ (fun _ _ => rfl)
  | cons c l ih =>
    rw [List.map_cons, List.nodup_cons] at hnd
    have hnone : l.find? (·.k == c.k) = none := by
      rw [List.find?_eq_none]
      intro x hx hxe
      exact hnd.1 (by
        have : x.k = c.k := by simpa using hxe
        rw [← this]; exact List.mem_map_of_mem hx)
    have hpt : ∀ k, (match (c :: l).find? (·.k == k) with | some c => G c | none => 0) =
        (match l.find? (·.k == k) with | some c => G c | none => 0) +
          (if k = c.k then G c else 0) := by
      intro k
      by_cases hk : k = c.k
      · subst hk; simp [hnone]
      · have : (c.k == k) = false := by simp; exact fun e => hk e.symm
        simp [this, hk]
    simp only [hpt]
    rw [sum_map_add, ih hnd.2 (fun x hx => hin x (by simp [hx])),
      sum_indicator ks c.k (G c) hks (hin c (by simp))]
    simp only [List.map_cons, List.sum_cons]; omega


theorem find_start_none {t : TT} {k0 : IPKey} (now : Nat) (loc : String) (h : find t k0 = none)
    (k : IPKey) : find (start t k0 now loc) k =
      if k = k0 then some ⟨k0, 1, now, loc⟩ else find t k := by
  simp only [start, h]
  unfold find
  rw [List.find?_cons]
  by_cases hk : k = k0 <;> grind

theorem find_start_some {t : TT} {k0 : IPKey} {c0 : Client} (now : Nat) (loc : String)
    (h : find t k0 = some c0) (k : IPKey) : find (start t k0 now loc) k =
      if k = k0 then some { c0 with count := c0.count + 1 } else find t k := by
  simp only [start, h]
  unfold find at *
  simp only []
  rw [find?_mapIf _ _ _ (fun c => { c with count := c.count + 1 }) (fun _ => rfl), h]; rfl

theorem find_stop_dec {t : TT} {k0 : IPKey} {c0 : Client} (now : Nat)
    (h : find t k0 = some c0) (hc : ¬ c0.count - 1 ≤ 0) (k : IPKey) : find (stop t k0 now) k =
      if k = k0 then some { c0 with count := c0.count - 1 } else find t k := by
  simp only [stop, h, hc, if_false]
  unfold find at *
  simp only []
  rw [find?_mapIf _ _ _ (fun c => { c with count := c.count - 1 }) (fun _ => rfl), h]; rfl

theorem find_stop_rm {t : TT} {k0 : IPKey} {c0 : Client} (now : Nat)
    (h : find t k0 = some c0) (hc : c0.count - 1 ≤ 0) (k : IPKey) : find (stop t k0 now) k =
      if k = k0 then none else find t k := by
  simp only [stop, h, hc, if_true]
  unfold find at *
  simp only [report]
  rw [find?_filterNe]

theorem find_collect (t : TT) (now : Nat) (k : IPKey) :
    find (collect t now) k = (find t k).map (fun c => { c with start := now }) := by
  unfold find collect
  simp only [foldl_report_active]
  rw [List.find?_map]
  rfl

/-! ## the specification, split into "time passes" and "depth changes" -/
def tick (s : Spec) (n : Nat) : Spec :=
  { depth := s.depth, last := n,
    covered := if s.depth > 0 then s.covered + (n - s.last) else s.covered }

def bump (k : IPKey) (s : Spec) : Op → Spec
  | .start k' _ _ => if k = k' then { s with depth := s.depth + 1 } else s
  | .stop k' _ => if k = k' then { s with depth := s.depth - 1 } else s
  | .collect _ => s

theorem specStep_eq (k : IPKey) (s : Spec) (o : Op) :
    specStep k s o = bump k (tick s o.now) o := by
  cases o with
  | start k' n l =>
    by_cases h : k = k'
    · subst h; simp [specStep, bump, tick, Op.now]
    · have : ¬ k' = k := fun e => h e.symm
      simp [specStep, bump, tick, Op.now, h, this]
  | stop k' n =>
    by_cases h : k = k'
    · subst h; simp [specStep, bump, tick, Op.now]
    · have : ¬ k' = k := fun e => h e.symm
      simp [specStep, bump, tick, Op.now, h, this]
  | collect n => simp [specStep, bump, tick, Op.now]


/-! ## the refinement invariant -/

/-- time accrued by `k`'s active entry and not yet reported -/
def pending (t : TT) (now : Nat) (k : IPKey) : Nat :=
  match find t k with | some c => now - c.start | none => 0

/-- `rep k` is a ghost quantity: the amount already reported on behalf of IPKey `k`. -/
structure Inv (ks : List IPKey) (t : TT) (sp : IPKey → Spec) (now : Nat) (rep : IPKey → Nat) :
    Prop where
  nodup : (t.active.map (·.k)).Nodup
  inks : ∀ c ∈ t.active, c.k ∈ ks
  last : ∀ k, (sp k).last = now
  act : ∀ k c, find t k = some c → c.count = ((sp k).depth : Int) ∧ 0 < (sp k).depth ∧ c.start ≤ now
  inact : ∀ k, find t k = none → (sp k).depth = 0
  repa : ∀ k, rep k + pending t now k = (sp k).covered
  repd : ∀ a, getOf t.perKey a = (ks.map (fun k => if k.key = a then rep k else 0)).sum

theorem inv_init (ks : List IPKey) (t0 : Nat) :
    Inv ks TT.init (fun _ => ⟨0, t0, 0⟩) t0 (fun _ => 0) where
  nodup := List.nodup_nil
  inks := by intro c hc; cases hc
  last := fun _ => rfl
  act := by intro k c h; cases h
  inact := fun _ _ => rfl
  repa := fun _ => rfl
  repd := by
    intro a
    rw [sum_map_zero _ _ (by intro x _; simp)]
    rfl

theorem inv_tick {ks t sp now rep} (h : Inv ks t sp now rep) {n : Nat} (hn : now ≤ n) :
    Inv ks t (fun k => tick (sp k) n) n rep where
  nodup := h.nodup
  inks := h.inks
  last := fun _ => rfl
  act := by
    intro k c hf
    have := h.act k c hf
    simp only [tick]; omega
  inact := fun k hf => h.inact k hf
  repa := by
    intro k
    have hr := h.repa k
    have hl := h.last k
    unfold pending at *
    cases hf : find t k with
    | none =>
      have := h.inact k hf
      simp only [hf, tick, this] at *
      simpa using hr
    | some c =>
      have := h.act k c hf
      simp only [hf, tick] at *
      rw [if_pos this.2.1]
      omega
  repd := h.repd

theorem inv_start {ks t sp now rep} (h : Inv ks t sp now rep) (k0 : IPKey) (loc : String)
    (hk0 : k0 ∈ ks) :
    Inv ks (start t k0 now loc) (fun k => bump k (sp k) (.start k0 now loc)) now rep := by
  cases h0 : find t k0 with
  | none =>
    have hf := find_start_none now loc h0
    have hact : (start t k0 now loc).active = ⟨k0, 1, now, loc⟩ :: t.active := by
      simp [start, h0]
    have hpk : (start t k0 now loc).perKey = t.perKey := by simp [start, h0]
    have hd0 := h.inact k0 h0
    refine ⟨?_, ?_, ?_, ?_, ?_, ?_, ?_⟩
    · rw [hact, List.map_cons, List.nodup_cons]
      refine ⟨?_, h.nodup⟩
      intro hm
      obtain ⟨x, hx, hxe⟩ := List.mem_map.1 hm
      have := List.find?_eq_none.1 h0 x hx
      simp [hxe] at this
    · intro c hc
      rw [hact] at hc
      cases hc with
      | head => exact hk0
      | tail _ hc => exact h.inks c hc
    · intro k; simp only [bump]; split <;> exact h.last k
    · intro k c hfk
      rw [hf] at hfk
      simp only [bump]
      by_cases hk : k = k0
      · subst hk
        simp only [if_true, Option.some.injEq] at hfk
        subst hfk
        simp [hd0]
      · simp only [hk, if_false] at hfk ⊢
        exact h.act k c hfk
    · intro k hfk
      rw [hf] at hfk
      by_cases hk : k = k0
      · simp [hk] at hfk
      · simp only [hk, if_false, bump] at hfk ⊢
        exact h.inact k hfk
    · intro k
      have hr := h.repa k
      have hp : pending (start t k0 now loc) now k = pending t now k := by
        unfold pending
        rw [hf]
        by_cases hk : k = k0
        · subst hk; simp [h0]
        · simp [hk]
      rw [hp]
      simp only [bump]; split <;> exact hr
    · intro a; rw [hpk]; exact h.repd a
  | some c0 =>
    have hf := find_start_some now loc h0
    have hact : (start t k0 now loc).active =
        t.active.map (fun c => if c.k == k0 then { c with count := c.count + 1 } else c) := by
      simp [start, h0]
    have hpk : (start t k0 now loc).perKey = t.perKey := by simp [start, h0]
    have ha0 := h.act k0 c0 h0
    refine ⟨?_, ?_, ?_, ?_, ?_, ?_, ?_⟩
    · rw [hact, keys_mapIf _ _ (fun c => { c with count := c.count + 1 }) (fun _ => rfl)]
      exact h.nodup
    · intro c hc
      rw [hact] at hc
      obtain ⟨x, hx, hxe⟩ := List.mem_map.1 hc
      have : c.k = x.k := by rw [← hxe]; split <;> rfl
      rw [this]; exact h.inks x hx
    · intro k; simp only [bump]; split <;> exact h.last k
    · intro k c hfk
      rw [hf] at hfk
      simp only [bump]
      by_cases hk : k = k0
      · subst hk
        simp only [if_true, Option.some.injEq] at hfk
        subst hfk
        simp only [if_true]
        omega
      · simp only [hk, if_false] at hfk ⊢
        exact h.act k c hfk
    · intro k hfk
      rw [hf] at hfk
      by_cases hk : k = k0
      · simp [hk] at hfk
      · simp only [hk, if_false, bump] at hfk ⊢
        exact h.inact k hfk
    · intro k
      have hr := h.repa k
      have hp : pending (start t k0 now loc) now k = pending t now k := by
        unfold pending
        rw [hf]
        by_cases hk : k = k0
        · subst hk; simp [h0]
        · simp [hk]
      rw [hp]
      simp only [bump]; split <;> exact hr
    · intro a; rw [hpk]; exact h.repd a


theorem inv_stop {ks t sp now rep} (h : Inv ks t sp now rep) (hks : ks.Nodup) (k0 : IPKey) :
    ∃ rep', Inv ks (stop t k0 now) (fun k => bump k (sp k) (.stop k0 now)) now rep' := by
  cases h0 : find t k0 with
  | none =>
    have hd0 := h.inact k0 h0
    have hst : stop t k0 now = t := by simp [stop, h0]
    have hsp : (fun k => bump k (sp k) (.stop k0 now)) = sp := by
      funext k
      by_cases hk : k = k0
      · subst hk
        simp only [bump, if_true]
        cases hs : sp k with
        | mk d l c =>
          rw [hs] at hd0
          simp only at hd0 ⊢
          subst hd0; rfl
      · simp [bump, hk]
    rw [hst, hsp]
    exact ⟨rep, h⟩
  | some c0 =>
    have ha0 := h.act k0 c0 h0
    have hck : c0.k = k0 := find_k h0
    by_cases hc : c0.count - 1 ≤ 0
    · -- last tunnel closed: report and remove
      have hd1 : (sp k0).depth = 1 := by omega
      have hf := find_stop_rm now h0 hc
      have hact : (stop t k0 now).active = t.active.filter (fun x => !(x.k == k0)) := by
        simp [stop, h0, hc, report]
      have hpk : (stop t k0 now).perKey = addTo t.perKey k0.key (now - c0.start) := by
        simp [stop, h0, hc, report, hck]
      refine ⟨fun k => rep k + (if k = k0 then now - c0.start else 0), ?_, ?_, ?_, ?_, ?_, ?_, ?_⟩
      · rw [hact]
        exact List.Nodup.sublist (List.Sublist.map _ List.filter_sublist) h.nodup
      · intro c hc'
        rw [hact] at hc'
        exact h.inks c (List.mem_filter.1 hc').1
      · intro k; simp only [bump]; split <;> exact h.last k
      · intro k c hfk
        rw [hf] at hfk
        by_cases hk : k = k0
        · simp [hk] at hfk
        · simp only [hk, if_false, bump] at hfk ⊢
          exact h.act k c hfk
      · intro k hfk
        rw [hf] at hfk
        by_cases hk : k = k0
        · subst hk; simp [bump, hd1]
        · simp only [hk, if_false, bump] at hfk ⊢
          exact h.inact k hfk
      · intro k
        have hr := h.repa k
        unfold pending at *
        rw [hf]
        by_cases hk : k = k0
        · subst hk
          simp only [h0, if_true, bump] at hr ⊢
          omega
        · simp only [hk, if_false, bump] at hr ⊢
          omega
      · intro a
        rw [hpk, getOf_addTo, h.repd a]
        have hin : k0 ∈ ks := hck ▸ h.inks c0 (find_mem h0)
        have : ∀ k, (if k.key = a then rep k + (if k = k0 then now - c0.start else 0) else 0) =
            (if k.key = a then rep k else 0) +
              (if k = k0 then (if k0.key = a then now - c0.start else 0) else 0) := by
          intro k
          by_cases hk : k = k0
          · subst hk; by_cases hka : k.key = a <;> simp [hka]
          · simp [hk]
        simp only [this]
        rw [sum_map_add, sum_indicator ks k0 _ hks hin]
    · -- other tunnels remain: decrement
      have hf := find_stop_dec now h0 hc
      have hact : (stop t k0 now).active =
          t.active.map (fun c => if c.k == k0 then { c with count := c.count - 1 } else c) := by
        simp [stop, h0, hc]
      have hpk : (stop t k0 now).perKey = t.perKey := by simp [stop, h0, hc]
      refine ⟨rep, ?_, ?_, ?_, ?_, ?_, ?_, ?_⟩
      · rw [hact, keys_mapIf _ _ (fun c => { c with count := c.count - 1 }) (fun _ => rfl)]
        exact h.nodup
      · intro c hc'
        rw [hact] at hc'
        obtain ⟨x, hx, hxe⟩ := List.mem_map.1 hc'
        have : c.k = x.k := by rw [← hxe]; split <;> rfl
        rw [this]; exact h.inks x hx
      · intro k; simp only [bump]; split <;> exact h.last k
      · intro k c hfk
        rw [hf] at hfk
        simp only [bump]
        by_cases hk : k = k0
        · subst hk
          simp only [if_true, Option.some.injEq] at hfk
          subst hfk
          simp only [if_true]
          omega
        · simp only [hk, if_false] at hfk ⊢
          exact h.act k c hfk
      · intro k hfk
        rw [hf] at hfk
        by_cases hk : k = k0
        · simp [hk] at hfk
        · simp only [hk, if_false, bump] at hfk ⊢
          exact h.inact k hfk
      · intro k
        have hr := h.repa k
        have hp : pending (stop t k0 now) now k = pending t now k := by
          unfold pending
          rw [hf]
          by_cases hk : k = k0
          · subst hk; simp [h0]
          · simp [hk]
        rw [hp]
        simp only [bump]; split <;> exact hr
      · intro a; rw [hpk]; exact h.repd a

theorem inv_collect {ks t sp now rep} (h : Inv ks t sp now rep) (hks : ks.Nodup) :
    ∃ rep', Inv ks (collect t now) sp now rep' ∧ ∀ k, pending (collect t now) now k = 0 := by
  have hf := find_collect t now
  have hact : (collect t now).active = t.active.map (fun c => { c with start := now }) := by
    simp [collect, foldl_report_active]
  have hp0 : ∀ k, pending (collect t now) now k = 0 := by
    intro k
    unfold pending
    rw [hf]
    cases find t k <;> simp
  refine ⟨fun k => rep k + pending t now k, ⟨?_, ?_, h.last, ?_, ?_, ?_, ?_⟩, hp0⟩
  · rw [hact, List.map_map]; exact h.nodup
  · intro c hc
    rw [hact] at hc
    obtain ⟨x, hx, hxe⟩ := List.mem_map.1 hc
    rw [← hxe]; exact h.inks x hx
  · intro k c hfk
    rw [hf] at hfk
    cases hft : find t k with
    | none => simp [hft] at hfk
    | some c' =>
      simp only [hft, Option.map_some, Option.some.injEq] at hfk
      subst hfk
      have := h.act k c' hft
      simp only []
      omega
  · intro k hfk
    rw [hf] at hfk
    cases hft : find t k with
    | none => exact h.inact k hft
    | some c' => simp [hft] at hfk
  · intro k
    rw [hp0]; exact h.repa k
  · intro a
    have hpk : getOf (collect t now).perKey a = getOf t.perKey a +
        (t.active.map (fun c => if c.k.key = a then now - c.start else 0)).sum := by
      simp only [collect]
      exact foldl_report_perKey now a t.active t
    rw [hpk, h.repd a,
      ← sum_active_eq t.active ks _ h.nodup hks h.inks, ← sum_map_add]
    congr 1
    apply List.map_congr_left
    intro k _
    unfold pending
    cases hft : find t k with
    | none =>
      have : List.find? (fun x => x.k == k) t.active = none := hft
      simp [this]
    | some c =>
      have : List.find? (fun x => x.k == k) t.active = some c := hft
      have hk := find_k hft
      simp only [this, hk]
      split <;> rfl


/-! ## running the model and all per-IPKey specifications side by side -/

/-- the time of the last operation (`t0` if there is none) -/
def lastTime (t0 : Nat) : List Op → Nat
  | [] => t0
  | o :: os => lastTime o.now os

/-- the IPKeys for which a tunnel is ever opened -/
def startKeys : List Op → List IPKey
  | [] => []
  | .start k _ _ :: os => k :: startKeys os
  | .stop _ _ :: os => startKeys os
  | .collect _ :: os => startKeys os

theorem inv_step {ks t sp now rep} (h : Inv ks t sp now rep) (hks : ks.Nodup) (o : Op)
    (hn : now ≤ o.now) (hk : ∀ k ∈ startKeys [o], k ∈ ks) :
    ∃ rep', Inv ks (step t o) (fun k => specStep k (sp k) o) o.now rep' := by
  simp only [specStep_eq]
  have h1 := inv_tick h hn
  cases o with
  | start k0 n loc => exact ⟨rep, inv_start h1 k0 loc (hk k0 (by simp [startKeys]))⟩
  | stop k0 n => exact inv_stop h1 hks k0
  | collect n =>
    obtain ⟨rep', h2, _⟩ := inv_collect h1 hks
    exact ⟨rep', h2⟩

theorem startKeys_cons_sub (o : Op) (os : List Op) :
    (∀ k ∈ startKeys [o], k ∈ startKeys (o :: os)) ∧ (∀ k ∈ startKeys os, k ∈ startKeys (o :: os)) := by
  cases o <;> simp [startKeys] <;> (intro k hk; exact Or.inr hk)

/-- a duplicate-free list with the same members -/
def dedup : List IPKey → List IPKey
  | [] => []
  | k :: ks => if k ∈ dedup ks then dedup ks else k :: dedup ks

theorem mem_dedup (k : IPKey) (ks : List IPKey) : k ∈ dedup ks ↔ k ∈ ks := by
  induction ks with
  | nil => simp [dedup]
  | cons x xs ih =>
    simp only [dedup]
    split
    · rename_i h
      rw [ih, List.mem_cons]
      constructor
      · exact Or.inr
      · rintro (e | h')
        · subst e; exact ih.1 h
        · exact h'
    · rw [List.mem_cons, List.mem_cons, ih]

theorem nodup_dedup (ks : List IPKey) : (dedup ks).Nodup := by
  induction ks with
  | nil => exact List.nodup_nil
  | cons x xs ih =>
    simp only [dedup]
    split
    · exact ih
    · exact List.nodup_cons.2 ⟨by assumption, ih⟩

theorem inv_run (ks : List IPKey) (hks : ks.Nodup) (ops : List Op) :
    ∀ t sp now rep, Inv ks t sp now rep → Monotone now ops → (∀ k ∈ startKeys ops, k ∈ ks) →
      ∃ rep', Inv ks (run t ops) (fun k => specRun k (sp k) ops) (lastTime now ops) rep' := by
  induction ops with
  | nil => intro t sp now rep h _ _; exact ⟨rep, h⟩
  | cons o os ih =>
    intro t sp now rep h hm hk
    have hsub := startKeys_cons_sub o os
    obtain ⟨rep1, h1⟩ := inv_step h hks o hm.1 (fun k hk' => hk k (hsub.1 k hk'))
    exact ih _ _ _ _ h1 hm.2 (fun k hk' => hk k (hsub.2 k hk'))

theorem run_append (t : TT) (a b : List Op) : run t (a ++ b) = run (run t a) b := by
  induction a generalizing t with
  | nil => rfl
  | cons o os ih => exact ih _

theorem specRun_append (k : IPKey) (s : Spec) (a b : List Op) :
    specRun k s (a ++ b) = specRun k (specRun k s a) b := by
  induction a generalizing s with
  | nil => rfl
  | cons o os ih => exact ih _

theorem lastTime_ge (t0 : Nat) (ops : List Op) (h : Monotone t0 ops) : t0 ≤ lastTime t0 ops := by
  induction ops generalizing t0 with
  | nil => exact Nat.le_refl _
  | cons o os ih => exact Nat.le_trans h.1 (ih _ h.2)

theorem specRun_last (k : IPKey) (s : Spec) (ops : List Op) :
    (specRun k s ops).last = lastTime s.last ops := by
  induction ops generalizing s with
  | nil => rfl
  | cons o os ih =>
    simp only [specRun, lastTime]
    rw [ih]
    congr 1
    rw [specStep_eq]
    cases o <;> simp only [bump] <;> (try split) <;> rfl

/-! ## main theorems -/

/-- General form (no final scrape needed): what has been reported for access key `a` plus what is
    still pending in the active entries equals the covered time of the IPKeys using `a`. -/
theorem per_key_reported_plus_pending (t0 : Nat) (ops : List Op) (ks : List IPKey)
    (hmono : Monotone t0 ops) (hks : ks.Nodup) (hall : ∀ k ∈ startKeys ops, k ∈ ks) (a : String) :
    getOf (run TT.init ops).perKey a
        + ((ks.filter (·.key == a)).map (pending (run TT.init ops) (lastTime t0 ops))).sum
      = ((ks.filter (·.key == a)).map
          (fun k => (specRun k ⟨0, t0, 0⟩ ops).covered)).sum := by
  obtain ⟨rep, h⟩ := inv_run ks hks ops _ _ _ _ (inv_init ks t0) hmono hall
  rw [h.repd a, sum_filter_map, sum_filter_map, ← sum_map_add]
  congr 1
  apply List.map_congr_left
  intro k _
  have := h.repa k
  by_cases hk : k.key = a <;> simp [hk]
  exact this

/-- an IPKey has an active entry exactly while its specification has depth > 0 -/
theorem active_iff_depth (t0 : Nat) (ops : List Op) (hmono : Monotone t0 ops) (k : IPKey) :
    (find (run TT.init ops) k = none ↔ (specRun k ⟨0, t0, 0⟩ ops).depth = 0) ∧
    (∀ c, find (run TT.init ops) k = some c → c.count = ((specRun k ⟨0, t0, 0⟩ ops).depth : Int)) := by
  obtain ⟨rep, h⟩ := inv_run (dedup (startKeys ops)) (nodup_dedup _) ops _ _ _ _
    (inv_init _ t0) hmono (fun k hk => (mem_dedup k _).2 hk)
  refine ⟨⟨h.inact k, ?_⟩, fun c hc => (h.act k c hc).1⟩
  intro hd
  cases hf : find (run TT.init ops) k with
  | none => rfl
  | some c => have := (h.act k c hf).2.1; omega

/-- **Refinement theorem.**  After a scrape at `tEnd`, the tunnel time reported for access key `a`
    is exactly the sum, over the client IPKeys using `a`, of the time during which that client had
    at least one tunnel open. -/
theorem per_key_equals_covered (t0 : Nat) (ops : List Op) (tEnd : Nat) (ks : List IPKey)
    (hmono : Monotone t0 ops) (hEnd : lastTime t0 ops ≤ tEnd)
    (hks : ks.Nodup) (hall : ∀ k ∈ startKeys ops, k ∈ ks) (a : String) :
    getOf (run TT.init (ops ++ [.collect tEnd])).perKey a
      = ((ks.filter (·.key == a)).map
          (fun k => (specRun k ⟨0, t0, 0⟩ (ops ++ [.collect tEnd])).covered)).sum := by
  obtain ⟨rep, h⟩ := inv_run ks hks ops _ _ _ _ (inv_init ks t0) hmono hall
  obtain ⟨rep', h2, hp0⟩ := inv_collect (inv_tick h hEnd) hks
  have hrun : run TT.init (ops ++ [.collect tEnd]) = collect (run TT.init ops) tEnd := by
    rw [run_append]; rfl
  have hspec : ∀ k, specRun k ⟨0, t0, 0⟩ (ops ++ [.collect tEnd]) =
      tick (specRun k ⟨0, t0, 0⟩ ops) tEnd := by
    intro k
    rw [specRun_append]
    show specStep k _ (.collect tEnd) = _
    rw [specStep_eq]; rfl
  rw [hrun, h2.repd a, sum_filter_map]
  congr 1
  apply List.map_congr_left
  intro k _
  have := h2.repa k
  rw [hp0] at this
  rw [hspec]
  by_cases hk : k.key = a <;> simp [hk]
  exact this


theorem monotone_append_collect (t0 : Nat) (ops : List Op) (tEnd : Nat) :
    Monotone t0 (ops ++ [.collect tEnd]) ↔ Monotone t0 ops ∧ lastTime t0 ops ≤ tEnd := by
  induction ops generalizing t0 with
  | nil => simp [Monotone, lastTime, Op.now]
  | cons o os ih =>
    simp only [List.cons_append, Monotone, lastTime, ih]
    constructor
    · rintro ⟨a, b, c⟩; exact ⟨⟨a, b⟩, c⟩
    · rintro ⟨⟨a, b⟩, c⟩; exact ⟨a, b, c⟩

/-- the same theorem with the hypothesis phrased on the whole trace -/
theorem per_key_equals_covered' (t0 : Nat) (ops : List Op) (tEnd : Nat) (ks : List IPKey)
    (hmono : Monotone t0 (ops ++ [.collect tEnd]))
    (hks : ks.Nodup) (hall : ∀ k ∈ startKeys ops, k ∈ ks) (a : String) :
    getOf (run TT.init (ops ++ [.collect tEnd])).perKey a
      = ((ks.filter (·.key == a)).map
          (fun k => (specRun k ⟨0, t0, 0⟩ (ops ++ [.collect tEnd])).covered)).sum :=
  have h := (monotone_append_collect t0 ops tEnd).1 hmono
  per_key_equals_covered t0 ops tEnd ks h.1 h.2 hks hall a

/-! ### IPKeys that never open a tunnel -/
theorem specRun_no_start (k : IPKey) (ops : List Op) :
    ∀ s : Spec, s.depth = 0 → k ∉ startKeys ops →
      (specRun k s ops).depth = 0 ∧ (specRun k s ops).covered = s.covered := by
  induction ops with
  | nil => intro s hd _; exact ⟨hd, rfl⟩
  | cons o os ih =>
    intro s hd hk
    have hsub := startKeys_cons_sub o os
    have hstep : (specStep k s o).depth = 0 ∧ (specStep k s o).covered = s.covered := by
      rw [specStep_eq]
      cases o with
      | start k' n l =>
        have : k ≠ k' := fun e => hk (by simp [startKeys, e])
        simp [bump, tick, this, hd]
      | stop k' n =>
        simp only [bump, tick, hd]
        split <;> simp
      | collect n => simp [bump, tick, hd]
    have := ih (specStep k s o) hstep.1 (fun h => hk (hsub.2 k h))
    exact ⟨this.1, this.2.trans hstep.2⟩

theorem run_no_start (ops : List Op) :
    ∀ t : TT, t.active = [] → startKeys ops = [] →
      (run t ops).active = [] ∧ (run t ops).perKey = t.perKey := by
  induction ops with
  | nil => intro t ha _; exact ⟨ha, rfl⟩
  | cons o os ih =>
    intro t ha hk
    have hstep : (step t o).active = [] ∧ (step t o).perKey = t.perKey ∧ startKeys os = [] := by
      cases o with
      | start k n l => simp [startKeys] at hk
      | stop k n => simp [step, stop, find, ha]; simpa [startKeys] using hk
      | collect n => simp [step, collect, ha]; simpa [startKeys] using hk
    have := ih (step t o) hstep.1 hstep.2.2
    exact ⟨this.1, this.2.trans hstep.2.1⟩

/-- An IPKey for which no tunnel is ever opened (e.g. a connection that never authenticates, so
    that only `stop`s or nothing at all are seen for it) has covered time 0 and hence contributes
    nothing; and a trace without any `start` reports nothing at all. -/
theorem unauthenticated_contributes_zero (t0 : Nat) (ops : List Op) :
    (∀ k, k ∉ startKeys ops → (specRun k ⟨0, t0, 0⟩ ops).covered = 0) ∧
    (startKeys ops = [] → (run TT.init ops).perKey = [] ∧ ∀ a, getOf (run TT.init ops).perKey a = 0) := by
  refine ⟨fun k hk => (specRun_no_start k ops ⟨0, t0, 0⟩ rfl hk).2, fun h => ?_⟩
  have := (run_no_start ops TT.init rfl h).2
  refine ⟨this, fun a => ?_⟩
  rw [this]; rfl

/-! ### covered time never exceeds elapsed time -/
theorem covered_le_elapsed (k : IPKey) (ops : List Op) :
    ∀ s : Spec, Monotone s.last ops →
      (specRun k s ops).covered ≤ s.covered + (lastTime s.last ops - s.last) := by
  induction ops with
  | nil => intro s _; exact Nat.le_add_right _ _
  | cons o os ih =>
    intro s hm
    have hl : (specStep k s o).last = o.now := by
      rw [specStep_eq]; cases o <;> simp only [bump] <;> (try split) <;> rfl
    have hc : (specStep k s o).covered ≤ s.covered + (o.now - s.last) := by
      rw [specStep_eq]
      have : (tick s o.now).covered ≤ s.covered + (o.now - s.last) := by
        simp only [tick]; split <;> omega
      cases o <;> simp only [bump] <;> (try split) <;> exact this
    have h2 := ih (specStep k s o) (by rw [hl]; exact hm.2)
    rw [hl] at h2
    have h3 := lastTime_ge o.now os hm.2
    have h4 := hm.1
    simp only [specRun, lastTime]
    omega

/-- Overlapping tunnels of one client are not counted twice: two tunnels open over [10,30] and
    [20,50] report 40 = 50 - 10, for every IPKey `k` and location `l`; and in general the covered
    time of an IPKey never exceeds the elapsed time. -/
theorem no_double_count_overlap :
    (∀ (k : IPKey) (l : String),
      getOf (run TT.init [.start k 10 l, .start k 20 l, .stop k 30, .stop k 50, .collect 60]).perKey
        k.key = 40) ∧
    (∀ (k : IPKey) (t0 : Nat) (ops : List Op), Monotone t0 ops →
      (specRun k ⟨0, t0, 0⟩ ops).covered ≤ lastTime t0 ops - t0) := by
  constructor
  · intro k l
    have h := per_key_equals_covered 10 [.start k 10 l, .start k 20 l, .stop k 30, .stop k 50] 60 [k]
      (by simp [Monotone, Op.now]) (by simp [lastTime, Op.now]) (by simp) (by simp [startKeys]) k.key
    simp only [List.cons_append, List.nil_append] at h
    rw [h]
    simp [specRun, specStep, Op.now]
  · intro k t0 ops hm
    have := covered_le_elapsed k ops ⟨0, t0, 0⟩ hm
    simpa using this


/-! ## non-vacuity: concrete traces checked by `decide` -/
section Examples

def kA : IPKey := ⟨1, "a"⟩   -- two clients sharing access key "a"
def kB : IPKey := ⟨2, "a"⟩
def kC : IPKey := ⟨3, "b"⟩   -- and one client with key "b"

/-- overlapping tunnels of one client: [10,30] ∪ [20,50] = 40, not 20 + 30 = 50 -/
example : getOf (run TT.init
    [.start kA 10 "us", .start kA 20 "us", .stop kA 30, .stop kA 50, .collect 60]).perKey "a" = 40 := by
  decide

/-- two clients share key "a", with scrapes interleaved, a re-opened tunnel, an ignored extra stop -/
def trace : List Op :=
  [.start kA 10 "us", .start kB 20 "de", .collect 25, .start kA 26 "us", .stop kA 30,
   .start kC 31 "us", .collect 35, .stop kA 40, .stop kB 50, .stop kC 55, .stop kC 56]

example : Monotone 0 trace ∧ lastTime 0 trace ≤ 60 := by
  simp [trace, Monotone, lastTime, Op.now]

example : startKeys trace = [kA, kB, kA, kC] ∧ [kA, kB, kC].Nodup := by decide

-- the model: kA had a tunnel open during [10,40], kB during [20,50], kC during [31,55]
example : getOf (run TT.init (trace ++ [.collect 60])).perKey "a" = 30 + 30 := by decide
example : getOf (run TT.init (trace ++ [.collect 60])).perKey "b" = 24 := by decide
example : getOf (run TT.init (trace ++ [.collect 60])).perLoc "us" = 30 + 24 := by decide
example : getOf (run TT.init (trace ++ [.collect 60])).perLoc "de" = 30 := by decide
-- the specification
example : (specRun kA ⟨0, 0, 0⟩ (trace ++ [.collect 60])).covered = 30 := by decide
example : (specRun kB ⟨0, 0, 0⟩ (trace ++ [.collect 60])).covered = 30 := by decide
example : (specRun kC ⟨0, 0, 0⟩ (trace ++ [.collect 60])).covered = 24 := by decide
-- the theorem instantiated: its hypotheses are satisfiable and it gives the value above
example : getOf (run TT.init (trace ++ [.collect 60])).perKey "a" = 60 := by
  rw [per_key_equals_covered 0 trace 60 [kA, kB, kC]
    (by simp [trace, Monotone, Op.now]) (by simp [trace, lastTime, Op.now]) (by decide)
    (by decide) "a"]
  decide
-- in the middle of the trace (first scrape at 25): reported 15 + 5, nothing pending
example : getOf (run TT.init (trace.take 3)).perKey "a" = 20 := by decide
-- between the scrapes (time 31): reported 20, pending 31 - 25 = 6 for kA and kB each,
-- covered 21 + 11 = 20 + 6 + 6   (instance of `per_key_reported_plus_pending`)
example : getOf (run TT.init (trace.take 6)).perKey "a" = 20
    ∧ pending (run TT.init (trace.take 6)) 31 kA = 6 ∧ pending (run TT.init (trace.take 6)) 31 kB = 6
    ∧ (specRun kA ⟨0, 0, 0⟩ (trace.take 6)).covered = 21
    ∧ (specRun kB ⟨0, 0, 0⟩ (trace.take 6)).covered = 11 := by decide

/-- The clock hypothesis is necessary.  If the clock goes back (start of kC at 5 after start of kA
    at 10), the model reports 20 - 10 = 10 for kA but the specification, which accrues per
    operation with truncated subtraction, says (5 - 10) + (20 - 5) = 15. -/
example :
    getOf (run TT.init [.start kA 10 "us", .start kC 5 "us", .collect 20]).perKey "a" = 10 ∧
    (specRun kA ⟨0, 0, 0⟩ [.start kA 10 "us", .start kC 5 "us", .collect 20]).covered = 15 ∧
    ¬ Monotone 0 [.start kA 10 "us", .start kC 5 "us", .collect 20] := by
  refine ⟨by decide, by decide, ?_⟩
  simp [Monotone, Op.now]

/-- A `stop` for an IPKey that is not active is ignored by both sides (this is NOT a counterexample) -/
example : getOf (run TT.init [.stop kA 5, .start kA 10 "us", .stop kA 30, .stop kA 40, .collect 50]).perKey "a" = 20
    ∧ (specRun kA ⟨0, 0, 0⟩ [.stop kA 5, .start kA 10 "us", .stop kA 30, .stop kA 40, .collect 50]).covered = 20 := by
  decide

end Examples

#print axioms per_key_equals_covered
#print axioms per_key_equals_covered'
#print axioms per_key_reported_plus_pending
#print axioms active_iff_depth
#print axioms per_location_equals_per_key
#print axioms unauthenticated_contributes_zero
#print axioms no_double_count_overlap
#print axioms covered_le_elapsed

end OutlineModel.TunnelTime
