import OutlineModel.Model.IP
import OutlineModel.Gen.PrivateNets
/- Bit-mask facts about single bytes (each proved by kernel evaluation over all 256 values) and
   the reduction of `requirePublicIP` on 4-byte, IPv4-mapped and plain 16-byte addresses. -/
namespace OutlineModel.IP

section masks
set_option maxRecDepth 100000

private theorem and_ff_aux : ∀ n, n < 256 → (UInt8.ofNat n) &&& 255 = UInt8.ofNat n := by decide +kernel
theorem and_ff (x : UInt8) : x &&& 255 = x := by
  have h := and_ff_aux x.toNat x.toNat_lt
  simpa using h

private theorem and_f0_e0_aux : ∀ n, n < 256 → ((UInt8.ofNat n) &&& 240 = 224) = (224 ≤ n ∧ n ≤ 239) := by decide +kernel
theorem and_f0_e0 (x : UInt8) : (x &&& 240 = 224) ↔ (224 ≤ x.toNat ∧ x.toNat ≤ 239) := by
  have h := and_f0_e0_aux x.toNat x.toNat_lt
  simp only [UInt8.ofNat_toNat] at h
  rw [h]

private theorem and_f0_10_aux : ∀ n, n < 256 → ((16 : UInt8) &&& 240 = (UInt8.ofNat n) &&& 240) = (16 ≤ n ∧ n ≤ 31) := by decide +kernel
theorem and_f0_10 (x : UInt8) : ((16 : UInt8) &&& 240 = x &&& 240) ↔ (16 ≤ x.toNat ∧ x.toNat ≤ 31) := by
  have h := and_f0_10_aux x.toNat x.toNat_lt
  simp only [UInt8.ofNat_toNat] at h
  rw [h]

private theorem and_c0_40_aux : ∀ n, n < 256 → ((64 : UInt8) &&& 192 = (UInt8.ofNat n) &&& 192) = (64 ≤ n ∧ n ≤ 127) := by decide +kernel
theorem and_c0_40 (x : UInt8) : ((64 : UInt8) &&& 192 = x &&& 192) ↔ (64 ≤ x.toNat ∧ x.toNat ≤ 127) := by
  have h := and_c0_40_aux x.toNat x.toNat_lt
  simp only [UInt8.ofNat_toNat] at h
  rw [h]

private theorem and_fe_fc_aux : ∀ n, n < 256 → ((252 : UInt8) &&& 254 = (UInt8.ofNat n) &&& 254) = (252 ≤ n ∧ n ≤ 253) := by decide +kernel
theorem and_fe_fc (x : UInt8) : ((252 : UInt8) &&& 254 = x &&& 254) ↔ (252 ≤ x.toNat ∧ x.toNat ≤ 253) := by
  have h := and_fe_fc_aux x.toNat x.toNat_lt
  simp only [UInt8.ofNat_toNat] at h
  rw [h]

private theorem and_c0_80_aux : ∀ n, n < 256 → ((UInt8.ofNat n) &&& 192 = 128) = (128 ≤ n ∧ n ≤ 191) := by decide +kernel
theorem and_c0_80 (x : UInt8) : (x &&& 192 = 128) ↔ (128 ≤ x.toNat ∧ x.toNat ≤ 191) := by
  have h := and_c0_80_aux x.toNat x.toNat_lt
  simp only [UInt8.ofNat_toNat] at h
  rw [h]

theorem and_zero' (x : UInt8) : x &&& 0 = 0 := by
  have h : ∀ n, n < 256 → (UInt8.ofNat n) &&& 0 = 0 := by decide +kernel
  simpa using h x.toNat x.toNat_lt

end masks

theorem u8_eq_iff (x : UInt8) (k : Nat) (hk : k < 256) : x = UInt8.ofNat k ↔ x.toNat = k := by
  constructor
  · intro h; subst h; simp [Nat.mod_eq_of_lt hk]
  · intro h; subst h; simp

end OutlineModel.IP

namespace OutlineModel.IP

theorem eq_lit (x : UInt8) (k : Nat) : x = (no_index (OfNat.ofNat k) : UInt8) ↔ x.toNat = k % 256 := by
  rw [← UInt8.toNat_inj]
  show x.toNat = (UInt8.ofNat k).toNat ↔ _
  rw [UInt8.toNat_ofNat']

theorem lit_eq (x : UInt8) (k : Nat) : (no_index (OfNat.ofNat k) : UInt8) = x ↔ x.toNat = k % 256 := by
  rw [eq_comm, eq_lit]

theorem requirePublicIP_ok_iff (nets) (ip : IP) :
    requirePublicIP nets ip = .ok ↔ (isGlobalUnicast ip = true ∧ isPrivate nets ip = false) := by
  unfold requirePublicIP
  cases isGlobalUnicast ip <;> cases isPrivate nets ip <;> simp

/-- special-purpose IPv4 blocks named by the property: loopback 127/8, unspecified 0.0.0.0,
    link-local 169.254/16, multicast 224/4, broadcast 255.255.255.255, RFC 1918 (10/8, 172.16/12,
    192.168/16) and CGNAT 100.64/10 — as numeric ranges on the four octets. -/
def Forbidden4 (a b c d : Nat) : Prop :=
  a = 127 ∨ (a = 0 ∧ b = 0 ∧ c = 0 ∧ d = 0) ∨ (a = 169 ∧ b = 254) ∨ (224 ≤ a ∧ a ≤ 239) ∨
  (a = 255 ∧ b = 255 ∧ c = 255 ∧ d = 255) ∨
  a = 10 ∨ (a = 172 ∧ 16 ≤ b ∧ b ≤ 31) ∨ (a = 192 ∧ b = 168) ∨ (a = 100 ∧ 64 ≤ b ∧ b ≤ 127)

/-- special-purpose IPv6 blocks named by the property, for an address that is not IPv4-mapped:
    unspecified ::, loopback ::1, multicast ff00::/8, link-local fe80::/10, unique-local fc00::/7. -/
def Forbidden6 (b0 b1 : Nat) (rest : List Nat) : Prop :=
  (b0 = 0 ∧ b1 = 0 ∧ rest = [0,0,0,0,0,0,0,0,0,0,0,0,0,0]) ∨ (b0 = 0 ∧ b1 = 0 ∧ rest = [0,0,0,0,0,0,0,0,0,0,0,0,0,1]) ∨
  b0 = 255 ∨ (b0 = 254 ∧ 128 ≤ b1 ∧ b1 ≤ 191) ∨ (252 ≤ b0 ∧ b0 ≤ 253)

theorem v4_iff (a b c d : UInt8) :
    requirePublicIP Gen.privateNets [a,b,c,d] = .ok ↔ ¬ Forbidden4 a.toNat b.toNat c.toNat d.toNat := by
  rw [requirePublicIP_ok_iff]
  simp only [isGlobalUnicast, isPrivate, Gen.privateNets, contains, to4, isLoopback, isMulticast, isLinkLocalUnicast]
  simp [equal, isUnspecified, ipv4bcast, ipv4zero, ipv4, v4InV6Prefix, ipv6unspecified]
  simp only [and_ff, and_f0_e0, and_f0_10, and_c0_40, Forbidden4]
  simp only [eq_lit, lit_eq, Nat.reduceMod]
  have ha := a.toNat_lt; have hb := b.toNat_lt; have hc := c.toNat_lt; have hd := d.toNat_lt
  generalize a.toNat = x at *; generalize b.toNat = y at *; generalize c.toNat = z at *; generalize d.toNat = w at *
  grind (splits := 40)

theorem mapped_eq (a b c d : UInt8) :
    requirePublicIP Gen.privateNets (v4InV6Prefix ++ [a,b,c,d]) = requirePublicIP Gen.privateNets [a,b,c,d] := by
  simp [requirePublicIP, isGlobalUnicast, isPrivate, Gen.privateNets, contains, to4, equal, isUnspecified, isLoopback,
    isMulticast, isLinkLocalUnicast, ipv4bcast, ipv4zero, ipv4, v4InV6Prefix, ipv6unspecified, isZeros]

theorem v6_iff (b0 b1 b2 b3 b4 b5 b6 b7 b8 b9 b10 b11 b12 b13 b14 b15 : UInt8)
    (h : to4 [b0,b1,b2,b3,b4,b5,b6,b7,b8,b9,b10,b11,b12,b13,b14,b15] = none) :
    requirePublicIP Gen.privateNets [b0,b1,b2,b3,b4,b5,b6,b7,b8,b9,b10,b11,b12,b13,b14,b15] = .ok ↔
    ¬ Forbidden6 b0.toNat b1.toNat ([b2,b3,b4,b5,b6,b7,b8,b9,b10,b11,b12,b13,b14,b15].map (·.toNat)) := by
  have hnm : ¬ (b0 = 0 ∧ b1 = 0 ∧ b2 = 0 ∧ b3 = 0 ∧ b4 = 0 ∧ b5 = 0 ∧ b6 = 0 ∧ b7 = 0 ∧ b8 = 0 ∧ b9 = 0 ∧ b10 = 255 ∧ b11 = 255) := by
    intro hh
    obtain ⟨h0,h1,h2,h3,h4,h5,h6,h7,h8,h9,h10,h11⟩ := hh
    subst h0 h1 h2 h3 h4 h5 h6 h7 h8 h9 h10 h11
    simp [to4, isZeros] at h
  rw [requirePublicIP_ok_iff]
  simp only [isGlobalUnicast, isPrivate, Gen.privateNets, contains, isLoopback, isMulticast, isLinkLocalUnicast, h]
  simp [equal, isUnspecified, ipv4bcast, ipv4zero, ipv4, v4InV6Prefix, ipv6unspecified, ipv6loopback]
  simp only [and_fe_fc, and_c0_80, Forbidden6]
  simp only [eq_lit, Nat.reduceMod] at hnm ⊢
  simp
  grind (splits := 60)

/-- a 16-byte address is either IPv4-mapped (`to4` gives its last four bytes) or not -/
theorem to4_16 (b0 b1 b2 b3 b4 b5 b6 b7 b8 b9 b10 b11 b12 b13 b14 b15 : UInt8) :
    (to4 [b0,b1,b2,b3,b4,b5,b6,b7,b8,b9,b10,b11,b12,b13,b14,b15] = none) ∨
    ([b0,b1,b2,b3,b4,b5,b6,b7,b8,b9,b10,b11,b12,b13,b14,b15] = v4InV6Prefix ++ [b12,b13,b14,b15]) := by
  by_cases hm : (b0 = 0 ∧ b1 = 0 ∧ b2 = 0 ∧ b3 = 0 ∧ b4 = 0 ∧ b5 = 0 ∧ b6 = 0 ∧ b7 = 0 ∧ b8 = 0 ∧ b9 = 0 ∧ b10 = 255 ∧ b11 = 255)
  · right
    obtain ⟨h0,h1,h2,h3,h4,h5,h6,h7,h8,h9,h10,h11⟩ := hm
    subst h0 h1 h2 h3 h4 h5 h6 h7 h8 h9 h10 h11
    rfl
  · left
    simp [to4, isZeros]
    grind

theorem wrong_length (nets) (ip : IP) (h4 : ip.length ≠ 4) (h16 : ip.length ≠ 16) :
    requirePublicIP nets ip = .invalid := by
  unfold requirePublicIP isGlobalUnicast
  simp [h4, h16]

end OutlineModel.IP
