/-
Who owns a listener key and which id a client is attributed to, in terms of the RAW configuration
(OutlineModel/Model/Config.lean), and that a successfully loaded configuration serves exactly that.
-/
import OutlineModel.Proofs.Config

namespace OutlineModel.Config

/-- the id a client holding `ck` gets from a raw key list: the first key with that cipher identity and secret -/
def firstMatch (canon : String → Option Nat) (keys : List Key) (ck : ClientKey) : Option String :=
  (keys.find? fun k => canon k.cipher == some ck.1 && k.secret == ck.2).map (·.id)

/-- the raw key list that owns listener key `lk` in configuration `c`: a legacy port first (that is the order of the plan), else the first service that lists it -/
def ownerKeys (c : Cfg) (lk : String) : Option (List Key) :=
  match (legacyPorts c.legacy).find? (fun p => lk == s!"tcp/:{p}" || lk == s!"udp/:{p}") with
  | some p => some ((c.legacy.filter (·.2 == p)).map (·.1))
  | none => (c.services.find? (fun s => s.listeners.any (fun l => lkey l == lk))).map (·.keys)

/-! ### 1. de-duplication does not change attribution -/

theorem firstMatch_nil (canon : String → Option Nat) (ck : ClientKey) :
    firstMatch canon [] ck = none := rfl

theorem firstMatch_cons_pos (canon : String → Option Nat) (k : Key) (rest : List Key) (ck : ClientKey)
    (h : canon k.cipher = some ck.1 ∧ k.secret = ck.2) :
    firstMatch canon (k :: rest) ck = some k.id := by
  simp [firstMatch, h.1, h.2]

theorem firstMatch_cons_neg (canon : String → Option Nat) (k : Key) (rest : List Key) (ck : ClientKey)
    (h : ¬ (canon k.cipher = some ck.1 ∧ k.secret = ck.2)) :
    firstMatch canon (k :: rest) ck = firstMatch canon rest ck := by
  have : (canon k.cipher == some ck.1 && k.secret == ck.2) = false := by
    cases hb : (canon k.cipher == some ck.1 && k.secret == ck.2)
    · rfl
    · exfalso; apply h; simpa using hb
  simp [firstMatch, this]

theorem dedupGo_find (canon : String → Option Nat) (ck : ClientKey) :
    ∀ (keys : List Key) (seen : List (String × String)) (ks : List (String × ClientKey)),
      (∀ p ∈ seen, ¬ (canon p.1 = some ck.1 ∧ p.2 = ck.2)) →
      dedupKeys.go canon seen keys = some ks →
      (ks.find? (·.2 == ck)).map (·.1) = firstMatch canon keys ck := by
  intro keys
  induction keys with
  | nil =>
    intro seen ks _ h
    simp only [dedupKeys.go, Option.some.injEq] at h
    subst h
    simp [firstMatch_nil]
  | cons k rest ih =>
    intro seen ks hseen h
    simp only [dedupKeys.go] at h
    split at h
    · rename_i hc
      have hmem : (k.cipher, k.secret) ∈ seen := by simpa using hc
      have hno := hseen _ hmem
      rw [ih seen ks hseen h, firstMatch_cons_neg canon k rest ck hno]
    · split at h
      · simp at h
      · rename_i c hcan
        simp only [Option.map_eq_some_iff] at h
        obtain ⟨l, hl, hks⟩ := h
        subst hks
        by_cases hm : canon k.cipher = some ck.1 ∧ k.secret = ck.2
        · rw [firstMatch_cons_pos canon k rest ck hm]
          have hc : c = ck.1 := by
            have := hm.1; rw [hcan] at this; simpa using this
          have : (c, k.secret) = ck := by
            rw [hc, hm.2]
          simp [this]
        · rw [firstMatch_cons_neg canon k rest ck hm]
          have hne : ((c, k.secret) == ck) = false := by
            cases hb : ((c, k.secret) == ck)
            · rfl
            · exfalso; apply hm
              have : (c, k.secret) = ck := by simpa using hb
              rw [hcan, ← this]; exact ⟨rfl, rfl⟩
          simp only [List.find?_cons, hne]
          apply ih _ l _ hl
          intro p hp
          rcases List.mem_cons.1 hp with rfl | hp
          · exact hm
          · exact hseen p hp

theorem dedupKeys_find (canon : String → Option Nat) (keys : List Key) (ks : List (String × ClientKey))
    (h : dedupKeys canon keys = some ks) (ck : ClientKey) :
    (ks.find? (·.2 == ck)).map (·.1) = firstMatch canon keys ck :=
  dedupGo_find canon ck keys [] ks (by simp) h

/-! ### 2. legacy keys -/

theorem legacyMapM_find (canon : String → Option Nat) (ck : ClientKey) :
    ∀ (l : List (Key × Nat)) (ks : List (String × ClientKey)),
      l.mapM (fun (x : Key × Nat) => (canon x.1.cipher).map fun c => (x.1.id, (c, x.1.secret))) = some ks →
      (ks.find? (·.2 == ck)).map (·.1) = firstMatch canon (l.map (·.1)) ck := by
  intro l
  induction l with
  | nil =>
    intro ks h
    simp at h
    subst h
    simp [firstMatch_nil]
  | cons x rest ih =>
    intro ks h
    rw [List.mapM_cons] at h
    cases hcan : canon x.1.cipher with
    | none => simp [hcan] at h
    | some c =>
      cases hr : rest.mapM (fun (x : Key × Nat) => (canon x.1.cipher).map fun c => (x.1.id, (c, x.1.secret))) with
      | none => simp [hcan, hr] at h
      | some l =>
        simp [hcan, hr] at h
        subst h
        have ih' := ih l hr
        simp only [List.map_cons]
        by_cases hm : canon x.1.cipher = some ck.1 ∧ x.1.secret = ck.2
        · rw [firstMatch_cons_pos canon x.1 _ ck hm]
          have hc : c = ck.1 := by
            have := hm.1; rw [hcan] at this; simpa using this
          have : (c, x.1.secret) = ck := by
            rw [hc, hm.2]
          simp [this]
        · rw [firstMatch_cons_neg canon x.1 _ ck hm]
          have hne : ((c, x.1.secret) == ck) = false := by
            cases hb : ((c, x.1.secret) == ck)
            · rfl
            · exfalso; apply hm
              have : (c, x.1.secret) = ck := by simpa using hb
              rw [hcan, ← this]; exact ⟨rfl, rfl⟩
          simp only [List.find?_cons, hne]
          exact ih'

theorem legacyKeys_find (canon : String → Option Nat) (legacy : List (Key × Nat)) (p : Nat)
    (ks : List (String × ClientKey)) (h : legacyKeys canon legacy p = some ks) (ck : ClientKey) :
    (ks.find? (·.2 == ck)).map (·.1) = firstMatch canon ((legacy.filter (·.2 == p)).map (·.1)) ck :=
  legacyMapM_find canon ck _ ks h

/-! ### 3. the served table answers owner + first match -/

/-- the key group the serving table attaches to `lk` (first entry) -/
def lookup (srv : Serving) (lk : String) : Option (List (String × ClientKey)) :=
  (srv.find? (·.1 == lk)).map (·.2)

theorem authOn_eq_lookup (srv : Serving) (lk : String) (ck : ClientKey) :
    authOn srv lk ck =
      match lookup srv lk with
      | none => none
      | some keys => (keys.find? (·.2 == ck)).map (·.1) := by
  unfold authOn lookup
  cases h : List.find? (fun x => x.1 == lk) srv with
  | none => rfl
  | some e => obtain ⟨a, b⟩ := e; rfl

theorem lookup_append (a b : Serving) (lk : String) :
    lookup (a ++ b) lk = (lookup a lk).or (lookup b lk) := by
  unfold lookup
  rw [List.find?_append]
  cases List.find? (fun x => x.1 == lk) a <;> simp

theorem lookup_leg (t u : Nat → String) (K : Nat → Option (List (String × ClientKey))) (lk : String) :
    ∀ (ps : List Nat), (∀ p ∈ ps, (K p).isSome = true) →
    lookup ((ps.flatMap fun p =>
        match K p with
        | none => [none]
        | some ks => [some (t p, ks), some (u p, ks)]).filterMap id) lk =
      (ps.find? (fun p => lk == t p || lk == u p)).bind K := by
  intro ps
  induction ps with
  | nil => intro _; rfl
  | cons p r ih =>
    intro h
    have hp := h p (by simp)
    have ihr := ih (fun q hq => h q (by simp [hq]))
    rw [List.flatMap_cons, List.filterMap_append, lookup_append, ihr]
    cases hK : K p with
    | none => simp [hK] at hp
    | some ks =>
      simp only [List.find?_cons]
      by_cases h1 : lk = t p
      · subst h1; simp [lookup, hK]
      · by_cases h2 : lk = u p
        · subst h2
          have : (t p == u p) = false := by
            cases hb : (t p == u p)
            · rfl
            · exfalso; apply h1; have : t p = u p := by simpa using hb
              exact this.symm
          simp [lookup, hK, this]
        · have e1 : (t p == lk) = false := by
            cases hb : (t p == lk)
            · rfl
            · exfalso; apply h1; have : t p = lk := by simpa using hb
              exact this.symm
          have e2 : (u p == lk) = false := by
            cases hb : (u p == lk)
            · rfl
            · exfalso; apply h2; have : u p = lk := by simpa using hb
              exact this.symm
          have e3 : (lk == t p) = false := by simpa using h1
          have e4 : (lk == u p) = false := by simpa using h2
          simp [lookup, e1, e2, e3, e4]

theorem lookup_svc (D : List Key → Option (List (String × ClientKey))) (lk : String) :
    ∀ (svcs : List Svc), (∀ s ∈ svcs, (D s.keys).isSome = true) →
    lookup ((svcs.flatMap fun s =>
        match D s.keys with
        | none => [none]
        | some ks => s.listeners.map fun l => some (lkey l, ks)).filterMap id) lk =
      (svcs.find? (fun s => s.listeners.any (fun l => lkey l == lk))).bind (fun s => D s.keys) := by
  intro svcs
  induction svcs with
  | nil => intro _; rfl
  | cons s r ih =>
    intro h
    have hs := h s (by simp)
    have ihr := ih (fun q hq => h q (by simp [hq]))
    rw [List.flatMap_cons, List.filterMap_append, lookup_append, ihr]
    cases hK : D s.keys with
    | none => simp [hK] at hs
    | some ks =>
      simp only [List.find?_cons]
      have hfm : List.filterMap id (s.listeners.map fun l => some (lkey l, ks)) =
          s.listeners.map fun l => (lkey l, ks) := by
        rw [List.filterMap_map]
        have : (id ∘ fun l => some (lkey l, ks)) = fun (l : Listener) => some (lkey l, ks) := rfl
        rw [this]
        induction s.listeners with
        | nil => rfl
        | cons a b ihb => simp [ihb]
      simp only [hfm]
      cases hany : s.listeners.any (fun l => lkey l == lk)
      · have : lookup (s.listeners.map fun l => (lkey l, ks)) lk = none := by
          unfold lookup
          rw [List.find?_map]
          have : List.find? ((fun x : String × List (String × ClientKey) => x.1 == lk) ∘ fun l => (lkey l, ks))
              s.listeners = none := by
            apply List.find?_eq_none.2
            intro l hl
            have := List.any_eq_false.1 hany l hl
            simpa using this
          rw [this]; rfl
        rw [this]; simp
      · obtain ⟨l, hl, hlk⟩ := List.any_eq_true.1 hany
        have : lookup (s.listeners.map fun l => (lkey l, ks)) lk = some ks := by
          unfold lookup
          rw [List.find?_map]
          cases hf : List.find? ((fun x : String × List (String × ClientKey) => x.1 == lk) ∘ fun l => (lkey l, ks))
              s.listeners with
          | none =>
            have := List.find?_eq_none.1 hf l hl
            simp at this
            simp at hlk
            exact absurd hlk this
          | some l' => rfl
        rw [this]; simp [hK]

/-- a plan without rejected entries: every legacy cipher is accepted, every legacy port and every
    service has a key list -/
theorem plan_all_some (canon : String → Option Nat) (c : Cfg)
    (hall : (plan canon c).all Option.isSome = true) :
    c.legacy.any (fun k => (canon k.1.cipher).isNone) = false ∧
    (∀ p ∈ legacyPorts c.legacy, (legacyKeys canon c.legacy p).isSome = true) ∧
    (∀ s ∈ c.services, (dedupKeys canon s.keys).isSome = true) := by
  unfold plan at hall
  cases hany : c.legacy.any (fun k => (canon k.1.cipher).isNone)
  · simp only [hany, Bool.false_eq_true, if_false, List.all_append, Bool.and_eq_true,
      List.all_flatMap] at hall
    refine ⟨rfl, ?_, ?_⟩
    · intro p hp
      have := List.all_eq_true.1 hall.1 p hp
      cases hK : legacyKeys canon c.legacy p with
      | none => simp [hK] at this
      | some ks => rfl
    · intro s hs
      have := List.all_eq_true.1 hall.2 s hs
      cases hK : dedupKeys canon s.keys with
      | none => simp [hK] at this
      | some ks => rfl
  · simp [hany] at hall

theorem plan_authOn (canon : String → Option Nat) (c : Cfg)
    (hall : (plan canon c).all Option.isSome = true) (lk : String) (ck : ClientKey) :
    authOn ((plan canon c).filterMap id) lk ck =
      match ownerKeys c lk with
      | none => none
      | some keys => firstMatch canon keys ck := by
  obtain ⟨hany, hleg, hsvc⟩ := plan_all_some canon c hall
  have hl := lookup_leg (fun p => s!"tcp/:{p}") (fun p => s!"udp/:{p}")
    (legacyKeys canon c.legacy) lk (legacyPorts c.legacy) hleg
  have hs := lookup_svc (dedupKeys canon) lk c.services hsvc
  have hlook : lookup ((plan canon c).filterMap id) lk =
      (((legacyPorts c.legacy).find? (fun p => lk == s!"tcp/:{p}" || lk == s!"udp/:{p}")).bind
          (legacyKeys canon c.legacy)).or
        ((c.services.find? (fun s => s.listeners.any (fun l => lkey l == lk))).bind
          (fun s => dedupKeys canon s.keys)) := by
    unfold plan
    simp only [hany, Bool.false_eq_true, if_false]
    rw [List.filterMap_append, lookup_append, ← hl, ← hs]
    rfl
  rw [authOn_eq_lookup, hlook]
  unfold ownerKeys
  cases hf : (legacyPorts c.legacy).find? (fun p => lk == s!"tcp/:{p}" || lk == s!"udp/:{p}") with
  | some p =>
    have hp : p ∈ legacyPorts c.legacy := List.mem_of_find?_eq_some hf
    cases hK : legacyKeys canon c.legacy p with
    | none => have := hleg p hp; simp [hK] at this
    | some ks =>
      simp only [Option.bind_some, hK]
      exact legacyKeys_find canon c.legacy p ks hK ck
  | none =>
    simp only [Option.bind_none, Option.none_or]
    cases hg : c.services.find? (fun s => s.listeners.any (fun l => lkey l == lk)) with
    | none => rfl
    | some s =>
      have hsm : s ∈ c.services := List.mem_of_find?_eq_some hg
      cases hK : dedupKeys canon s.keys with
      | none => have := hsvc s hsm; simp [hK] at this
      | some ks =>
        simp only [Option.bind_some, hK, Option.map_some]
        exact dedupKeys_find canon s.keys ks hK ck

/-! ### 4. a successful load serves exactly what is configured -/

theorem load_ok_cur (canon : String → Option Nat) (addrOK : String → Bool) (s : Server)
    (c : Cfg) (fault : Fault) (hok : (load canon addrOK s c fault).2.1 = true) :
    (load canon addrOK s c fault).1.cur = (plan canon c).filterMap id := by
  rcases load_unfold canon addrOK s c fault with h | ⟨started, rest, tr1, hpl, -, h | h⟩
  · rw [h] at hok; simp at hok
  · obtain ⟨hrest, h⟩ := h
    subst hrest
    rw [h]
    simp only [hpl, List.append_nil, List.filterMap_map]
    have : (id ∘ some : (String × List (String × ClientKey)) → _) = some := rfl
    rw [this, List.filterMap_some]
  · rw [h.2] at hok; simp at hok

theorem load_serves_exactly_configured (canon : String → Option Nat) (addrOK : String → Bool)
    (s : Server) (c : Cfg) (fault : Fault)
    (hok : (load canon addrOK s c fault).2.1 = true) (lk : String) (ck : ClientKey) :
    authOn (load canon addrOK s c fault).1.cur lk ck =
      match ownerKeys c lk with
      | none => none
      | some keys => firstMatch canon keys ck := by
  rw [load_ok_cur canon addrOK s c fault hok]
  apply plan_authOn
  have hacc : accepts canon addrOK c fault = true :=
    (load_ok_eq_accepts canon addrOK s c fault).symm.trans hok
  unfold accepts at hacc
  simp only [Bool.and_eq_true] at hacc
  exact hacc.1.2

/-! ### 5. validation implies distinct listener keys -/

theorem eraseDups_length_le {α} [BEq α] [LawfulBEq α] : ∀ (l : List α), l.eraseDups.length ≤ l.length
  | [] => by simp
  | a :: as => by
    rw [List.eraseDups_cons]
    have h1 := eraseDups_length_le (as.filter fun b => !b == a)
    have h2 : (as.filter fun b => !b == a).length ≤ as.length := List.length_filter_le _ _
    simp only [List.length_cons]
    omega
termination_by l => l.length
decreasing_by
  simp only [List.length_cons]
  have : (as.filter fun b => !b == a).length ≤ as.length := List.length_filter_le _ _
  omega

theorem nodup_of_eraseDups_length {α} [BEq α] [LawfulBEq α] :
    ∀ (l : List α), l.eraseDups.length = l.length → l.Nodup
  | [] => by simp
  | a :: as => by
    intro h
    rw [List.eraseDups_cons] at h
    have h1 := eraseDups_length_le (as.filter fun b => !b == a)
    have h2 : (as.filter fun b => !b == a).length ≤ as.length := List.length_filter_le _ _
    simp only [List.length_cons] at h
    have h3 : (as.filter fun b => !b == a).length = as.length := by omega
    have h4 : as.filter (fun b => !b == a) = as := List.length_filter_eq_length_iff.1 h3 |> List.filter_eq_self.2
    rw [h4] at h
    have hnd := nodup_of_eraseDups_length as (by omega)
    have hna : a ∉ as := by
      intro ha
      have := List.filter_eq_self.1 h4 a ha
      simp at this
    exact List.nodup_cons.2 ⟨hna, hnd⟩

theorem validate_nodup (addrOK : String → Bool) (c : Cfg) (h : validate addrOK c = true) :
    ((c.services.flatMap (·.listeners)).map lkey).Nodup := by
  unfold validate at h
  simp only [Bool.and_eq_true, beq_iff_eq] at h
  apply nodup_of_eraseDups_length
  rw [h.2, List.length_map]

/-! ### 6. with distinct listener keys, a service owns its listeners -/

theorem find_own_service (lk : String) :
    ∀ (svcs : List Svc), ((svcs.flatMap (·.listeners)).map lkey).Nodup →
    ∀ (s : Svc), s ∈ svcs → (∃ l ∈ s.listeners, lkey l = lk) →
    svcs.find? (fun s => s.listeners.any (fun l => lkey l == lk)) = some s := by
  intro svcs
  induction svcs with
  | nil => intro _ s hs; simp at hs
  | cons s0 r ih =>
    intro hnd s hs hl
    rw [List.flatMap_cons, List.map_append, List.nodup_append] at hnd
    obtain ⟨-, hr, hdis⟩ := hnd
    simp only [List.find?_cons]
    cases hany : s0.listeners.any (fun l => lkey l == lk)
    · simp only
      rcases List.mem_cons.1 hs with rfl | hs'
      · obtain ⟨l, hl1, hl2⟩ := hl
        have := List.any_eq_false.1 hany l hl1
        simp [hl2] at this
      · exact ih hr s hs' hl
    · simp only
      rcases List.mem_cons.1 hs with rfl | hs'
      · rfl
      · exfalso
        obtain ⟨l0, hl0, hlk0⟩ := List.any_eq_true.1 hany
        obtain ⟨l, hl1, hl2⟩ := hl
        have hlk0' : lkey l0 = lk := by simpa using hlk0
        refine hdis (lkey l0) (List.mem_map.2 ⟨l0, hl0, rfl⟩) lk ?_ hlk0'
        apply List.mem_map.2
        exact ⟨l, List.mem_flatMap.2 ⟨s, hs', hl1⟩, hl2⟩

theorem owner_is_own_service (c : Cfg)
    (hnd : ((c.services.flatMap (·.listeners)).map lkey).Nodup)
    (hleg : ∀ p ∈ legacyPorts c.legacy, ∀ s ∈ c.services, ∀ l ∈ s.listeners,
      lkey l ≠ s!"tcp/:{p}" ∧ lkey l ≠ s!"udp/:{p}")
    (s : Svc) (hs : s ∈ c.services) (l : Listener) (hl : l ∈ s.listeners) :
    ownerKeys c (lkey l) = some s.keys := by
  unfold ownerKeys
  have hnone : (legacyPorts c.legacy).find?
      (fun p => lkey l == s!"tcp/:{p}" || lkey l == s!"udp/:{p}") = none := by
    apply List.find?_eq_none.2
    intro p hp
    have := hleg p hp s hs l hl
    intro hb
    simp only [Bool.or_eq_true, beq_iff_eq] at hb
    rcases hb with h | h
    · exact this.1 h
    · exact this.2 h
  rw [hnone]
  simp only
  rw [find_own_service (lkey l) c.services hnd s hs ⟨l, hl, rfl⟩]
  rfl

/-! ### 7. non-vacuity -/

section Examples

/-- "aes" and "AES" are two spellings of cipher 0 -/
def ownCanon : String → Option Nat :=
  fun s => if s == "aes" || s == "AES" then some 0 else if s == "chacha" then some 1 else none

def ownSvc1 : Svc :=
  { listeners := [⟨true, ":9000"⟩, ⟨false, ":9000"⟩],
    keys := [⟨"a", "aes", "s1"⟩, ⟨"a2", "AES", "s1"⟩, ⟨"shared1", "chacha", "sh"⟩] }
def ownSvc2 : Svc :=
  { listeners := [⟨true, ":9001"⟩],
    keys := [⟨"b", "aes", "s2"⟩, ⟨"b2", "aes", "s2"⟩, ⟨"shared2", "chacha", "sh"⟩] }

/-- two services sharing the (chacha, "sh") key under different ids; service 1 lists (cipher 0, "s1")
    twice under two spellings, service 2 lists a raw duplicate; two legacy ports -/
def ownCfg : Cfg :=
  { services := [ownSvc1, ownSvc2],
    legacy := [(⟨"l1", "aes", "ls"⟩, 9100), (⟨"l3", "aes", "s1"⟩, 9101), (⟨"l2", "AES", "ls"⟩, 9100)] }

def ownSrv : Server := (load ownCanon exAddrOK Server.init ownCfg .none).1

example : (load ownCanon exAddrOK Server.init ownCfg .none).2.1 = true := by decide
example : (plan ownCanon ownCfg).all Option.isSome = true := by decide
example : ownSrv.cur.map (·.1) =
    ["tcp/:9100", "udp/:9100", "tcp/:9101", "udp/:9101", "tcp/:9000", "udp/:9000", "tcp/:9001"] := by decide
-- owners
example : ownerKeys ownCfg "tcp/:9000" = some ownSvc1.keys := by decide
example : ownerKeys ownCfg "udp/:9000" = some ownSvc1.keys := by decide
example : ownerKeys ownCfg "tcp/:9001" = some ownSvc2.keys := by decide
example : ownerKeys ownCfg "udp/:9100" = some [⟨"l1", "aes", "ls"⟩, ⟨"l2", "AES", "ls"⟩] := by decide
example : ownerKeys ownCfg "udp/:9001" = none := by decide
-- the raw duplicate is dropped, the re-spelled one is kept
example : dedupKeys ownCanon ownSvc2.keys = some [("b", (0, "s2")), ("shared2", (1, "sh"))] := by decide
example : dedupKeys ownCanon ownSvc1.keys =
    some [("a", (0, "s1")), ("a2", (0, "s1")), ("shared1", (1, "sh"))] := by decide
-- own key -> own id
example : authOn ownSrv.cur "tcp/:9001" (0, "s2") = some "b" := by decide
example : firstMatch ownCanon ownSvc2.keys (0, "s2") = some "b" := by decide
-- another service's key -> none
example : authOn ownSrv.cur "tcp/:9000" (0, "s2") = none := by decide
example : firstMatch ownCanon ownSvc1.keys (0, "s2") = none := by decide
-- shared key -> each service's own id
example : authOn ownSrv.cur "tcp/:9000" (1, "sh") = some "shared1" := by decide
example : authOn ownSrv.cur "udp/:9000" (1, "sh") = some "shared1" := by decide
example : authOn ownSrv.cur "tcp/:9001" (1, "sh") = some "shared2" := by decide
-- duplicate under two spellings -> first id
example : authOn ownSrv.cur "tcp/:9000" (0, "s1") = some "a" := by decide
example : firstMatch ownCanon ownSvc1.keys (0, "s1") = some "a" := by decide
-- legacy ports: not de-duplicated, first id; a service key does not work there and vice versa
example : authOn ownSrv.cur "udp/:9100" (0, "ls") = some "l1" := by decide
example : authOn ownSrv.cur "tcp/:9101" (0, "s1") = some "l3" := by decide
example : authOn ownSrv.cur "tcp/:9100" (0, "s1") = none := by decide
example : authOn ownSrv.cur "tcp/:9000" (0, "ls") = none := by decide
-- the hypotheses of `owner_is_own_service` hold here
example : ((ownCfg.services.flatMap (·.listeners)).map lkey).Nodup := by decide
example : ∀ p ∈ legacyPorts ownCfg.legacy, ∀ s ∈ ownCfg.services, ∀ l ∈ s.listeners,
    lkey l ≠ s!"tcp/:{p}" ∧ lkey l ≠ s!"udp/:{p}" := by decide
-- the theorems instantiated on this configuration
example (lk : String) (ck : ClientKey) :
    authOn ownSrv.cur lk ck =
      match ownerKeys ownCfg lk with
      | none => none
      | some keys => firstMatch ownCanon keys ck :=
  load_serves_exactly_configured ownCanon exAddrOK Server.init ownCfg .none (by decide) lk ck
example : ownerKeys ownCfg "udp/:9000" = some ownSvc1.keys :=
  owner_is_own_service ownCfg (validate_nodup exAddrOK ownCfg (by decide)) (by decide)
    ownSvc1 (by decide) ⟨false, ":9000"⟩ (by decide)

end Examples

end OutlineModel.Config
