import OutlineModel.Model.Replay
/- Helper lemmas for the replay-cache theorems (C07).  Core only. -/
namespace OutlineModel.Replay

/-- `h` is remembered by the cache -/
def RC.mem (c : RC) (h : UInt32) : Prop := h ∈ c.active ∨ h ∈ c.archive

/-- "`h` survives the next `k` checked handshakes while every capacity in effect is ≥ N":
    either `h` is in the active set and fewer than `N` adds remain, or it is in the archive and
    the active set plus the remaining adds stay below `N` (so no second rotation can happen). -/
def Safe (N : Nat) (h : UInt32) (c : RC) (k : Nat) : Prop :=
  (N : Int) ≤ c.cap ∧ ((h ∈ c.active ∧ k < N) ∨ (h ∈ c.archive ∧ c.active.length + k < N))

theorem add_false_of_mem (c : RC) (h : UInt32) (hc : c.cap ≠ 0) (hm : c.mem h) :
    (c.add h).2 = false := by
  unfold RC.add
  simp only [hc, if_false]
  by_cases hin : h ∈ c.active
  · simp [hin]
  · have : h ∈ c.archive := by rcases hm with h1 | h1; exact absurd h1 hin; exact h1
    by_cases hfull : (c.active.length : Int) ≥ c.cap <;> simp [hin, hfull, this]

theorem mem_of_add_false (c : RC) (h : UInt32) (hf : (c.add h).2 = false) :
    c.cap ≠ 0 ∧ c.mem h := by
  unfold RC.add at hf
  by_cases hc : c.cap = 0
  · simp [hc] at hf
  · refine ⟨hc, ?_⟩
    by_cases hin : h ∈ c.active
    · exact Or.inl hin
    · right
      by_cases hfull : (c.active.length : Int) ≥ c.cap <;> simpa [hc, hin, hfull] using hf

theorem add_true_of_fresh (c : RC) (h : UInt32) (hf : ¬ c.mem h) : (c.add h).2 = true := by
  cases hb : (c.add h).2 with
  | true => rfl
  | false => exact absurd (mem_of_add_false c h hb).2 hf

theorem add_cap (c : RC) (x : UInt32) : (c.add x).1.cap = c.cap := by
  unfold RC.add
  by_cases hc : c.cap = 0
  · simp [hc]
  · by_cases hin : x ∈ c.active
    · simp [hc, hin]
    · by_cases hfull : (c.active.length : Int) ≥ c.cap <;> simp [hc, hin, hfull]

/-- after `Add h` with a non-zero capacity, `h` is in the active set -/
theorem add_mem_active (c : RC) (h : UInt32) (hc : c.cap ≠ 0) : h ∈ (c.add h).1.active := by
  unfold RC.add
  by_cases hin : h ∈ c.active
  · simp [hc, hin]
  · by_cases hfull : (c.active.length : Int) ≥ c.cap <;> simp [hc, hin, hfull]

/-- one checked handshake consumes one unit of the budget -/
theorem Safe.add {N : Nat} {h : UInt32} {c : RC} {k : Nat} (hs : Safe N h c (k + 1)) (x : UInt32) :
    Safe N h (c.add x).1 k := by
  obtain ⟨hcap, hst⟩ := hs
  have hc0 : c.cap ≠ 0 := by rcases hst with ⟨_, h2⟩ | ⟨_, h2⟩ <;> omega
  refine ⟨by rw [add_cap]; exact hcap, ?_⟩
  by_cases hin : x ∈ c.active
  · have e : (c.add x).1 = c := by unfold RC.add; simp [hc0, hin]
    rw [e]
    rcases hst with ⟨h1, h2⟩ | ⟨h1, h2⟩
    · exact Or.inl ⟨h1, by omega⟩
    · exact Or.inr ⟨h1, by omega⟩
  · by_cases hfull : (c.active.length : Int) ≥ c.cap
    · have e : (c.add x).1 = { c with archive := c.active, active := [x] } := by
        unfold RC.add; simp [hc0, hin, hfull]
      rw [e]
      rcases hst with ⟨h1, h2⟩ | ⟨_, h2⟩
      · right; exact ⟨h1, by simp; omega⟩
      · exfalso; omega
    · have e : (c.add x).1 = { c with active := x :: c.active } := by
        unfold RC.add; simp [hc0, hin, hfull]
      rw [e]
      rcases hst with ⟨h1, h2⟩ | ⟨h1, h2⟩
      · left; exact ⟨List.mem_cons_of_mem _ h1, by omega⟩
      · right; exact ⟨h1, by simp; omega⟩

theorem Safe.resize {N M : Nat} {h : UInt32} {c : RC} {k : Nat} (hs : Safe N h c k) (n : Int) (hn : (N : Int) ≤ n) :
    Safe N h (c.resize M n).1 k := by
  unfold RC.resize
  by_cases hbig : n > M
  · simpa [hbig] using hs
  · simp only [hbig, if_false]
    exact ⟨hn, hs.2⟩

theorem Safe.refused {N : Nat} {h : UInt32} {c : RC} {k : Nat} (hs : Safe N h c k) : (c.add h).2 = false := by
  obtain ⟨hcap, hst⟩ := hs
  have hc0 : c.cap ≠ 0 := by rcases hst with ⟨_, h2⟩ | ⟨_, h2⟩ <;> omega
  exact add_false_of_mem c h hc0 (by rcases hst with ⟨h1, _⟩ | ⟨h1, _⟩; exact Or.inl h1; exact Or.inr h1)

theorem Safe.mono {N : Nat} {h : UInt32} {c : RC} {k k' : Nat} (hs : Safe N h c k) (hk : k' ≤ k) : Safe N h c k' := by
  obtain ⟨hcap, hst⟩ := hs
  refine ⟨hcap, ?_⟩
  rcases hst with ⟨h1, h2⟩ | ⟨h1, h2⟩
  · exact Or.inl ⟨h1, by omega⟩
  · exact Or.inr ⟨h1, by omega⟩

/-- All capacities set while `ops` run are ≥ N (a refused Resize sets nothing and is allowed). -/
def capsGE (N : Nat) : List Op → Prop
  | [] => True
  | .add _ :: os => capsGE N os
  | .resize n :: os => (N : Int) ≤ n ∧ capsGE N os

def numAdds : List Op → Nat
  | [] => 0
  | .add _ :: os => numAdds os + 1
  | .resize _ :: os => numAdds os

theorem Safe.run {N M : Nat} {h : UInt32} : ∀ (ops : List Op) (c : RC) (k : Nat),
    Safe N h c (numAdds ops + k) → capsGE N ops → Safe N h (run M c ops) k := by
  intro ops
  induction ops with
  | nil => intro c k hs _; simpa [numAdds, Replay.run] using hs
  | cons o os ih =>
    intro c k hs hcaps
    cases o with
    | add x =>
      simp only [Replay.run, RC.step]
      apply ih _ _ _ hcaps
      have : numAdds (Op.add x :: os) + k = (numAdds os + k) + 1 := by simp [numAdds]; omega
      rw [this] at hs
      exact hs.add x
    | resize n =>
      simp only [Replay.run, RC.step]
      exact ih _ _ (hs.resize n hcaps.1) hcaps.2

/-- number of presentations of `h` in `ops` that are accepted -/
def winners (M : Nat) (h : UInt32) (c : RC) : List Op → Nat
  | [] => 0
  | .add x :: os => (if x = h ∧ (c.add x).2 = true then 1 else 0) + winners M h (c.add x).1 os
  | .resize n :: os => winners M h (c.resize M n).1 os

/-- number of presentations of `h` in `ops` -/
def presentations (h : UInt32) : List Op → Nat
  | [] => 0
  | .add x :: os => (if x = h then 1 else 0) + presentations h os
  | .resize _ :: os => presentations h os

theorem winners_zero_of_safe {N M : Nat} {h : UInt32} : ∀ (ops : List Op) (c : RC),
    Safe N h c (numAdds ops) → capsGE N ops → winners M h c ops = 0 := by
  intro ops
  induction ops with
  | nil => intro c _ _; rfl
  | cons o os ih =>
    intro c hs hcaps
    cases o with
    | add x =>
      simp only [winners]
      have hs' : Safe N h c (numAdds os + 1) := by simpa [numAdds] using hs
      rw [ih _ (hs'.add x) hcaps]
      by_cases hx : x = h
      · subst hx; simp [hs.refused]
      · simp [hx]
    | resize n =>
      simp only [winners]
      exact ih _ (by simpa [numAdds] using hs.resize n hcaps.1) hcaps.2

theorem fresh_add_other (c : RC) (h x : UInt32) (hx : x ≠ h) (hf : ¬ c.mem h) : ¬ (c.add x).1.mem h := by
  unfold RC.mem at *
  unfold RC.add
  by_cases hc : c.cap = 0
  · simpa [hc] using hf
  · by_cases hin : x ∈ c.active
    · simpa [hc, hin] using hf
    · by_cases hfull : (c.active.length : Int) ≥ c.cap
      · simp only [hc, hin, hfull, if_false, if_true]
        intro hm
        rcases hm with hm | hm
        · simp at hm; exact hx hm.symm
        · exact hf (Or.inl hm)
      · simp only [hc, hin, hfull, if_false]
        intro hm
        rcases hm with hm | hm
        · rcases List.mem_cons.1 hm with e | e
          · exact hx e.symm
          · exact hf (Or.inl e)
        · exact hf (Or.inr hm)

theorem resize_mem (M : Nat) (c : RC) (n : Int) (h : UInt32) : (c.resize M n).1.mem h ↔ c.mem h := by
  unfold RC.resize RC.mem
  by_cases hbig : n > M <;> simp [hbig]

theorem resize_cap_ge {N M : Nat} (c : RC) (n : Int) (hc : (N : Int) ≤ c.cap) (hn : (N : Int) ≤ n) :
    (N : Int) ≤ (c.resize M n).1.cap := by
  unfold RC.resize
  by_cases hbig : n > M <;> simp [hbig] <;> assumption

/-- Exactly one winner: starting from a cache that does not remember `h`, with every capacity in
    effect ≥ N > 0 and at most N checked handshakes in total, however the presentations of `h` are
    interleaved with other handshakes and resizes, exactly one presentation of `h` is accepted
    (if there is one at all). -/
theorem winners_eq_one {N M : Nat} {h : UInt32} : ∀ (ops : List Op) (c : RC),
    (N : Int) ≤ c.cap → 0 < N → ¬ c.mem h → capsGE N ops → numAdds ops ≤ N →
    0 < presentations h ops → winners M h c ops = 1 := by
  intro ops
  induction ops with
  | nil => intro c _ _ _ _ _ hp; simp [presentations] at hp
  | cons o os ih =>
    intro c hcap hN hf hcaps hnum hp
    cases o with
    | resize n =>
      simp only [winners]
      exact ih _ (resize_cap_ge c n hcap hcaps.1) hN (by rw [resize_mem]; exact hf) hcaps.2
        (by simpa [numAdds] using hnum) (by simpa [presentations] using hp)
    | add x =>
      simp only [winners]
      simp only [numAdds] at hnum
      by_cases hx : x = h
      · subst hx
        have hc0 : c.cap ≠ 0 := by omega
        have hsafe : Safe N x (c.add x).1 (numAdds os) :=
          ⟨by rw [add_cap]; exact hcap, Or.inl ⟨add_mem_active c x hc0, by omega⟩⟩
        rw [winners_zero_of_safe os _ hsafe hcaps]
        simp [add_true_of_fresh c x hf]
      · have hp' : 0 < presentations h os := by simpa [presentations, hx] using hp
        rw [ih _ (by rw [add_cap]; exact hcap) hN (fresh_add_other c h x hx hf) hcaps (by omega) hp']
        simp [hx]

end OutlineModel.Replay
