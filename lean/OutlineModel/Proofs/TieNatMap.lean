import OutlineModel.Proofs.GoRT
import OutlineModel.Gen.Code
/-
Tie for the TRANSLATED NAT table of the packet handler (`natmap.Get / set / del / Close`, service/udp.go; Gen/Code.lean,
regenerated from the source on every run): the table is a finite map from the client address string to its association —
a lookup sees the last `set` for that key that no `del` followed, `del` removes exactly its key and returns what was
there, nothing touches another key, and `Close` leaves the table as it is.  (The lock is not part of the translation:
every method holds it for its whole body — generated lock facts, C13.)
-/
set_option linter.unusedSimpArgs false
set_option linter.unusedVariables false
namespace OutlineModel.Tie.NatMap
open OutlineModel OutlineModel.GoRT
open OutlineModel.Gen

variable {K V : Type} [DecidableEq K]

theorem find?_mapIf (l : List (K × V)) (k k' : K) (v : V) :
    (l.map (fun e => if e.1 = k then (k, v) else e)).find? (fun e => e.1 = k') =
      if k' = k then (if k ∈ l.map (·.1) then some (k, v) else none) else l.find? (fun e => e.1 = k') := by
  induction l with
  | nil => simp
  | cons e l ih =>
    rw [List.map_cons, List.find?_cons, ih]
    by_cases h1 : e.1 = k
    · by_cases h2 : k' = k
      · subst h2; simp [h1]
      · have h3 : ¬ k = k' := fun h => h2 h.symm
        have h4 : ¬ e.1 = k' := by rw [h1]; exact h3
        simp [h1, h2, h3, h4, List.find?_cons]
    · have h1' : ¬ k = e.1 := fun h => h1 h.symm
      by_cases h2 : k' = k
      · subst h2
        have : (k' ∈ List.map (fun x => x.fst) (e :: l)) ↔ k' ∈ List.map (fun x => x.fst) l := by
          rw [List.map_cons, List.mem_cons]; exact ⟨fun h => h.resolve_left h1', Or.inr⟩
        simp [h1, h1']
        simp only [this]
      · by_cases h4 : e.1 = k'
        · simp [h1, h2, h4, List.find?_cons]
        · simp [h1, h2, h4, List.find?_cons]

/-- lookup after `m[k] = v` -/
theorem get?_insert (m : GoMap K V) (k k' : K) (v : V) :
    (m.insert k v).get? k' = if k' = k then some v else m.get? k' := by
  unfold GoMap.insert GoMap.get? GoMap.contains
  by_cases hc : k ∈ m.keys
  · simp only [hc, decide_true, if_true]
    rw [find?_mapIf]
    by_cases h : k' = k
    · have : k ∈ m.ents.map (·.1) := hc
      simp [h, this]
    · simp [h]
  · simp only [hc, decide_false]
    by_cases h : k' = k
    · simp [h]
    · have : ¬ k = k' := fun e => h e.symm
      simp [h, this]

theorem find?_filter_ne (l : List (K × V)) (k k' : K) (h : ¬ k' = k) :
    (l.filter (fun e => ¬ e.1 = k)).find? (fun e => e.1 = k') = l.find? (fun e => e.1 = k') := by
  induction l with
  | nil => simp
  | cons e l ih =>
    by_cases h1 : e.1 = k
    · have h2 : ¬ e.1 = k' := by rw [h1]; exact fun x => h x.symm
      rw [List.filter_cons_of_neg (by simp [h1]), List.find?_cons_of_neg (by simp [h2]), ih]
    · rw [List.filter_cons_of_pos (by simp [h1])]
      by_cases h2 : e.1 = k'
      · rw [List.find?_cons_of_pos (by simp [h2]), List.find?_cons_of_pos (by simp [h2])]
      · rw [List.find?_cons_of_neg (by simp [h2]), List.find?_cons_of_neg (by simp [h2]), ih]

/-- lookup after `delete(m, k)` -/
theorem get?_erase (m : GoMap K V) (k k' : K) :
    (m.erase k).get? k' = if k' = k then none else m.get? k' := by
  unfold GoMap.erase GoMap.get?
  by_cases h : k' = k
  · subst h
    simp only [if_true, Option.map_eq_none_iff, List.find?_eq_none]
    intro e he
    simp at he ⊢
    exact he.2
  · simp only [h, if_false]
    rw [find?_filter_ne _ _ _ h]

theorem contains_iff_get? (m : GoMap K V) (k : K) : m.contains k = (m.get? k).isSome := by
  unfold GoMap.contains GoMap.get? GoMap.keys
  induction m.ents with
  | nil => simp
  | cons e l ih =>
    by_cases h : e.1 = k
    · simp [h, List.find?_cons]
    · have h' : ¬ k = e.1 := fun x => h x.symm
      simp only [List.map_cons, List.mem_cons, h', false_or]
      rw [List.find?_cons_of_neg (by simp [h])]
      exact ih

/-- the association `set` stores -/
def entryOf (timeout : Int) (pc : Opaque "net.PacketConn") (ck : Opaque "shadowsocks.EncryptionKey")
    (cm : Opaque "service.UDPConnMetrics") : Code.natconn :=
  { Code.natconn.zero with PacketConn := pc, cryptoKey := ck, metrics := cm, defaultTimeout := timeout }

theorem get_tie (m : Code.natmap) (k : String) : Code.natmap.Get m k = some (m, m.keyConn.get? k) := by
  unfold Code.natmap.Get
  have hc := contains_iff_get? m.keyConn k
  cases hg : m.keyConn.get? k <;> simp_all [GoMap.contains]

theorem set_tie (m : Code.natmap) (k : String) (pc : Opaque "net.PacketConn") (ck : Opaque "shadowsocks.EncryptionKey")
    (cm : Opaque "service.UDPConnMetrics") :
    Code.natmap.set m k pc ck cm =
      some ({ m with keyConn := m.keyConn.insert k (entryOf m.timeout pc ck cm) }, some (entryOf m.timeout pc ck cm)) := by
  unfold Code.natmap.set entryOf; rfl

theorem del_tie (m : Code.natmap) (k : String) :
    Code.natmap.del m k = some ({ m with keyConn := m.keyConn.erase k }, m.keyConn.get? k) ∨
    (m.keyConn.get? k = none ∧ Code.natmap.del m k = some (m, none)) := by
  unfold Code.natmap.del
  have hc := contains_iff_get? m.keyConn k
  cases hg : m.keyConn.get? k with
  | none =>
    right
    have hk : ¬ k ∈ m.keyConn.keys := by simpa [GoMap.contains, hg] using hc
    simp [hk, GoMap.contains]
  | some e =>
    left
    have hk : k ∈ m.keyConn.keys := by simpa [GoMap.contains, hg] using hc
    simp [hk, GoMap.contains, hg]

theorem close_tie (setDeadline : Code.natconn → Int → Option String) (now : Int) (m : Code.natmap) :
    ∃ err, Code.natmap.Close setDeadline now m = some (m, err) := by
  unfold Code.natmap.Close
  simp only [bind_pure_comp, pure_bind]
  generalize GoMap.keys m.keyConn = ks
  suffices h : ∀ e0 : Option String, ∃ err, (Prod.mk m <$> forIn ks e0 (fun k s =>
      if decide (setDeadline ((GoMap.get? m.keyConn k).getD Code.natconn.zero) now ≠ none) = true then
        (pure (ForInStep.yield (setDeadline ((GoMap.get? m.keyConn k).getD Code.natconn.zero) now)) : Option _)
      else pure (ForInStep.yield s))) = some (m, err) from h none
  intro e0
  induction ks generalizing e0 with
  | nil => exact ⟨e0, by simp⟩
  | cons k ks ih =>
    simp only [List.forIn_cons]
    by_cases he : setDeadline ((GoMap.get? m.keyConn k).getD Code.natconn.zero) now = none
    · simpa [he] using ih e0
    · simpa [he] using ih _

end OutlineModel.Tie.NatMap
