import OutlineModel.Proofs.GoRT
import OutlineModel.Proofs.TieReplay
import OutlineModel.Gen.Code
/-
Tie for the TRANSLATED stream authenticator — the function literal `NewShadowsocksStreamAuthenticator` returns
(service/tcp.go; Gen/Code.lean, regenerated from the source on every run).  Its captured variables (cipher list, replay
cache, metrics, logger) are parameters; `findAccessKey`, `remoteIP`, the salt generator's `IsServerSalt`, and the
constructors of the encrypted reader and writer are parameters too; the replay cache is the translated `ReplayCache`
and `replayCache.Add` is the translated `Add` (Proofs/TieReplay ties it to the model).  The lemma is the closed form of the
function for every value of every parameter: which status, which key id, what happens to the cache, which calls.
-/
set_option linter.unusedSimpArgs false
set_option linter.unusedVariables false
namespace OutlineModel.Tie.Auth
open OutlineModel OutlineModel.GoRT
open OutlineModel.Gen

abbrev Conn := Opaque "transport.StreamConn"
abbrev FA := Option Code.CipherEntry × Opaque "io.Reader" × List UInt8 × Int × Option String

def searchEff (metrics : Opaque "service.ShadowsocksConnMetrics") (found : Bool) (t : Int) : Eff :=
  { name := "ShadowsocksConnMetrics.AddCipherSearch", args := [], vals := [[Atom.tok metrics.val], [Atom.bool found], [Atom.int t]] }
def saltGenEff (w : Opaque "shadowsocks.Writer") (g : Opaque "service.ServerSaltGenerator") : Eff :=
  { name := "Writer.SetSaltGenerator", args := [], vals := [[Atom.tok w.val], [Atom.tok g.val]] }

/-- the closed form: (cache afterwards, key id, wrapped connection, error status, calls) or a panic -/
def outcome (newReader : Opaque "io.Reader" → Opaque "shadowsocks.EncryptionKey" → Opaque "shadowsocks.Reader")
    (newWriter : Conn → Opaque "shadowsocks.EncryptionKey" → Opaque "shadowsocks.Writer")
    (isSrv : Opaque "service.ServerSaltGenerator" → List UInt8 → Bool)
    (wrap : Conn → Opaque "shadowsocks.Reader" → Opaque "shadowsocks.Writer" → Conn)
    (fa : FA) (rc : Code.ReplayCache) (metrics : Opaque "service.ShadowsocksConnMetrics") (conn : Conn) :
    Option (Code.ReplayCache × String × Conn × Option String × List Eff) :=
  if fa.2.2.2.2 ≠ none then some (rc, "", ⟨0⟩, some "ERR_CIPHER", [searchEff metrics false fa.2.2.2.1])
  else match fa.1 with
    | none => none     -- a nil entry without an error: the code dereferences it
    | some e =>
      if isSrv e.SaltGenerator fa.2.2.1 = true then
        some (rc, e.ID, ⟨0⟩, some "ERR_REPLAY_SERVER", [searchEff metrics true fa.2.2.2.1])
      else match Code.ReplayCache.Add rc (String.toUTF8 e.ID).toList fa.2.2.1 with
        | none => none
        | some (rc', fresh) =>
          if fresh = true then
            some (rc', e.ID, wrap conn (newReader fa.2.1 e.CryptoKey) (newWriter conn e.CryptoKey), none,
              [searchEff metrics true fa.2.2.2.1, saltGenEff (newWriter conn e.CryptoKey) e.SaltGenerator])
          else some (rc', e.ID, ⟨0⟩, some "ERR_REPLAY_CLIENT", [searchEff metrics true fa.2.2.2.1])

/-- the closed form when the key search found an entry -/
theorem outcome_found (newReader : Opaque "io.Reader" → Opaque "shadowsocks.EncryptionKey" → Opaque "shadowsocks.Reader")
    (newWriter : Conn → Opaque "shadowsocks.EncryptionKey" → Opaque "shadowsocks.Writer")
    (isSrv : Opaque "service.ServerSaltGenerator" → List UInt8 → Bool)
    (wrap : Conn → Opaque "shadowsocks.Reader" → Opaque "shadowsocks.Writer" → Conn)
    (e : Code.CipherEntry) (rd : Opaque "io.Reader") (salt : List UInt8) (t : Int)
    (rc : Code.ReplayCache) (metrics : Opaque "service.ShadowsocksConnMetrics") (conn : Conn) :
    outcome newReader newWriter isSrv wrap (some e, rd, salt, t, none) rc metrics conn =
      if isSrv e.SaltGenerator salt = true then
        some (rc, e.ID, ⟨0⟩, some "ERR_REPLAY_SERVER", [searchEff metrics true t])
      else match Code.ReplayCache.Add rc (String.toUTF8 e.ID).toList salt with
        | none => none
        | some (rc', fresh) =>
          if fresh = true then
            some (rc', e.ID, wrap conn (newReader rd e.CryptoKey) (newWriter conn e.CryptoKey), none,
              [searchEff metrics true t, saltGenEff (newWriter conn e.CryptoKey) e.SaltGenerator])
          else some (rc', e.ID, ⟨0⟩, some "ERR_REPLAY_CLIENT", [searchEff metrics true t]) := by
  simp [outcome]

theorem authenticator_tie
    (newReader : Opaque "io.Reader" → Opaque "shadowsocks.EncryptionKey" → Opaque "shadowsocks.Reader")
    (newWriter : Conn → Opaque "shadowsocks.EncryptionKey" → Opaque "shadowsocks.Writer")
    (isSrv : Opaque "service.ServerSaltGenerator" → List UInt8 → Bool)
    (wrap : Conn → Opaque "shadowsocks.Reader" → Opaque "shadowsocks.Writer" → Conn)
    (findAccessKey : Conn → Opaque "netip.Addr" → Opaque "service.CipherList" → Opaque "slog.Logger" → FA)
    (remoteIP : Conn → Opaque "netip.Addr")
    (ciphers : Opaque "service.CipherList") (rc : Code.ReplayCache) (metrics : Opaque "service.ShadowsocksConnMetrics")
    (l : Opaque "slog.Logger") (conn : Conn) :
    Code.NewShadowsocksStreamAuthenticator newReader newWriter isSrv wrap findAccessKey remoteIP ciphers rc metrics l conn =
      outcome newReader newWriter isSrv wrap (findAccessKey conn (remoteIP conn) ciphers l) rc metrics conn := by
  unfold Code.NewShadowsocksStreamAuthenticator outcome searchEff saltGenEff
  rcases hfa : findAccessKey conn (remoteIP conn) ciphers l with ⟨ent, rd, salt, t, err⟩
  cases err with
  | some e => simp [hfa]
  | none =>
    cases ent with
    | none => simp [hfa]
    | some e =>
      by_cases hs : isSrv e.SaltGenerator salt = true
      · simp [hfa, hs]
      · simp [hfa, hs]
        cases hadd : Code.ReplayCache.Add rc e.ID.toByteArray.toList salt with
        | none => simp
        | some p =>
          obtain ⟨rc', fresh⟩ := p
          cases fresh <;> simp

end OutlineModel.Tie.Auth
