/-
Proofs about the shared listener (OutlineModel/Model/Shared.lean).

`Inv` is an inductive invariant of the transition system (`inv_init`, `inv_step`, `inv_run`,
`inv_reachable`).  From it:
  * `delivered_exactly_once`, `conservation`   : every item that reached the socket is in exactly one of
                                                 queued / delivered / dropped; never duplicated or lost
  * `deliver_only_to_open_waiting`             : a hand-over goes to an open handle blocked in accept/read
  * `dropped_only_at_last_close`               : items are dropped only by the close of the LAST handle
  * `deliver_enabled`                          : progress (a queued item and a blocked handle suffice)
  * `close_effect`, `call_on_closed`, `closed_never_receives`
  * `last_close_releases`, `refused_never_delivered`
-/
import OutlineModel.Model.Shared

namespace OutlineModel.Shared

/-- the inductive invariant -/
structure Inv (s : St) : Prop where
  openedNodup : s.opened.Nodup
  closedNodup : s.closedH.Nodup
  openedLt : ∀ h ∈ s.opened, h < s.next
  closedLt : ∀ h ∈ s.closedH, h < s.next
  disj : ∀ h ∈ s.opened, h ∉ s.closedH
  waitingNodup : s.waiting.Nodup
  waitingOpen : ∀ h ∈ s.waiting, h ∈ s.opened
  sockIff : s.sock = true ↔ s.opened ≠ []
  queueSock : s.sock = false → s.queue = []
  cons : (s.queue ++ s.delivered.map (·.1) ++ s.dropped).Perm s.seen
  seenNodup : s.seen.Nodup
  refusedNot : ∀ i ∈ s.refused, i ∉ s.seen
  deliveredLt : ∀ p ∈ s.delivered, p.2 < s.next

theorem inv_init : Inv {} := by
  constructor <;> simp

/-! ### list helpers -/

private theorem erase_eq_nil {h : Nat} {l : List Nat} (hm : h ∈ l) (he : l.erase h = []) : l = [h] := by
  cases l with
  | nil => simp at hm
  | cons a t =>
    rw [List.erase_cons] at he
    split at he
    · next hah => simp at hah; subst hah; subst he; rfl
    · simp at he

private theorem perm_deliver {q m d seen : List Nat} {i : Nat} (hi : i ∈ q)
    (hp : (q ++ m ++ d).Perm seen) : (q.erase i ++ i :: m ++ d).Perm seen := by
  refine List.Perm.trans ?_ hp
  refine List.Perm.append_right d ?_
  refine List.Perm.trans List.perm_middle ?_
  have : (i :: q.erase i).Perm q := (List.perm_cons_erase hi).symm
  exact List.Perm.append_right m this

private theorem perm_lastclose {q m d seen : List Nat}
    (hp : (q ++ m ++ d).Perm seen) : (([] : List Nat) ++ m ++ (d ++ q)).Perm seen := by
  refine List.Perm.trans ?_ hp
  simp only [List.nil_append, List.append_assoc]
  rw [← List.append_assoc]
  exact List.perm_append_comm

/-! ### one-step preservation -/

theorem inv_step {s s' : St} {e : Ev} (h : Inv s) (hs : step s e = some s') : Inv s' := by
  obtain ⟨h1, h2, h3, h4, h5, h6, h7, h8, h9, h10, h11, h12, h13⟩ := h
  cases e with
  | acquire =>
    simp only [step] at hs
    cases hs
    constructor <;> simp only [] <;> grind
  | arrive i =>
    simp only [step] at hs
    split at hs
    · cases hs
    · next hg =>
      simp only [Bool.or_eq_true, List.contains_iff_mem, not_or] at hg
      split at hs
      · next hsock =>
        cases hs
        constructor <;> simp only []
        · exact h1
        · exact h2
        · exact h3
        · exact h4
        · exact h5
        · exact h6
        · exact h7
        · exact h8
        · intro hf; simp [hsock] at hf
        · have : (s.queue ++ [i] ++ List.map (·.1) s.delivered ++ s.dropped).Perm
              ([i] ++ (s.queue ++ List.map (·.1) s.delivered ++ s.dropped)) := by
            simp only [List.append_assoc]
            exact List.perm_middle
          refine this.trans ?_
          refine List.Perm.trans ?_ List.perm_append_comm
          exact List.Perm.append_left [i] h10
        · rw [List.nodup_append]; grind
        · grind
        · exact h13
      · cases hs
        constructor <;> simp only [] <;> grind
  | call c =>
    simp only [step] at hs
    split at hs
    · cases hs
      constructor <;> simp only [] <;> assumption
    · split at hs
      · next hg =>
        simp only [Bool.and_eq_true, List.contains_iff_mem, Bool.not_eq_true', ← Bool.not_eq_true] at hg
        cases hs
        constructor <;> simp only [] <;> grind
      · cases hs
  | deliver i d =>
    simp only [step] at hs
    split at hs
    · next hg =>
      simp only [Bool.and_eq_true, List.contains_iff_mem] at hg
      cases hs
      constructor <;> simp only []
      · exact h1
      · exact h2
      · exact h3
      · exact h4
      · exact h5
      · exact h6.erase d
      · intro x hx; exact h7 x (List.mem_of_mem_erase hx)
      · exact h8
      · intro hf; simp [h9 hf]
      · exact perm_deliver hg.1 h10
      · exact h11
      · exact h12
      · intro p hp
        simp only [List.mem_cons] at hp
        rcases hp with rfl | hp
        · exact h3 _ (h7 _ hg.2)
        · exact h13 p hp
    · cases hs
  | close c =>
    simp only [step] at hs
    split at hs
    · next hg =>
      simp only [List.contains_iff_mem] at hg
      have hwn : (s.waiting.erase c).Nodup := h6.erase c
      have hon : (s.opened.erase c).Nodup := h1.erase c
      split at hs
      · next hemp =>
        simp only [List.isEmpty_iff] at hemp
        cases hs
        constructor <;> simp only []
        · exact hon
        · grind
        · intro x hx; exact h3 x (List.mem_of_mem_erase hx)
        · grind
        · intro x hx; simp [hemp] at hx
        · exact hwn
        · intro x hx
          have := (h6.mem_erase_iff.mp hx)
          exact (h1.mem_erase_iff).mpr ⟨this.1, h7 x this.2⟩
        · simp [hemp]
        · simp
        · exact perm_lastclose h10
        · exact h11
        · exact h12
        · exact h13
      · next hemp =>
        simp only [List.isEmpty_iff] at hemp
        cases hs
        constructor <;> simp only []
        · exact hon
        · grind
        · intro x hx; exact h3 x (List.mem_of_mem_erase hx)
        · grind
        · intro x hx
          have := (h1.mem_erase_iff.mp hx)
          grind
        · exact hwn
        · intro x hx
          have := (h6.mem_erase_iff.mp hx)
          exact (h1.mem_erase_iff).mpr ⟨this.1, h7 x this.2⟩
        · have : s.sock = true := h8.mpr (by intro h0; simp [h0] at hg)
          simp [this, hemp]
        · exact h9
        · exact h10
        · exact h11
        · exact h12
        · exact h13
    · cases hs

/-! ### runs and reachability -/

theorem inv_run {s s' : St} {evs : List Ev} (h : Inv s) (hr : run s evs = some s') : Inv s' := by
  induction evs generalizing s with
  | nil => simp only [run, Option.some.injEq] at hr; subst hr; exact h
  | cons e es ih =>
    simp only [run] at hr
    cases hst : step s e with
    | none => simp [hst] at hr
    | some s1 =>
      simp only [hst, Option.bind_some] at hr
      exact ih (inv_step h hst) hr

theorem inv_reachable {s : St} (h : Reachable s) : Inv s := by
  obtain ⟨evs, hr⟩ := h
  exact inv_run inv_init hr

/-! ### consequences -/

/-- exactly once: no item is delivered twice, and a delivered item is neither queued nor dropped -/
theorem delivered_exactly_once {s : St} (h : Reachable s) :
    (s.delivered.map (·.1)).Nodup ∧ ∀ p ∈ s.delivered, p.1 ∉ s.queue ∧ p.1 ∉ s.dropped := by
  have hi := inv_reachable h
  have hn : (s.queue ++ s.delivered.map (·.1) ++ s.dropped).Nodup := hi.cons.nodup_iff.mpr hi.seenNodup
  rw [List.nodup_append, List.nodup_append] at hn
  obtain ⟨⟨_, hm, hqm⟩, _, hmd⟩ := hn
  refine ⟨hm, ?_⟩
  intro p hp
  have hpm : p.1 ∈ s.delivered.map (·.1) := List.mem_map_of_mem hp
  constructor
  · intro hq; exact hqm _ hq _ hpm rfl
  · intro hd; exact hmd _ (List.mem_append_right _ hpm) _ hd rfl

/-- nothing is lost: every item that reached the socket is queued, delivered or dropped (exactly one of them) -/
theorem conservation {s : St} (h : Reachable s) :
    (s.queue ++ s.delivered.map (·.1) ++ s.dropped).Perm s.seen ∧ s.seen.Nodup :=
  ⟨(inv_reachable h).cons, (inv_reachable h).seenNodup⟩

/-- an item is handed only to a handle that is open and blocked in accept/read at that moment -/
theorem deliver_only_to_open_waiting {s s' : St} {i : Item} {h : Handle}
    (hs : step s (.deliver i h) = some s') (hi : Inv s) :
    h ∈ s.opened ∧ h ∈ s.waiting ∧ h ∉ s.closedH ∧ i ∈ s.queue := by
  simp only [step] at hs
  split at hs
  · next hg =>
    simp only [Bool.and_eq_true, List.contains_iff_mem] at hg
    exact ⟨hi.waitingOpen h hg.2, hg.2, hi.disj h (hi.waitingOpen h hg.2), hg.1⟩
  · cases hs

/-- never lost while some handle stays open: `dropped` grows only in a step that closes the LAST handle -/
theorem dropped_only_at_last_close {s s' : St} {e : Ev} (hi : Inv s) (hs : step s e = some s') :
    s'.dropped = s.dropped ∨
      (∃ h, e = .close h ∧ s.opened = [h] ∧ s'.opened = [] ∧ s'.dropped = s.dropped ++ s.queue ∧
        s'.queue = []) := by
  have _ := hi   -- the invariant is not needed for this one; the hypothesis is kept for uniformity
  cases e with
  | acquire => simp only [step] at hs; cases hs; exact Or.inl rfl
  | arrive i =>
    simp only [step] at hs
    split at hs
    · cases hs
    · split at hs <;> (cases hs; exact Or.inl rfl)
  | call c =>
    simp only [step] at hs
    split at hs
    · cases hs; exact Or.inl rfl
    · split at hs
      · cases hs; exact Or.inl rfl
      · cases hs
  | deliver i d =>
    simp only [step] at hs
    split at hs
    · cases hs; exact Or.inl rfl
    · cases hs
  | close c =>
    simp only [step] at hs
    split at hs
    · next hg =>
      simp only [List.contains_iff_mem] at hg
      split at hs
      · next hemp =>
        simp only [List.isEmpty_iff] at hemp
        cases hs
        exact Or.inr ⟨c, rfl, erase_eq_nil hg hemp, hemp, rfl, rfl⟩
      · cases hs; exact Or.inl rfl
    · cases hs

/-- progress: whenever an item is queued and some handle is blocked in accept/read, a hand-over is possible
    (and nothing else is required for it) -/
theorem deliver_enabled {s : St} {i : Item} {h : Handle} (hq : i ∈ s.queue) (hw : h ∈ s.waiting) :
    ∃ s', step s (.deliver i h) = some s' := by
  simp only [step]
  rw [if_pos (by simp [hq, hw])]
  exact ⟨_, rfl⟩

/-- closing a handle: it leaves `opened` and `waiting`, a pending call on it ends with the closed error,
    and the other handles are not disturbed -/
theorem close_effect {s s' : St} {h : Handle} (hi : Inv s) (hs : step s (.close h) = some s') :
    h ∉ s'.opened ∧ h ∉ s'.waiting ∧ h ∈ s'.closedH ∧
    (h ∈ s.waiting → s'.errs = h :: s.errs) ∧ (h ∉ s.waiting → s'.errs = s.errs) ∧
    (∀ h', h' ≠ h → (h' ∈ s'.opened ↔ h' ∈ s.opened) ∧ (h' ∈ s'.waiting ↔ h' ∈ s.waiting)) ∧
    s'.delivered = s.delivered := by
  have ho := hi.openedNodup
  have hw := hi.waitingNodup
  have key : s'.opened = s.opened.erase h ∧ s'.waiting = s.waiting.erase h ∧ s'.closedH = h :: s.closedH ∧
      s'.errs = (if s.waiting.contains h then h :: s.errs else s.errs) ∧ s'.delivered = s.delivered := by
    simp only [step] at hs
    split at hs
    · split at hs <;> (cases hs; exact ⟨rfl, rfl, rfl, rfl, rfl⟩)
    · cases hs
  obtain ⟨k1, k2, k3, k4, k5⟩ := key
  rw [k1, k2, k3, k4, k5]
  refine ⟨?_, ?_, ?_, ?_, ?_, ?_, rfl⟩
  · intro hm; exact (ho.mem_erase_iff.mp hm).1 rfl
  · intro hm; exact (hw.mem_erase_iff.mp hm).1 rfl
  · exact List.mem_cons_self
  · intro hm; simp [hm]
  · intro hm; simp [hm]
  · intro h' hne
    constructor
    · rw [ho.mem_erase_iff]; simp [hne]
    · rw [hw.mem_erase_iff]; simp [hne]

/-- every later call on a closed handle fails the same way and changes nothing else -/
theorem call_on_closed {s : St} {h : Handle} (hc : h ∈ s.closedH) :
    step s (.call h) = some { s with errs := h :: s.errs } := by
  simp only [step]
  rw [if_pos (by simpa using hc)]

private theorem closedH_mono_step {s s' : St} {e : Ev} {h : Handle} (hc : h ∈ s.closedH)
    (hs : step s e = some s') : h ∈ s'.closedH := by
  cases e with
  | acquire => simp only [step] at hs; cases hs; exact hc
  | arrive i =>
    simp only [step] at hs
    split at hs
    · cases hs
    · split at hs <;> (cases hs; exact hc)
  | call c =>
    simp only [step] at hs
    split at hs
    · cases hs; exact hc
    · split at hs
      · cases hs; exact hc
      · cases hs
  | deliver i d =>
    simp only [step] at hs
    split at hs
    · cases hs; exact hc
    · cases hs
  | close c =>
    simp only [step] at hs
    split at hs
    · split at hs <;> (cases hs; exact List.mem_cons_of_mem _ hc)
    · cases hs

/-- once closed, a handle never receives anything: no delivery to h is possible in any later state -/
theorem closed_never_receives {s s' : St} {evs : List Ev} {h : Handle} (hi : Inv s) (hc : h ∈ s.closedH)
    (hr : run s evs = some s') : h ∈ s'.closedH ∧ h ∉ s'.opened ∧ ∀ i, step s' (.deliver i h) = none := by
  have hi' := inv_run hi hr
  have hc' : h ∈ s'.closedH := by
    induction evs generalizing s with
    | nil => simp only [run, Option.some.injEq] at hr; subst hr; exact hc
    | cons e es ih =>
      simp only [run] at hr
      cases hst : step s e with
      | none => simp [hst] at hr
      | some s1 =>
        simp only [hst, Option.bind_some] at hr
        exact ih (inv_step hi hst) (closedH_mono_step hc hst) hr
  have hno : h ∉ s'.opened := fun ho => hi'.disj h ho hc'
  refine ⟨hc', hno, ?_⟩
  intro i
  have hnw : h ∉ s'.waiting := fun hw => hno (hi'.waitingOpen h hw)
  simp only [step]
  rw [if_neg (by simp [hnw])]

/-- last close releases the socket and leaves nothing hanging; the address can be bound again and a
    re-acquisition starts from an empty queue -/
theorem last_close_releases {s : St} (h : Reachable s) :
    (s.opened = [] ↔ s.sock = false) ∧ (s.sock = false → s.queue = [] ∧ s.waiting = []) := by
  have hi := inv_reachable h
  have h1 : s.opened = [] ↔ s.sock = false := by
    have := hi.sockIff
    cases hsock : s.sock <;> simp [hsock] at this ⊢ <;> exact this
  refine ⟨h1, ?_⟩
  intro hf
  refine ⟨hi.queueSock hf, ?_⟩
  have ho := h1.mpr hf
  apply List.eq_nil_iff_forall_not_mem.mpr
  intro x hx
  have := hi.waitingOpen x hx
  simp [ho] at this

/-- an arrival while nothing is bound is refused and never reaches anybody -/
theorem refused_never_delivered {s : St} (h : Reachable s) :
    ∀ i ∈ s.refused, i ∉ s.seen ∧ ∀ p ∈ s.delivered, p.1 ≠ i := by
  have hi := inv_reachable h
  intro i hr
  refine ⟨hi.refusedNot i hr, ?_⟩
  intro p hp heq
  apply hi.refusedNot i hr
  rw [← heq]
  apply hi.cons.subset
  exact List.mem_append_left _ (List.mem_append_right _ (List.mem_map_of_mem hp))

/-! ### non-vacuity: a concrete run -/

/-- two handles; a delivery to handle 0; handle 1 blocks and is closed (its pending call ends with the
    closed error); item 11 arrives and is dropped by the last close; item 12 is refused; a re-acquire gives
    handle 2, which receives item 13 -/
def demo : List Ev :=
  [.acquire, .acquire, .arrive 10, .call 0, .deliver 10 0, .call 1, .close 1, .arrive 11, .close 0,
   .arrive 12, .acquire, .arrive 13, .call 2, .deliver 13 2]

example : (run {} demo).isSome = true := by decide
example : (run {} demo).map (·.delivered) = some [(13, 2), (10, 0)] := by decide
example : (run {} demo).map (·.dropped) = some [11] := by decide
example : (run {} demo).map (·.errs) = some [1] := by decide
example : (run {} demo).map (·.sock) = some true := by decide
example : (run {} demo).map (·.refused) = some [12] := by decide
example : (run {} demo).map (·.opened) = some [2] := by decide
example : (run {} demo).map (·.queue) = some [] := by decide
example : (run {} demo).map (·.seen) = some [10, 11, 13] := by decide
/-- the state just after the last close: socket released, queued item dropped -/
example : (run {} (demo.take 9)).map (fun s => (s.sock, s.opened, s.queue, s.dropped, s.waiting)) =
    some (false, [], [], [11], []) := by decide
/-- a call on a closed handle and a delivery to it -/
example : ((run {} demo).bind (step · (.call 1))).map (·.errs) = some [1, 1] := by decide
example : (run {} (demo ++ [.arrive 14, .deliver 14 1])) = none := by decide
/-- the hypotheses of the step theorems are satisfiable -/
example : Reachable ((run {} demo).getD {}) := ⟨demo, by decide⟩

end OutlineModel.Shared
