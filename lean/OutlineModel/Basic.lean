def hello := "world"
