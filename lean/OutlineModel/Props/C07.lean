import OutlineModel.Proofs.TieReplay
import OutlineModel.Props.C19
import OutlineModel.Proofs.TieAuth
import OutlineModel.Proofs.Replay
import OutlineModel.Gen.Consts
import OutlineModel.Gen.Wiring
import OutlineModel.Model.Auth
/-
C07 — A client handshake is accepted at most once within the replay history.

Only property theorems, their non-vacuity examples, and nothing else.  The model is
Model/Replay.lean (tied to service/replay.go by the `replay` correspondence campaign); the
constant `Gen.maxCapacity` is regenerated from the source on every run.
-/
namespace OutlineModel.Props.C07
open OutlineModel OutlineModel.Replay

/-- **window**: from ANY cache state, with any interleaved resizes that keep the capacity ≥ N > 0, a
    handshake hash presented again within the next N checked handshakes (refused and accepted ones
    both count) is refused. -/
theorem window {N : Nat} (c0 : RC) (h : UInt32) (mid : List Op)
    (hcap0 : (N : Int) ≤ c0.cap) (hcaps : capsGE N mid) (hnum : numAdds mid < N) :
    ((run Gen.maxCapacity (c0.add h).1 mid).add h).2 = false := by
  have hc0 : c0.cap ≠ 0 := by omega
  have hs : Safe N h (c0.add h).1 (numAdds mid + 0) :=
    ⟨by rw [add_cap]; exact hcap0, Or.inl ⟨add_mem_active c0 h hc0, by omega⟩⟩
  exact (Safe.run mid _ 0 hs hcaps).refused

/-- **only_collisions_refused**: `Add` refuses only a 32-bit checksum that the cache remembers
    (so a never-seen handshake is refused only on a checksum collision with a remembered one). -/
theorem only_collisions_refused (c : RC) (h : UInt32) (hf : (c.add h).2 = false) :
    c.cap ≠ 0 ∧ (h ∈ c.active ∨ h ∈ c.archive) :=
  mem_of_add_false c h hf

/-- a remembered checksum got there by an earlier `Add` of the same checksum: from the empty cache,
    everything remembered after a run was presented during it. -/
theorem remembered_was_presented (M : Nat) : ∀ (ops : List Op) (c : RC) (h : UInt32),
    (run M c ops).mem h → c.mem h ∨ 0 < presentations h ops := by
  intro ops
  induction ops with
  | nil => intro c h hm; exact Or.inl hm
  | cons o os ih =>
    intro c h hm
    cases o with
    | resize n =>
      simp only [Replay.run, RC.step] at hm
      rcases ih _ h hm with h1 | h1
      · exact Or.inl ((resize_mem M c n h).1 h1)
      · exact Or.inr (by simpa [presentations] using h1)
    | add x =>
      simp only [Replay.run, RC.step] at hm
      rcases ih _ h hm with h1 | h1
      · by_cases hx : x = h
        · right; simp only [presentations, hx, if_true]; omega
        · left
          apply Classical.byContradiction
          intro hn
          exact fresh_add_other c h x hx hn h1
      · right; simp only [presentations]; omega

/-- **disabled_accepts_all**: capacity 0 (and the nil cache) accepts everything and remembers nothing. -/
theorem disabled_accepts_all (c : RC) (h : UInt32) (hc : c.cap = 0) : c.add h = (c, true) := by
  unfold RC.add; simp [hc]

theorem nil_accepts_all (h : UInt32) : addNilable none h = (none, true) := rfl

/-- **exactly_one_winner**: for concurrent presentations of one fresh handshake — every
    linearisation is a sequence `ops` of whole `Add`/`Resize` critical sections (C19) — exactly one
    presentation is accepted, however it is interleaved with other handshakes and resizes. -/
theorem exactly_one_winner {N : Nat} (h : UInt32) (ops : List Op) (c : RC)
    (hcap : (N : Int) ≤ c.cap) (hN : 0 < N) (hfresh : ¬ c.mem h) (hcaps : capsGE N ops)
    (hnum : numAdds ops ≤ N) (hp : 0 < presentations h ops) :
    winners Gen.maxCapacity h c ops = 1 :=
  winners_eq_one ops c hcap hN hfresh hcaps hnum hp

/-- **max_capacity**: no cache with a capacity above the generated `MaxCapacity` can be created or
    resized into existence, and the generated bound is the documented 20 000. -/
theorem max_capacity (c : RC) (n : Int) (hn : n > (Gen.maxCapacity : Int)) :
    RC.new Gen.maxCapacity n = none ∧ c.resize Gen.maxCapacity n = (c, false) ∧ Gen.maxCapacity = 20000 := by
  refine ⟨by unfold RC.new; simp [hn], by unfold RC.resize; simp [hn], rfl⟩

/-- **replay_is_refused_like_a_probe**: a remembered handshake gets ERR_REPLAY_CLIENT from the
    authenticator (for any key list / client IP), and the handler treats every authentication error
    — cipher, client replay, server replay — by the same branch (absorb, then return: proved about the translated
    `handleConnection` for every status, C06 `code_unauthenticated_is_absorbed`). -/
theorem replay_is_refused_like_a_probe (st : Auth.AuthState) (c : RC) (hc : st.cache = some c) (ip : Option Nat)
    (valid : Nat → Bool) (srvSalt : CipherList.Entry → Bool) (hash : CipherList.Entry → UInt32) (e : CipherList.Entry) (i : Nat)
    (hf : (CipherList.lookup st.list ip valid).2 = some (e, i)) (hs : srvSalt e = false)
    (hmem : c.cap ≠ 0 ∧ (hash e ∈ c.active ∨ hash e ∈ c.archive)) :
    (Auth.authenticate st ip true valid srvSalt hash).2.status = .errReplayClient := by
  unfold Auth.authenticate
  simp only [Bool.not_true, Bool.false_eq_true, if_false]
  cases hl : CipherList.lookup st.list ip valid with
  | mk list' found =>
    rw [hl] at hf
    simp only at hf
    subst hf
    have hadd := add_false_of_mem c (hash e) hmem.1 hmem.2
    simp [hs, hc, addNilable, hadd]

/-- **one_cache_for_the_process**: every service of every configuration generation is given the one
    replay cache of the server object (generated fact); that the server-salt test precedes the cache is proved about
    the translated authenticator (C08 `code_server_salt_is_refused_before_the_cache`). -/
theorem one_cache_for_the_process : Gen.Wiring.singleReplayCache = true := by
  decide

/- non-vacuity: concrete non-trivial states meet the hypotheses -/
example : ((run Gen.maxCapacity (({cap := 2, active := [], archive := []} : RC).add 7).1 [.add 8]).add 7).2 = false :=
  window (N := 2) _ 7 [.add 8] (by decide) (by simp [capsGE]) (by simp [numAdds])
example : winners Gen.maxCapacity 7 ({cap := 3, active := [1], archive := [2]} : RC) [.add 7, .add 9, .add 7] = 1 := by decide
example : (({cap := 2, active := [5], archive := []} : RC).add 5).2 = false := by decide


/-! ### The same statements about the code itself

`Gen.Code.preHash`, `Gen.Code.ReplayCache.Add`, `.Resize` and `Gen.Code.NewReplayCache` are TRANSLATED from
service/replay.go on every run (extract/golean.go).  The theorems below say that, for all inputs, the
translated functions never panic and do what the model does; `window_code` restates the window theorem
directly over runs of the translated code. -/

/-- the translated `preHash` never panics and is the model's checksum -/
theorem code_preHash (id salt : List UInt8) : Gen.Code.preHash id salt = some (Replay.preHash id salt) :=
  Tie.Replay.preHash_tie id salt

/-- the translated `ReplayCache.Add` never panics and refines the model's `add` (abstraction: key sets) -/
theorem code_add_refines_model (c : Gen.Code.ReplayCache) (id salt : List UInt8) :
    (Gen.Code.ReplayCache.Add c id salt).map (fun p => (Tie.Replay.abs p.1, p.2)) =
      some ((Tie.Replay.abs c).add (Replay.preHash id salt)) :=
  Tie.Replay.add_tie c id salt _ (Tie.Replay.preHash_tie id salt)

/-- the translated `Resize` and `NewReplayCache` are the model's, with the generated MaxCapacity -/
theorem code_resize_new_refine_model (c : Gen.Code.ReplayCache) (n : Int) :
    (Gen.Code.ReplayCache.Resize c n).map (fun p => (Tie.Replay.abs p.1, p.2.isNone)) = some ((Tie.Replay.abs c).resize Gen.maxCapacity n) ∧
    (Gen.Code.NewReplayCache n).map Tie.Replay.abs = RC.new Gen.maxCapacity n ∧
    Gen.Code.ReplayCache.Add.onNil = true :=
  ⟨Tie.Replay.resize_tie c n, Tie.Replay.new_tie n, rfl⟩

/-- a run of the translated `Add` over a list of (key id, salt) pairs -/
def codeAdds (c : Gen.Code.ReplayCache) : List (List UInt8 × List UInt8) → Option Gen.Code.ReplayCache
  | [] => some c
  | (i, s) :: r => (Gen.Code.ReplayCache.Add c i s).bind (fun p => codeAdds p.1 r)

theorem codeAdds_abs : ∀ (hs : List (List UInt8 × List UInt8)) (c : Gen.Code.ReplayCache),
    (codeAdds c hs).map Tie.Replay.abs =
      some (run Gen.maxCapacity (Tie.Replay.abs c) (hs.map fun p => Op.add (Replay.preHash p.1 p.2))) := by
  intro hs
  induction hs with
  | nil => intro c; rfl
  | cons p r ih =>
    intro c
    obtain ⟨i, s⟩ := p
    have h := code_add_refines_model c i s
    cases hA : Gen.Code.ReplayCache.Add c i s with
    | none => simp [hA] at h
    | some q =>
      simp only [hA, Option.map_some, Option.some.injEq] at h
      simp only [codeAdds, hA, Option.bind_some, List.map_cons, Replay.run, RC.step]
      rw [ih q.1]
      have : Tie.Replay.abs q.1 = ((Tie.Replay.abs c).add (Replay.preHash i s)).1 := by rw [← h]
      rw [this]

/-- **window_code**: the window theorem over the translated code: after `Add(id, salt)`, fewer than N further
    `Add`s of anything, on a cache of capacity ≥ N > 0, the same handshake is refused by the translated `Add`. -/
theorem window_code {N : Nat} (c0 : Gen.Code.ReplayCache) (id salt : List UInt8) (mid : List (List UInt8 × List UInt8))
    (hcap : (N : Int) ≤ c0.capacity) (hnum : mid.length < N) :
    ∃ c1 b c2 c3, Gen.Code.ReplayCache.Add c0 id salt = some (c1, b) ∧ codeAdds c1 mid = some c2 ∧
      Gen.Code.ReplayCache.Add c2 id salt = some (c3, false) := by
  have h1 := code_add_refines_model c0 id salt
  cases hA : Gen.Code.ReplayCache.Add c0 id salt with
  | none => simp [hA] at h1
  | some q =>
    obtain ⟨c1, b⟩ := q
    simp only [hA, Option.map_some, Option.some.injEq] at h1
    have h2 := codeAdds_abs mid c1
    cases hB : codeAdds c1 mid with
    | none => simp [hB] at h2
    | some c2 =>
      simp only [hB, Option.map_some, Option.some.injEq] at h2
      have h3 := code_add_refines_model c2 id salt
      cases hC : Gen.Code.ReplayCache.Add c2 id salt with
      | none => simp [hC] at h3
      | some r =>
        obtain ⟨c3, b3⟩ := r
        simp only [hC, Option.map_some, Option.some.injEq] at h3
        refine ⟨c1, b, c2, c3, rfl, hB, ?_⟩
        have hn : numAdds (mid.map fun p => Op.add (Replay.preHash p.1 p.2)) < N := by
          rw [Tie.Replay.numAdds_map_add]; exact hnum
        have hcap' : (N : Int) ≤ (Tie.Replay.abs c0).cap := hcap
        have hw := window (N := N) (Tie.Replay.abs c0) (Replay.preHash id salt) _ hcap' (Tie.Replay.capsGE_map_add N mid) hn
        have e1 : Tie.Replay.abs c1 = ((Tie.Replay.abs c0).add (Replay.preHash id salt)).1 := by rw [← h1]
        rw [← e1, ← h2] at hw
        have : b3 = false := by
          have := congrArg Prod.snd h3
          simp only at this
          rw [this]; exact hw
        rw [hC, this]


/-- how many of the translated `Add` calls of a run presented the handshake (id, salt) and were ACCEPTED; `none` if a call panicked -/
def codeWinners (id salt : List UInt8) (c : Gen.Code.ReplayCache) : List (List UInt8 × List UInt8) → Option Nat
  | [] => some 0
  | (i, s) :: r => (Gen.Code.ReplayCache.Add c i s).bind (fun p =>
      (codeWinners id salt p.1 r).map (fun n =>
        (if Replay.preHash i s = Replay.preHash id salt ∧ p.2 = true then 1 else 0) + n))

theorem codeWinners_abs (id salt : List UInt8) : ∀ (hs : List (List UInt8 × List UInt8)) (c : Gen.Code.ReplayCache),
    codeWinners id salt c hs =
      some (winners Gen.maxCapacity (Replay.preHash id salt) (Tie.Replay.abs c) (hs.map fun p => Op.add (Replay.preHash p.1 p.2))) := by
  intro hs
  induction hs with
  | nil => intro c; rfl
  | cons p r ih =>
    intro c
    obtain ⟨i, s⟩ := p
    have h := code_add_refines_model c i s
    cases hA : Gen.Code.ReplayCache.Add c i s with
    | none => simp [hA] at h
    | some q =>
      simp only [hA, Option.map_some, Option.some.injEq] at h
      have h1 : Tie.Replay.abs q.1 = ((Tie.Replay.abs c).add (Replay.preHash i s)).1 := by rw [← h]
      have h2 : q.2 = ((Tie.Replay.abs c).add (Replay.preHash i s)).2 := by rw [← h]
      simp only [codeWinners, hA, Option.bind_some, ih q.1, Option.map_some, List.map_cons, winners, h1, h2]

/-- **code_exactly_one_winner**: over runs of the translated `Add` (each call one critical section: C19), copies of one
    fresh handshake presented among at most N checked handshakes on a cache of capacity ≥ N > 0 are accepted exactly once —
    counted by the 32-bit checksum, which is what the cache remembers -/
theorem code_exactly_one_winner {N : Nat} (id salt : List UInt8) (hs : List (List UInt8 × List UInt8)) (c : Gen.Code.ReplayCache)
    (hcap : (N : Int) ≤ c.capacity) (hN : 0 < N) (hfresh : ¬ (Tie.Replay.abs c).mem (Replay.preHash id salt))
    (hnum : hs.length ≤ N) (hp : 0 < presentations (Replay.preHash id salt) (hs.map fun p => Op.add (Replay.preHash p.1 p.2))) :
    codeWinners id salt c hs = some 1 := by
  rw [codeWinners_abs]
  have hcap' : (N : Int) ≤ (Tie.Replay.abs c).cap := hcap
  rw [exactly_one_winner (N := N) (Replay.preHash id salt) _ (Tie.Replay.abs c) hcap' hN hfresh
    (Tie.Replay.capsGE_map_add N hs) (by rw [Tie.Replay.numAdds_map_add]; exact hnum) hp]

/-! ### the translated stream authenticator (the function literal of `NewShadowsocksStreamAuthenticator`, service/tcp.go) -/

section Authenticator
variable (newReader : GoRT.Opaque "io.Reader" → GoRT.Opaque "shadowsocks.EncryptionKey" → GoRT.Opaque "shadowsocks.Reader")
  (newWriter : Tie.Auth.Conn → GoRT.Opaque "shadowsocks.EncryptionKey" → GoRT.Opaque "shadowsocks.Writer")
  (isSrv : GoRT.Opaque "service.ServerSaltGenerator" → List UInt8 → Bool)
  (wrap : Tie.Auth.Conn → GoRT.Opaque "shadowsocks.Reader" → GoRT.Opaque "shadowsocks.Writer" → Tie.Auth.Conn)
  (findAccessKey : Tie.Auth.Conn → GoRT.Opaque "netip.Addr" → GoRT.Opaque "service.CipherList" → GoRT.Opaque "slog.Logger" → Tie.Auth.FA)
  (remoteIP : Tie.Auth.Conn → GoRT.Opaque "netip.Addr")
  (ciphers : GoRT.Opaque "service.CipherList") (metrics : GoRT.Opaque "service.ShadowsocksConnMetrics")
  (l : GoRT.Opaque "slog.Logger")

/-- **code_authenticator_replay_verdict**: the translated authenticator, whenever the key search found an entry `e` for
    a salt that is not one of the server's own: never panics; the replay cache afterwards and the verdict are exactly the
    model's `add` of the checksum of (key id, salt) — accepted (no error, the connection is wrapped) iff the model's
    cache had not seen that checksum within its window, ERR_REPLAY_CLIENT otherwise; the key id reported is `e`'s. -/
theorem code_authenticator_replay_verdict (rc : Gen.Code.ReplayCache) (conn : Tie.Auth.Conn)
    (e : Gen.Code.CipherEntry) (rd : GoRT.Opaque "io.Reader") (salt : List UInt8) (t : Int)
    (hfa : findAccessKey conn (remoteIP conn) ciphers l = (some e, rd, salt, t, none))
    (hns : isSrv e.SaltGenerator salt = false) :
    (Gen.Code.NewShadowsocksStreamAuthenticator newReader newWriter isSrv wrap findAccessKey remoteIP ciphers rc metrics l conn).map
        (fun r => (Tie.Replay.abs r.1, r.2.1, r.2.2.2.1)) =
      some (((Tie.Replay.abs rc).add (Replay.preHash (String.toUTF8 e.ID).toList salt)).1, e.ID,
        if ((Tie.Replay.abs rc).add (Replay.preHash (String.toUTF8 e.ID).toList salt)).2 = true then none else some "ERR_REPLAY_CLIENT") := by
  rw [Tie.Auth.authenticator_tie, hfa, Tie.Auth.outcome_found]
  have h := code_add_refines_model rc (String.toUTF8 e.ID).toList salt
  generalize (String.toUTF8 e.ID).toList = idb at h ⊢
  cases hadd : Gen.Code.ReplayCache.Add rc idb salt with
  | none => rw [hadd] at h; simp at h
  | some p =>
    obtain ⟨rc', fresh⟩ := p
    rw [hadd] at h
    simp only [Option.map_some, Option.some.injEq] at h
    have h1 : Tie.Replay.abs rc' = ((Tie.Replay.abs rc).add (Replay.preHash idb salt)).1 := by rw [← h]
    have h2 : fresh = ((Tie.Replay.abs rc).add (Replay.preHash idb salt)).2 := by rw [← h]
    rw [← h1, ← h2]
    cases fresh <;> simp [hns]

/-- **code_authenticator_refuses_replay_within_window**: two runs of the translated authenticator that find the same
    entry for the same salt, on a cache of capacity ≥ N > 0 with fewer than N other `Add`s between them: the second is
    refused with ERR_REPLAY_CLIENT and hands back no connection. -/
theorem code_authenticator_refuses_replay_within_window {N : Nat} (rc0 : Gen.Code.ReplayCache) (conn conn' : Tie.Auth.Conn)
    (e : Gen.Code.CipherEntry) (rd rd' : GoRT.Opaque "io.Reader") (salt : List UInt8) (t t' : Int)
    (mid : List (List UInt8 × List UInt8))
    (hfa : findAccessKey conn (remoteIP conn) ciphers l = (some e, rd, salt, t, none))
    (hfa' : findAccessKey conn' (remoteIP conn') ciphers l = (some e, rd', salt, t', none))
    (hns : isSrv e.SaltGenerator salt = false)
    (hcap : (N : Int) ≤ rc0.capacity) (hnum : mid.length < N) :
    ∃ rc1 id1 c1 st1 ef1 rc2 rc3 ef3,
      Gen.Code.NewShadowsocksStreamAuthenticator newReader newWriter isSrv wrap findAccessKey remoteIP ciphers rc0 metrics l conn =
        some (rc1, id1, c1, st1, ef1) ∧
      codeAdds rc1 mid = some rc2 ∧
      Gen.Code.NewShadowsocksStreamAuthenticator newReader newWriter isSrv wrap findAccessKey remoteIP ciphers rc2 metrics l conn' =
        some (rc3, e.ID, ⟨0⟩, some "ERR_REPLAY_CLIENT", ef3) := by
  obtain ⟨c1, b, c2, c3, hA, hB, hC⟩ := window_code (N := N) rc0 (String.toUTF8 e.ID).toList salt mid hcap hnum
  simp only [Tie.Auth.authenticator_tie, hfa, hfa', Tie.Auth.outcome_found]
  generalize (String.toUTF8 e.ID).toList = idb at hA hC ⊢
  refine ⟨c1, ?_⟩
  cases b
  · simp only [hns, hA, hC, Bool.false_eq_true, if_false]
    exact ⟨_, _, _, _, c2, c3, _, rfl, hB, by rw [hC]; rfl⟩
  · simp only [hns, hA, hC, Bool.false_eq_true, if_false, if_true]
    exact ⟨_, _, _, _, c2, c3, _, rfl, hB, by rw [hC]; rfl⟩

/-- **code_authenticator_leaves_cache_alone_without_a_key**: when the key search fails, the translated authenticator
    reports ERR_CIPHER with an empty key id, does not touch the replay cache, and reports exactly one cipher search,
    as not found. -/
theorem code_authenticator_leaves_cache_alone_without_a_key (rc : Gen.Code.ReplayCache) (conn : Tie.Auth.Conn)
    (ent : Option Gen.Code.CipherEntry) (rd : GoRT.Opaque "io.Reader") (salt : List UInt8) (t : Int) (err : String)
    (hfa : findAccessKey conn (remoteIP conn) ciphers l = (ent, rd, salt, t, some err)) :
    Gen.Code.NewShadowsocksStreamAuthenticator newReader newWriter isSrv wrap findAccessKey remoteIP ciphers rc metrics l conn =
      some (rc, "", ⟨0⟩, some "ERR_CIPHER", [Tie.Auth.searchEff metrics false t]) := by
  rw [Tie.Auth.authenticator_tie, hfa]
  simp [Tie.Auth.outcome]

end Authenticator

def exampleFA : Tie.Auth.FA := (some { Gen.Code.CipherEntry.zero with ID := "k", CryptoKey := ⟨1⟩, SaltGenerator := ⟨9⟩ }, ⟨2⟩, [1, 2, 3, 4, 5, 6, 7, 8], 0, none)

/-- non-vacuity: the hypotheses of the window theorem about the translated authenticator are met by a concrete run —
    an entry "k", an 8-byte salt no generator recognises, a cache of capacity 4, nothing in between -/
example : ∃ rc1 id1 c1 st1 ef1 rc2 rc3 ef3,
    Gen.Code.NewShadowsocksStreamAuthenticator (fun _ _ => ⟨0⟩) (fun _ _ => ⟨0⟩) (fun _ _ => false) (fun _ _ _ => ⟨77⟩)
      (fun _ _ _ _ => exampleFA) (fun _ => ⟨0⟩) ⟨0⟩ { Gen.Code.ReplayCache.zero with capacity := 4 } ⟨0⟩ ⟨0⟩ ⟨5⟩ = some (rc1, id1, c1, st1, ef1) ∧
    codeAdds rc1 [] = some rc2 ∧
    Gen.Code.NewShadowsocksStreamAuthenticator (fun _ _ => ⟨0⟩) (fun _ _ => ⟨0⟩) (fun _ _ => false) (fun _ _ _ => ⟨77⟩)
      (fun _ _ _ _ => exampleFA) (fun _ => ⟨0⟩) ⟨0⟩ rc2 ⟨0⟩ ⟨0⟩ ⟨6⟩ = some (rc3, "k", ⟨0⟩, some "ERR_REPLAY_CLIENT", ef3) :=
  code_authenticator_refuses_replay_within_window (N := 1) (mid := []) (rd := ⟨2⟩) (rd' := ⟨2⟩) (t := 0) (t' := 0)
    (e := { Gen.Code.CipherEntry.zero with ID := "k", CryptoKey := ⟨1⟩, SaltGenerator := ⟨9⟩ }) (salt := [1, 2, 3, 4, 5, 6, 7, 8])
    (hfa := rfl) (hfa' := rfl) (hns := rfl) (hcap := by decide) (hnum := by decide) ..


/-- **add_is_one_critical_section**: the theorems above are about `Add` as a sequential function (the translation drops
    the lock operations); they speak about concurrent callers because every access `Add` and `Resize` make to the
    cache's fields — `capacity`, `active`, `archive`, the lookup in the archive included — happens inside ONE critical
    section of the cache's mutex, with the guard held (regenerated lock facts over the working tree; the same
    obligations as C19's, restricted to the replay cache).  A lookup hoisted out of the lock falsifies this. -/
theorem add_is_one_critical_section :
    C19.oneSection "ReplayCache" "ReplayCache.Add" ["capacity", "active", "archive"] = true ∧
    C19.oneSection "ReplayCache" "ReplayCache.Resize" ["capacity", "active", "archive"] = true ∧
    C19.guardedOK "ReplayCache" "capacity" "ReplayCache.mutex" = true ∧
    C19.guardedOK "ReplayCache" "active" "ReplayCache.mutex" = true ∧
    C19.guardedOK "ReplayCache" "archive" "ReplayCache.mutex" = true := by decide +kernel

end OutlineModel.Props.C07
