import OutlineModel.Proofs.UDP
import OutlineModel.Proofs.SSStream
import OutlineModel.Proofs.Shared
import OutlineModel.Props.C15
import OutlineModel.Props.C16
import OutlineModel.Gen.Wiring
import OutlineModel.Gen.Consts
/-
C18 — No network input can crash the server or leak its resources.

What a theorem can carry here is the part that is logic: the models of the byte-level code paths
make every index and slice expression explicit (`Socks.idx`, `Socks.slice`, the in-place buffer
arithmetic of timedCopy) and return a `.panic` effect where Go would panic — the theorems show that
no input reaches one; the connection/association/listener state machines end every history with
their resources released (C15 closed-once, C16 added = removed + live, C12 last close releases);
and regenerated wiring facts pin the containment the source provides (handlers joined and wrapped
in recover, per-datagram recover, the relay's helper goroutine joined, the NAT goroutine's cleanup).
The models are tied to the code by the udp / tcp / shared campaigns of C02..C16; the `life` campaign
attacks the real server as a child process (raw bytes, malformed authenticated headers, oversized
and corrupt chunks, aborts at every stage; targets that reset, close, stay silent, flood, answer
with datagrams of every size up to the maximum, from other sources, several times) and checks
liveness, recovered-panic log records, continued service, goroutines and descriptors.
What no model here exhibits: the Go runtime (stack growth, allocation failure), the kernel, and
code paths outside the modelled ones (logging, metrics collectors): observed only.
-/
namespace OutlineModel.Props.C18
open OutlineModel OutlineModel.UDP OutlineModel.Socks

def isPanic : Eff → Bool
  | .panic _ => true
  | _ => false

/-- **address_parser_total**: on EVERY byte string the SOCKS address splitter either rejects it or returns
    a length within the input, and decoding exactly that many bytes never indexes out of range
    (all address type bytes, zero-length and 255-byte domains, truncated headers). -/
theorem address_parser_total (b : List UInt8) :
    splitAddrLen b = none ∨ ∃ n, splitAddrLen b = some n ∧ n ≤ b.length ∧ ∃ r, decode (b.take n) = .ok r := by
  cases h : splitAddrLen b with
  | none => exact Or.inl rfl
  | some n => exact Or.inr ⟨n, rfl, (splitAddrLen_bounds b n h).1, decode_no_panic b n h⟩

/-- **datagram_validation_total**: validatePacket returns a result (a payload or an error status) on every
    authenticated plaintext, for every validator and resolver: it never panics. -/
theorem datagram_validation_total (validate : List UInt8 → IP.Verdict) (resolve : Target → Resolved) (text : List UInt8) :
    ∃ r, validatePacket validate resolve text = .ok r :=
  validatePacket_no_panic validate resolve text

/-- **client_datagram_never_panics**: handling ANY datagram from a client, in any state, produces no panic
    effect (new client or known association, any key, any plaintext). -/
theorem client_datagram_never_panics (dnsPort : Nat) (ki : KeyInfo) (validate : List UInt8 → IP.Verdict) (resolve : Target → Resolved)
    (st : State) (client : String) (cip : Option Nat) (wire : Nat) (opens : List Nat) (plain : List UInt8) :
    ((upstream dnsPort ki validate resolve st client cip wire opens plain).2.any isPanic) = false := by
  have h := upstream_cases validate resolve dnsPort ki st client cip wire opens plain
  simp only at h
  rcases h with ⟨-, -, h⟩ | ⟨-, _, _, -, h⟩ | ⟨-, _, _, _, _, _, -, -, -, h⟩ | ⟨_, -, -, _, _, _, -, h⟩ | ⟨_, -, -, _, -, -, h⟩ | ⟨_, -, -, h⟩ <;>
    rw [h] <;> simp [isPanic]

/-- **target_reply_any_size_never_panics**: for EVERY reply the kernel can deliver into the read buffer
    (any length up to the room after the reserved header space) from an IPv4 or IPv6 source, the
    in-place layout of timedCopy stays within the buffer: the result is a relayed datagram or the
    status ERR_PACK, never a slice out of range. -/
theorem target_reply_any_size_never_panics (bufSize maxAddrLen : Nat) (a : Assoc) (srcIP : List UInt8) (srcPort : Nat) (body : List UInt8)
    (hal : (encodeIP srcIP srcPort).length ≤ maxAddrLen) (hbuf : a.saltSize + maxAddrLen ≤ bufSize)
    (hread : body.length ≤ bufSize - (a.saltSize + maxAddrLen)) :
    ((relayReply bufSize maxAddrLen a srcIP srcPort body).any isPanic) = false := by
  unfold relayReply
  simp only [List.length_append]
  generalize hA : (encodeIP srcIP srcPort).length = alen at *
  rw [if_neg (by omega), if_neg (by omega)]
  split <;> simp [isPanic]

/-- the generated constants satisfy the hypotheses: the reserved room holds the longest address header
    (IPv6: 19 bytes) and the largest salt (32) fits the 64 KiB buffer -/
theorem buffer_constants : Gen.serverUDPBufferSize = 65536 ∧ 19 ≤ Gen.maxAddrLen ∧ 32 + Gen.maxAddrLen ≤ Gen.serverUDPBufferSize := by
  decide

/-- **stream_reader_total**: a Shadowsocks stream cut anywhere inside a chunk decodes to an error after
    exactly the preceding chunks — not to partial data, and the decoder is a total function of the
    bytes (no crash case exists). -/
theorem stream_reader_total {a : SSStream.AEAD} (hc : a.Correct) (saltSize : Nat) (salt : List UInt8) (hs : salt.length = saltSize)
    (init : List (List UInt8)) (last : List UInt8) (hinit : ∀ c ∈ init, c.length ≤ 16383) (hlast : last.length ≤ 16383)
    (k : Nat) (hlo : (SSStream.encode a salt init).length < k) (hhi : k < (SSStream.encode a salt (init ++ [last])).length) :
    ∃ why, SSStream.decode a saltSize ((SSStream.encode a salt (init ++ [last])).take k) = .error init.flatten why :=
  SSStream.truncated_is_error hc saltSize salt hs init last hinit hlast k hlo hhi

/-- **every_connection_ends_closed_once**: whatever the client sends and however the target behaves, the
    handler's effects contain exactly one `closed` (C15): a failure is an outcome of that one
    connection, reported and over. -/
theorem every_connection_ends_closed_once (c : TCP.Cfg) (st : Auth.AuthState) (valid : Nat → Bool) (srvSalt : CipherList.Entry → Bool)
    (hash : CipherList.Entry → UInt32) (greeting : Nat → List UInt8) (s : TCP.Script) :
    ((TCP.handle c st s valid srvSalt hash greeting).2.filter C15.isClosed).length = 1 :=
  C15.closed_exactly_once c st valid srvSalt hash greeting s

/-- **associations_do_not_leak**: over any history of datagrams, replies and expiries, associations added
    = removed + live (C16). -/
theorem associations_do_not_leak (c : UDP.Cfg) (l : List CipherList.Entry) (ops : List UDP.Op) :
    C16.countP C16.isNatAdd (UDP.trace c (UDP.init l) ops) =
      C16.countP C16.isNatRemove (UDP.trace c (UDP.init l) ops) + (UDP.run c (UDP.init l) ops).nat.length :=
  C16.added_minus_removed_is_live c l ops

/-- a shared listener releases its socket with the last handle and leaves nothing queued or blocked (C12) -/
theorem listener_releases {s : Shared.St} (h : Shared.Reachable s) :
    (s.opened = [] ↔ s.sock = false) ∧ (s.sock = false → s.queue = [] ∧ s.waiting = []) :=
  Shared.last_close_releases h

/-- **containment**: serving stops only after all running handlers have returned; a panic in one handler or
    while handling one datagram is contained; the relay's helper goroutine is always joined; the
    association's goroutine removes and closes what it created (regenerated wiring facts). -/
theorem containment : Gen.Wiring.streamServeJoinsAndContainsHandlers = true ∧ Gen.Wiring.udpLoopContainsPanicsPerDatagram = true ∧
    Gen.Wiring.relayJoinsItsUploadGoroutine = true ∧ Gen.Wiring.natGoroutineRemovesAndCloses = true ∧
    Gen.Wiring.tcpClosedOnceAfterHandleConnection = true := by decide

/-! non-vacuity: the longest read the buffer allows with a 32-byte salt (65485 bytes; the kernel cuts a
    larger datagram, up to 65507, to this length) meets the hypotheses; domain headers are accepted -/
example : (65485 : Nat) ≤ Gen.serverUDPBufferSize - (32 + Gen.maxAddrLen) := by decide
example : splitAddrLen ([3, 5] ++ List.replicate 5 97 ++ [0, 80]) = some 9 := by decide
example : splitAddrLen [3, 0, 0, 80] = some 4 ∧ splitAddrLen [9, 1, 2, 3, 4, 0, 80] = none ∧ splitAddrLen [1, 2, 3] = none := by decide

end OutlineModel.Props.C18
