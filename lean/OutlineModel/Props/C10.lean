import OutlineModel.Proofs.TieValidate
import OutlineModel.Proofs.Config
import OutlineModel.Gen.Wiring
/-
C10 — Configuration reload is all-or-nothing.

Model: Model/Config.lean (`load`: read/parse fault, Validate, the start phase over the plan of
acquisitions — legacy ports, then services in file order — with a cipher error or a failing bind at
ANY index, release of the failed generation, start-new-then-stop-old on success) over a listener
manager that counts handles per address.  Tied to cmd/outline-ss-server by the `config` campaign (the
real loadConfig/runConfig/Stop in a child process inside a private network namespace: real files,
real binds that fail, real clients probing which (listener, key) pairs authenticate, /proc/net for
what is bound, goroutine count after Stop) and by regenerated wiring facts.
-/
namespace OutlineModel.Props.C10
open OutlineModel OutlineModel.Config

/-- **reload_all_or_nothing**: after ANY sequence of reload attempts (each with any configuration and any
    fault: unreadable/malformed file, validation error, bad cipher in any service, failing bind at any
    index) what is serving is exactly the plan of the most recent attempt that was accepted — nothing
    when none was — and the manager holds exactly the handles of that configuration: every handle of
    every failed or replaced generation has been released. -/
theorem reload_all_or_nothing (canon : String → Option Nat) (addrOK : String → Bool) (inputs : List (Cfg × Fault)) :
    let final := runLoads canon addrOK Server.init inputs
    let served : Serving :=
      match inputs.reverse.find? (fun cf => accepts canon addrOK cf.1 cf.2) with
      | none => []
      | some cf => (plan canon cf.1).filterMap id
    final.cur = served ∧ final.mgr.Perm (served.map (·.1)) := by
  have h := Config.reload_all_or_nothing canon addrOK inputs
  exact ⟨h.1, h.2.2⟩

/-- **failure_stages**: a load succeeds iff the file is readable and parses, Validate passes, every cipher
    of every legacy key and service is accepted, and no bind fails — whatever was serving before. -/
theorem failure_stages (canon : String → Option Nat) (addrOK : String → Bool) (s : Server) (c : Cfg) (fault : Fault) :
    (load canon addrOK s c fault).2.1 =
      (!(fault == .read) && validate addrOK c && (plan canon c).all Option.isSome &&
        (match fault with
         | .bind k => decide ((plan canon c).length ≤ k)
         | _ => true)) :=
  load_ok_eq_accepts canon addrOK s c fault

/-- each stage on its own -/
theorem unreadable_fails (canon addrOK) (s : Server) (c : Cfg) : (load canon addrOK s c .read).2.1 = false := by
  rw [failure_stages]; simp
theorem invalid_fails (canon addrOK) (s : Server) (c : Cfg) (f : Fault) (h : validate addrOK c = false) :
    (load canon addrOK s c f).2.1 = false := by
  rw [failure_stages, h]; simp
theorem bad_cipher_fails (canon addrOK) (s : Server) (c : Cfg) (f : Fault) (h : none ∈ plan canon c) :
    (load canon addrOK s c f).2.1 = false := by
  rw [failure_stages]
  have : (plan canon c).all Option.isSome = false := by
    simp only [List.all_eq_false]; exact ⟨none, h, by simp⟩
  simp [this]
theorem failing_bind_fails (canon addrOK) (s : Server) (c : Cfg) (k : Nat) (h : k < (plan canon c).length) :
    (load canon addrOK s c (.bind k)).2.1 = false := by
  rw [failure_stages]
  have : decide ((plan canon c).length ≤ k) = false := by simp; omega
  simp [this]

/-- **failed_reload_changes_nothing**: a reload that fails at any stage leaves the serving table as it was
    and the manager with the same handles (those of the failed generation have all been released). -/
theorem failed_reload_changes_nothing (canon : String → Option Nat) (addrOK : String → Bool) (s : Server) (c : Cfg)
    (fault : Fault) (hfail : (load canon addrOK s c fault).2.1 = false) :
    (load canon addrOK s c fault).1.cur = s.cur ∧ (load canon addrOK s c fault).1.mgr.Perm s.mgr :=
  load_failed_restores canon addrOK s c fault hfail

/-- **failed_reload_never_unbinds**: while a failing reload runs (acquisitions of the new generation, then
    their release) every address of the serving configuration stays bound at every intermediate step. -/
theorem failed_reload_never_unbinds (canon : String → Option Nat) (addrOK : String → Bool) (s : Server) (c : Cfg)
    (fault : Fault) (hs : Consistent s) (hfail : (load canon addrOK s c fault).2.1 = false) (lk : String)
    (hold : lk ∈ s.cur.map (·.1)) :
    ∀ m ∈ (load canon addrOK s c fault).2.2, lk ∈ m := by
  have hmgr : lk ∈ s.mgr := (hs.mem_iff).2 hold
  rcases load_unfold canon addrOK s c fault with h | ⟨started, rest, tr1, hpl, hsuf, h | h⟩
  · rw [h]; simp
  · rw [h.2] at hfail; simp at hfail
  · rw [h.2]
    intro m hm
    rcases List.mem_append.1 hm with hm | hm
    · exact (hsuf m hm).subset hmgr
    · have hcnt := count_relTrace lk (started.map (·.1)) ((started.map (·.1)).reverse ++ s.mgr) m hm
      rw [List.count_append, List.count_reverse] at hcnt
      have : 0 < s.mgr.count lk := List.count_pos_iff.2 hmgr
      exact mem_of_count_pos (by omega)

/-- **successful_reload_fully_replaces**: after a successful reload the serving table is the plan of the new
    configuration and nothing else, whatever was serving before (so removed keys and listeners are
    gone for new connections), and the manager holds exactly its handles. -/
theorem successful_reload_fully_replaces (canon : String → Option Nat) (addrOK : String → Bool) (s s' : Server) (c : Cfg)
    (fault : Fault) (hs : Consistent s) (hs' : Consistent s') (hok : (load canon addrOK s c fault).2.1 = true) :
    (load canon addrOK s c fault).1.cur = (plan canon c).filterMap id ∧
    (load canon addrOK s c fault).1.cur = (load canon addrOK s' c fault).1.cur ∧
    Consistent (load canon addrOK s c fault).1 := by
  have h := load_ok_replaces canon addrOK s c fault hs hok
  have hok' : (load canon addrOK s' c fault).2.1 = true := by
    rw [load_ok_eq_accepts] at hok ⊢; exact hok
  have h' := load_ok_replaces canon addrOK s' c fault hs' hok'
  exact ⟨h.2.1, h.2.1.trans h'.2.1.symm, h.1⟩

/-- **invariant**: every reachable server is consistent (the manager's handles are those of the serving
    configuration), so the hypotheses above hold at every reload. -/
theorem invariant (canon : String → Option Nat) (addrOK : String → Bool) (inputs : List (Cfg × Fault)) :
    Consistent (runLoads canon addrOK Server.init inputs) :=
  (runLoads_spec canon addrOK inputs Server.init consistent_init).2

/-- **wiring**: the shape of the source the model's `load` mirrors, regenerated on every run. -/
theorem wiring : Gen.Wiring.loadConfigStages = true ∧ Gen.Wiring.generationListenersInOneSet = true ∧
    Gen.Wiring.failedStartClosesItsSet = true ∧ Gen.Wiring.reloadStartsNewBeforeStoppingOld = true ∧
    Gen.Wiring.stopClosesListenersOnly = true := by decide

/-! non-vacuity: a failing bind at index 1 of a reload that shares an address with the serving
    configuration; a bad cipher in the second service; then a successful replacement -/
example : (load exCanon exAddrOK exS1 exB (.bind 1)).2.1 = false ∧ (load exCanon exAddrOK exS1 exB (.bind 1)).1.cur = exS1.cur ∧
    (load exCanon exAddrOK exS1 exB (.bind 1)).1.mgr = exS1.mgr := by decide
example : none ∈ plan exCanon exBad ∧ (load exCanon exAddrOK exS1 exBad .none).2.1 = false := by decide
example : Consistent exS1 ∧ (load exCanon exAddrOK exS1 exB .none).2.1 = true := ⟨consistent_preserved exCanon exAddrOK Server.init exA .none consistent_init, by decide⟩
example : ∀ m ∈ (load exCanon exAddrOK exS1 exB (.bind 1)).2.2, "tcp/:9001" ∈ m := by decide


/-! ### The validation stage, about the code itself

`Gen.Code.Config.Validate` is TRANSLATED from cmd/outline-ss-server/config.go on every run (extract/golean.go);
`net.SplitHostPort` and `net.ParseIP` are parameters (any functions). -/

/-- **code_validate**: the translated `Validate` never panics; for listener types `tcp` / `udp` it accepts exactly what the
    model's `validate` accepts (every host an IP literal, listener keys pairwise distinct), whatever the parsers answer;
    and a listener of any other type makes it fail -/
theorem code_validate (parseIP : String → List UInt8) (split : String → String × String × Option String) (c : Gen.Code.Config) :
    ((∀ l ∈ c.Services.flatMap (·.Listeners), Tie.Validate.typeOK l) →
      (Gen.Code.Config.Validate parseIP split c).map (fun r => r.2.isNone) =
        some (Config.validate (Tie.Validate.addrOK parseIP split) (Tie.Validate.absCfg c))) ∧
    (∀ l ∈ c.Services.flatMap (·.Listeners), ¬ Tie.Validate.typeOK l →
      ∃ e, Gen.Code.Config.Validate parseIP split c = some (c, some e)) :=
  ⟨Tie.Validate.validate_tie parseIP split c, fun l hl ht => Tie.Validate.unsupported_type_rejected parseIP split c l hl ht⟩

end OutlineModel.Props.C10
