import OutlineModel.Proofs.Config
import OutlineModel.Gen.Wiring
/-
C11 — Reload never interrupts service on retained listeners.

Model: Model/Config.lean — `load` returns every intermediate state of the listener manager (after each
acquisition of the new generation and after each release of the old one).  "Bound" is "the manager
holds at least one handle on the address" (the manager closes the socket only when the last handle
goes: C12).  Tied to the code by the `config` campaign: clients hammer a retained address over TCP
and UDP with a key present in both configurations while the real reload runs (refused dials,
connections or datagrams handled by no generation or by two, unauthenticated clients), and relayed
connections opened before the reload — idle, mid-transfer, half-closed — must run to completion.
What the model cannot exhibit: the kernel's accept queue between the two generations' accept loops
(observed only), and the one window the code leaves open on purpose: a connection that has
authenticated and is still DIALLING its target when the old generation stops is aborted by the
context StreamServe cancels (`handlerContextGovernsOnlyTheDial`); it is neither refused,
unauthenticated nor relaying, so C11 does not speak about it; the campaign counts it apart.
-/
namespace OutlineModel.Props.C11
open OutlineModel OutlineModel.Config

/-- **retained_never_unbound**: during a successful reload an address present in both the old and the new
    configuration is bound at EVERY intermediate step (each acquisition, each release). -/
theorem retained_never_unbound (canon : String → Option Nat) (addrOK : String → Bool) (s : Server) (c : Cfg)
    (fault : Fault) (hs : Consistent s) (hok : (load canon addrOK s c fault).2.1 = true) (lk : String)
    (hold : lk ∈ s.cur.map (·.1)) (hnew : lk ∈ (load canon addrOK s c fault).1.cur.map (·.1)) :
    ∀ m ∈ (load canon addrOK s c fault).2.2, lk ∈ m :=
  Config.retained_never_unbound canon addrOK s c fault hs hok lk hold hnew

/-- the same over any number of consecutive reloads: the hypothesis `Consistent` holds at each of them -/
theorem consecutive_reloads (canon : String → Option Nat) (addrOK : String → Bool) (inputs : List (Cfg × Fault)) :
    Consistent (runLoads canon addrOK Server.init inputs) :=
  (runLoads_spec canon addrOK inputs Server.init consistent_init).2

/-- **some_generation_always_holds_it**: at every intermediate step of a successful reload the handles on a
    retained address number at least one and at most old + new: a connection arriving at any moment
    is delivered to a handle of the old or of the new generation (exactly one of them: C12). -/
theorem handles_between_one_and_both (canon : String → Option Nat) (addrOK : String → Bool) (s : Server) (c : Cfg)
    (fault : Fault) (hs : Consistent s) (hok : (load canon addrOK s c fault).2.1 = true) (lk : String)
    (hold : lk ∈ s.cur.map (·.1)) (hnew : lk ∈ (load canon addrOK s c fault).1.cur.map (·.1)) :
    ∀ m ∈ (load canon addrOK s c fault).2.2, 1 ≤ m.count lk := by
  intro m hm
  exact List.count_pos_iff.2 (retained_never_unbound canon addrOK s c fault hs hok lk hold hnew m hm)

/-- **both_generations_authenticate**: a client key that the old AND the new serving table accept on the
    address is accepted by whichever generation's handle receives the connection. -/
theorem both_generations_authenticate (old new : Serving) (lk : String) (ck : ClientKey)
    (ho : authOn old lk ck ≠ none) (hn : authOn new lk ck ≠ none) :
    ∀ gen ∈ [old, new], authOn gen lk ck ≠ none := by
  intro gen hg
  simp only [List.mem_cons, List.not_mem_nil, or_false] at hg
  rcases hg with rfl | rfl <;> assumption

/-- **reload_touches_only_listeners**: stopping a generation closes its listener handles and nothing else;
    the context its accept loop cancels reaches only the target dial — a connection that is already
    relaying has no reference to the generation that accepted it (regenerated wiring facts). -/
theorem reload_touches_only_listeners : Gen.Wiring.stopClosesListenersOnly = true ∧
    Gen.Wiring.handlerContextGovernsOnlyTheDial = true ∧ Gen.Wiring.reloadStartsNewBeforeStoppingOld = true := by decide

/-! non-vacuity: A → B keeps tcp/:9000 and udp/:9000, drops tcp/:9001, adds tcp/:9002; six steps -/
example : Consistent exS1 ∧ (load exCanon exAddrOK exS1 exB .none).2.1 = true ∧
    "tcp/:9000" ∈ exS1.cur.map (·.1) ∧ "tcp/:9000" ∈ (load exCanon exAddrOK exS1 exB .none).1.cur.map (·.1) ∧
    (load exCanon exAddrOK exS1 exB .none).2.2.length = 6 := ⟨consistent_preserved exCanon exAddrOK Server.init exA .none consistent_init, by decide, by decide, by decide, by decide⟩
example : ∃ m ∈ (load exCanon exAddrOK exS1 exB .none).2.2, m.count "tcp/:9000" = 2 := by decide

end OutlineModel.Props.C11
