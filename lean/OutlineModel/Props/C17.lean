import OutlineModel.Proofs.TunnelTime
import OutlineModel.Proofs.TieTunnelTime
import OutlineModel.Proofs.TieConnMetrics
import OutlineModel.Model.Metrics
import OutlineModel.Props.C19
import OutlineModel.Gen.Wiring
/-
C17 — Tunnel time equals the time each client actually had a tunnel open.

Model: Model/TunnelTime (tunnelTimeMetrics: activeClients, startConnection, stopConnection,
reportTunnelTime, Collect) with an independent per-client specification (time accrues exactly while
at least one tunnel is open), tied to prometheus/metrics.go by the `metrics` campaign (real
collectors, stubbed clock, random interleavings of TCP/UDP opens and closes, clock advances and
scrapes; gathered `tunnel_time_seconds*` against the model and against independent interval
arithmetic).  The callers (AddAuthenticated / AddClosed, AddUDPNatEntry / RemoveNatEntry) are
Model/Metrics; that stops are matched to starts follows from C15/C16 (authenticated reported iff
authentication succeeded, closed once; added once, removed once).
-/
namespace OutlineModel.Props.C17
open OutlineModel OutlineModel.TunnelTime

/-- **per_key_equals_covered**: for every interleaving of tunnel opens and closes (any number per client,
    any number of clients and keys), clock advances and scrapes with a non-decreasing clock, the
    tunnel time reported for an access key up to a scrape is the sum, over the client IPs that used
    the key, of the time during which that client had at least one tunnel open. -/
theorem per_key_equals_covered (t0 : Nat) (ops : List Op) (tEnd : Nat) (ks : List IPKey)
    (hmono : Monotone t0 ops) (hEnd : lastTime t0 ops ≤ tEnd)
    (hks : ks.Nodup) (hall : ∀ k ∈ startKeys ops, k ∈ ks) (a : String) :
    getOf (run TT.init (ops ++ [.collect tEnd])).perKey a
      = ((ks.filter (·.key == a)).map
          (fun k => (specRun k ⟨0, t0, 0⟩ (ops ++ [.collect tEnd])).covered)).sum :=
  TunnelTime.per_key_equals_covered t0 ops tEnd ks hmono hEnd hks hall a

/-- **nothing_lost_across_scrapes**: at ANY point (no final scrape needed) what has been reported plus what
    is pending for the open tunnels equals the covered time: scrapes neither lose nor double-count. -/
theorem nothing_lost_across_scrapes (t0 : Nat) (ops : List Op) (ks : List IPKey)
    (hmono : Monotone t0 ops) (hks : ks.Nodup) (hall : ∀ k ∈ startKeys ops, k ∈ ks) (a : String) :
    getOf (run TT.init ops).perKey a
        + ((ks.filter (·.key == a)).map (pending (run TT.init ops) (lastTime t0 ops))).sum
      = ((ks.filter (·.key == a)).map (fun k => (specRun k ⟨0, t0, 0⟩ ops).covered)).sum :=
  TunnelTime.per_key_reported_plus_pending t0 ops ks hmono hks hall a

/-- **no_double_count_overlap**: overlapping tunnels of one client count once (the entry is active iff
    its depth is positive and its count is the depth), and covered time never exceeds elapsed time. -/
theorem no_double_count_overlap (t0 : Nat) (ops : List Op) (hmono : Monotone t0 ops) (k : IPKey) :
    ((find (run TT.init ops) k = none ↔ (specRun k ⟨0, t0, 0⟩ ops).depth = 0) ∧
     (∀ c, find (run TT.init ops) k = some c → c.count = ((specRun k ⟨0, t0, 0⟩ ops).depth : Int))) ∧
    (specRun k ⟨0, t0, 0⟩ ops).covered ≤ lastTime t0 ops - t0 :=
  ⟨TunnelTime.active_iff_depth t0 ops hmono k, (TunnelTime.no_double_count_overlap).2 k t0 ops hmono⟩

/-- **unauthenticated_contributes_zero**: a client that never started a tunnel contributes nothing, and
    without any start nothing is reported at all. -/
theorem unauthenticated_contributes_zero (t0 : Nat) (ops : List Op) :
    (∀ k, k ∉ startKeys ops → (specRun k ⟨0, t0, 0⟩ ops).covered = 0) ∧
    (startKeys ops = [] → (run TT.init ops).perKey = [] ∧ ∀ a, getOf (run TT.init ops).perKey a = 0) :=
  TunnelTime.unauthenticated_contributes_zero t0 ops

/-- **per_location_equals_per_key**: the per-location totals equal the per-key totals, always. -/
theorem per_location_equals_per_key (ops : List Op) :
    ((run TT.init ops).perLoc.map (·.2)).sum = ((run TT.init ops).perKey.map (·.2)).sum :=
  TunnelTime.per_location_equals_per_key ops

/-- **schedules_reduce_to_histories**: the quantifier "for all schedules" reduces to "for all histories":
    startConnection, stopConnection and Collect each touch the collector's state (activeClients and
    the entries' count/start/info) inside ONE critical section of tunnelTimeMetrics.mu (regenerated
    lock facts), and critical sections of one mutex are serial (`C19.sections_serial`), so every
    concurrent execution is one of the op histories quantified over above. -/
theorem schedules_reduce_to_histories :
    ∀ fn ∈ ["tunnelTimeMetrics.startConnection", "tunnelTimeMetrics.stopConnection", "tunnelTimeMetrics.Collect"],
      C19.oneSection "tunnelTimeMetrics" fn ["activeClients"] = true ∧
      (∀ f ∈ ["connCount", "startTime", "info"], C19.guardedOK "activeClient" f "tunnelTimeMetrics.mu" = true) := by
  decide +kernel

/-- **callers_pair_start_and_stop**: the calls that start and stop a tunnel are made by the service layer
    exactly for authenticated connections and associations: AddAuthenticated once and only after the
    authentication-error branch (proved about the translated `handleConnection`: C15 `code_authentication_and_probe_reports`),
    AddClosed once after the handler returned (TCP; proved about the translated `streamHandler.Handle`: C15
    `code_closed_once_with_the_real_outcome`); the association's
    goroutine reports the removal after its copy loop ended (UDP) — regenerated wiring facts; the
    `tcp` campaign watches the same on the real handler. -/
theorem callers_pair_start_and_stop :
    Gen.Wiring.natGoroutineRemovesAndCloses = true := by decide

/-- an authenticated connection with an EMPTY key id is stopped like any other (the caller remembers
    that it authenticated instead of testing the id) -/
theorem empty_key_id_is_stopped (m : Metrics.M) (id : Nat) (a : Metrics.ClientAddr) (ip : Nat) (ha : a.ipKey = some ip) :
    let m1 := Metrics.tcpAuth (Metrics.tcpOpen m id a) id ""
    (Metrics.tcpClose m1 id "OK" 0 0 0 0).tt = stop m1.tt { ip := ip, key := "" } m1.now := by
  intro m1
  simp only [m1, Metrics.tcpOpen, Metrics.tcpAuth, Metrics.tcpClose, List.find?_cons, beq_self_eq_true, ha]
  simp [Metrics.addData, Metrics.addIfNonZero, ha]


/-! ### The same statements about the code itself

`Gen.Code.tunnelTimeMetrics.startConnection / stopConnection / reportTunnelTime / Collect` are TRANSLATED from
prometheus/metrics.go on every run (extract/golean.go): the clock is the parameter `now`, the database and
`netip.Addr.AsSlice` are parameters, the two counter vectors are seen through the effect log (`Tie.TunnelTime.perKeyOf`,
`perLocOf`).  For all inputs the translated operations never panic and are simulated by the model's. -/

theorem code_start_refines_model (get : GoRT.Opaque "ipinfo.IPInfoMap" → List UInt8 → Gen.Code.IPInfo × Option String)
    (asSlice : GoRT.Opaque "netip.Addr" → List UInt8) (asnLabel : Int → String) (now : Nat)
    (c : Gen.Code.tunnelTimeMetrics) (t : TT) (k : Gen.Code.IPKey) (h : Tie.TunnelTime.Sim asnLabel c t) :
    ∃ c', Gen.Code.tunnelTimeMetrics.startConnection asSlice get (now : Int) c k = some c' ∧ c'.ip2info = c.ip2info ∧
      Tie.TunnelTime.Sim asnLabel c'
        (start t (Tie.TunnelTime.absKey k) now (Tie.TunnelTime.locOf asnLabel (Tie.TunnelTime.lookupInfo get asSlice c k))) :=
  Tie.TunnelTime.start_tie get asSlice asnLabel now c t k h

theorem code_stop_refines_model (asnLabel : Int → String) (now : Nat) (c : Gen.Code.tunnelTimeMetrics) (t : TT)
    (k : Gen.Code.IPKey) (h : Tie.TunnelTime.Sim asnLabel c t) :
    ∃ c', Gen.Code.tunnelTimeMetrics.stopConnection asnLabel (now : Int) c k = some c' ∧ c'.ip2info = c.ip2info ∧
      Tie.TunnelTime.Sim asnLabel c' (stop t (Tie.TunnelTime.absKey k) now) :=
  Tie.TunnelTime.stop_tie asnLabel now c t k h

theorem code_collect_refines_model (asnLabel : Int → String) (now : Nat) (c : Gen.Code.tunnelTimeMetrics) (t : TT)
    (h : Tie.TunnelTime.Sim asnLabel c t) :
    ∃ c', Gen.Code.tunnelTimeMetrics.Collect asnLabel (now : Int) c = some c' ∧ c'.ip2info = c.ip2info ∧
      Tie.TunnelTime.Sim asnLabel c' (collect t now) :=
  Tie.TunnelTime.collect_tie asnLabel now c t h

/-- **code_per_key_equals_covered**: the refinement theorem about the translated code: after ANY history of translated
    startConnection / stopConnection / Collect calls from the empty collector, with a non-decreasing clock, followed
    by a scrape at `tEnd`, the code has not panicked and what its effect log added to `tunnel_time_seconds{access_key=a}`
    is the covered time of the specification, summed over the clients of that key. -/
theorem code_per_key_equals_covered
    (get : GoRT.Opaque "ipinfo.IPInfoMap" → List UInt8 → Gen.Code.IPInfo × Option String)
    (asSlice : GoRT.Opaque "netip.Addr" → List UInt8) (asnLabel : Int → String) (db : GoRT.Opaque "ipinfo.IPInfoMap")
    (t0 : Nat) (cops : List Tie.TunnelTime.COp) (tEnd : Nat) (ks : List IPKey) (a : String) :
    let ops := cops.map (Tie.TunnelTime.absOp get asSlice asnLabel db)
    Monotone t0 ops → lastTime t0 ops ≤ tEnd → ks.Nodup → (∀ k ∈ startKeys ops, k ∈ ks) →
    ∃ c', Tie.TunnelTime.codeRun get asSlice asnLabel { Gen.Code.tunnelTimeMetrics.zero with ip2info := db }
            (cops ++ [.collect tEnd]) = some c' ∧
      getOf (Tie.TunnelTime.perKeyOf c'.eff) a =
        ((ks.filter (·.key == a)).map (fun k => (specRun k ⟨0, t0, 0⟩ (ops ++ [.collect tEnd])).covered)).sum := by
  intro ops hmono hEnd hks hall
  obtain ⟨c', h1, h2⟩ := Tie.TunnelTime.codeRun_sim get asSlice asnLabel (cops ++ [.collect tEnd])
    { Gen.Code.tunnelTimeMetrics.zero with ip2info := db } TT.init (Tie.TunnelTime.sim_zero asnLabel db)
  refine ⟨c', h1, ?_⟩
  rw [← h2.perKey]
  have : (cops ++ [Tie.TunnelTime.COp.collect tEnd]).map (Tie.TunnelTime.absOp get asSlice asnLabel db) = ops ++ [.collect tEnd] := by
    simp [ops, Tie.TunnelTime.absOp]
  simp only [this]
  exact TunnelTime.per_key_equals_covered t0 ops tEnd ks hmono hEnd hks hall a

/- non-vacuity: a concrete history of translated operations runs and reports 7 s for key "a" -/
example :
    let k : Gen.Code.IPKey := { ip := ⟨5⟩, accessKey := "a" }
    (Tie.TunnelTime.codeRun (fun _ _ => (Gen.Code.IPInfo.zero, none)) (fun _ => [8, 8, 8, 8]) (fun _ => "") 
      Gen.Code.tunnelTimeMetrics.zero [.start k 10, .start k 12, .stop k 15, .stop k 17, .collect 20]).map
        (fun c => getOf (Tie.TunnelTime.perKeyOf c.eff) "a") = some 7 := by decide


/-! ### The callers, about the code itself

`Gen.Code.tcpConnMetrics.AddAuthenticated / AddClosed` and `Gen.Code.udpConnMetrics.RemoveNatEntry` are TRANSLATED from
prometheus/metrics.go on every run; the collectors they call are shared objects, so their calls appear in the effect log of
the connection object (`Tie.ConnMetrics.ttCalls` keeps those on the tunnel-time collector); `toIPKey` is a parameter. -/

/-- **code_callers_pair_start_and_stop**: for every key id — the EMPTY one included — `AddAuthenticated(key)` followed by
    `AddClosed` makes, on the tunnel-time collector, exactly one `startConnection` and one `stopConnection` of the same
    (client IP, key) when the client address yields an IP key, and nothing otherwise; neither call panics -/
theorem code_callers_pair_start_and_stop (toIPKey : GoRT.Opaque "net.Addr" → String → Gen.Code.IPKey × Option String)
    (cm : Gen.Code.tcpConnMetrics) (key status : String) (data : Gen.Code.ProxyMetrics) (d : Int) :
    ∃ cm1 cm2, Gen.Code.tcpConnMetrics.AddAuthenticated toIPKey cm key = some cm1 ∧
      Gen.Code.tcpConnMetrics.AddClosed toIPKey cm1 status data d = some cm2 ∧
      Tie.ConnMetrics.ttCalls cm2.eff = Tie.ConnMetrics.ttCalls cm.eff ++
        (if (toIPKey cm.clientAddr key).2 = none
         then [Tie.ConnMetrics.startEff (toIPKey cm.clientAddr key).1, Tie.ConnMetrics.stopEff (toIPKey cm.clientAddr key).1] else []) :=
  Tie.ConnMetrics.auth_then_close_pairs toIPKey cm key status data d

/-- **code_unauthenticated_contributes_nothing**: closing a connection that never authenticated makes no call on the
    tunnel-time collector; a UDP association's removal stops exactly the tunnel its creation started -/
theorem code_unauthenticated_contributes_nothing (toIPKey : GoRT.Opaque "net.Addr" → String → Gen.Code.IPKey × Option String)
    (cm : Gen.Code.tcpConnMetrics) (um : Gen.Code.udpConnMetrics) (status : String) (data : Gen.Code.ProxyMetrics) (d : Int)
    (h : cm.authenticated = false) :
    (∃ cm', Gen.Code.tcpConnMetrics.AddClosed toIPKey cm status data d = some cm' ∧
        Tie.ConnMetrics.ttCalls cm'.eff = Tie.ConnMetrics.ttCalls cm.eff) ∧
    (∃ um', Gen.Code.udpConnMetrics.RemoveNatEntry toIPKey um = some um' ∧
        Tie.ConnMetrics.ttCalls um'.eff = Tie.ConnMetrics.ttCalls um.eff ++
          (if (toIPKey um.clientAddr um.accessKey).2 = none then [Tie.ConnMetrics.stopEff (toIPKey um.clientAddr um.accessKey).1] else [])) :=
  ⟨Tie.ConnMetrics.unauthenticated_close_makes_no_tunnel_call toIPKey cm status data d h,
   Tie.ConnMetrics.removeNatEntry_tt toIPKey um⟩

end OutlineModel.Props.C17
