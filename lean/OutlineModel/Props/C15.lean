import OutlineModel.Props.C06
/-
C15 — TCP connection metrics match what happened on the wire.

The effect list of Model/TCP.handle contains every TCPConnMetrics call with its arguments (`auth` =
AddAuthenticated, `probe` = AddProbe, `closed` = AddClosed with the four byte counters), next to
what actually reached the target and the client.  Tied to service/tcp.go and
service/metrics/metrics.go by the `tcp` campaign: per-connection recording TCPConnMetrics,
byte counts measured independently at the client and target sockets, 4–16 concurrent connections.
A handler panic would skip AddClosed: conditional on C18.
-/
namespace OutlineModel.Props.C15
open OutlineModel OutlineModel.TCP OutlineModel.Auth OutlineModel.CipherList

def isClosed : Eff → Bool | .closed _ _ _ _ _ => true | _ => false
def isAuth : Eff → Bool | .auth _ => true | _ => false
def isProbe : Eff → Bool | .probe _ _ _ => true | _ => false

variable (c : Cfg) (st : AuthState) (valid : Nat → Bool) (srvSalt : Entry → Bool) (hash : Entry → UInt32)
  (greeting : Nat → List UInt8)

/-- the complete decision table of one connection: every outcome class with its metric calls -/
theorem outcome_table (s : Script) :
    let effs := (handle c st s valid srvSalt hash greeting).2
    let authOK := (authenticate st (some 1) (decide (s.raw ≥ c.bytesForKeyFinding)) valid srvSalt hash).2
    -- not authenticated: probe + closed with the authentication status, never `auth`
    (authOK.status ≠ .ok ∧ ∃ found cls, effs = [.search found, .probe authOK.status.toString
        (match s.clientEnd with | .fin => "eof" | .idle => "timeout") s.raw,
        .closed authOK.status.toString s.raw 0 0 false, .closeClass cls]) ∨
    -- authenticated, address unreadable
    (authOK.status = .ok ∧ ∃ found cls, effs = [.search found, .auth authOK.id, .closed "ERR_READ_ADDRESS" s.raw 0 0 false, .closeClass cls]) ∨
    -- authenticated, dial refused by the policy or by the network: nothing relayed
    (authOK.status = .ok ∧ ∃ found status cp, (status = "ERR_CONNECT" ∨ status = "ERR_ADDRESS_INVALID" ∨ status = "ERR_ADDRESS_PRIVATE" ∨ status = "OK") ∧
        effs = [.search found, .auth authOK.id, .closed status cp 0 0 false, .closeClass "quick"]) ∨
    -- relayed: OK or ERR_RELAY_CLIENT, counters = bytes that crossed
    (authOK.status = .ok ∧ ∃ found up reply status cls sf, (status = "OK" ∨ status = "ERR_RELAY_CLIENT") ∧
        effs = [.search found, .auth authOK.id, .dial, .toTarget up true] ++ (if reply.isEmpty then [] else [.toClient reply]) ++
               [.closed status s.raw up.length reply.length (!reply.isEmpty), .closeClass cls, .serverFin sf]) := by
  intro effs authOK
  simp only [effs, authOK]
  unfold handle
  cases hs : (authenticate st (some 1) (decide (s.raw ≥ c.bytesForKeyFinding)) valid srvSalt hash).2.status with
  | errCipher => left; simp only [hs]; exact ⟨by simp, _, _, rfl⟩
  | errReplayServer => left; simp only [hs]; exact ⟨by simp, _, _, rfl⟩
  | errReplayClient => left; simp only [hs]; exact ⟨by simp, _, _, rfl⟩
  | ok =>
    right
    simp only [hs]
    cases hr : readAddress c [] c.saltSize s.chunks with
    | failed => left; exact ⟨trivial, _, _, rfl⟩
    | found alen plain rest consumed =>
      right
      simp only
      cases hd : s.dial with
      | none => left; exact ⟨trivial, _, "ERR_CONNECT", _, Or.inl rfl, rfl⟩
      | refused => left; exact ⟨trivial, _, "ERR_CONNECT", _, Or.inl rfl, rfl⟩
      | forbidden ip =>
        left
        refine ⟨trivial, _, statusOfVerdict (c.validate ip), _, ?_, rfl⟩
        cases c.validate ip <;> simp [statusOfVerdict]
      | ok port =>
        right
        refine ⟨trivial, _, _, _, _, _, _, ?_, rfl⟩
        split <;> simp

/-- **closed_exactly_once_and_last**: AddClosed is called exactly once per connection, after every other
    metric call (only the close itself follows). -/
theorem closed_exactly_once (s : Script) :
    ((handle c st s valid srvSalt hash greeting).2.filter isClosed).length = 1 := by
  rcases outcome_table c st valid srvSalt hash greeting s with
    ⟨_, f, cl, h⟩ | ⟨_, f, cl, h⟩ | ⟨_, f, stt, cp, _, h⟩ | ⟨_, f, up, reply, stt, cl, sf, _, h⟩
  all_goals (rw [h])
  · simp [List.filter, isClosed]
  · simp [List.filter, isClosed]
  · simp [List.filter, isClosed]
  · by_cases hr : reply.isEmpty <;> simp [hr, List.filter, isClosed]

/-- **authenticated_iff_and_before_close**: AddAuthenticated is reported at most once, exactly for the
    connections whose authentication succeeded, with the id of the matched entry. -/
theorem authenticated_iff (s : Script) :
    ((handle c st s valid srvSalt hash greeting).2.filter isAuth).length =
      (if (authenticate st (some 1) (decide (s.raw ≥ c.bytesForKeyFinding)) valid srvSalt hash).2.status = .ok then 1 else 0) := by
  rcases outcome_table c st valid srvSalt hash greeting s with
    ⟨hn, f, cl, h⟩ | ⟨ho, f, cl, h⟩ | ⟨ho, f, stt, cp, _, h⟩ | ⟨ho, f, up, reply, stt, cl, sf, _, h⟩
  all_goals (rw [h])
  · simp [List.filter, isAuth, hn]
  · simp [List.filter, isAuth, ho]
  · simp [List.filter, isAuth, ho]
  · by_cases hr : reply.isEmpty <;> simp [hr, List.filter, isAuth, ho]

/-- **probe_iff_auth_failed**: a probe report is made exactly when authentication failed, and carries the
    number of bytes received from the client. -/
theorem probe_iff_auth_failed (s : Script) :
    ((handle c st s valid srvSalt hash greeting).2.filter isProbe).length =
      (if (authenticate st (some 1) (decide (s.raw ≥ c.bytesForKeyFinding)) valid srvSalt hash).2.status = .ok then 0 else 1) ∧
    ∀ stt dr n, Eff.probe stt dr n ∈ (handle c st s valid srvSalt hash greeting).2 → n = s.raw := by
  rcases outcome_table c st valid srvSalt hash greeting s with
    ⟨hn, f, cl, h⟩ | ⟨ho, f, cl, h⟩ | ⟨ho, f, stt, cp, _, h⟩ | ⟨ho, f, up, reply, stt, cl, sf, _, h⟩
  all_goals (rw [h])
  · refine ⟨by simp [List.filter, isProbe, hn], ?_⟩
    intro a b n hm; simp at hm; exact hm.2.2
  · exact ⟨by simp [List.filter, isProbe, ho], by intro a b n hm; simp at hm⟩
  · exact ⟨by simp [List.filter, isProbe, ho], by intro a b n hm; simp at hm⟩
  · refine ⟨by by_cases hr : reply.isEmpty <;> simp [hr, List.filter, isProbe, ho], ?_⟩
    intro a b n hm
    by_cases hr : reply.isEmpty <;> simp [hr] at hm

/-- **counters_exact_on_completion**: for a relayed connection the counters reported at close are the
    bytes the client sent, the plaintext written to the target (= what the target received) and the
    bytes the target sent (= the plaintext the client can decrypt). -/
theorem counters_exact_on_completion (s : Script) (status : String) (cp pt tp : Nat) (pc : Bool) (up : List UInt8) (fin : Bool)
    (hc : Eff.closed status cp pt tp pc ∈ (handle c st s valid srvSalt hash greeting).2)
    (ht : Eff.toTarget up fin ∈ (handle c st s valid srvSalt hash greeting).2) :
    cp = s.raw ∧ pt = up.length ∧
    (tp = 0 ∧ pc = false ∨ ∃ reply, Eff.toClient reply ∈ (handle c st s valid srvSalt hash greeting).2 ∧ tp = reply.length ∧ pc = true) := by
  rcases outcome_table c st valid srvSalt hash greeting s with
    ⟨_, f, cl, h⟩ | ⟨_, f, cl, h⟩ | ⟨_, f, stt, cp', _, h⟩ | ⟨_, f, up', reply, stt, cl, sf, _, h⟩
  all_goals (rw [h] at hc ht ⊢)
  · simp at ht
  · simp at ht
  · simp at ht
  · by_cases hr : reply.isEmpty
    · simp [hr] at hc ht ⊢
      obtain ⟨rfl, rfl, rfl, rfl, rfl⟩ := hc
      obtain ⟨rfl, _⟩ := ht
      have : reply = [] := by simpa using hr
      subst this
      simp
    · simp [hr] at hc ht ⊢
      obtain ⟨rfl, rfl, rfl, rfl, rfl⟩ := hc
      obtain ⟨rfl, _⟩ := ht
      exact ⟨rfl, rfl, Or.inr ⟨rfl, rfl⟩⟩

/-- how many wire bytes the address phase consumed never exceeds what the script's chunks contain -/
theorem readAddress_consumed_le : ∀ (chunks : List Chunk) (acc : List UInt8) (consumed alen : Nat) (plain : List UInt8)
    (rest : List Chunk) (cons' : Nat),
    readAddress c acc consumed chunks = .found alen plain rest cons' →
    cons' ≤ consumed + (chunks.map (chunkWire c)).sum := by
  intro chunks
  induction chunks with
  | nil =>
    intro acc consumed alen plain rest cons' h
    unfold readAddress at h
    cases hr : Socks.readAddr acc with
    | ok p => obtain ⟨a, r⟩ := p; simp [hr] at h; omega
    | error e => simp [hr] at h
  | cons ch chs ih =>
    intro acc consumed alen plain rest cons' h
    unfold readAddress at h
    cases hr : Socks.readAddr acc with
    | ok p => obtain ⟨a, r⟩ := p; simp [hr] at h; simp; omega
    | error e =>
      cases e with
      | notSupported => simp [hr] at h
      | eof =>
        cases ch with
        | data d =>
          simp only [hr] at h
          have := ih _ _ _ _ _ _ h
          simp only [List.map_cons, List.sum_cons]; omega
        | badLen => simp [hr] at h
        | badPayload n => simp [hr] at h
        | raw k => simp [hr] at h
      | unexpectedEof =>
        cases ch with
        | data d =>
          simp only [hr] at h
          have := ih _ _ _ _ _ _ h
          simp only [List.map_cons, List.sum_cons]; omega
        | badLen => simp [hr] at h
        | badPayload n => simp [hr] at h
        | raw k => simp [hr] at h

/-- **counters_never_exceed**: for a script whose byte count is what its structure says (at least the 50
    bytes of the key search, and salt + chunks ≤ raw), ClientProxy never exceeds the bytes the
    client sent — on every outcome, also when the connection ends early on a dial error. -/
theorem counters_never_exceed (s : Script) (hraw : c.saltSize + (s.chunks.map (chunkWire c)).sum ≤ s.raw)
    (h50 : c.bytesForKeyFinding ≤ s.raw ∨ (authenticate st (some 1) (decide (s.raw ≥ c.bytesForKeyFinding)) valid srvSalt hash).2.status ≠ .ok)
    (status : String) (cp pt tp : Nat) (pc : Bool)
    (hc : Eff.closed status cp pt tp pc ∈ (handle c st s valid srvSalt hash greeting).2) : cp ≤ s.raw := by
  unfold handle at hc
  cases hs : (authenticate st (some 1) (decide (s.raw ≥ c.bytesForKeyFinding)) valid srvSalt hash).2.status with
  | errCipher => simp [hs] at hc; omega
  | errReplayServer => simp [hs] at hc; omega
  | errReplayClient => simp [hs] at hc; omega
  | ok =>
    have h50' : c.bytesForKeyFinding ≤ s.raw := by
      rcases h50 with h | h
      · exact h
      · exact absurd hs h
    simp only [hs] at hc
    cases hr : readAddress c [] c.saltSize s.chunks with
    | failed => simp [hr] at hc; omega
    | found alen plain rest consumed =>
      have hle := readAddress_consumed_le c s.chunks [] c.saltSize alen plain rest consumed hr
      simp only [hr] at hc
      cases hd : s.dial with
      | none => simp [hd] at hc; omega
      | refused => simp [hd] at hc; omega
      | forbidden ip => simp [hd] at hc; omega
      | ok port =>
        simp [hd] at hc
        by_cases hrep : (targetReply port (List.drop alen plain ++ (relayUp rest).1) (greeting port)).isEmpty
        · simp [hrep] at hc; omega
        · simp [hrep] at hc; omega

/-- **wiring**: opened once before handling, closed once after handling on every path, authenticated
    reported once and only after the authentication branch (generated facts). -/
theorem wiring : Gen.Wiring.tcpOpenedOnceBeforeHandle = true ∧ Gen.Wiring.tcpClosedOnceAfterHandleConnection = true ∧
    Gen.Wiring.tcpAddAuthenticatedOnlyAfterAuth = true := by decide

end OutlineModel.Props.C15
