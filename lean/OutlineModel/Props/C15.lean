import OutlineModel.Proofs.TieMConn
import OutlineModel.Proofs.TieHandle
import OutlineModel.Proofs.TieAuth
import OutlineModel.Props.C06
import OutlineModel.Model.MConn
import OutlineModel.Gen.Decisions
/-
C15 — TCP connection metrics match what happened on the wire.

The effect list of Model/TCP.handle contains every TCPConnMetrics call with its arguments (`auth` =
AddAuthenticated, `probe` = AddProbe, `closed` = AddClosed with the four byte counters), next to
what actually reached the target and the client.  Tied to service/tcp.go and
service/metrics/metrics.go by the `tcp` campaign: per-connection recording TCPConnMetrics,
byte counts measured independently at the client and target sockets, 4–16 concurrent connections.
A handler panic would skip AddClosed: conditional on C18.
-/
namespace OutlineModel.Props.C15
open OutlineModel OutlineModel.TCP OutlineModel.Auth OutlineModel.CipherList

def isClosed : Eff → Bool | .closed _ _ _ _ _ => true | _ => false
def isAuth : Eff → Bool | .auth _ => true | _ => false
def isProbe : Eff → Bool | .probe _ _ _ => true | _ => false

variable (c : Cfg) (st : AuthState) (valid : Nat → Bool) (srvSalt : Entry → Bool) (hash : Entry → UInt32)
  (greeting : Nat → List UInt8)

/-- the complete decision table of one connection: every outcome class with its metric calls -/
theorem outcome_table (s : Script) :
    let effs := (handle c st s valid srvSalt hash greeting).2
    let authOK := (authenticate st (some 1) (decide (s.raw ≥ c.bytesForKeyFinding)) valid srvSalt hash).2
    -- not authenticated: probe + closed with the authentication status, never `auth`
    (authOK.status ≠ .ok ∧ ∃ found cls, effs = [.search found, .probe authOK.status.toString
        (match s.clientEnd with | .fin => "eof" | .idle => "timeout") s.raw,
        .closed authOK.status.toString s.raw 0 0 false, .closeClass cls]) ∨
    -- authenticated, address unreadable
    (authOK.status = .ok ∧ ∃ found cls, effs = [.search found, .auth authOK.id, .closed "ERR_READ_ADDRESS" s.raw 0 0 false, .closeClass cls]) ∨
    -- authenticated, dial refused by the policy or by the network: nothing relayed
    (authOK.status = .ok ∧ ∃ found status cp, (status = "ERR_CONNECT" ∨ status = "ERR_ADDRESS_INVALID" ∨ status = "ERR_ADDRESS_PRIVATE" ∨ status = "OK") ∧
        effs = [.search found, .auth authOK.id, .closed status cp 0 0 false, .closeClass "quick"]) ∨
    -- relayed: OK or ERR_RELAY_CLIENT, counters = bytes that crossed
    (authOK.status = .ok ∧ ∃ found up reply status cls sf, (status = "OK" ∨ status = "ERR_RELAY_CLIENT") ∧
        effs = [.search found, .auth authOK.id, .dial, .toTarget up true] ++ (if reply.isEmpty then [] else [.toClient reply]) ++
               [.closed status s.raw up.length reply.length (!reply.isEmpty), .closeClass cls, .serverFin sf]) := by
  intro effs authOK
  simp only [effs, authOK]
  unfold handle
  cases hs : (authenticate st (some 1) (decide (s.raw ≥ c.bytesForKeyFinding)) valid srvSalt hash).2.status with
  | errCipher => left; simp only [hs]; exact ⟨by simp, _, _, rfl⟩
  | errReplayServer => left; simp only [hs]; exact ⟨by simp, _, _, rfl⟩
  | errReplayClient => left; simp only [hs]; exact ⟨by simp, _, _, rfl⟩
  | ok =>
    right
    simp only [hs]
    cases hr : readAddress c [] c.saltSize s.chunks with
    | failed => left; exact ⟨trivial, _, _, rfl⟩
    | found alen plain rest consumed =>
      right
      simp only
      cases hd : s.dial with
      | none => left; exact ⟨trivial, _, "ERR_CONNECT", _, Or.inl rfl, rfl⟩
      | refused => left; exact ⟨trivial, _, "ERR_CONNECT", _, Or.inl rfl, rfl⟩
      | forbidden ip =>
        left
        refine ⟨trivial, _, statusOfVerdict (c.validate ip), _, ?_, rfl⟩
        cases c.validate ip <;> simp [statusOfVerdict]
      | ok port =>
        right
        refine ⟨trivial, _, _, _, _, _, _, ?_, rfl⟩
        split <;> simp

/-- **closed_exactly_once_and_last**: AddClosed is called exactly once per connection, after every other
    metric call (only the close itself follows). -/
theorem closed_exactly_once (s : Script) :
    ((handle c st s valid srvSalt hash greeting).2.filter isClosed).length = 1 := by
  rcases outcome_table c st valid srvSalt hash greeting s with
    ⟨_, f, cl, h⟩ | ⟨_, f, cl, h⟩ | ⟨_, f, stt, cp, _, h⟩ | ⟨_, f, up, reply, stt, cl, sf, _, h⟩
  all_goals (rw [h])
  · simp [List.filter, isClosed]
  · simp [List.filter, isClosed]
  · simp [List.filter, isClosed]
  · by_cases hr : reply.isEmpty <;> simp [hr, List.filter, isClosed]

/-- **authenticated_iff_and_before_close**: AddAuthenticated is reported at most once, exactly for the
    connections whose authentication succeeded, with the id of the matched entry. -/
theorem authenticated_iff (s : Script) :
    ((handle c st s valid srvSalt hash greeting).2.filter isAuth).length =
      (if (authenticate st (some 1) (decide (s.raw ≥ c.bytesForKeyFinding)) valid srvSalt hash).2.status = .ok then 1 else 0) := by
  rcases outcome_table c st valid srvSalt hash greeting s with
    ⟨hn, f, cl, h⟩ | ⟨ho, f, cl, h⟩ | ⟨ho, f, stt, cp, _, h⟩ | ⟨ho, f, up, reply, stt, cl, sf, _, h⟩
  all_goals (rw [h])
  · simp [List.filter, isAuth, hn]
  · simp [List.filter, isAuth, ho]
  · simp [List.filter, isAuth, ho]
  · by_cases hr : reply.isEmpty <;> simp [hr, List.filter, isAuth, ho]

/-- **probe_iff_auth_failed**: a probe report is made exactly when authentication failed, and carries the
    number of bytes received from the client. -/
theorem probe_iff_auth_failed (s : Script) :
    ((handle c st s valid srvSalt hash greeting).2.filter isProbe).length =
      (if (authenticate st (some 1) (decide (s.raw ≥ c.bytesForKeyFinding)) valid srvSalt hash).2.status = .ok then 0 else 1) ∧
    ∀ stt dr n, Eff.probe stt dr n ∈ (handle c st s valid srvSalt hash greeting).2 → n = s.raw := by
  rcases outcome_table c st valid srvSalt hash greeting s with
    ⟨hn, f, cl, h⟩ | ⟨ho, f, cl, h⟩ | ⟨ho, f, stt, cp, _, h⟩ | ⟨ho, f, up, reply, stt, cl, sf, _, h⟩
  all_goals (rw [h])
  · refine ⟨by simp [List.filter, isProbe, hn], ?_⟩
    intro a b n hm; simp at hm; exact hm.2.2
  · exact ⟨by simp [List.filter, isProbe, ho], by intro a b n hm; simp at hm⟩
  · exact ⟨by simp [List.filter, isProbe, ho], by intro a b n hm; simp at hm⟩
  · refine ⟨by by_cases hr : reply.isEmpty <;> simp [hr, List.filter, isProbe, ho], ?_⟩
    intro a b n hm
    by_cases hr : reply.isEmpty <;> simp [hr] at hm

/-- **counters_exact_on_completion**: for a relayed connection the counters reported at close are the
    bytes the client sent, the plaintext written to the target (= what the target received) and the
    bytes the target sent (= the plaintext the client can decrypt). -/
theorem counters_exact_on_completion (s : Script) (status : String) (cp pt tp : Nat) (pc : Bool) (up : List UInt8) (fin : Bool)
    (hc : Eff.closed status cp pt tp pc ∈ (handle c st s valid srvSalt hash greeting).2)
    (ht : Eff.toTarget up fin ∈ (handle c st s valid srvSalt hash greeting).2) :
    cp = s.raw ∧ pt = up.length ∧
    (tp = 0 ∧ pc = false ∨ ∃ reply, Eff.toClient reply ∈ (handle c st s valid srvSalt hash greeting).2 ∧ tp = reply.length ∧ pc = true) := by
  rcases outcome_table c st valid srvSalt hash greeting s with
    ⟨_, f, cl, h⟩ | ⟨_, f, cl, h⟩ | ⟨_, f, stt, cp', _, h⟩ | ⟨_, f, up', reply, stt, cl, sf, _, h⟩
  all_goals (rw [h] at hc ht ⊢)
  · simp at ht
  · simp at ht
  · simp at ht
  · by_cases hr : reply.isEmpty
    · simp [hr] at hc ht ⊢
      obtain ⟨rfl, rfl, rfl, rfl, rfl⟩ := hc
      obtain ⟨rfl, _⟩ := ht
      have : reply = [] := by simpa using hr
      subst this
      simp
    · simp [hr] at hc ht ⊢
      obtain ⟨rfl, rfl, rfl, rfl, rfl⟩ := hc
      obtain ⟨rfl, _⟩ := ht
      exact ⟨rfl, rfl, Or.inr ⟨rfl, rfl⟩⟩

/-- how many wire bytes the address phase consumed never exceeds what the script's chunks contain -/
theorem readAddress_consumed_le : ∀ (chunks : List Chunk) (acc : List UInt8) (consumed alen : Nat) (plain : List UInt8)
    (rest : List Chunk) (cons' : Nat),
    readAddress c acc consumed chunks = .found alen plain rest cons' →
    cons' ≤ consumed + (chunks.map (chunkWire c)).sum := by
  intro chunks
  induction chunks with
  | nil =>
    intro acc consumed alen plain rest cons' h
    unfold readAddress at h
    cases hr : Socks.readAddr acc with
    | ok p => obtain ⟨a, r⟩ := p; simp [hr] at h; omega
    | error e => simp [hr] at h
  | cons ch chs ih =>
    intro acc consumed alen plain rest cons' h
    unfold readAddress at h
    cases hr : Socks.readAddr acc with
    | ok p => obtain ⟨a, r⟩ := p; simp [hr] at h; simp; omega
    | error e =>
      cases e with
      | notSupported => simp [hr] at h
      | eof =>
        cases ch with
        | data d =>
          simp only [hr] at h
          have := ih _ _ _ _ _ _ h
          simp only [List.map_cons, List.sum_cons]; omega
        | badLen => simp [hr] at h
        | badPayload n => simp [hr] at h
        | raw k => simp [hr] at h
      | unexpectedEof =>
        cases ch with
        | data d =>
          simp only [hr] at h
          have := ih _ _ _ _ _ _ h
          simp only [List.map_cons, List.sum_cons]; omega
        | badLen => simp [hr] at h
        | badPayload n => simp [hr] at h
        | raw k => simp [hr] at h

/-- **counters_never_exceed**: for a script whose byte count is what its structure says (at least the 50
    bytes of the key search, and salt + chunks ≤ raw), ClientProxy never exceeds the bytes the
    client sent — on every outcome, also when the connection ends early on a dial error. -/
theorem counters_never_exceed (s : Script) (hraw : c.saltSize + (s.chunks.map (chunkWire c)).sum ≤ s.raw)
    (h50 : c.bytesForKeyFinding ≤ s.raw ∨ (authenticate st (some 1) (decide (s.raw ≥ c.bytesForKeyFinding)) valid srvSalt hash).2.status ≠ .ok)
    (status : String) (cp pt tp : Nat) (pc : Bool)
    (hc : Eff.closed status cp pt tp pc ∈ (handle c st s valid srvSalt hash greeting).2) : cp ≤ s.raw := by
  unfold handle at hc
  cases hs : (authenticate st (some 1) (decide (s.raw ≥ c.bytesForKeyFinding)) valid srvSalt hash).2.status with
  | errCipher => simp [hs] at hc; omega
  | errReplayServer => simp [hs] at hc; omega
  | errReplayClient => simp [hs] at hc; omega
  | ok =>
    have h50' : c.bytesForKeyFinding ≤ s.raw := by
      rcases h50 with h | h
      · exact h
      · exact absurd hs h
    simp only [hs] at hc
    cases hr : readAddress c [] c.saltSize s.chunks with
    | failed => simp [hr] at hc; omega
    | found alen plain rest consumed =>
      have hle := readAddress_consumed_le c s.chunks [] c.saltSize alen plain rest consumed hr
      simp only [hr] at hc
      cases hd : s.dial with
      | none => simp [hd] at hc; omega
      | refused => simp [hd] at hc; omega
      | forbidden ip => simp [hd] at hc; omega
      | ok port =>
        simp [hd] at hc
        by_cases hrep : (targetReply port (List.drop alen plain ++ (relayUp rest).1) (greeting port)).isEmpty
        · simp [hrep] at hc; omega
        · simp [hrep] at hc; omega

/- (The three syntactic wiring facts this file used to carry — opened once before handling, closed once after handling
   on every path, authentication reported once and only after the authentication branch — are all proved about the
   translated code now: `code_opened_once_then_handled`, `code_closed_once_with_the_real_outcome`,
   `code_authentication_and_probe_reports` below.) -/


/-! ### the counting wrapper (metrics.MeasureConn), tied by the `mconn` campaign -/
section MeasuredConn
open OutlineModel.MConn

theorem run_wr (ops : List MConn.Op) : ∀ s : MConn.St, (MConn.run s ops).wr = s.wr + sentToPeer ops := by
  induction ops with
  | nil => intro s; simp [MConn.run, sentToPeer]
  | cons o os ih =>
    intro s
    have h := ih (MConn.step s o)
    simp only [MConn.run, List.foldl_cons] at h ⊢
    rw [h]
    cases o <;> simp [MConn.step, sentToPeer, acceptedIn] <;> omega

theorem copied_le_delivered (steps : List CopyStep) (h : ∀ st ∈ steps, st.2 ≤ st.1) : copied steps ≤ deliveredIn steps := by
  induction steps with
  | nil => simp [copied, deliveredIn]
  | cons st rest ih =>
    obtain ⟨nr, nw⟩ := st
    have h1 : nw ≤ nr := h (nr, nw) (List.mem_cons_self)
    have h2 := ih (fun x hx => h x (List.mem_cons_of_mem _ hx))
    simp only [copied, deliveredIn]
    split <;> omega

theorem copied_le_requested (steps : List CopyStep) (h : ∀ st ∈ steps, st.2 ≤ st.1) : copied steps ≤ (steps.map (·.1)).sum := by
  induction steps with
  | nil => simp [copied]
  | cons st rest ih =>
    obtain ⟨nr, nw⟩ := st
    have h1 : nw ≤ nr := h (nr, nw) (List.mem_cons_self)
    have h2 := ih (fun x hx => h x (List.mem_cons_of_mem _ hx))
    simp only [copied, List.map_cons, List.sum_cons]
    split <;> omega

/-- the io.Writer contract of the destination of a WriteTo: it accepts at most what it is given -/
def WritersSane (ops : List MConn.Op) : Prop :=
  ∀ o ∈ ops, match o with
    | .writeTo steps => ∀ st ∈ steps, st.2 ≤ st.1
    | _ => True

theorem run_rd (ops : List MConn.Op) (hs : WritersSane ops) : ∀ s : MConn.St, (MConn.run s ops).rd ≤ s.rd + receivedFromPeer ops := by
  induction ops with
  | nil => intro s; simp [MConn.run, receivedFromPeer]
  | cons o os ih =>
    intro s
    have h0 := hs o List.mem_cons_self
    have h := ih (fun x hx => hs x (List.mem_cons_of_mem _ hx)) (MConn.step s o)
    simp only [MConn.run, List.foldl_cons] at h ⊢
    cases o with
    | read n => simp [MConn.step, receivedFromPeer] at h ⊢; omega
    | write l a => simp [MConn.step, receivedFromPeer] at h ⊢; omega
    | writeTo st => simp only at h0; have := copied_le_delivered st h0; simp [MConn.step, receivedFromPeer] at h ⊢; omega
    | readFrom d st => simp [MConn.step, receivedFromPeer] at h ⊢; omega

/-- **counters_never_run_ahead_of_the_wire**: for EVERY sequence of reads, writes and copies through the
    counting wrapper, with any short counts and errors of the underlying connection: the write
    counter equals the bytes the underlying connection actually accepted (never the bytes merely
    requested), and the read counter never exceeds the bytes it actually delivered. -/
theorem counters_never_run_ahead_of_the_wire (ops : List MConn.Op) (hs : WritersSane ops) :
    (MConn.run {} ops).wr = sentToPeer ops ∧ (MConn.run {} ops).rd ≤ receivedFromPeer ops := by
  have h1 := run_wr ops {}
  have h2 := run_rd ops hs {}
  simp at h1 h2
  exact ⟨h1, h2⟩

/-- what was accepted never exceeds what was requested when the underlying writer keeps the io.Writer contract -/
theorem sent_le_requested (ops : List MConn.Op)
    (hw : ∀ o ∈ ops, match o with
      | .write len acc => acc ≤ len
      | .readFrom _ steps => ∀ st ∈ steps, st.2 ≤ st.1
      | _ => True) :
    sentToPeer ops ≤ requested ops := by
  induction ops with
  | nil => simp [sentToPeer, requested]
  | cons o os ih =>
    have h0 := hw o List.mem_cons_self
    have h1 := ih (fun x hx => hw x (List.mem_cons_of_mem _ hx))
    cases o with
    | read n => simpa [sentToPeer, requested] using h1
    | write l a => simp only at h0; simp [sentToPeer, requested]; omega
    | writeTo st => simpa [sentToPeer, requested] using h1
    | readFrom d st => simp only at h0; have := copied_le_requested st h0; simp [sentToPeer, requested, acceptedIn]; omega

/-- non-vacuity: a write cut short (1000 requested, 500 accepted) and a copy whose second step fails -/
example : (MConn.run {} [.write 1000 500, .readFrom false [(1000, 1000), (1000, 500), (1000, 1000)], .read 7]) = { rd := 7, wr := 2000 } := by decide
example : requested [.write 1000 500, .readFrom false [(1000, 1000), (1000, 500), (1000, 1000)]] = 4000 := by decide
end MeasuredConn


/-- **status_alphabet_as_modelled**: the statuses the TCP path can construct, as a regenerated table:
    those of the authenticator and handler models (ERR_CIPHER, ERR_REPLAY_CLIENT, ERR_REPLAY_SERVER,
    ERR_READ_ADDRESS, ERR_CONNECT, ERR_RELAY_CLIENT; OK and the policy statuses of C05 come from
    elsewhere) and ERR_RELAY_TARGET, which only a failing target connection produces and the model
    does not have.  A status added or renamed in the source changes the table. -/
theorem status_alphabet_as_modelled :
    Gen.Decisions.tcpStatuses = ["ERR_CIPHER", "ERR_CONNECT", "ERR_READ_ADDRESS", "ERR_RELAY_CLIENT", "ERR_RELAY_TARGET",
      "ERR_REPLAY_CLIENT", "ERR_REPLAY_SERVER"] := by decide


/-! ### The counting wrapper, about the code itself

`Gen.Code.measuredConn.Read / Write / WriteTo / ReadFrom` are TRANSLATED from service/metrics/metrics.go on every run
(extract/golean.go); the underlying connection's operations and io.Copy are parameters (any functions). -/

/-- **code_counters_follow_the_wire**: each translated method never panics, hands the underlying answer through unchanged and
    adds exactly the byte count the underlying operation reported to exactly one counter — a failed or short
    write is counted with what was accepted, never with what was asked. -/
theorem code_counters_follow_the_wire
    (R W : GoRT.Opaque "transport.StreamConn" → List UInt8 → Int × Option String) (c : Gen.Code.measuredConn) (b : List UInt8)
    (h0 : 0 ≤ c.readCount) (h1 : 0 ≤ c.writeCount) (hr : 0 ≤ (R c.StreamConn b).1) (hw : 0 ≤ (W c.StreamConn b).1) :
    (∃ c', Gen.Code.measuredConn.Read R c b = some (c', (R c.StreamConn b).1, (R c.StreamConn b).2) ∧
        Tie.MConn.abs c' = MConn.step (Tie.MConn.abs c) (.read (R c.StreamConn b).1.toNat)) ∧
    (∃ c', Gen.Code.measuredConn.Write W c b = some (c', (W c.StreamConn b).1, (W c.StreamConn b).2) ∧
        Tie.MConn.abs c' = MConn.step (Tie.MConn.abs c) (.write b.length (W c.StreamConn b).1.toNat)) := by
  obtain ⟨c1, a1, a2, _⟩ := Tie.MConn.read_tie R c b h0 hr
  obtain ⟨c2, b1, b2, _⟩ := Tie.MConn.write_tie W c b h1 hw
  exact ⟨⟨c1, a1, a2⟩, ⟨c2, b1, b2⟩⟩

/-- the copy paths: WriteTo adds io.Copy's count to the read counter, ReadFrom adds the underlying ReaderFrom's (or
    io.Copy's) count to the write counter -/
theorem code_copy_paths_follow_the_wire
    (copyOut : GoRT.Opaque "io.Writer" → GoRT.Opaque "transport.StreamConn" → Int × Option String)
    (impl : GoRT.Opaque "transport.StreamConn" → Bool)
    (rf : GoRT.Opaque "io.ReaderFrom" → GoRT.Opaque "io.Reader" → Int × Option String)
    (copyIn : GoRT.Opaque "transport.StreamConn" → GoRT.Opaque "io.Reader" → Int × Option String)
    (c : Gen.Code.measuredConn) (w : GoRT.Opaque "io.Writer") (r : GoRT.Opaque "io.Reader") (so si : List MConn.CopyStep)
    (h0 : 0 ≤ c.readCount) (h1 : 0 ≤ c.writeCount) (ho : (copyOut w c.StreamConn).1 = (MConn.copied so : Int))
    (hi : (if impl c.StreamConn then rf ⟨c.StreamConn.val⟩ r else copyIn c.StreamConn r).1 = (MConn.copied si : Int)) :
    (∃ c', Gen.Code.measuredConn.WriteTo copyOut c w = some (c', (copyOut w c.StreamConn).1, (copyOut w c.StreamConn).2) ∧
        Tie.MConn.abs c' = MConn.step (Tie.MConn.abs c) (.writeTo so)) ∧
    (∃ c', Gen.Code.measuredConn.ReadFrom rf impl copyIn c r =
          some (c', (if impl c.StreamConn then rf ⟨c.StreamConn.val⟩ r else copyIn c.StreamConn r).1,
                    (if impl c.StreamConn then rf ⟨c.StreamConn.val⟩ r else copyIn c.StreamConn r).2) ∧
        Tie.MConn.abs c' = MConn.step (Tie.MConn.abs c) (.readFrom (impl c.StreamConn) si)) :=
  ⟨Tie.MConn.writeTo_tie copyOut c w so h0 ho, Tie.MConn.readFrom_tie impl rf copyIn c r si h1 hi⟩

/-- how often a call of the given name occurs in an effect log -/
def callsNamed (n : String) (l : List GoRT.Eff) : Nat := (l.filter (fun e => e.name = n)).length

/-- **code_authentication_and_probe_reports**: the translated `streamHandler.handleConnection` (service/tcp.go), for
    every handler, context, clock, connection and behaviour of its collaborators: never panics; it calls
    `AddAuthenticated` at most once — exactly once when the stored authenticate function succeeded, with the key id that
    function returned, and never when it failed; it hands the connection to `absorbProbe` (the one place `AddProbe` is
    called) exactly once when authentication failed, with the status it then returns, and never when it succeeded. -/
theorem code_authentication_and_probe_reports
    (ctxDeadline : GoRT.Opaque "context.Context" → Int × Bool) (dial : GoRT.Opaque "transport.FuncStreamDialer")
    (authenticate : Tie.Handle.Conn → String × Tie.Handle.Conn × Option String)
    (req : Tie.Handle.Conn → String × Option String)
    (disc : GoRT.Opaque "io.Writer") (now : Int)
    (relay : GoRT.Opaque "slog.Logger" → GoRT.Opaque "context.Context" → GoRT.Opaque "transport.FuncStreamDialer" → String → Tie.Handle.Conn → Tie.Handle.Conn → Option String)
    (h : Gen.Code.streamHandler) (ctx : GoRT.Opaque "context.Context") (oc : Tie.Handle.Conn)
    (cm : GoRT.Opaque "service.TCPConnMetrics") (pm : Gen.Code.ProxyMetrics) :
    ∃ st log, Gen.Code.streamHandler.handleConnection ctxDeadline dial authenticate req disc now relay h ctx oc cm pm =
        some (h, pm, st, log) ∧
      (match (authenticate oc).2.2 with
       | some e => st = some e ∧ callsNamed "TCPConnMetrics.AddAuthenticated" log = 0 ∧ callsNamed "absorbProbe" log = 1 ∧
                    Tie.Handle.absorbEff oc cm e ∈ log
       | none => callsNamed "TCPConnMetrics.AddAuthenticated" log = 1 ∧ callsNamed "absorbProbe" log = 0 ∧
                    Tie.Handle.authEff cm (authenticate oc).1 ∈ log) := by
  rw [Tie.Handle.handleConnection_tie]
  refine ⟨_, _, rfl, ?_⟩
  unfold Tie.Handle.outcome callsNamed Tie.Handle.armEffs
  cases ha : (authenticate oc).2.2 with
  | some e => cases (ctxDeadline ctx).2 <;> simp [Tie.Handle.absorbEff, Tie.Handle.callAuth]
  | none =>
    cases hr : (req (authenticate oc).2.1).2 with
    | some e => cases (ctxDeadline ctx).2 <;> simp [Tie.Handle.authEff, Tie.Handle.clearEff, Tie.Handle.drainEff, Tie.Handle.callAuth, Tie.Handle.callReq]
    | none => cases (ctxDeadline ctx).2 <;> simp [Tie.Handle.authEff, Tie.Handle.clearEff, Tie.Handle.callAuth, Tie.Handle.callReq, Tie.Handle.callRelay]

/-- **code_status_names_the_outcome**: the status the translated handler returns (the one `Handle` passes to `AddClosed`)
    is the authentication error when there is one, else ERR_READ_ADDRESS when the address cannot be read, else whatever
    the relay (`proxyConnection`) reports — `none`, which `Handle` reports as "OK", only when the relay ran and ended well. -/
theorem code_status_names_the_outcome
    (ctxDeadline : GoRT.Opaque "context.Context" → Int × Bool) (dial : GoRT.Opaque "transport.FuncStreamDialer")
    (authenticate : Tie.Handle.Conn → String × Tie.Handle.Conn × Option String)
    (req : Tie.Handle.Conn → String × Option String)
    (disc : GoRT.Opaque "io.Writer") (now : Int)
    (relay : GoRT.Opaque "slog.Logger" → GoRT.Opaque "context.Context" → GoRT.Opaque "transport.FuncStreamDialer" → String → Tie.Handle.Conn → Tie.Handle.Conn → Option String)
    (h : Gen.Code.streamHandler) (ctx : GoRT.Opaque "context.Context") (oc : Tie.Handle.Conn)
    (cm : GoRT.Opaque "service.TCPConnMetrics") (pm : Gen.Code.ProxyMetrics) :
    ∃ log, Gen.Code.streamHandler.handleConnection ctxDeadline dial authenticate req disc now relay h ctx oc cm pm =
      some (h, pm,
        (match (authenticate oc).2.2 with
         | some e => some e
         | none => match (req (authenticate oc).2.1).2 with
           | some _ => some "ERR_READ_ADDRESS"
           | none => relay h.logger ctx dial (req (authenticate oc).2.1).1 (authenticate oc).2.1 oc), log) := by
  rw [Tie.Handle.handleConnection_tie]
  unfold Tie.Handle.outcome
  cases ha : (authenticate oc).2.2 with
  | some e => exact ⟨_, rfl⟩
  | none =>
    cases hr : (req (authenticate oc).2.1).2 with
    | some e => exact ⟨_, rfl⟩
    | none => exact ⟨_, rfl⟩

/-- **code_opened_once_then_handled**: the translated `ssService.HandleStream` (service/shadowsocks.go), for every
    service object, context and connection: it never panics and makes exactly one call of the stream handler's `Handle`,
    for this very connection, handing it the metrics object that `AddOpenTCPConnection` returned for this connection — the
    function is consulted once, in that argument (or not at all when the service has no metrics) — and nothing else.  (This
    used to be the syntactic fact "AddOpenTCPConnection appears once and before sh.Handle".) -/
theorem code_opened_once_then_handled
    (addOpen : GoRT.Opaque "service.ServiceMetrics" → GoRT.Opaque "net.Conn" → GoRT.Opaque "service.TCPConnMetrics")
    (s : Gen.Code.ssService) (ctx : GoRT.Opaque "context.Context") (conn : Tie.Handle.Conn) :
    ∃ s', Gen.Code.ssService.HandleStream addOpen s ctx conn = some s' ∧
      callsNamed "sh.Handle" s'.eff = callsNamed "sh.Handle" s.eff + 1 ∧ s'.eff.length = s.eff.length + 1 ∧
      s'.eff.getLast? = some { name := "sh.Handle", args := [], vals :=
        [[GoRT.Atom.tok ctx.val], [GoRT.Atom.tok conn.val],
         [GoRT.Atom.tok (if s.metrics ≠ ⟨0⟩ then addOpen s.metrics ⟨conn.val⟩ else ⟨0⟩).val]] } := by
  rw [Tie.Handle.handleStream_tie]
  refine ⟨_, rfl, ?_, ?_, ?_⟩
  · simp [callsNamed, List.filter_append]
  · simp
  · simp

/-- **code_closed_once_with_the_real_outcome**: the translated `streamHandler.Handle` (service/tcp.go) — with the
    translated `handleConnection` running inside it — for every handler, context, clock, connection and behaviour of the
    collaborators: it never panics; it replaces nil metrics by the no-op object and wraps the connection in the counting
    connection before anything else; whatever `handleConnection` did comes next, unchanged; then EXACTLY ONE `AddClosed`,
    whose status is "OK" exactly when `handleConnection` returned no error and that error's status otherwise; and only
    after that report the connection is closed, once.  (This used to be the syntactic fact "AddClosed is a top-level
    statement after handleConnection".) -/
theorem code_closed_once_with_the_real_outcome
    (ctxDeadline : GoRT.Opaque "context.Context" → Int × Bool) (measure : Tie.Handle.Conn → Tie.Handle.Conn) (since : Int → Int)
    (dial : GoRT.Opaque "transport.FuncStreamDialer")
    (authenticate : Tie.Handle.Conn → String × Tie.Handle.Conn × Option String)
    (req : Tie.Handle.Conn → String × Option String)
    (disc : GoRT.Opaque "io.Writer") (noop : GoRT.Opaque "service.TCPConnMetrics") (now : Int)
    (relay : GoRT.Opaque "slog.Logger" → GoRT.Opaque "context.Context" → GoRT.Opaque "transport.FuncStreamDialer" → String → Tie.Handle.Conn → Tie.Handle.Conn → Option String)
    (h : Gen.Code.streamHandler) (ctx : GoRT.Opaque "context.Context") (conn : Tie.Handle.Conn)
    (cm : GoRT.Opaque "service.TCPConnMetrics") :
    ∃ st hlog,
      Gen.Code.streamHandler.handleConnection ctxDeadline dial authenticate req disc now relay h ctx (measure conn)
        (if cm = ⟨0⟩ then noop else cm) Gen.Code.ProxyMetrics.zero = some (h, Gen.Code.ProxyMetrics.zero, st, hlog) ∧
      Gen.Code.streamHandler.Handle ctxDeadline measure since dial authenticate req disc noop now relay h ctx conn cm =
        some (h, [Tie.Handle.measureEff conn] ++ hlog ++
          [Tie.Handle.closedEff (if cm = ⟨0⟩ then noop else cm) (Tie.Handle.statusOf st) (since now), Tie.Handle.closeEff (measure conn)]) ∧
      (Tie.Handle.statusOf st = "OK" ↔ st = none ∨ st = some "OK") ∧
      callsNamed "TCPConnMetrics.AddClosed" hlog = 0 ∧ callsNamed "Conn.Close" hlog = 0 ∧
      callsNamed "TCPConnMetrics.AddAuthenticated" hlog ≤ 1 := by
  rw [Tie.Handle.handleConnection_tie, Tie.Handle.handle_tie]
  refine ⟨_, _, rfl, rfl, ?_, ?_⟩
  · generalize (Tie.Handle.outcome _ _ _ _ _ _ _ _ _ _).1 = st
    cases st <;> simp [Tie.Handle.statusOf]
  · unfold Tie.Handle.outcome callsNamed Tie.Handle.armEffs
    cases ha : (authenticate (measure conn)).2.2 with
    | some e => cases (ctxDeadline ctx).2 <;> simp [Tie.Handle.absorbEff, Tie.Handle.callAuth]
    | none =>
      cases hr : (req (authenticate (measure conn)).2.1).2 with
      | some e => cases (ctxDeadline ctx).2 <;> simp [Tie.Handle.authEff, Tie.Handle.clearEff, Tie.Handle.drainEff, Tie.Handle.callAuth, Tie.Handle.callReq]
      | none => cases (ctxDeadline ctx).2 <;> simp [Tie.Handle.authEff, Tie.Handle.clearEff, Tie.Handle.callAuth, Tie.Handle.callReq, Tie.Handle.callRelay]

/-- the authenticate function a service stores in its handler, read off one run of the translated authenticator at a
    given replay-cache state (a panic of the authenticator would be the status "PANIC": `Tie.Auth.outcome` shows when) -/
def authFnOf (run : Tie.Handle.Conn → Option (Gen.Code.ReplayCache × String × Tie.Handle.Conn × Option String × List GoRT.Eff)) :
    Tie.Handle.Conn → String × Tie.Handle.Conn × Option String :=
  fun c => match run c with
    | some r => (r.2.1, r.2.2.1, r.2.2.2.1)
    | none => ("", ⟨0⟩, some "PANIC")

/-- **code_tcp_connection_end_to_end**: the translated TCP entry chain for one connection — `streamHandler.Handle` with
    the translated `handleConnection` inside and, as its authenticate function, one run of the translated authenticator
    (any replay-cache state, any key-search result) — for every behaviour of every collaborator: if the authenticator
    refuses with status `e` (no key opens the bytes, a server salt, a replay), the whole log of the connection is: wrap,
    arm the deadline, authenticate, `absorbProbe` with `e`, `AddClosed` with `e`, close — no `AddAuthenticated`, no
    address read, no dial; if it accepts with key id `id`, `AddAuthenticated id` is reported exactly once, before the one
    `AddClosed`, and no probe is reported. -/
theorem code_tcp_connection_end_to_end
    (ctxDeadline : GoRT.Opaque "context.Context" → Int × Bool) (measure : Tie.Handle.Conn → Tie.Handle.Conn) (since : Int → Int)
    (dial : GoRT.Opaque "transport.FuncStreamDialer")
    (run : Tie.Handle.Conn → Option (Gen.Code.ReplayCache × String × Tie.Handle.Conn × Option String × List GoRT.Eff))
    (req : Tie.Handle.Conn → String × Option String)
    (disc : GoRT.Opaque "io.Writer") (noop : GoRT.Opaque "service.TCPConnMetrics") (now : Int)
    (relay : GoRT.Opaque "slog.Logger" → GoRT.Opaque "context.Context" → GoRT.Opaque "transport.FuncStreamDialer" → String → Tie.Handle.Conn → Tie.Handle.Conn → Option String)
    (h : Gen.Code.streamHandler) (ctx : GoRT.Opaque "context.Context") (conn : Tie.Handle.Conn)
    (cm : GoRT.Opaque "service.TCPConnMetrics")
    (rc' : Gen.Code.ReplayCache) (id : String) (c' : Tie.Handle.Conn) (st : Option String) (effs : List GoRT.Eff)
    (hrun : run (measure conn) = some (rc', id, c', st, effs)) :
    ∃ log, Gen.Code.streamHandler.Handle ctxDeadline measure since dial (authFnOf run) req disc noop now relay h ctx conn cm = some (h, log) ∧
      (match st with
       | some e => log = [Tie.Handle.measureEff conn] ++ Tie.Handle.armEffs (ctxDeadline ctx) now h.readTimeout (measure conn) ++
           [Tie.Handle.callAuth (measure conn), Tie.Handle.absorbEff (measure conn) (if cm = ⟨0⟩ then noop else cm) e,
            Tie.Handle.closedEff (if cm = ⟨0⟩ then noop else cm) e (since now), Tie.Handle.closeEff (measure conn)]
       | none => callsNamed "TCPConnMetrics.AddAuthenticated" log = 1 ∧ callsNamed "absorbProbe" log = 0 ∧
           callsNamed "TCPConnMetrics.AddClosed" log = 1 ∧
           Tie.Handle.authEff (if cm = ⟨0⟩ then noop else cm) id ∈ log) := by
  rw [Tie.Handle.handle_tie]
  refine ⟨_, rfl, ?_⟩
  have ha : authFnOf run (measure conn) = (id, c', st) := by simp [authFnOf, hrun]
  unfold Tie.Handle.outcome
  simp only [ha]
  cases st with
  | some e => simp [Tie.Handle.statusOf]
  | none =>
    unfold callsNamed Tie.Handle.armEffs
    cases hr : (req c').2 with
    | some e => cases (ctxDeadline ctx).2 <;> simp [Tie.Handle.authEff, Tie.Handle.clearEff, Tie.Handle.drainEff, Tie.Handle.callAuth, Tie.Handle.callReq, Tie.Handle.measureEff, Tie.Handle.closedEff, Tie.Handle.closeEff, Tie.Handle.statusOf]
    | none => cases (ctxDeadline ctx).2 <;> simp [Tie.Handle.authEff, Tie.Handle.clearEff, Tie.Handle.callAuth, Tie.Handle.callReq, Tie.Handle.callRelay, Tie.Handle.measureEff, Tie.Handle.closedEff, Tie.Handle.closeEff, Tie.Handle.statusOf]

/-- non-vacuity: a run that refuses with ERR_CIPHER, on a context without deadline -/
example : ∃ log, Gen.Code.streamHandler.Handle (fun _ => (0, false)) id (fun t => t + 3) ⟨0⟩
      (authFnOf (fun _ => some (Gen.Code.ReplayCache.zero, "", ⟨0⟩, some "ERR_CIPHER", []))) (fun _ => ("", none)) ⟨0⟩ ⟨1⟩ 100
      (fun _ _ _ _ _ _ => none) Gen.Code.streamHandler.zero ⟨0⟩ ⟨7⟩ ⟨9⟩ = some (Gen.Code.streamHandler.zero, log) ∧
    log.map (·.name) = ["call MeasureConn", "Conn.SetReadDeadline", "call authenticate", "absorbProbe", "TCPConnMetrics.AddClosed", "Conn.Close"] := by
  obtain ⟨log, h1, h2⟩ := code_tcp_connection_end_to_end (fun _ => (0, false)) id (fun t => t + 3) ⟨0⟩
    (fun _ => some (Gen.Code.ReplayCache.zero, "", ⟨0⟩, some "ERR_CIPHER", [])) (fun _ => ("", none)) ⟨0⟩ ⟨1⟩ 100
    (fun _ _ _ _ _ _ => none) Gen.Code.streamHandler.zero ⟨0⟩ ⟨7⟩ ⟨9⟩ Gen.Code.ReplayCache.zero "" ⟨0⟩ (some "ERR_CIPHER") [] rfl
  refine ⟨log, h1, ?_⟩
  simp only at h2
  rw [h2]
  decide

end OutlineModel.Props.C15
