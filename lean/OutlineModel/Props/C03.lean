import OutlineModel.Proofs.TieMisc
import OutlineModel.Proofs.UDP
import OutlineModel.Gen.Consts
import OutlineModel.Gen.Ciphers
import OutlineModel.Gen.Wiring
/-
C03 — Every forwarded UDP datagram is authenticated, attributed and intact.

Model: Model/UDP.lean (`upstream` = one client datagram through packetHandler.Handle,
`relayReply`/`downstream` = one target datagram through timedCopy), tied to service/udp.go by the
`udp` correspondence campaign (real handler, real sockets, spec-level cryptography in the harness).
Cryptography is a contract: `opens` is the set of key references under which the datagram
authenticates, `plain` the plaintext it then yields; `shadowsocks.Pack(key, plaintext)` produces
`salt ‖ seal(key, plaintext)` with a salt drawn from the RNG on every call (SDK contract).
-/
namespace OutlineModel.Props.C03
open OutlineModel OutlineModel.UDP OutlineModel.CipherList OutlineModel.Socks

variable (dnsPort : Nat) (ki : KeyInfo) (validate : List UInt8 → IP.Verdict) (resolve : Target → Resolved)

/-- **forward_implies_auth**: a datagram is written to a target only if it authenticates — for a new
    client address under the key of some configured entry, for a known client address under the key
    that opened the association — and what is written is exactly the plaintext after its address
    header, from the association's own socket, to an address that passed the validator. -/
theorem forward_implies_auth (st : State) (client : String) (cip : Option Nat) (wire : Nat) (opens : List Nat)
    (plain : List UInt8) (sock : Nat) (ip : List UInt8) (port : Nat) (payload : List UInt8)
    (h : Eff.send sock ip port payload ∈ (upstream dnsPort ki validate resolve st client cip wire opens plain).2) :
    ((lookupNat st.nat client = none ∧ ∃ e ∈ st.list, opens.contains e.key = true) ∨
     (∃ a, lookupNat st.nat client = some a ∧ opens.contains a.key = true ∧ sock = a.sock)) ∧
    (∃ n, splitAddrLen plain = some n ∧ payload = plain.drop n) ∧ validate ip = .ok := by
  unfold upstream at h
  cases hn : lookupNat st.nat client with
  | none =>
    simp only [hn] at h
    cases hl : lookup st.list cip (fun k => opens.contains k) with
    | mk list' found =>
      simp only [hl] at h
      cases found with
      | none => simp at h
      | some ei =>
        obtain ⟨e, i⟩ := ei
        have hfound := lookup_found st.list cip (fun k => opens.contains k) e i (by rw [hl])
        simp only at h
        cases hv : validatePacket validate resolve plain with
        | error p => simp [hv] at h
        | ok r =>
          cases r with
          | error s => simp [hv] at h
          | ok t =>
            obtain ⟨pl, ip', port'⟩ := t
            simp [hv] at h
            obtain ⟨_, rfl, rfl, rfl⟩ := h
            obtain ⟨n, hs, hp, hval⟩ := validatePacket_ok validate resolve plain _ _ _ hv
            exact ⟨Or.inl ⟨rfl, e, hfound.1, hfound.2⟩, ⟨n, hs, hp⟩, hval⟩
  | some a =>
    simp only [hn] at h
    by_cases ho : opens.contains a.key = true
    · simp only [ho, if_true] at h
      cases hv : validatePacket validate resolve plain with
      | error p => simp [hv] at h
      | ok r =>
        cases r with
        | error s => simp [hv] at h
        | ok t =>
          obtain ⟨pl, ip', port'⟩ := t
          simp [hv] at h
          obtain ⟨rfl, rfl, rfl, rfl⟩ := h
          obtain ⟨n, hs, hp, hval⟩ := validatePacket_ok validate resolve plain _ _ _ hv
          exact ⟨Or.inr ⟨a, rfl, ho, rfl⟩, ⟨n, hs, hp⟩, hval⟩
    · rw [if_neg ho] at h
      simp at h

/-- **udp_find_complete**: a datagram from a new client address that authenticates under the key of
    ANY configured entry — whatever the list order, cipher mix, most-recently-used state or client
    IP — is recognised (the key search reports success). -/
theorem udp_find_complete (st : State) (client : String) (cip : Option Nat) (wire : Nat) (opens : List Nat)
    (plain : List UInt8) (hn : lookupNat st.nat client = none) (e : Entry) (he : e ∈ st.list)
    (ho : opens.contains e.key = true) :
    Eff.search true ∈ (upstream dnsPort ki validate resolve st client cip wire opens plain).2 := by
  unfold upstream
  simp only [hn]
  cases hl : lookup st.list cip (fun k => opens.contains k) with
  | mk list' found =>
    cases found with
    | none =>
      have := (lookup_none_iff st.list cip (fun k => opens.contains k)).1 (by rw [hl]) e he
      rw [ho] at this
      exact absurd this (by simp)
    | some ei =>
      obtain ⟨e', i⟩ := ei
      simp only
      cases validatePacket validate resolve plain with
      | error p => simp
      | ok r => cases r with
        | error s => simp
        | ok t => obtain ⟨pl, ip', port'⟩ := t; simp

/-- **no_key_no_effects**: a datagram from a new client address that authenticates under no configured
    key causes nothing but the failed-search report: no association, no outbound datagram, no socket. -/
theorem no_key_no_effects (st : State) (client : String) (cip : Option Nat) (wire : Nat) (opens : List Nat)
    (plain : List UInt8) (hn : lookupNat st.nat client = none)
    (hno : ∀ e ∈ st.list, opens.contains e.key = false) :
    upstream dnsPort ki validate resolve st client cip wire opens plain = (st, [.search false]) := by
  unfold upstream
  simp only [hn]
  have hnone := (lookup_none_iff st.list cip (fun k => opens.contains k)).2 hno
  have hlist := lookup_none_list st.list cip (fun k => opens.contains k) hnone
  cases hl : lookup st.list cip (fun k => opens.contains k) with
  | mk list' found =>
    rw [hl] at hnone hlist
    simp only at hnone hlist
    subst hnone hlist
    rfl

/-- **known_client_uses_association_key**: on a live association a datagram that does not authenticate
    under the association's own key is not forwarded, even if another configured key opens it. -/
theorem known_client_uses_association_key (st : State) (client : String) (cip : Option Nat) (wire : Nat)
    (opens : List Nat) (plain : List UInt8) (a : Assoc) (hn : lookupNat st.nat client = some a)
    (ho : opens.contains a.key = false) :
    upstream dnsPort ki validate resolve st client cip wire opens plain = (st, [.search false, .report "ERR_CIPHER" wire 0]) := by
  unfold upstream
  simp only [hn]
  have hne : ¬ (opens.contains a.key = true) := by rw [ho]; simp
  rw [if_neg hne]

/-- **reply_layout**: a datagram from an IPv4 (4 bytes or IPv4-mapped) or IPv6 source that fits the
    buffer is relayed to the association's client as `salt ‖ seal(key_assoc, srcaddr ‖ body)`: the
    association's own key, the true source address (7 or 19 header bytes), the unmodified body;
    padding in front of the salt is never part of what is sent.  Uses the generated buffer size and
    `maxAddrLen`. -/
theorem reply_layout (a : Assoc) (srcIP : List UInt8) (srcPort : Nat) (body : List UInt8)
    (hsrc : srcIP.length = 4 ∨ srcIP.length = 16)
    (hfit : a.saltSize + Gen.maxAddrLen + body.length + a.tagSize ≤ Gen.serverUDPBufferSize) :
    relayReply Gen.serverUDPBufferSize Gen.maxAddrLen a srcIP srcPort body =
      [.toClient a.client a.key (encodeIP srcIP srcPort ++ body) (a.saltSize + (encodeIP srcIP srcPort ++ body).length + a.tagSize),
       .fromTarget "OK" body.length (a.saltSize + (encodeIP srcIP srcPort ++ body).length + a.tagSize)] := by
  have hmax : 19 ≤ Gen.maxAddrLen := by decide
  have := encodeIP_length srcIP srcPort hsrc
  exact relayReply_ok _ _ a srcIP srcPort body (by omega) hfit

/-- **truncation_never_relayed**: a target datagram that filled the read buffer (so the kernel may have
    truncated it) is dropped with ERR_PACK, never relayed modified — for every cipher of the
    generated table. -/
theorem truncation_never_relayed (a : Assoc) (srcIP : List UInt8) (srcPort : Nat) (body : List UInt8)
    (hsrc : srcIP.length = 4 ∨ srcIP.length = 16)
    (hc : ∃ c ∈ Gen.ciphers, a.saltSize = c.saltSize ∧ a.tagSize = c.tagSize)
    (hfull : body.length = Gen.serverUDPBufferSize - (a.saltSize + Gen.maxAddrLen)) :
    relayReply Gen.serverUDPBufferSize Gen.maxAddrLen a srcIP srcPort body = [.fromTarget "ERR_PACK" body.length 0] := by
  have hmax : 19 ≤ Gen.maxAddrLen := by decide
  have htab : ∀ c ∈ Gen.ciphers, c.saltSize + Gen.maxAddrLen ≤ Gen.serverUDPBufferSize ∧ 0 < c.tagSize := by decide
  obtain ⟨c, hcm, hs, ht⟩ := hc
  have := htab c hcm
  have := encodeIP_length srcIP srcPort hsrc
  exact relayReply_truncated _ _ a srcIP srcPort body (by omega) (by omega) hfull (by omega)

/-- **wiring**: the trial decryption of a first datagram writes into a buffer that is a local of the
    Handle call and distinct from the received datagram (a failed trial under one key cannot destroy
    the input for the next key, and listeners do not share it); the datagram is written to the
    validated address (generated facts). -/
theorem wiring : Gen.Wiring.udpTrialBuffersLocalAndDistinct = true ∧ Gen.Wiring.udpWritesToValidatedAddress = true ∧
    Gen.Wiring.udpValidatesBothBranches = true := by decide

/- non-vacuity -/
example : relayReply Gen.serverUDPBufferSize Gen.maxAddrLen
    { client := "c", sock := 0, key := 0, keyId := "k", saltSize := 32, tagSize := 16 } [203, 0, 113, 10] 53 [1, 2, 3] =
    [.toClient "c" 0 ([1, 203, 0, 113, 10, 0, 53, 1, 2, 3]) 58, .fromTarget "OK" 3 58] := by decide


/-! ### The UDP key search, about the code itself

`Gen.Code.findAccessKeyUDP` is TRANSLATED from service/udp.go on every run (extract/golean.go); the key list is an interface
(its snapshot is a parameter, its `MarkUsedByClientIP` call is recorded in the function's effect log), `shadowsocks.Unpack` is
a parameter. -/

/-- **code_findAccessKeyUDP**: the translated search never panics; over ANY snapshot (any key list, order, cipher mix) it
    returns the plaintext, id and key of the first entry whose key opens the datagram and marks exactly that entry used; if no
    key opens it: an error, no plaintext, no call on the list -/
theorem code_findAccessKeyUDP
    (unpack : List UInt8 → List UInt8 → GoRT.Opaque "shadowsocks.EncryptionKey" → List UInt8 × Option String)
    (snapOf : GoRT.Opaque "service.CipherList" → GoRT.Opaque "netip.Addr" → List (GoRT.ListElem Gen.Code.CipherEntry))
    (dst src : List UInt8) (cl : GoRT.Opaque "service.CipherList") (ip : GoRT.Opaque "netip.Addr") (l : GoRT.Opaque "slog.Logger") :
    Gen.Code.findAccessKeyUDP snapOf unpack ip dst src cl l =
      some (match (snapOf cl ip).find? (fun e => Tie.Misc.opensU unpack dst src e.Value.CryptoKey) with
        | some e => ((unpack dst src e.Value.CryptoKey).1, e.Value.ID, e.Value.CryptoKey, none, [Tie.Misc.markEff cl ip e])
        | none => ([], "", ⟨0⟩, some "could not find valid UDP cipher", [])) :=
  Tie.Misc.findAccessKeyUDP_tie unpack dst src cl ip snapOf l

end OutlineModel.Props.C03
