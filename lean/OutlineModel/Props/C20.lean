import OutlineModel.Proofs.TieIP
import OutlineModel.Model.IPInfo
import OutlineModel.Model.Metrics
import OutlineModel.Proofs.IP
import OutlineModel.Gen.MetricTable
import OutlineModel.Gen.Decisions
/-
C20 — Metrics never expose client addresses and label locations by class.

Classification: Model/IPInfo (GetIPInfoFromAddr / GetIPInfoFromIP), tied to ipinfo/ipinfo.go by the
`ipinfo` campaign (every address form × database behaviour, recording fake database).
Exposure: Gen/MetricTable — every collector with its label names and, for every label value
written anywhere, the provenance class of the expression (typed backward tracing through
parameters and call sites, regenerated on every run); the obligation is decided over the whole
table.  The `metrics` campaign scans the real exposition for every textual form of distinctive
client addresses and ports.
-/
namespace OutlineModel.Props.C20
open OutlineModel OutlineModel.IPInfo OutlineModel.IP

/-- **classify_total_and_by_class**: the location label is decided by the class of the address alone, in this
    order: XA when it cannot be parsed; else empty when lookup is disabled; else XL when the address
    is not global unicast; else XD on a database error; else ZZ when the database has no country;
    else the database's answer. -/
theorem classify_total_and_by_class (db : DB) (p : Parsed) :
    (fromAddr db p).label =
      match p with
      | .nilAddr => "XA" | .noHostPort => "XA" | .notIP => "XA"
      | .ip b =>
        match db with
        | .disabled => ""
        | .answers c => if b.isEmpty then "XA" else if !isGlobalUnicast b then "XL" else if c == "" then "ZZ" else c
        | .fails _ => if b.isEmpty then "XA" else if !isGlobalUnicast b then "XL" else "XD" := by
  cases p with
  | nilAddr => rfl
  | noHostPort => rfl
  | notIP => rfl
  | ip b =>
    cases db with
    | disabled => rfl
    | answers c =>
      simp only [fromAddr, fromIP]
      by_cases h1 : b.isEmpty <;> by_cases h2 : isGlobalUnicast b <;> simp [h1, h2]
    | fails c =>
      simp only [fromAddr, fromIP]
      by_cases h1 : b.isEmpty <;> by_cases h2 : isGlobalUnicast b <;> simp [h1, h2]

/-- **local_never_consults_db**: the database is consulted only for parseable, global-unicast addresses
    with lookup enabled — never for loopback, link-local, multicast, unspecified, broadcast or
    unparseable addresses (all 2^32 + 2^128 values: `isGlobalUnicast` is the predicate of C05). -/
theorem local_never_consults_db (db : DB) (p : Parsed) (h : (fromAddr db p).dbCalls ≠ 0) :
    ∃ b, p = .ip b ∧ isGlobalUnicast b = true ∧ db ≠ .disabled := by
  cases p with
  | nilAddr => simp [fromAddr] at h
  | noHostPort => simp [fromAddr] at h
  | notIP => simp [fromAddr] at h
  | ip b =>
    refine ⟨b, rfl, ?_⟩
    cases db with
    | disabled => simp [fromAddr, fromIP] at h
    | answers c =>
      simp only [fromAddr, fromIP] at h
      by_cases h1 : b.isEmpty <;> by_cases h2 : isGlobalUnicast b <;> simp [h1, h2] at h ⊢
    | fails c =>
      simp only [fromAddr, fromIP] at h
      by_cases h1 : b.isEmpty <;> by_cases h2 : isGlobalUnicast b <;> simp [h1, h2] at h ⊢

/-- the loopback / link-local / multicast / unspecified classes are exactly "not global unicast" for
    IPv4: XL applies to them (restating C05's predicate on 4-byte addresses) -/
theorem xl_classes_v4 (a b c d : UInt8) (hl : a = 127 ∨ (a = 169 ∧ b = 254) ∨ (a = 0 ∧ b = 0 ∧ c = 0 ∧ d = 0)) :
    (fromAddr (.answers "US") (.ip [a, b, c, d])).label = "XL" := by
  have hng : isGlobalUnicast [a, b, c, d] = false := by
    rcases hl with rfl | ⟨rfl, rfl⟩ | ⟨rfl, rfl, rfl, rfl⟩ <;>
      simp [isGlobalUnicast, equal, isUnspecified, isLoopback, isMulticast, isLinkLocalUnicast, to4, ipv4bcast, ipv4zero, ipv4,
        v4InV6Prefix, ipv6unspecified]
  simp [fromAddr, fromIP, hng]

/-- **one_label_per_address**: the connection / data-byte collectors (GetIPInfoFromAddr on the parsed
    address) and the tunnel-time collector (GetIPInfoFromIP on the same IP bytes, zone dropped by
    both) give one client address one label. -/
theorem one_label_per_address (db : DB) (b : List UInt8) : (fromAddr db (.ip b)).label = (fromIP db b).label := rfl

/-- **labels_never_from_client_addr**: over the whole generated table, every label value written to any
    collector has a provenance class from the allowed set (constants, status constants, access-key
    id, country / ASN / AS organisation, protocol, direction, the server's own listen address,
    version); none is `clientAddr` or `unknown`; and every label name is in the fixed set. -/
theorem labels_never_from_client_addr :
    (∀ s ∈ Gen.MetricTable.labelSites, ∀ c ∈ s.2.2, c ∈ Gen.MetricTable.allowedClasses) ∧
    (∀ m ∈ Gen.MetricTable.collectors, ∀ l ∈ m.2, l ∈ Gen.MetricTable.allowedLabelNames) ∧
    Gen.MetricTable.complete = true := by decide

/-- **values_from_counts_only**: metric VALUES are built only from byte counts, durations and unit
    increments (provenance classes of every Add/Observe/Set argument). -/
theorem values_from_counts_only : ∀ s ∈ Gen.MetricTable.valueSites, s.2 ∈ Gen.MetricTable.allowedValueClasses := by decide


/-- **label_constants_as_modelled**: the four label constants of ipinfo/ipinfo.go are the ones `Model/IPInfo` uses
    (regenerated table).  The ORDER of the guards of GetIPInfoFromAddr / GetIPInfoFromIP and the position of the single
    database call used to be syntactic tables here; they are now proved about the translated functions
    (`code_getIPInfoFromIP`, `code_getIPInfoFromAddr`), which a harmless rewrite of the guards does not disturb. -/
theorem label_constants_as_modelled :
    Gen.Decisions.ipInfoLabels = [("errParseAddr", "XA"), ("localLocation", "XL"), ("errDbLookupError", "XD"), ("unknownLocation", "ZZ")] := by decide

/-- **probe_label_values_fixed**: the `error` label of the probe histogram takes one of three literals;
    no return of drainErrToString is computed from the error (which would carry both endpoints). -/
theorem probe_label_values_fixed :
    Gen.Decisions.drainResults = ["eof", "other", "timeout"] ∧ Gen.Decisions.drainReturnsNonLiteral = false := by decide


/-! ### The same classification, about the code itself

`Gen.Code.GetIPInfoFromIP` is TRANSLATED from ipinfo/ipinfo.go on every run (extract/golean.go); the database is a
parameter (any function), `IsGlobalUnicast` is the prelude's. -/

/-- the translated `GetIPInfoFromIP` never panics; its country label and error flag are the model's, for every
    database behaviour (`Tie.IP.dbOf` reads the database parameter as the model's `DB`) and every byte string -/
theorem code_getIPInfoFromIP (get : GoRT.Opaque "ipinfo.IPInfoMap" → List UInt8 → Gen.Code.IPInfo × Option String)
    (ip2info : GoRT.Opaque "ipinfo.IPInfoMap") (ip : List UInt8) :
    (Gen.Code.GetIPInfoFromIP get ip2info ip).map (fun r => (r.1.CountryCode, r.2.isSome)) =
      some ((fromIP (Tie.IP.dbOf get ip2info ip) ip).label, (fromIP (Tie.IP.dbOf get ip2info ip) ip).isErr) :=
  Tie.IP.getIPInfoFromIP_tie get ip2info ip


/-- **code_getIPInfoFromAddr**: the translated `GetIPInfoFromAddr` (what every collector calls with the client address): as long as
    `strings.IndexByte` answers an offset inside the string, it never panics and the label and error flag are the model's
    `fromAddr` of the parse outcome — XA for a nil address, a host:port that does not split, or a host that is no IP literal
    AFTER an IPv6 zone has been dropped (the repaired defect ecd4461 lives here); otherwise the class of the IP, decided as in
    `code_getIPInfoFromIP`.  `net.SplitHostPort`, `net.ParseIP`, `strings.IndexByte`, `addr.String()` and the database are
    parameters. -/
theorem code_getIPInfoFromAddr (str : GoRT.Opaque "net.Addr" → String)
    (get : GoRT.Opaque "ipinfo.IPInfoMap" → List UInt8 → Gen.Code.IPInfo × Option String)
    (idx : String → UInt8 → Int) (parseIP : String → List UInt8) (split : String → String × String × Option String)
    (ip2info : GoRT.Opaque "ipinfo.IPInfoMap") (addr : GoRT.Opaque "net.Addr") (hidx : ∀ h, idx h 37 ≤ GoRT.strLen h) :
    (Gen.Code.GetIPInfoFromAddr str get idx parseIP split ip2info addr).map (fun r => (r.1.CountryCode, r.2.isSome)) =
      some ((fromAddr (Tie.IP.dbOf get ip2info (parseIP (Tie.IP.hostOf idx (split (str addr)).1))) (Tie.IP.parsedOf str idx parseIP split addr)).label,
            (fromAddr (Tie.IP.dbOf get ip2info (parseIP (Tie.IP.hostOf idx (split (str addr)).1))) (Tie.IP.parsedOf str idx parseIP split addr)).isErr) :=
  Tie.IP.getIPInfoFromAddr_tie str get idx parseIP split ip2info addr hidx

end OutlineModel.Props.C20
