import OutlineModel.Proofs.TieNatConn
import OutlineModel.Model.NatConn
import OutlineModel.Props.C16
import OutlineModel.Gen.Consts
/-
C14 — UDP associations live as long as promised and are always reclaimed.

Deadline logic: Model/NatConn (natconn.onWrite / onRead with an explicit clock), tied to the code by
the `natconn` campaign (real natconn over a recording PacketConn, through the `verif` hook) and by
the generated constants (17 s DNS timeout, the "53" port test).  Life-cycle (removed exactly once,
socket closed, shutdown): Model/UDP, shared with C04/C16.
Real-time bounds ("within bounded time") are outside a theorem; the `udp`/`natlife` campaigns observe them.
-/
namespace OutlineModel.Props.C14
open OutlineModel OutlineModel.NatConn

/-- "in sync, or already expired": the socket's deadline is the recorded one, or lies in the past -/
def J (c : S) (now : Nat) : Prop :=
  match c.sock with
  | none => c.rd = 0
  | some d => d = c.rd ∨ d ≤ now

theorem J_init (now : Nat) : J init now := by simp [J, init]

theorem J_write (c : S) (dns : Bool) (now now' timeout dnsTimeout : Nat) (h : J c now) (hm : now ≤ now') (hpos : 0 < now') :
    J (onWrite c dns now' timeout dnsTimeout).1 now' := by
  unfold J onWrite at *
  by_cases hc : now' + (if dns = true then dnsTimeout else timeout) > c.rd
  · simp [hc]
  · simp only [hc, if_false]
    cases hs : c.sock with
    | none => simp [hs] at h ⊢; omega
    | some d => simp [hs] at h ⊢; omega

theorem J_read (c : S) (dns : Bool) (now now' : Nat) (h : J c now) (hm : now ≤ now') :
    J (onRead c dns now').1 now' := by
  unfold J onRead at *
  by_cases ha : c.armed = true <;> by_cases hd : dns = true <;> simp [ha, hd]
  all_goals (cases hs : c.sock with
    | none => simp [hs] at h ⊢ <;> omega
    | some d => simp [hs] at h ⊢ <;> omega)

/-- **promise_kept**: a client datagram handled at time `now` on an association that is new, or whose
    socket deadline has not passed yet, leaves the socket deadline at least `now + timeout` for a
    non-DNS destination and at least `now + 17 s` (generated constant) for a DNS destination —
    for ANY configured timeout (also below 17 s), any earlier history. -/
theorem promise_kept (c : S) (dns : Bool) (now timeout : Nat) (h : J c now) (hpos : 0 < now)
    (alive : c.sock = none ∨ ∃ d, c.sock = some d ∧ now < d) :
    ∃ d, (onWrite c dns now timeout Gen.dnsTimeoutNs).1.sock = some d ∧
      now + (if dns then Gen.dnsTimeoutNs else timeout) ≤ d := by
  unfold J at h
  unfold onWrite
  by_cases hc : now + (if dns = true then Gen.dnsTimeoutNs else timeout) > c.rd
  · simp only [hc, if_true]
    exact ⟨_, rfl, Nat.le_refl _⟩
  · simp only [hc, if_false]
    rcases alive with hn | ⟨d, hd, hlt⟩
    · simp [hn] at h
      omega
    · simp [hd] at h
      refine ⟨d, hd, ?_⟩
      omega

/-- **deadline_monotone_except_fastclose**: a client datagram never moves the socket deadline earlier;
    the only step that does is the fast close on a DNS response. -/
theorem deadline_monotone_except_fastclose (c : S) (dns : Bool) (now timeout dnsTimeout : Nat) (d d' : Nat)
    (h : J c now) (hd : c.sock = some d) (hnow : now < d)
    (hd' : (onWrite c dns now timeout dnsTimeout).1.sock = some d') : d ≤ d' := by
  unfold J at h
  unfold onWrite at hd'
  simp [hd] at h
  by_cases hc : now + (if dns = true then dnsTimeout else timeout) > c.rd
  · simp [hc] at hd'; omega
  · simp [hc, hd] at hd'; omega

/-- the latch is armed exactly while the association's whole traffic is at most one DNS query -/
def A (c : S) : Prop :=
  (c.writes = 0 ↔ c.rd = 0) ∧ (c.armed = true → c.writes = c.dnsWrites ∧ c.writes ≤ 1 ∧ c.fired = false) ∧ c.dnsWrites ≤ c.writes

theorem A_init : A init := by simp [A, init]

theorem A_write (c : S) (dns : Bool) (now timeout dnsTimeout : Nat) (h : A c) (hpos : 0 < now) :
    A (onWrite c dns now timeout dnsTimeout).1 := by
  unfold A onWrite at *
  obtain ⟨h1, h2, h3⟩ := h
  by_cases hc : now + (if dns = true then dnsTimeout else timeout) > c.rd
  · simp only [hc, if_true]
    refine ⟨⟨fun h => by omega, fun h => by omega⟩, ?_, by split <;> omega⟩
    intro ha
    by_cases hd : dns = true <;> by_cases hf : c.rd = 0 <;> simp [hd, hf] at ha ⊢
    have h22 := h2 ha
    have hw := h1.2 hf
    refine ⟨by omega, by omega, h22.2.2⟩
  · simp only [hc, if_false]
    have hne : c.rd ≠ 0 := by omega
    refine ⟨⟨fun h => by omega, fun h => absurd h hne⟩, ?_, by split <;> omega⟩
    intro ha
    by_cases hd : dns = true <;> simp [hd, hne] at ha

theorem A_read (c : S) (dns : Bool) (now : Nat) (h : A c) : A (onRead c dns now).1 := by
  unfold A onRead at *
  obtain ⟨h1, h2, h3⟩ := h
  by_cases ha : c.armed = true <;> by_cases hd : dns = true <;> simp [ha, hd] <;> simp [ha] at h2 <;> omega

/-- **fastclose_exactly**: in every reachable state, a response makes the association expire at once
    iff the latch is still armed and the response comes from the DNS port; and the latch can only
    be armed when the association's whole client traffic was exactly at most one datagram, sent to
    the DNS port, with no response seen before.  Fast close fires at most once. -/
theorem fastclose_exactly (timeout dnsTimeout : Nat) (ops : List Op) (hpos : ∀ o ∈ ops, 0 < o.now) (dns : Bool) (now : Nat) :
    let c := run timeout dnsTimeout init ops
    ((onRead c dns now).1.fired = true ∧ c.fired = false ↔ (c.armed = true ∧ dns = true)) ∧
    (c.armed = true → c.writes = c.dnsWrites ∧ c.writes ≤ 1) := by
  intro c
  have hA : A c := by
    have : ∀ (s : S), A s → A (run timeout dnsTimeout s ops) := by
      induction ops with
      | nil => intro s h; exact h
      | cons o os ih =>
        intro s h
        have hpo := hpos o (by simp)
        apply ih (fun o' ho' => hpos o' (by simp [ho']))
        cases o with
        | write d n => exact A_write s d n _ _ h hpo
        | read d n => exact A_read s d n h
    exact this init A_init
  obtain ⟨_, h2, _⟩ := hA
  refine ⟨?_, fun ha => ⟨(h2 ha).1, (h2 ha).2.1⟩⟩
  unfold onRead
  by_cases ha : c.armed = true <;> by_cases hd : dns = true <;> simp [ha, hd]
  · exact (h2 ha).2.2

/-- **removed_exactly_once / socket_closed_and_entry_removed**: see C16.removed_exactly_once and
    C04.live_socket_open; restated here for the association life-cycle. -/
theorem removed_exactly_once (st : UDP.State) (inv : UDP.NatInv st) (client : String) :
    (UDP.expire (UDP.expire st client).1 client).2 = [] ∧
    ((UDP.lookupNat st.nat client).isSome → ∃ s, (UDP.expire st client).2 = [.natRemove client s]) :=
  C16.removed_exactly_once st inv client

theorem socket_closed_and_entry_removed (st : UDP.State) (client : String) (a : UDP.Assoc)
    (h : UDP.lookupNat st.nat client = some a) :
    UDP.lookupNat (UDP.expire st client).1.nat client = none ∧ a.sock ∈ (UDP.expire st client).1.closedSocks := by
  unfold UDP.expire
  simp only [h]
  constructor
  · unfold UDP.lookupNat
    rw [List.find?_eq_none]
    intro x hx
    have := (List.mem_filter.1 hx).2
    simpa using this
  · simp

/-- the generated constants are the documented ones -/
theorem constants : Gen.dnsTimeoutNs = 17000000000 ∧ Gen.dnsPort = "53" ∧ Gen.defaultNatTimeoutNs = 300000000000 := by
  decide

/- non-vacuity -/
example : (onRead (onWrite init true 5 300 17).1 true 6).1.fired = true := by decide
example : (onRead (onWrite (onWrite init true 5 300 17).1 true 6 300 17).1 true 7).1.fired = false := by decide


/-! ### The same deadline logic, about the code itself

`Gen.Code.natconn.onWrite` / `.onRead` are TRANSLATED from service/udp.go on every run (extract/golean.go);
`SetReadDeadline` calls are recorded in the `eff` field, `time.Now()` is the parameter `now`, `isDNS` is a
parameter.  For all inputs the translated functions never panic and simulate the model (relation
`Tie.NatConn.R`: same deadline, same latch, same last deadline set on the socket). -/

theorem code_onWrite_refines_model (isDNS : GoRT.Opaque "net.Addr" → Bool) (now timeout : Nat) (c : Gen.Code.natconn) (s : S)
    (addr : GoRT.Opaque "net.Addr") (hR : Tie.NatConn.R timeout c s) :
    ∃ c', Gen.Code.natconn.onWrite isDNS (now : Int) c addr = some c' ∧
      Tie.NatConn.R timeout c' (onWrite s (isDNS addr) now timeout Gen.dnsTimeoutNs).1 ∧
      c'.eff = c.eff ++ Tie.NatConn.effOf (onWrite s (isDNS addr) now timeout Gen.dnsTimeoutNs).2 :=
  Tie.NatConn.onWrite_tie isDNS now timeout c s addr hR

theorem code_onRead_refines_model (isDNS : GoRT.Opaque "net.Addr" → Bool) (now timeout : Nat) (c : Gen.Code.natconn) (s : S)
    (addr : GoRT.Opaque "net.Addr") (hR : Tie.NatConn.R timeout c s) :
    ∃ c', Gen.Code.natconn.onRead isDNS (now : Int) c addr = some c' ∧
      Tie.NatConn.R timeout c' (onRead s (isDNS addr) now).1 ∧
      c'.eff = c.eff ++ Tie.NatConn.effOf (onRead s (isDNS addr) now).2 :=
  Tie.NatConn.onRead_tie isDNS now timeout c s addr hR

/-- **code_promise_kept**: directly about the translated `onWrite`: after it, the deadline set on the socket
    (the last recorded `SetReadDeadline`) is at least `now + timeout` for a non-DNS destination and at least
    `now + 17 s` for a DNS one, whatever happened before. -/
theorem code_promise_kept (isDNS : GoRT.Opaque "net.Addr" → Bool) (now timeout : Nat) (c : Gen.Code.natconn) (s : S)
    (addr : GoRT.Opaque "net.Addr") (hR : Tie.NatConn.R timeout c s) (hJ : J s now) (hpos : 0 < now)
    (alive : s.sock = none ∨ ∃ d, s.sock = some d ∧ now < d) :
    ∃ (c' : Gen.Code.natconn) (d : Nat), Gen.Code.natconn.onWrite isDNS (now : Int) c addr = some c' ∧
      Tie.NatConn.lastSet c'.eff = some (d : Int) ∧
      (now + (if isDNS addr then Gen.dnsTimeoutNs else timeout) : Nat) ≤ d := by
  obtain ⟨c', h1, h2, _⟩ := Tie.NatConn.onWrite_tie isDNS now timeout c s addr hR
  obtain ⟨d, hd1, hd2⟩ := promise_kept s (isDNS addr) now timeout hJ hpos alive
  refine ⟨c', d, h1, ?_, hd2⟩
  rw [h2.2.2.2, hd1]; rfl

/- non-vacuity: the initial translated association is related to the model's initial state -/
example : Tie.NatConn.R 300 { Gen.Code.natconn.zero with defaultTimeout := 300 } init := by
  simp [Tie.NatConn.R, Gen.Code.natconn.zero, init, Tie.NatConn.lastSet]


/-- **code_history_refines_model**: every history of translated `onWrite` / `onRead` calls on a fresh association never
    panics and stays in the simulation relation with the model's run of the same history: after it, the deadline field,
    the latch and the LAST deadline set on the socket are the model's — so every theorem above about reachable model states
    (`fastclose_exactly`, the invariants J and A) is a statement about what the code has done to its socket. -/
theorem code_history_refines_model (isDNS : GoRT.Opaque "net.Addr" → Bool) (timeout : Nat) (os : List Tie.NatConn.COp) :
    ∃ c', Tie.NatConn.codeRun isDNS { Gen.Code.natconn.zero with defaultTimeout := (timeout : Int) } os = some c' ∧
      Tie.NatConn.R timeout c' (run timeout Gen.dnsTimeoutNs init (os.map (Tie.NatConn.absOp isDNS))) :=
  Tie.NatConn.codeRun_sim isDNS timeout os _ _ (Tie.NatConn.R_init timeout)

/-- **code_fastclose_latch**: after any history of translated calls (times > 0), the latch of the translated association is
    still armed (`fastClose = false`) only if its whole client traffic was at most one datagram, to the DNS port -/
theorem code_fastclose_latch (isDNS : GoRT.Opaque "net.Addr" → Bool) (timeout : Nat) (os : List Tie.NatConn.COp)
    (hpos : ∀ o ∈ os.map (Tie.NatConn.absOp isDNS), 0 < o.now) :
    ∃ c', Tie.NatConn.codeRun isDNS { Gen.Code.natconn.zero with defaultTimeout := (timeout : Int) } os = some c' ∧
      (c'.fastClose = false →
        (run timeout Gen.dnsTimeoutNs init (os.map (Tie.NatConn.absOp isDNS))).writes =
          (run timeout Gen.dnsTimeoutNs init (os.map (Tie.NatConn.absOp isDNS))).dnsWrites ∧
        (run timeout Gen.dnsTimeoutNs init (os.map (Tie.NatConn.absOp isDNS))).writes ≤ 1) := by
  obtain ⟨c', h1, h2⟩ := code_history_refines_model isDNS timeout os
  refine ⟨c', h1, fun hf => ?_⟩
  have harmed : (run timeout Gen.dnsTimeoutNs init (os.map (Tie.NatConn.absOp isDNS))).armed = true := by
    have := h2.2.2.1
    rw [hf] at this
    cases ha : (run timeout Gen.dnsTimeoutNs init (os.map (Tie.NatConn.absOp isDNS))).armed with
    | true => rfl
    | false => simp [ha] at this
  exact (fastclose_exactly timeout Gen.dnsTimeoutNs _ hpos true 0).2 harmed

/-- **code_every_write_and_read_goes_through_the_bookkeeping**: the translated `natconn.WriteTo` and `natconn.ReadFrom`
    (service/udp.go), for every socket behaviour: a write to a target is always preceded by `onWrite` for that
    destination (so the promise of `code_promise_kept` is armed before the datagram leaves) and is made on the wrapped
    socket of the association as `onWrite` left it; a read that FAILS leaves the association exactly as it was — no
    deadline is touched, the fast-close latch is not consumed; a read that succeeds runs `onRead` for the datagram's source and hands
    the socket's answer through unchanged. -/
theorem code_every_write_and_read_goes_through_the_bookkeeping
    (w : GoRT.Opaque "net.PacketConn" → List UInt8 → GoRT.Opaque "net.Addr" → Int × Option String)
    (rd : GoRT.Opaque "net.PacketConn" → List UInt8 → Int × GoRT.Opaque "net.Addr" × Option String)
    (isDNS : GoRT.Opaque "net.Addr" → Bool) (now : Int) (c : Gen.Code.natconn) (buf : List UInt8) (dst : GoRT.Opaque "net.Addr") :
    Gen.Code.natconn.WriteTo w isDNS now c buf dst =
      (Gen.Code.natconn.onWrite isDNS now c dst).map (fun c' => (c', w c'.PacketConn buf dst)) ∧
    ((rd c.PacketConn buf).2.2 ≠ none → Gen.Code.natconn.ReadFrom rd isDNS now c buf = some (c, rd c.PacketConn buf)) ∧
    ((rd c.PacketConn buf).2.2 = none → Gen.Code.natconn.ReadFrom rd isDNS now c buf =
      (Gen.Code.natconn.onRead isDNS now c (rd c.PacketConn buf).2.1).map (fun c' => (c', rd c.PacketConn buf))) := by
  refine ⟨Tie.NatConn.writeTo_tie w isDNS now c buf dst, ?_, ?_⟩
  · intro h; rw [Tie.NatConn.readFrom_tie]; simp [h]
  · intro h; rw [Tie.NatConn.readFrom_tie]; simp [h]

/-- **code_write_refines_model**: a whole `WriteTo` of the translated code, started in a state related to the model's,
    never panics, ends in a state related to the model's `onWrite`, and has recorded exactly the model's deadline calls. -/
theorem code_write_refines_model
    (w : GoRT.Opaque "net.PacketConn" → List UInt8 → GoRT.Opaque "net.Addr" → Int × Option String)
    (isDNS : GoRT.Opaque "net.Addr" → Bool) (now timeout : Nat) (c : Gen.Code.natconn) (s : S) (buf : List UInt8)
    (dst : GoRT.Opaque "net.Addr") (hR : Tie.NatConn.R timeout c s) :
    ∃ c' res, Gen.Code.natconn.WriteTo w isDNS (now : Int) c buf dst = some (c', res) ∧
      Tie.NatConn.R timeout c' (onWrite s (isDNS dst) now timeout Gen.dnsTimeoutNs).1 ∧
      c'.eff = c.eff ++ Tie.NatConn.effOf (onWrite s (isDNS dst) now timeout Gen.dnsTimeoutNs).2 := by
  obtain ⟨c', h1, h2, h3⟩ := code_onWrite_refines_model isDNS now timeout c s dst hR
  exact ⟨c', _, by rw [Tie.NatConn.writeTo_tie, h1]; rfl, h2, h3⟩

end OutlineModel.Props.C14
