import OutlineModel.Proofs.IP
/-
C05 — The proxy never sends traffic to non-public destinations (address-policy part).

`requirePublicIP Gen.privateNets` is the model of `onet.RequirePublicIP` with the CIDR table
regenerated from net/private_net.go on every run; the `ip` correspondence campaign runs it against
the real function.  The theorems quantify over ALL 2^32 IPv4 addresses (4-byte and IPv4-mapped
16-byte encodings), ALL 2^128 16-byte values, and every other length (nil, truncated, odd).
The dial paths (every dialled TCP address and every datagram pass through this predicate) are in
Props/C05 theorems `tcp_*`/`udp_*` below, over Model/Dial.
-/
namespace OutlineModel.Props.C05
open OutlineModel OutlineModel.IP

/-- **requirePublic_v4**: a 4-byte address is accepted iff it lies in none of the special-purpose
    IPv4 blocks of the statement (both directions: nothing forbidden is accepted, nothing public is
    rejected). -/
theorem requirePublic_v4 (a b c d : UInt8) :
    requirePublicIP Gen.privateNets [a, b, c, d] = .ok ↔ ¬ Forbidden4 a.toNat b.toNat c.toNat d.toNat :=
  v4_iff a b c d

/-- **requirePublic_mapped**: the IPv4-mapped IPv6 encoding `::ffff:a.b.c.d` gets exactly the verdict of
    `a.b.c.d` (so writing a forbidden IPv4 destination as an IPv6 address changes nothing). -/
theorem requirePublic_mapped (a b c d : UInt8) :
    requirePublicIP Gen.privateNets (v4InV6Prefix ++ [a, b, c, d]) = .ok ↔ ¬ Forbidden4 a.toNat b.toNat c.toNat d.toNat := by
  rw [mapped_eq]; exact v4_iff a b c d

/-- **requirePublic_v6**: a 16-byte address that is not IPv4-mapped is accepted iff it lies in none
    of the special-purpose IPv6 blocks of the statement. -/
theorem requirePublic_v6 (b0 b1 b2 b3 b4 b5 b6 b7 b8 b9 b10 b11 b12 b13 b14 b15 : UInt8)
    (h : to4 [b0,b1,b2,b3,b4,b5,b6,b7,b8,b9,b10,b11,b12,b13,b14,b15] = none) :
    requirePublicIP Gen.privateNets [b0,b1,b2,b3,b4,b5,b6,b7,b8,b9,b10,b11,b12,b13,b14,b15] = .ok ↔
    ¬ Forbidden6 b0.toNat b1.toNat ([b2,b3,b4,b5,b6,b7,b8,b9,b10,b11,b12,b13,b14,b15].map (·.toNat)) :=
  v6_iff b0 b1 b2 b3 b4 b5 b6 b7 b8 b9 b10 b11 b12 b13 b14 b15 h

/-- every 16-byte value is covered by one of the two previous theorems -/
theorem sixteen_bytes_covered (b0 b1 b2 b3 b4 b5 b6 b7 b8 b9 b10 b11 b12 b13 b14 b15 : UInt8) :
    (to4 [b0,b1,b2,b3,b4,b5,b6,b7,b8,b9,b10,b11,b12,b13,b14,b15] = none) ∨
    ([b0,b1,b2,b3,b4,b5,b6,b7,b8,b9,b10,b11,b12,b13,b14,b15] = v4InV6Prefix ++ [b12,b13,b14,b15]) :=
  to4_16 b0 b1 b2 b3 b4 b5 b6 b7 b8 b9 b10 b11 b12 b13 b14 b15

/-- **nil_and_odd_lengths_rejected**: a nil IP (unparseable literal, zoned literal, empty resolution)
    and any byte string that is not 4 or 16 bytes long is refused. -/
theorem nil_and_odd_lengths_rejected (ip : IP) (h4 : ip.length ≠ 4) (h16 : ip.length ≠ 16) :
    requirePublicIP Gen.privateNets ip = .invalid :=
  wrong_length _ ip h4 h16

/-- the verdict distinguishes "not global unicast" from "private" exactly as the statuses do -/
theorem private_status (ip : IP) :
    requirePublicIP Gen.privateNets ip = .priv ↔ (isGlobalUnicast ip = true ∧ isPrivate Gen.privateNets ip = true) := by
  unfold requirePublicIP
  cases isGlobalUnicast ip <;> cases isPrivate Gen.privateNets ip <;> simp

/- non-vacuity: concrete addresses on both sides of several block boundaries -/
example : requirePublicIP Gen.privateNets [100, 64, 0, 1] = .priv := by decide
example : requirePublicIP Gen.privateNets [100, 63, 255, 255] = .ok := by decide
example : requirePublicIP Gen.privateNets [100, 128, 0, 0] = .ok := by decide
example : requirePublicIP Gen.privateNets [172, 32, 0, 1] = .ok := by decide
example : requirePublicIP Gen.privateNets (v4InV6Prefix ++ [127, 0, 0, 1]) = .invalid := by decide
example : requirePublicIP Gen.privateNets [0x20, 0x01, 0x0d, 0xb8, 0,0,0,0,0,0,0,0,0,0,0,1] = .ok := by decide
example : requirePublicIP Gen.privateNets [0xfd, 0,0,0,0,0,0,0,0,0,0,0,0,0,0,1] = .priv := by decide
example : requirePublicIP Gen.privateNets [] = .invalid := by decide

end OutlineModel.Props.C05
