import OutlineModel.Proofs.TieIP
import OutlineModel.Proofs.IP
import OutlineModel.Proofs.UDP
import OutlineModel.Model.Dial
import OutlineModel.Gen.Wiring
import OutlineModel.Gen.Decisions
/-
C05 — The proxy never sends traffic to non-public destinations (address-policy part).

`requirePublicIP Gen.privateNets` is the model of `onet.RequirePublicIP` with the CIDR table
regenerated from net/private_net.go on every run; the `ip` correspondence campaign runs it against
the real function.  The theorems quantify over ALL 2^32 IPv4 addresses (4-byte and IPv4-mapped
16-byte encodings), ALL 2^128 16-byte values, and every other length (nil, truncated, odd).
The dial paths (every dialled TCP address and every datagram pass through this predicate) are in
Props/C05 theorems `tcp_*`/`udp_*` below, over Model/Dial.
-/
namespace OutlineModel.Props.C05
open OutlineModel OutlineModel.IP

/-- **requirePublic_v4**: a 4-byte address is accepted iff it lies in none of the special-purpose
    IPv4 blocks of the statement (both directions: nothing forbidden is accepted, nothing public is
    rejected). -/
theorem requirePublic_v4 (a b c d : UInt8) :
    requirePublicIP Gen.privateNets [a, b, c, d] = .ok ↔ ¬ Forbidden4 a.toNat b.toNat c.toNat d.toNat :=
  v4_iff a b c d

/-- **requirePublic_mapped**: the IPv4-mapped IPv6 encoding `::ffff:a.b.c.d` gets exactly the verdict of
    `a.b.c.d` (so writing a forbidden IPv4 destination as an IPv6 address changes nothing). -/
theorem requirePublic_mapped (a b c d : UInt8) :
    requirePublicIP Gen.privateNets (v4InV6Prefix ++ [a, b, c, d]) = .ok ↔ ¬ Forbidden4 a.toNat b.toNat c.toNat d.toNat := by
  rw [mapped_eq]; exact v4_iff a b c d

/-- **requirePublic_v6**: a 16-byte address that is not IPv4-mapped is accepted iff it lies in none
    of the special-purpose IPv6 blocks of the statement. -/
theorem requirePublic_v6 (b0 b1 b2 b3 b4 b5 b6 b7 b8 b9 b10 b11 b12 b13 b14 b15 : UInt8)
    (h : to4 [b0,b1,b2,b3,b4,b5,b6,b7,b8,b9,b10,b11,b12,b13,b14,b15] = none) :
    requirePublicIP Gen.privateNets [b0,b1,b2,b3,b4,b5,b6,b7,b8,b9,b10,b11,b12,b13,b14,b15] = .ok ↔
    ¬ Forbidden6 b0.toNat b1.toNat ([b2,b3,b4,b5,b6,b7,b8,b9,b10,b11,b12,b13,b14,b15].map (·.toNat)) :=
  v6_iff b0 b1 b2 b3 b4 b5 b6 b7 b8 b9 b10 b11 b12 b13 b14 b15 h

/-- every 16-byte value is covered by one of the two previous theorems -/
theorem sixteen_bytes_covered (b0 b1 b2 b3 b4 b5 b6 b7 b8 b9 b10 b11 b12 b13 b14 b15 : UInt8) :
    (to4 [b0,b1,b2,b3,b4,b5,b6,b7,b8,b9,b10,b11,b12,b13,b14,b15] = none) ∨
    ([b0,b1,b2,b3,b4,b5,b6,b7,b8,b9,b10,b11,b12,b13,b14,b15] = v4InV6Prefix ++ [b12,b13,b14,b15]) :=
  to4_16 b0 b1 b2 b3 b4 b5 b6 b7 b8 b9 b10 b11 b12 b13 b14 b15

/-- **nil_and_odd_lengths_rejected**: a nil IP (unparseable literal, zoned literal, empty resolution)
    and any byte string that is not 4 or 16 bytes long is refused. -/
theorem nil_and_odd_lengths_rejected (ip : IP) (h4 : ip.length ≠ 4) (h16 : ip.length ≠ 16) :
    requirePublicIP Gen.privateNets ip = .invalid :=
  wrong_length _ ip h4 h16

/-- the verdict distinguishes "not global unicast" from "private" exactly as the statuses do -/
theorem private_status (ip : IP) :
    requirePublicIP Gen.privateNets ip = .priv ↔ (isGlobalUnicast ip = true ∧ isPrivate Gen.privateNets ip = true) := by
  unfold requirePublicIP
  cases isGlobalUnicast ip <;> cases isPrivate Gen.privateNets ip <;> simp

/-- **tcp_only_validated_connects**: whatever the resolver answers (one address, several, mixed
    families, zoned literals that do not parse) and whichever attempts succeed, every address that
    gets a `connect` passed the validator. -/
theorem tcp_only_validated_connects (validate : List UInt8 → Verdict) (connects : List UInt8 → Bool) :
    ∀ (cands : List (Option (List UInt8))) (ip : List UInt8),
      ip ∈ (Dial.dialSerial validate connects cands).1 → validate ip = .ok := by
  intro cands
  induction cands with
  | nil => intro ip h; simp [Dial.dialSerial] at h
  | cons c rest ih =>
    intro ip h
    unfold Dial.dialSerial at h
    by_cases hc : Dial.control validate c = .ok
    · rw [if_pos hc] at h
      cases c with
      | none => exact ih ip h
      | some a =>
        simp only at h
        by_cases hcn : connects a = true
        · rw [if_pos hcn] at h
          simp at h; subst h; exact hc
        · rw [if_neg hcn] at h
          simp only [List.mem_cons] at h
          rcases h with rfl | h
          · exact hc
          · exact ih ip h
    · rw [if_neg hc] at h; exact ih ip h

theorem tcp_happy_eyeballs_validated (validate : List UInt8 → Verdict) (connects : List UInt8 → Bool)
    (p f : List (Option (List UInt8))) (ip : List UInt8) (h : ip ∈ Dial.dialParallel validate connects p f) :
    validate ip = .ok := by
  unfold Dial.dialParallel at h
  rcases List.mem_append.1 h with h | h
  · exact tcp_only_validated_connects validate connects p ip h
  · exact tcp_only_validated_connects validate connects f ip h

/-- with the default policy: no TCP `connect` to a forbidden IPv4 destination, however it was named -/
theorem tcp_default_policy_v4 (connects : List UInt8 → Bool) (cands : List (Option (List UInt8))) (a b c d : UInt8)
    (h : [a, b, c, d] ∈ (Dial.dialSerial (requirePublicIP Gen.privateNets) connects cands).1) :
    ¬ Forbidden4 a.toNat b.toNat c.toNat d.toNat :=
  (v4_iff a b c d).1 (tcp_only_validated_connects _ connects cands _ h)

/-- **udp_every_datagram_validated**: every datagram the UDP handler writes to a target — the first of
    an association or any later one — goes to an address for which the validator answered ok
    (restated from C03.forward_implies_auth for the policy). -/
theorem udp_every_datagram_validated (dnsPort : Nat) (ki : UDP.KeyInfo) (validate : List UInt8 → Verdict)
    (resolve : Socks.Target → UDP.Resolved) (st : UDP.State) (client : String) (cip : Option Nat) (wire : Nat)
    (opens : List Nat) (plain : List UInt8) (sock : Nat) (ip : List UInt8) (port : Nat) (payload : List UInt8)
    (h : UDP.Eff.send sock ip port payload ∈ (UDP.upstream dnsPort ki validate resolve st client cip wire opens plain).2) :
    validate ip = .ok := by
  rcases UDP.upstream_cases validate resolve dnsPort ki st client cip wire opens plain with
    ⟨_, _, hr⟩ | ⟨_, l', s, _, hr⟩ | ⟨_, l', e, pl, ip', port', _, _, hv, hr⟩ | ⟨a, _, _, pl, ip', port', hv, hr⟩ |
    ⟨a, _, _, s, _, _, hr⟩ | ⟨a, _, _, hr⟩
  all_goals (rw [hr] at h; simp at h)
  · obtain ⟨_, rfl, _, _⟩ := h
    exact (UDP.validatePacket_ok validate resolve plain _ _ _ hv).choose_spec.2.2
  · obtain ⟨_, rfl, _, _⟩ := h
    exact (UDP.validatePacket_ok validate resolve plain _ _ _ hv).choose_spec.2.2

/-- **wiring**: the source has the shapes these theorems are about (regenerated facts): the default
    TCP dialer validates every dialled IP with RequirePublicIP in its Control hook; the packet
    handler installs RequirePublicIP, validates on both branches, and writes to the validated address (that
    `validatePacket` consults the validator unconditionally is proved about the translated function: C04
    `code_association_only_for_allowed_destination`). -/
theorem wiring : Gen.Wiring.tcpDefaultDialerRequiresPublicIP = true ∧ Gen.Wiring.tcpControlValidatesEveryDialledIP = true ∧
    Gen.Wiring.udpDefaultValidatorRequiresPublicIP = true ∧ Gen.Wiring.udpValidatesBothBranches = true ∧
    Gen.Wiring.udpWritesToValidatedAddress = true := by decide

/- non-vacuity: concrete addresses on both sides of several block boundaries -/
example : requirePublicIP Gen.privateNets [100, 64, 0, 1] = .priv := by decide
example : requirePublicIP Gen.privateNets [100, 63, 255, 255] = .ok := by decide
example : requirePublicIP Gen.privateNets [100, 128, 0, 0] = .ok := by decide
example : requirePublicIP Gen.privateNets [172, 32, 0, 1] = .ok := by decide
example : requirePublicIP Gen.privateNets (v4InV6Prefix ++ [127, 0, 0, 1]) = .invalid := by decide
example : requirePublicIP Gen.privateNets [0x20, 0x01, 0x0d, 0xb8, 0,0,0,0,0,0,0,0,0,0,0,1] = .ok := by decide
example : requirePublicIP Gen.privateNets [0xfd, 0,0,0,0,0,0,0,0,0,0,0,0,0,0,1] = .priv := by decide
example : requirePublicIP Gen.privateNets [] = .invalid := by decide


/-- **policy_statuses_as_modelled**: the statuses net/private_net.go can construct are the two of `Model/IP.requirePublic`
    (regenerated table).  The ORDER of the tests of RequirePublicIP ("not global unicast", then the private-network
    table, else accept) used to be a second, syntactic table here; it is now proved about the translated function
    (`code_requirePublicIP`), which a harmless rewrite of the guards does not disturb. -/
theorem policy_statuses_as_modelled :
    Gen.Decisions.netStatuses = ["ERR_ADDRESS_INVALID", "ERR_ADDRESS_PRIVATE"] := by decide


/-! ### The same policy, about the code itself

`Gen.Code.RequirePublicIP` and `Gen.Code.IsPrivateAddress` are TRANSLATED from net/private_net.go on every run
(extract/golean.go); the net.IP predicates they call are the prelude's (Model/IP.lean). -/

/-- the translated `RequirePublicIP` never panics and returns exactly the model's verdict -/
theorem code_requirePublicIP (ip : IP) :
    (Gen.Code.RequirePublicIP ip).bind Tie.IP.verdictOf = some (requirePublicIP Gen.privateNets ip) :=
  Tie.IP.requirePublicIP_tie ip

/-- **code_requirePublic_v4**: the translated `RequirePublicIP` accepts (returns the nil error for) a 4-byte address
    exactly when it is outside every forbidden block: the whole IPv4 space, about the code as it is now. -/
theorem code_requirePublic_v4 (a b c d : UInt8) :
    Gen.Code.RequirePublicIP [a, b, c, d] = some none ↔ ¬ Forbidden4 a.toNat b.toNat c.toNat d.toNat := by
  rw [← requirePublic_v4]
  have h := Tie.IP.requirePublicIP_tie [a, b, c, d]
  cases hr : Gen.Code.RequirePublicIP [a, b, c, d] with
  | none => simp [hr] at h
  | some e =>
    simp only [hr, Option.bind_some] at h
    constructor
    · intro he
      simp only [Option.some.injEq] at he
      subst he
      simpa [Tie.IP.verdictOf] using h.symm
    · intro hok
      rw [hok] at h
      cases e with
      | none => rfl
      | some m =>
        exfalso
        unfold Gen.Code.RequirePublicIP at hr
        simp only [Tie.IP.isPrivate_tie] at hr
        cases hg : isGlobalUnicast [a, b, c, d] <;> cases hp : isPrivate Gen.privateNets [a, b, c, d] <;>
          simp [hg, hp] at hr <;> subst hr <;> simp [Tie.IP.verdictOf] at h

end OutlineModel.Props.C05
