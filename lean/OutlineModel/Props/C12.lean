import OutlineModel.Proofs.Shared
import OutlineModel.Gen.Wiring
/-
C12 — Shared listeners deliver each connection or datagram exactly once.

Model: Model/Shared.lean, a labelled transition system of one shared listener (service/listeners.go:
multiStreamListener / multiPacketListener and their virtual handles, reached through the
ListenerManager): acquire, arrival of an item (connection or datagram), a handle calling
AcceptStream / ReadFrom, the hand-over of an item to a blocked handle (the code's free choice is
carried by the event), close.  The theorems hold for EVERY event sequence — every interleaving of
the operations of any number of handles, closes that race with pending hand-overs, re-acquisition
after full release.  Tied to the code by the `shared` campaign: the real manager on real sockets,
random interleavings including operations issued at the same instant from different goroutines; the
harness linearises what it observed into events and the model must accept every one of them
("impossible" = the implementation did what the specification forbids), while independent oracles
watch for what the model cannot see (an item that is never handed over although a handle is
blocked, connections left hanging, calls that never return, goroutines and descriptors left).
That each event is atomic on the real code rests on the lock facts of C19/C13.
-/
namespace OutlineModel.Props.C12
open OutlineModel OutlineModel.Shared

/-- **delivered_exactly_once**: in every reachable state no item has been delivered twice, and a delivered
    item is neither still queued nor dropped. -/
theorem delivered_exactly_once {s : St} (h : Reachable s) :
    (s.delivered.map (·.1)).Nodup ∧ ∀ p ∈ s.delivered, p.1 ∉ s.queue ∧ p.1 ∉ s.dropped :=
  Shared.delivered_exactly_once h

/-- **nothing_lost**: every item that reached the socket is in exactly one of: queued, delivered, dropped. -/
theorem nothing_lost {s : St} (h : Reachable s) :
    (s.queue ++ s.delivered.map (·.1) ++ s.dropped).Perm s.seen ∧ s.seen.Nodup :=
  Shared.conservation h

/-- **never_lost_while_a_handle_is_open**: an item is dropped only by the step that closes the LAST open
    handle (then everything queued is closed rather than left hanging); and whenever an item is
    queued and a handle is blocked in accept/read the hand-over is possible. -/
theorem never_lost_while_a_handle_is_open {s s' : St} {e : Ev} (hr : Reachable s) (hs : step s e = some s') :
    (s'.dropped = s.dropped ∨
      (∃ h, e = .close h ∧ s.opened = [h] ∧ s'.opened = [] ∧ s'.dropped = s.dropped ++ s.queue ∧ s'.queue = [])) ∧
    (∀ i ∈ s.queue, ∀ h ∈ s.waiting, ∃ s'', step s (.deliver i h) = some s'') :=
  ⟨dropped_only_at_last_close (inv_reachable hr) hs, fun _ hq _ hw => deliver_enabled hq hw⟩

/-- **only_to_open_handles**: an item is handed only to a handle that is open and blocked in accept/read. -/
theorem only_to_open_handles {s s' : St} {i : Item} {h : Handle} (hr : Reachable s) (hs : step s (.deliver i h) = some s') :
    h ∈ s.opened ∧ h ∈ s.waiting ∧ h ∉ s.closedH ∧ i ∈ s.queue :=
  deliver_only_to_open_waiting hs (inv_reachable hr)

/-- **close_semantics**: closing a handle unblocks its pending call with the closed error, takes it out of
    the open set, and does not disturb the other handles or what was delivered. -/
theorem close_semantics {s s' : St} {h : Handle} (hr : Reachable s) (hs : step s (.close h) = some s') :
    h ∉ s'.opened ∧ h ∉ s'.waiting ∧ h ∈ s'.closedH ∧
    (h ∈ s.waiting → s'.errs = h :: s.errs) ∧ (h ∉ s.waiting → s'.errs = s.errs) ∧
    (∀ h', h' ≠ h → (h' ∈ s'.opened ↔ h' ∈ s.opened) ∧ (h' ∈ s'.waiting ↔ h' ∈ s.waiting)) ∧
    s'.delivered = s.delivered :=
  close_effect (inv_reachable hr) hs

/-- **closed_handle_stays_closed**: after any further events every call on a closed handle fails the same
    way, and no hand-over to it is possible. -/
theorem closed_handle_stays_closed {s s' : St} {evs : List Ev} {h : Handle} (hr : Reachable s) (hc : h ∈ s.closedH)
    (hrun : run s evs = some s') :
    step s' (.call h) = some { s' with errs := h :: s'.errs } ∧ ∀ i, step s' (.deliver i h) = none :=
  have h3 := closed_never_receives (inv_reachable hr) hc hrun
  ⟨call_on_closed h3.1, h3.2.2⟩

/-- **last_close_releases**: the socket is bound exactly while some handle is open; when the last one
    closes nothing stays queued and no call stays blocked; an arrival while nothing is bound is
    refused and never reaches anybody. -/
theorem last_close_releases {s : St} (h : Reachable s) :
    (s.opened = [] ↔ s.sock = false) ∧ (s.sock = false → s.queue = [] ∧ s.waiting = []) ∧
    (∀ i ∈ s.refused, i ∉ s.seen ∧ ∀ p ∈ s.delivered, p.1 ≠ i) :=
  ⟨(Shared.last_close_releases h).1, (Shared.last_close_releases h).2, refused_never_delivered h⟩

/-- the manager hands out only wrapped listeners built in one place (regenerated wiring fact) -/
theorem wiring : Gen.Wiring.managerReturnsOnlyWrappedListeners = true := by decide

/-! non-vacuity: two handles, a delivery, a close that unblocks a pending call, a last close that
    drops a queued item, a refused arrival, re-acquisition and a delivery to the new handle -/
example : (run {} demo).isSome = true := by decide
example : ((run {} demo).getD {}).delivered = [(13, 2), (10, 0)] ∧ ((run {} demo).getD {}).dropped = [11] ∧
    ((run {} demo).getD {}).errs = [1] ∧ ((run {} demo).getD {}).refused = [12] := by decide
example : run {} (demo ++ [.arrive 14, .deliver 14 1]) = none := by decide

end OutlineModel.Props.C12
