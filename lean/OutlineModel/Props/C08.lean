import OutlineModel.Proofs.TieMisc
import OutlineModel.Proofs.TieAuth
import OutlineModel.Proofs.TieSalt
import OutlineModel.Model.Auth
import OutlineModel.Proofs.CipherList
import OutlineModel.Gen.Consts
import OutlineModel.Gen.Ciphers
import OutlineModel.Gen.Wiring
/-
C08 — Server-issued salts are fresh, recognisable, and never accepted back.

Model: Model/Auth (getSalt / isServerSalt / marked / authenticate), tied to service/server_salt.go,
service/cipher_list.go and service/tcp.go by the `tcpauth` campaign (server-marked client salts built
by an independent HMAC implementation) and the `tcp` campaign (salts of real response streams).
HMAC is a parameter: theorems hold for every function `mac`.  Freshness of the random prefix is the
RNG contract; pairwise distinctness is checked empirically by the campaigns.
-/
namespace OutlineModel.Props.C08
open OutlineModel OutlineModel.Auth OutlineModel.CipherList

/-- **own_salt_recognised**: every salt the marking generator issues is recognised by it — for every
    HMAC, every random prefix, every mark length. -/
theorem own_salt_recognised (mac : List UInt8 → List UInt8) (markLen : Nat) (pre : List UInt8)
    (hmac : markLen ≤ (mac pre).length) :
    isServerSalt mac markLen (getSalt mac markLen pre) = true := by
  unfold isServerSalt getSalt
  have hl : ((mac pre).take markLen).length = markLen := by simp [List.length_take]; omega
  have hlen : (pre ++ (mac pre).take markLen).length = pre.length + markLen := by simp [hl]
  rw [hlen]
  have h1 : ¬ (pre.length + markLen < markLen) := by omega
  simp only [h1, if_false]
  have h2 : pre.length + markLen - markLen = pre.length := by omega
  rw [h2]
  simp

/-- **salt_injective_in_prefix**: distinct random prefixes give distinct salts, and the prefix has
    saltSize − markLen ≥ minSaltEntropy random bytes for every marked cipher of the generated table. -/
theorem salt_injective_in_prefix (mac : List UInt8 → List UInt8) (markLen : Nat) (p q : List UInt8)
    (hlen : p.length = q.length) (h : getSalt mac markLen p = getSalt mac markLen q) : p = q := by
  unfold getSalt at h
  exact (List.append_inj h hlen).1

/-- **marked_iff_salt_ge_20**: over the generated cipher table and generated constants, a cipher's salts
    are marked exactly when its salt has at least 20 bytes; then ≥ 16 random bytes remain. -/
theorem marked_iff_salt_ge_20 : ∀ c ∈ Gen.ciphers,
    (marked c.saltSize Gen.serverSaltMarkLen Gen.minSaltEntropy = true ↔ 20 ≤ c.saltSize) ∧
    (marked c.saltSize Gen.serverSaltMarkLen Gen.minSaltEntropy = true → 16 ≤ c.saltSize - Gen.serverSaltMarkLen) := by
  decide

/-- **reflected_refused**: a handshake whose salt the matched entry's generator recognises is refused
    as ERR_REPLAY_SERVER — for EVERY replay-cache state, including a disabled (capacity 0) and a
    nil cache — and the cache is not even consulted. -/
theorem reflected_refused (st : AuthState) (ip : Option Nat) (valid : Nat → Bool) (srvSalt : Entry → Bool)
    (hash : Entry → UInt32) (e : Entry) (i : Nat) (hf : (lookup st.list ip valid).2 = some (e, i)) (hs : srvSalt e = true) :
    (authenticate st ip true valid srvSalt hash).2.status = .errReplayServer ∧
    (authenticate st ip true valid srvSalt hash).2.id = e.id ∧
    (authenticate st ip true valid srvSalt hash).1.cache = st.cache := by
  unfold authenticate
  simp only [Bool.not_true, Bool.false_eq_true, if_false]
  cases hl : lookup st.list ip valid with
  | mk list' found =>
    rw [hl] at hf
    simp only at hf
    subst hf
    simp [hs]

/-- **not_reflected_goes_to_cache**: conversely ERR_REPLAY_SERVER is answered only for a salt the matched
    entry's generator recognises. -/
theorem replay_server_only_if_marked (st : AuthState) (ip : Option Nat) (enough : Bool) (valid : Nat → Bool)
    (srvSalt : Entry → Bool) (hash : Entry → UInt32)
    (h : (authenticate st ip enough valid srvSalt hash).2.status = .errReplayServer) :
    ∃ e i, (lookup st.list ip valid).2 = some (e, i) ∧ srvSalt e = true := by
  unfold authenticate at h
  cases enough with
  | false => simp at h
  | true =>
    simp only [Bool.not_true, Bool.false_eq_true, if_false] at h
    cases hl : lookup st.list ip valid with
    | mk list' found =>
      rw [hl] at h
      cases found with
      | none => simp at h
      | some ei =>
        obtain ⟨e, i⟩ := ei
        refine ⟨e, i, rfl, ?_⟩
        simp only at h
        by_cases hs : srvSalt e = true
        · exact hs
        · simp [hs] at h
          split at h <;> simp at h

/-- **wiring**: MakeCipherEntry marks iff enough entropy remains (generated fact; also proved about the translated
    function, `code_marked_iff_enough_entropy`).  That the authenticator tests the server mark before the replay cache and
    gives the response writer the matched entry's generator used to be two more syntactic facts; both are now proved
    about the translated authenticator (`code_server_salt_is_refused_before_the_cache`,
    `code_accepted_connection_writes_marked_salts`). -/
theorem wiring : Gen.Wiring.markedIffEnoughEntropy = true := by decide

/- non-vacuity -/
example : isServerSalt (fun p => p.reverse ++ [1, 2, 3, 4]) 4 (getSalt (fun p => p.reverse ++ [1, 2, 3, 4]) 4 [9, 8, 7, 6, 5]) = true := by decide
example : marked 16 4 16 = false ∧ marked 24 4 16 = true := by decide


/-! ### The recogniser, about the code itself

`Gen.Code.serverSaltGenerator.splitSalt / IsServerSalt` are TRANSLATED from service/server_salt.go on every run
(extract/golean.go); HMAC (`getTag`) is a parameter. -/

/-- the translated `IsServerSalt` never panics (given a tag of at least 4 bytes: HMAC-SHA1 has 20) and is the model's
    recogniser with the generated mark length, for every HMAC, key and salt, short salts included -/
theorem code_isServerSalt (getTag : Gen.Code.serverSaltGenerator → List UInt8 → List UInt8) (sg : Gen.Code.serverSaltGenerator)
    (salt : List UInt8) (htag : ∀ p, 4 ≤ (getTag sg p).length) :
    Gen.Code.serverSaltGenerator.IsServerSalt getTag sg salt = some (isServerSalt (getTag sg) Gen.serverSaltMarkLen salt) :=
  Tie.Salt.isServerSalt_tie getTag sg salt htag

/-- **code_own_salt_recognised**: the translated recogniser accepts every salt the model's generator issues -/
theorem code_own_salt_recognised (getTag : Gen.Code.serverSaltGenerator → List UInt8 → List UInt8) (sg : Gen.Code.serverSaltGenerator)
    (pre : List UInt8) (htag : ∀ p, 4 ≤ (getTag sg p).length) :
    Gen.Code.serverSaltGenerator.IsServerSalt getTag sg (getSalt (getTag sg) Gen.serverSaltMarkLen pre) = some true := by
  rw [code_isServerSalt getTag sg _ htag, own_salt_recognised (getTag sg) Gen.serverSaltMarkLen pre (htag pre)]


/-- **code_marked_iff_enough_entropy**: the translated `MakeCipherEntry` (service/cipher_list.go) never panics and gives a key the
    MARKING salt generator exactly when the model's `marked` says so — and by `marked_iff_salt_ge_20`, over the generated
    cipher table, exactly for salts of at least 20 bytes.  This replaces the syntactic wiring fact by a proof about the code. -/
theorem code_marked_iff_enough_entropy (saltSize : GoRT.Opaque "shadowsocks.EncryptionKey" → Int)
    (newGen : String → GoRT.Opaque "service.ServerSaltGenerator") (rnd : GoRT.Opaque "service.ServerSaltGenerator")
    (id secret : String) (k : GoRT.Opaque "shadowsocks.EncryptionKey") (c : Gen.CipherSpec) (hc : c ∈ Gen.ciphers)
    (hn : saltSize k = (c.saltSize : Int)) :
    Gen.Code.MakeCipherEntry saltSize newGen rnd id k secret =
      some (⟨id, k, (if 20 ≤ c.saltSize then newGen secret else rnd), ⟨0⟩⟩ : Gen.Code.CipherEntry) := by
  have hm : Gen.serverSaltMarkLen ≤ c.saltSize := by
    have : ∀ c ∈ Gen.ciphers, Gen.serverSaltMarkLen ≤ c.saltSize := by decide
    exact this c hc
  rw [Tie.Misc.makeCipherEntry_tie saltSize newGen rnd id secret k c.saltSize hn hm]
  have h := (marked_iff_salt_ge_20 c hc).1
  by_cases h20 : 20 ≤ c.saltSize
  · simp [h.2 h20, h20]
  · have : marked c.saltSize Gen.serverSaltMarkLen Gen.minSaltEntropy = false := by
      cases hmk : marked c.saltSize Gen.serverSaltMarkLen Gen.minSaltEntropy with
      | false => rfl
      | true => exact absurd (h.1 hmk) h20
    simp [this, h20]

/-- **code_server_salt_is_refused_before_the_cache**: the translated stream authenticator (the function literal of
    `NewShadowsocksStreamAuthenticator`, service/tcp.go), for every behaviour of its collaborators: when the salt
    generator of the entry the key search found recognises the salt as one of the server's own, the result is
    ERR_REPLAY_SERVER with that entry's key id, no connection is handed back, and the replay cache is not consulted or
    changed (the result is the same cache) — a reflected server handshake cannot evict or poison client salts. -/
theorem code_server_salt_is_refused_before_the_cache
    (newReader : GoRT.Opaque "io.Reader" → GoRT.Opaque "shadowsocks.EncryptionKey" → GoRT.Opaque "shadowsocks.Reader")
    (newWriter : Tie.Auth.Conn → GoRT.Opaque "shadowsocks.EncryptionKey" → GoRT.Opaque "shadowsocks.Writer")
    (isSrv : GoRT.Opaque "service.ServerSaltGenerator" → List UInt8 → Bool)
    (wrap : Tie.Auth.Conn → GoRT.Opaque "shadowsocks.Reader" → GoRT.Opaque "shadowsocks.Writer" → Tie.Auth.Conn)
    (findAccessKey : Tie.Auth.Conn → GoRT.Opaque "netip.Addr" → GoRT.Opaque "service.CipherList" → GoRT.Opaque "slog.Logger" → Tie.Auth.FA)
    (remoteIP : Tie.Auth.Conn → GoRT.Opaque "netip.Addr")
    (ciphers : GoRT.Opaque "service.CipherList") (metrics : GoRT.Opaque "service.ShadowsocksConnMetrics")
    (l : GoRT.Opaque "slog.Logger") (rc : Gen.Code.ReplayCache) (conn : Tie.Auth.Conn)
    (e : Gen.Code.CipherEntry) (rd : GoRT.Opaque "io.Reader") (salt : List UInt8) (t : Int)
    (hfa : findAccessKey conn (remoteIP conn) ciphers l = (some e, rd, salt, t, none))
    (hsrv : isSrv e.SaltGenerator salt = true) :
    Gen.Code.NewShadowsocksStreamAuthenticator newReader newWriter isSrv wrap findAccessKey remoteIP ciphers rc metrics l conn =
      some (rc, e.ID, ⟨0⟩, some "ERR_REPLAY_SERVER", [Tie.Auth.searchEff metrics true t]) := by
  rw [Tie.Auth.authenticator_tie, hfa]
  simp [Tie.Auth.outcome, hsrv]

/-- **code_accepted_connection_writes_marked_salts**: when the translated authenticator accepts a connection, the
    encrypting writer it wraps the connection with is given the salt generator of the entry that authenticated it — the
    one call it makes on the writer — so that the server's own salts on this connection carry that key's mark. -/
theorem code_accepted_connection_writes_marked_salts
    (newReader : GoRT.Opaque "io.Reader" → GoRT.Opaque "shadowsocks.EncryptionKey" → GoRT.Opaque "shadowsocks.Reader")
    (newWriter : Tie.Auth.Conn → GoRT.Opaque "shadowsocks.EncryptionKey" → GoRT.Opaque "shadowsocks.Writer")
    (isSrv : GoRT.Opaque "service.ServerSaltGenerator" → List UInt8 → Bool)
    (wrap : Tie.Auth.Conn → GoRT.Opaque "shadowsocks.Reader" → GoRT.Opaque "shadowsocks.Writer" → Tie.Auth.Conn)
    (findAccessKey : Tie.Auth.Conn → GoRT.Opaque "netip.Addr" → GoRT.Opaque "service.CipherList" → GoRT.Opaque "slog.Logger" → Tie.Auth.FA)
    (remoteIP : Tie.Auth.Conn → GoRT.Opaque "netip.Addr")
    (ciphers : GoRT.Opaque "service.CipherList") (metrics : GoRT.Opaque "service.ShadowsocksConnMetrics")
    (l : GoRT.Opaque "slog.Logger") (rc rc' : Gen.Code.ReplayCache) (conn c' : Tie.Auth.Conn) (id : String) (effs : List GoRT.Eff)
    (hok : Gen.Code.NewShadowsocksStreamAuthenticator newReader newWriter isSrv wrap findAccessKey remoteIP ciphers rc metrics l conn =
      some (rc', id, c', none, effs)) :
    ∃ e, (findAccessKey conn (remoteIP conn) ciphers l).1 = some e ∧ id = e.ID ∧
      isSrv e.SaltGenerator (findAccessKey conn (remoteIP conn) ciphers l).2.2.1 = false ∧
      Tie.Auth.saltGenEff (newWriter conn e.CryptoKey) e.SaltGenerator ∈ effs ∧
      c' = wrap conn (newReader (findAccessKey conn (remoteIP conn) ciphers l).2.1 e.CryptoKey) (newWriter conn e.CryptoKey) := by
  rw [Tie.Auth.authenticator_tie] at hok
  rcases hfa : findAccessKey conn (remoteIP conn) ciphers l with ⟨ent, rd, salt, t, err⟩
  rw [hfa] at hok
  cases err with
  | some x => simp [Tie.Auth.outcome] at hok
  | none =>
    cases ent with
    | none => simp [Tie.Auth.outcome] at hok
    | some e =>
      rw [Tie.Auth.outcome_found] at hok
      by_cases hs : isSrv e.SaltGenerator salt = true
      · simp [hs] at hok
      · simp only [hs, if_false] at hok
        generalize (String.toUTF8 e.ID).toList = idb at hok
        cases hadd : Gen.Code.ReplayCache.Add rc idb salt with
        | none => rw [hadd] at hok; simp at hok
        | some p =>
          obtain ⟨r2, fresh⟩ := p
          rw [hadd] at hok
          cases fresh
          · simp at hok
          · simp at hok
            obtain ⟨_, h2, h3, h4⟩ := hok
            refine ⟨e, rfl, h2.symm, by simpa using hs, ?_, h3.symm⟩
            rw [← h4]; simp

end OutlineModel.Props.C08
