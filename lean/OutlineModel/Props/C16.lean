import OutlineModel.Proofs.NatInv
import OutlineModel.Proofs.TieValidatePacket
import OutlineModel.Model.UDPRun
import OutlineModel.Gen.Decisions
/-
C16 — UDP metrics match the datagrams actually relayed (handler side).

The effect list of the model contains every UDPMetrics / UDPConnMetrics call with its arguments
(`natAdd` = AddUDPNatEntry, `report` = AddPacketFromClient, `fromTarget` = AddPacketFromTarget,
`natRemove` = RemoveNatEntry) next to the socket effects (`send`, `toClient`), so "reported = what
happened on the sockets" is a statement about one list.
-/
namespace OutlineModel.Props.C16
open OutlineModel OutlineModel.UDP OutlineModel.CipherList OutlineModel.Socks

def isReport : Eff → Bool | .report _ _ _ => true | _ => false
def isSend : Eff → Bool | .send _ _ _ _ => true | _ => false
def isNatAdd : Eff → Bool | .natAdd _ _ _ => true | _ => false
def isNatRemove : Eff → Bool | .natRemove _ _ => true | _ => false
def isPanic : Eff → Bool | .panic _ => true | _ => false

variable (dnsPort : Nat) (ki : KeyInfo) (validate : List UInt8 → IP.Verdict) (resolve : Target → Resolved)

/-- **client_packet_reported_once**: a client datagram is reported (AddPacketFromClient) exactly once
    when it creates or arrives on an association, and not at all otherwise; the report carries the
    wire size and the payload size actually written to the target — "OK" exactly when a datagram
    was written, an error status and 0 bytes otherwise. -/
theorem client_packet_reported_once (st : State) (client : String) (cip : Option Nat) (wire : Nat) (opens : List Nat)
    (plain : List UInt8) (res : State × List Eff)
    (hres : upstream dnsPort ki validate resolve st client cip wire opens plain = res) :
    (res.2.filter isReport).length = (if (lookupNat st.nat client).isSome ∨ (res.2.any isNatAdd) then 1 else 0) ∧
    (∀ status w sent, Eff.report status w sent ∈ res.2 →
        w = wire ∧ ((∃ sock ip port payload, Eff.send sock ip port payload ∈ res.2 ∧ sent = payload.length ∧ status = "OK") ∨
                    (sent = 0 ∧ status ≠ "OK" ∧ res.2.any isSend = false))) := by
  rcases upstream_cases validate resolve dnsPort ki st client cip wire opens plain with
    ⟨hn, _, h⟩ | ⟨hn, l', s, _, h⟩ | ⟨hn, l', e, pl, ip, port, _, _, _, h⟩ | ⟨a, hn, _, pl, ip, port, _, h⟩ |
    ⟨a, hn, _, s, _, hs, h⟩ | ⟨a, hn, _, h⟩
  all_goals (rw [h] at hres; subst hres)
  · simp [hn, isReport, isNatAdd]
  · simp [hn, isReport, isNatAdd]
  · refine ⟨by simp [hn, List.filter, List.any, isReport, isNatAdd], ?_⟩
    intro s w sent hm
    simp at hm
    obtain ⟨rfl, rfl, rfl⟩ := hm
    exact ⟨rfl, Or.inl ⟨st.nextSock, ip, port, pl, by simp, rfl, rfl⟩⟩
  · refine ⟨by simp [hn, List.filter, List.any, isReport, isNatAdd], ?_⟩
    intro s w sent hm
    simp at hm
    obtain ⟨rfl, rfl, rfl⟩ := hm
    exact ⟨rfl, Or.inl ⟨a.sock, ip, port, pl, by simp, rfl, rfl⟩⟩
  · refine ⟨by simp [hn, List.filter, List.any, isReport, isNatAdd], ?_⟩
    intro s' w sent hm
    simp at hm
    obtain ⟨rfl, rfl, rfl⟩ := hm
    exact ⟨rfl, Or.inr ⟨rfl, hs, by simp [List.any, isSend]⟩⟩
  · refine ⟨by simp [hn, List.filter, List.any, isReport, isNatAdd], ?_⟩
    intro s' w sent hm
    simp at hm
    obtain ⟨rfl, rfl, rfl⟩ := hm
    exact ⟨rfl, Or.inr ⟨rfl, by decide, by simp [List.any, isSend]⟩⟩

/-- **association_added_with_auth_key**: AddUDPNatEntry is called with the client address of the
    datagram and the id of a configured entry whose key opened it. -/
theorem association_added_with_auth_key (st : State) (client : String) (cip : Option Nat) (wire : Nat) (opens : List Nat)
    (plain : List UInt8) (cl id : String) (sock : Nat)
    (h : Eff.natAdd cl id sock ∈ (upstream dnsPort ki validate resolve st client cip wire opens plain).2) :
    cl = client ∧ ∃ e ∈ st.list, opens.contains e.key = true ∧ e.id = id := by
  rcases upstream_cases validate resolve dnsPort ki st client cip wire opens plain with
    ⟨hn, _, hr⟩ | ⟨hn, l', s, _, hr⟩ | ⟨hn, l', e, pl, ip, port, he, ho, _, hr⟩ | ⟨a, hn, _, pl, ip, port, _, hr⟩ |
    ⟨a, hn, _, s, _, hs, hr⟩ | ⟨a, hn, _, hr⟩
  all_goals (rw [hr] at h; simp at h)
  obtain ⟨rfl, rfl, _⟩ := h
  exact ⟨rfl, e, he, ho, rfl⟩

/-- **target_packet_reported_once**: a datagram read on an association's socket is reported
    (AddPacketFromTarget) exactly once with its body size, together with at most one datagram
    written to the client whose wire size is the one reported (0 when nothing was written). -/
theorem target_packet_reported_once (bufSize maxAddrLen : Nat) (a : Assoc) (srcIP : List UInt8) (srcPort : Nat) (body : List UInt8)
    (hnp : (relayReply bufSize maxAddrLen a srcIP srcPort body).any isPanic = false) :
    (∃ w, relayReply bufSize maxAddrLen a srcIP srcPort body =
        [.toClient a.client a.key (encodeIP srcIP srcPort ++ body) w, .fromTarget "OK" body.length w]) ∨
    relayReply bufSize maxAddrLen a srcIP srcPort body = [.fromTarget "ERR_PACK" body.length 0] := by
  unfold relayReply at *
  simp only at *
  split at hnp
  · simp [isPanic] at hnp
  · rename_i h1
    rw [if_neg h1]
    split at hnp
    · simp [isPanic] at hnp
    · rename_i h2
      rw [if_neg h2]
      split
      · right; rfl
      · left; exact ⟨_, rfl⟩

def countP (p : Eff → Bool) (l : List Eff) : Nat := (l.filter p).length

theorem countP_append (p : Eff → Bool) (a b : List Eff) : countP p (a ++ b) = countP p a + countP p b := by
  simp [countP, List.filter_append]

theorem relayReply_counts (bufSize maxAddrLen : Nat) (a : Assoc) (srcIP : List UInt8) (srcPort : Nat) (body : List UInt8) :
    countP isNatAdd (relayReply bufSize maxAddrLen a srcIP srcPort body) = 0 ∧
    countP isNatRemove (relayReply bufSize maxAddrLen a srcIP srcPort body) = 0 := by
  unfold relayReply
  simp only
  split
  · simp [countP, isNatAdd, isNatRemove]
  · split
    · simp [countP, isNatAdd, isNatRemove]
    · split <;> simp [countP, isNatAdd, isNatRemove]

/-- removing the (unique) entry of a client shrinks the table by exactly one -/
theorem filter_length (nat : List Assoc) (hnd : (nat.map (·.client)).Nodup) (a : Assoc) (ha : a ∈ nat) :
    (nat.filter (fun x => !(x.client == a.client))).length + 1 = nat.length := by
  induction nat with
  | nil => cases ha
  | cons y ys ih =>
    simp only [List.map_cons, List.nodup_cons] at hnd
    rcases List.mem_cons.1 ha with h | h
    · subst h
      have hall : ys.filter (fun x => !(x.client == a.client)) = ys := by
        rw [List.filter_eq_self]
        intro x hx
        have : x.client ≠ a.client := fun e => hnd.1 (by rw [← e]; exact List.mem_map_of_mem hx)
        simpa using this
      simp [List.filter_cons, hall]
    · have hne : ¬ (y.client = a.client) := fun e => hnd.1 (by rw [e]; exact List.mem_map_of_mem h)
      have := ih hnd.2 h
      simp [List.filter_cons, hne]
      omega

/-- a refused send changes neither the additions nor the removals reported -/
theorem countP_failSend (effs : List Eff) :
    countP isNatAdd (failSend effs) = countP isNatAdd effs ∧ countP isNatRemove (failSend effs) = countP isNatRemove effs := by
  induction effs with
  | nil => simp [failSend, countP]
  | cons e rest ih =>
    have h1 : countP isNatAdd (failSend rest) = countP isNatAdd rest := ih.1
    have h2 : countP isNatRemove (failSend rest) = countP isNatRemove rest := ih.2
    unfold failSend at h1 h2 ⊢
    cases e <;> simp [countP, List.filterMap_cons, List.filter_cons, isNatAdd, isNatRemove] at h1 h2 ⊢ <;>
      first | (constructor <;> omega) | (split <;> simp [isNatAdd, isNatRemove] <;> constructor <;> omega)

/-- per step: associations added − associations removed = change of the table size -/
theorem step_balance (c : Cfg) (st : State) (inv : NatInv st) (o : UDP.Op) :
    countP isNatAdd (stepOp c st o).2 + st.nat.length = countP isNatRemove (stepOp c st o).2 + (stepOp c st o).1.nat.length := by
  cases o with
  | pkt client cip wire opens plain resolve =>
    simp only [stepOp]
    rcases upstream_cases c.validate resolve c.dnsPort c.ki st client cip wire opens plain with
      ⟨hn, _, h⟩ | ⟨hn, l', s, _, h⟩ | ⟨hn, l', e, pl, ip, port, _, _, _, h⟩ | ⟨a, hn, _, pl, ip, port, _, h⟩ |
      ⟨a, hn, _, s, _, hs, h⟩ | ⟨a, hn, _, h⟩
    all_goals (rw [h]; simp [countP, List.filter, isNatAdd, isNatRemove, updateAssoc])
    all_goals (try omega)
  | pktFail client cip wire opens plain resolve =>
    simp only [stepOp]
    rw [(countP_failSend _).1, (countP_failSend _).2]
    rcases upstream_cases c.validate resolve c.dnsPort c.ki st client cip wire opens plain with
      ⟨hn, _, h⟩ | ⟨hn, l', s, _, h⟩ | ⟨hn, l', e, pl, ip, port, _, _, _, h⟩ | ⟨a, hn, _, pl, ip, port, _, h⟩ |
      ⟨a, hn, _, s, _, hs, h⟩ | ⟨a, hn, _, h⟩
    all_goals (rw [h]; simp [countP, List.filter, isNatAdd, isNatRemove, updateAssoc])
    all_goals (try omega)
  | reply client srcIP srcPort body =>
    simp only [stepOp]
    cases hn : lookupNat st.nat client with
    | none => simp [countP]
    | some a =>
      obtain ⟨ham, _⟩ := lookupNat_some _ _ _ hn
      simp only
      unfold downstream
      simp only
      have hrel := relayReply_counts c.bufSize c.maxAddrLen a srcIP srcPort body
      split
      · rw [hrel.1, hrel.2]
      · split
        · rw [countP_append, countP_append, hrel.1, hrel.2]
          have := filter_length st.nat inv.clients_nodup a ham
          simp only [countP, List.filter_cons, isNatAdd, isNatRemove]
          simp
          omega
        · rw [hrel.1, hrel.2]; simp [updateAssoc]
  | expire client =>
    simp only [stepOp]
    unfold expire
    cases hn : lookupNat st.nat client with
    | none => simp [countP]
    | some a =>
      obtain ⟨ham, hc⟩ := lookupNat_some _ _ _ hn
      have := filter_length st.nat inv.clients_nodup a ham
      rw [hc] at this
      simp only [countP, List.filter_cons, isNatAdd, isNatRemove]
      simp
      omega
  | update l => simp [stepOp, countP]

theorem step_inv (c : Cfg) (st : State) (inv : NatInv st) (o : UDP.Op) : NatInv (stepOp c st o).1 := by
  cases o with
  | pkt client cip wire opens plain resolve => exact inv.upstream _ _ _ _ _ _ _ _ _
  | pktFail client cip wire opens plain resolve => exact inv.upstream _ _ _ _ _ _ _ _ _
  | reply client srcIP srcPort body =>
    simp only [stepOp]
    cases hn : lookupNat st.nat client with
    | none => exact inv
    | some a => exact inv.downstream _ _ _ a (lookupNat_some _ _ _ hn).1 _ _ _
  | expire client => exact inv.expire _
  | update l => exact inv.setList l

/-- **added_minus_removed_is_live**: over every history, the number of associations reported added
    equals the number reported removed plus the number still alive — each association is added once
    and removed at most once, and exactly once by the time the table is empty again. -/
theorem added_minus_removed_is_live (c : Cfg) (l : List Entry) (ops : List UDP.Op) :
    countP isNatAdd (trace c (UDP.init l) ops) =
      countP isNatRemove (trace c (UDP.init l) ops) + (UDP.run c (UDP.init l) ops).nat.length := by
  have : ∀ (st : State), NatInv st →
      countP isNatAdd (trace c st ops) + st.nat.length = countP isNatRemove (trace c st ops) + (UDP.run c st ops).nat.length := by
    induction ops with
    | nil => intro st _; simp [trace, UDP.run, countP]
    | cons o os ih =>
      intro st inv
      simp only [trace, UDP.run, countP_append]
      have h1 := step_balance c st inv o
      have h2 := ih _ (step_inv c st inv o)
      omega
  have h := this (UDP.init l) (NatInv.init l)
  simpa [UDP.init] using h

/-- **removed_exactly_once**: a copier's exit reports the removal of a live association exactly once and
    the association is gone afterwards, so a second exit for the same client reports nothing. -/
theorem removed_exactly_once (st : State) (inv : NatInv st) (client : String) :
    (expire (expire st client).1 client).2 = [] ∧
    ((lookupNat st.nat client).isSome → ∃ s, (expire st client).2 = [.natRemove client s]) := by
  unfold expire
  cases hn : lookupNat st.nat client with
  | none => simp [hn]
  | some a =>
    obtain ⟨ham, hc⟩ := lookupNat_some _ _ _ hn
    refine ⟨?_, fun _ => ⟨a.sock, rfl⟩⟩
    simp only
    have : lookupNat (List.filter (fun x => !x.client == client) st.nat) client = none := by
      unfold lookupNat
      rw [List.find?_eq_none]
      intro x hx
      have := (List.mem_filter.1 hx).2
      simpa using this
    simp [this]


/-- **status_alphabet_as_modelled**: the statuses the UDP path can construct, as a regenerated table:
    those of `Model/UDP` (ERR_CIPHER, ERR_READ_ADDRESS, ERR_RESOLVE_ADDRESS, ERR_ADDRESS_INVALID,
    ERR_PACK; ERR_ADDRESS_PRIVATE and OK come from the policy and the success path) and three that
    only an operating-system failure produces and the model does not have (ERR_READ,
    ERR_CREATE_SOCKET, ERR_WRITE).  A status added or renamed in the source changes the table. -/
theorem status_alphabet_as_modelled :
    Gen.Decisions.udpStatuses = ["ERR_ADDRESS_INVALID", "ERR_CIPHER", "ERR_CREATE_SOCKET", "ERR_PACK", "ERR_READ", "ERR_READ_ADDRESS",
      "ERR_RESOLVE_ADDRESS", "ERR_WRITE"] := by decide

/-- **code_packet_status_names_outcome**: the status the translated `packetHandler.validatePacket` (service/udp.go)
    gives a client datagram — the one `Handle` then reports with AddPacketFromClient — names what happened, for every
    behaviour of its collaborators: ERR_READ_ADDRESS exactly when no address header could be split off,
    ERR_RESOLVE_ADDRESS exactly when the header was split off but the resolver failed, the validator's verdict (through
    ensureConnectionError, default ERR_ADDRESS_INVALID) exactly when the resolved IP was rejected, and no error otherwise;
    the three literals are in the regenerated status table. -/
theorem code_packet_status_names_outcome
    (addrString : List UInt8 → String) (resolveC : String → String → Tie.ValidatePacket.UAddr × Option String)
    (split : List UInt8 → List UInt8) (ensure : Option String → String → String → Option String)
    (validator : List UInt8 → Option String) (ipOf : Tie.ValidatePacket.UAddr → List UInt8)
    (h : Gen.Code.packetHandler) (text : List UInt8) (hpre : (split text).length ≤ text.length) :
    (∃ payload addr, Gen.Code.packetHandler.validatePacket addrString resolveC split ensure validator ipOf h text =
      some (h, payload, addr,
        if split text = [] then some "ERR_READ_ADDRESS"
        else if (resolveC "udp" (addrString (split text))).2 ≠ none then some "ERR_RESOLVE_ADDRESS"
        else if validator (ipOf (resolveC "udp" (addrString (split text))).1) ≠ none then
          ensure (validator (ipOf (resolveC "udp" (addrString (split text))).1)) "ERR_ADDRESS_INVALID" "invalid address"
        else none)) ∧
    "ERR_READ_ADDRESS" ∈ Gen.Decisions.udpStatuses ∧ "ERR_RESOLVE_ADDRESS" ∈ Gen.Decisions.udpStatuses ∧
      "ERR_ADDRESS_INVALID" ∈ Gen.Decisions.udpStatuses := by
  refine ⟨?_, by decide, by decide, by decide⟩
  rw [Tie.ValidatePacket.validatePacket_tie _ _ _ _ _ _ _ _ hpre]
  refine ⟨(Tie.ValidatePacket.decide' addrString resolveC split ensure validator ipOf text).1,
    (Tie.ValidatePacket.decide' addrString resolveC split ensure validator ipOf text).2.1, ?_⟩
  have hst : (Tie.ValidatePacket.decide' addrString resolveC split ensure validator ipOf text).2.2 =
      (if split text = [] then some "ERR_READ_ADDRESS"
        else if (resolveC "udp" (addrString (split text))).2 ≠ none then some "ERR_RESOLVE_ADDRESS"
        else if validator (ipOf (resolveC "udp" (addrString (split text))).1) ≠ none then
          ensure (validator (ipOf (resolveC "udp" (addrString (split text))).1)) "ERR_ADDRESS_INVALID" "invalid address"
        else none) := by
    unfold Tie.ValidatePacket.decide'
    by_cases h1 : split text = []
    · simp [h1]
    · by_cases h2 : (resolveC "udp" (addrString (split text))).2 = none
      · by_cases h3 : validator (ipOf (resolveC "udp" (addrString (split text))).1) = none
        · simp [h1, h2, h3]
        · simp [h1, h2, h3]
      · simp [h1, h2]
  rw [← hst]

end OutlineModel.Props.C16
