import OutlineModel.Proofs.TieDedup
import OutlineModel.Proofs.ConfigOwner
import OutlineModel.Gen.Wiring
/-
C09 — A key works exactly on the listeners its configuration binds it to.

Model: Model/Config.lean.  A configuration is turned into a plan of acquisitions (legacy ports first —
"tcp/:p" and "udp/:p" with the port's keys in file order, not de-duplicated; then the services in
order, every listener of a service with the service's key list de-duplicated on the raw
(cipher string, secret) pair); a successful load serves exactly the plan; a client holding
(cipher identity, secret) on a listener is attributed to the first entry of that listener's key list
with that cipher and secret (the key search and its last-used reordering, which never changes
which id of a key group answers: C01 `first_configured_wins`).  The specification side is independent of the
plan: `ownerKeys` (which raw key list owns a listener key) and `firstMatch` (first key of a raw list
with that cipher identity and secret).  Tied to the code by the `config` campaign (real server process,
real clients over TCP and UDP probing (listener, key) pairs — own keys, other services' keys, removed
keys, never-configured keys — attribution read from the ServiceMetrics calls) and wiring facts.
-/
namespace OutlineModel.Props.C09
open OutlineModel OutlineModel.Config

/-- **serves_exactly_configured**: after ANY successful load (whatever was serving before), for EVERY listener
    key and EVERY client key, the id the server attributes is: none if no legacy port / service owns
    the listener, else the first key of the owner's list with that cipher and secret — none if there
    is none.  Both configuration formats and their mixture. -/
theorem serves_exactly_configured (canon : String → Option Nat) (addrOK : String → Bool) (s : Server) (c : Cfg)
    (fault : Fault) (hok : (load canon addrOK s c fault).2.1 = true) (lk : String) (ck : ClientKey) :
    authOn (load canon addrOK s c fault).1.cur lk ck =
      match ownerKeys c lk with
      | none => none
      | some keys => firstMatch canon keys ck :=
  load_serves_exactly_configured canon addrOK s c fault hok lk ck

/-- **authenticates_iff_in_owner**: the "if and only if" of the property: a client authenticates on a
    listener iff the owner's key list contains a key with its cipher and secret. -/
theorem authenticates_iff_in_owner (canon : String → Option Nat) (addrOK : String → Bool) (s : Server) (c : Cfg)
    (fault : Fault) (hok : (load canon addrOK s c fault).2.1 = true) (lk : String) (ck : ClientKey) :
    (authOn (load canon addrOK s c fault).1.cur lk ck).isSome = true ↔
      ∃ keys, ownerKeys c lk = some keys ∧ ∃ k ∈ keys, canon k.cipher = some ck.1 ∧ k.secret = ck.2 := by
  rw [serves_exactly_configured canon addrOK s c fault hok lk ck]
  cases h : ownerKeys c lk with
  | none => simp
  | some keys =>
    simp only [firstMatch, Option.isSome_map, List.find?_isSome, Bool.and_eq_true, beq_iff_eq, Option.some.injEq,
      exists_eq_left']

/-- **own_service_only**: in a configuration that passes Validate (listener keys pairwise distinct; and
    no service listener is spelled like a legacy port, which Validate guarantees by demanding an IP
    host) the owner of a service's listener is that service: keys of another service authenticate
    there only if that service lists the same cipher and secret itself. -/
theorem own_service_only (canon : String → Option Nat) (addrOK : String → Bool) (srv : Server) (c : Cfg) (fault : Fault)
    (hok : (load canon addrOK srv c fault).2.1 = true)
    (hleg : ∀ p ∈ legacyPorts c.legacy, ∀ s ∈ c.services, ∀ l ∈ s.listeners,
      lkey l ≠ s!"tcp/:{p}" ∧ lkey l ≠ s!"udp/:{p}")
    (s : Svc) (hs : s ∈ c.services) (l : Listener) (hl : l ∈ s.listeners) (ck : ClientKey) :
    authOn (load canon addrOK srv c fault).1.cur (lkey l) ck = firstMatch canon s.keys ck := by
  have hv : validate addrOK c = true := by
    have h := hok
    rw [load_ok_eq_accepts] at h
    simp only [accepts, Bool.and_eq_true] at h
    exact h.1.1.2
  rw [serves_exactly_configured canon addrOK srv c fault hok, owner_is_own_service c (validate_nodup addrOK c hv) hleg s hs l hl]

/-- **duplicates_first_id**: de-duplication never changes the attribution: with the same cipher and secret
    listed twice (same or different spelling of the cipher, same or different id) the FIRST id wins. -/
theorem duplicates_first_id (canon : String → Option Nat) (pre post : List Key) (k : Key) (ck : ClientKey)
    (hk : canon k.cipher = some ck.1 ∧ k.secret = ck.2)
    (hpre : ∀ k' ∈ pre, ¬ (canon k'.cipher = some ck.1 ∧ k'.secret = ck.2)) :
    firstMatch canon (pre ++ k :: post) ck = some k.id := by
  unfold firstMatch
  rw [List.find?_append]
  have h1 : pre.find? (fun k => canon k.cipher == some ck.1 && k.secret == ck.2) = none := by
    rw [List.find?_eq_none]
    intro k' hk'
    have := hpre k' hk'
    simp only [Bool.and_eq_true, beq_iff_eq]
    exact this
  simp [h1, hk.1, hk.2]

/-- the de-duplicated list the service really hands to its listeners answers like the raw list -/
theorem dedup_preserves_attribution (canon : String → Option Nat) (keys : List Key) (ks : List (String × ClientKey))
    (h : dedupKeys canon keys = some ks) (ck : ClientKey) :
    (ks.find? (·.2 == ck)).map (·.1) = firstMatch canon keys ck :=
  dedupKeys_find canon keys ks h ck

/-- **wiring**: each service's listeners are served by the ShadowsocksService built from that service's
    own keys; every listener goes through the generation's set. -/
theorem wiring : Gen.Wiring.serviceListenersServeOwnKeys = true ∧ Gen.Wiring.generationListenersInOneSet = true := by decide

/-! non-vacuity (two services sharing a (cipher, secret) under different ids, a key listed under two
    spellings of its cipher, an exact raw duplicate, two legacy ports) -/
example : (load ownCanon exAddrOK Server.init ownCfg .none).2.1 = true := by decide
example : authOn ownSrv.cur "tcp/:9000" (0, "s2") = none ∧ authOn ownSrv.cur "tcp/:9001" (0, "s2") = some "b" := by decide
example : authOn ownSrv.cur "tcp/:9000" (1, "sh") = some "shared1" ∧ authOn ownSrv.cur "tcp/:9001" (1, "sh") = some "shared2" := by decide
example : authOn ownSrv.cur "tcp/:9000" (0, "s1") = some "a" ∧ authOn ownSrv.cur "udp/:9100" (0, "ls") = some "l1" := by decide


/-! ### The per-service key list, about the code itself

`Gen.Code.newCipherListFromConfig` is TRANSLATED from cmd/outline-ss-server/main.go on every run (extract/golean.go), together
with `MakeCipherEntry` which it calls; `shadowsocks.NewEncryptionKey`, `service.NewCipherList` and the salt generators are
parameters, the `Update` call on the new key list is in the function's effect log. -/

/-- **code_key_list_of_a_service**: the translated function never panics; it installs, with ONE `Update`, the entries of the
    first occurrence of each raw (cipher name, secret) pair in file order, or refuses the whole service at the first key that
    cannot be created; and when key creation fails exactly for the cipher names `canon` rejects, the ids installed are the
    model's `dedupKeys` (the first configured id wins for a repeated pair) -/
theorem code_key_list_of_a_service
    (saltSize : GoRT.Opaque "shadowsocks.EncryptionKey" → Int) (newList : GoRT.Opaque "service.CipherList")
    (newKey : String → String → GoRT.Opaque "shadowsocks.EncryptionKey" × Option String)
    (newGen : String → GoRT.Opaque "service.ServerSaltGenerator") (rnd : GoRT.Opaque "service.ServerSaltGenerator")
    (canon : String → Option Nat) (hcanon : ∀ c s, (newKey c s).2 = none ↔ (canon c).isSome = true)
    (config : Gen.Code.ServiceConfig) :
    Gen.Code.newCipherListFromConfig saltSize newList newKey newGen rnd config =
      some (match Tie.Dedup.scan saltSize newKey newGen rnd [] [] config.Keys with
        | none => (⟨0⟩, some "failed to create encyption key for key %v: %w", [])
        | some l => (newList, none, [Tie.Dedup.updateEff newList l])) ∧
    (Tie.Dedup.scan saltSize newKey newGen rnd [] [] config.Keys).map (fun l => l.map (·.Value.ID)) =
      (dedupKeys canon (config.Keys.map Tie.Dedup.absK)).map (fun l => l.map (·.1)) := by
  refine ⟨Tie.Dedup.newCipherList_eq saltSize newList newKey newGen rnd config, ?_⟩
  have h := Tie.Dedup.scan_dedup saltSize newKey newGen rnd canon hcanon config.Keys [] []
  simpa [dedupKeys] using h

end OutlineModel.Props.C09
