import OutlineModel.Proofs.TieMisc
import OutlineModel.Proofs.TieHandle
import OutlineModel.Gen.Decisions
import OutlineModel.Model.TCP
import OutlineModel.Proofs.CipherList
import OutlineModel.Gen.Wiring
import OutlineModel.Gen.Consts
/-
C06 — Unauthenticated TCP input is absorbed silently until the timeout.

Model: Model/TCP.handle with logical close classes ("at the client's FIN", "at the deadline",
"only after the client's FIN"), tied to service/tcp.go by the `tcp` campaign: real handler on
loopback, 250–450 ms handshake timeout, probes of every kind with and without a client FIN,
close time taken from the handler's own AddClosed call, FIN-vs-RST seen by the client.
FIN-vs-RST and wall-clock timing are kernel/runtime behaviour: observed with tolerances, not proved.
-/
namespace OutlineModel.Props.C06
open OutlineModel OutlineModel.TCP OutlineModel.Auth OutlineModel.CipherList

def isWrite : Eff → Bool | .toClient _ => true | _ => false
def isDial : Eff → Bool | .dial => true | .toTarget _ _ => true | _ => false

variable (c : Cfg) (st : AuthState) (valid : Nat → Bool) (srvSalt : Entry → Bool) (hash : Entry → UInt32)
  (greeting : Nat → List UInt8)

/-- what the handler does with a connection that does not authenticate, whatever the reason -/
theorem probe_shape (s : Script)
    (h : (authenticate st (some 1) (decide (s.raw ≥ c.bytesForKeyFinding)) valid srvSalt hash).2.status ≠ .ok) :
    ∃ status found, (handle c st s valid srvSalt hash greeting).2 =
      [.search found, .probe status (match s.clientEnd with | .fin => "eof" | .idle => "timeout") s.raw,
       .closed status s.raw 0 0 false,
       .closeClass (match s.clientEnd with | .fin => "fin@after-client-fin" | .idle => "fin@deadline")] := by
  unfold handle
  cases hs : (authenticate st (some 1) (decide (s.raw ≥ c.bytesForKeyFinding)) valid srvSalt hash).2.status with
  | ok => exact absurd hs h
  | errCipher => simp only [hs]; exact ⟨_, _, rfl⟩
  | errReplayServer => simp only [hs]; exact ⟨_, _, rfl⟩
  | errReplayClient => simp only [hs]; exact ⟨_, _, rfl⟩

/-- **probe_silent**: a connection that does not authenticate — random bytes of any length, none at all,
    a truncated or bit-flipped valid stream, a replay, a reflected server stream — gets nothing
    written back and makes the proxy contact nobody. -/
theorem probe_silent (s : Script)
    (h : (authenticate st (some 1) (decide (s.raw ≥ c.bytesForKeyFinding)) valid srvSalt hash).2.status ≠ .ok) :
    (handle c st s valid srvSalt hash greeting).2.any isWrite = false ∧
    (handle c st s valid srvSalt hash greeting).2.any isDial = false := by
  obtain ⟨status, found, hh⟩ := probe_shape c st valid srvSalt hash greeting s h
  rw [hh]; simp [isWrite, isDial]

/-- **probe_reads_everything**: the probe report and the ClientProxy counter carry the number of bytes the
    client sent: everything was read. -/
theorem probe_reads_everything (s : Script)
    (h : (authenticate st (some 1) (decide (s.raw ≥ c.bytesForKeyFinding)) valid srvSalt hash).2.status ≠ .ok) :
    ∃ status drain, Eff.probe status drain s.raw ∈ (handle c st s valid srvSalt hash greeting).2 ∧
      Eff.closed status s.raw 0 0 false ∈ (handle c st s valid srvSalt hash greeting).2 := by
  obtain ⟨status, found, hh⟩ := probe_shape c st valid srvSalt hash greeting s h
  refine ⟨status, (match s.clientEnd with | .fin => "eof" | .idle => "timeout"), ?_, ?_⟩ <;> (rw [hh]; simp)

/-- **probe_close_time**: when a non-authenticating connection is closed depends only on whether the
    client half-closed: at the client's FIN if it did, at the handshake deadline if it did not —
    identical for any two such connections, whatever their content, length, the key list, or the
    replay-cache state. -/
theorem probe_close_time (s₁ s₂ : Script) (st₁ st₂ : AuthState) (valid₁ valid₂ : Nat → Bool)
    (srv₁ srv₂ : Entry → Bool) (hash₁ hash₂ : Entry → UInt32)
    (h₁ : (authenticate st₁ (some 1) (decide (s₁.raw ≥ c.bytesForKeyFinding)) valid₁ srv₁ hash₁).2.status ≠ .ok)
    (h₂ : (authenticate st₂ (some 1) (decide (s₂.raw ≥ c.bytesForKeyFinding)) valid₂ srv₂ hash₂).2.status ≠ .ok)
    (hend : s₁.clientEnd = s₂.clientEnd) :
    (handle c st₁ s₁ valid₁ srv₁ hash₁ greeting).2.filterMap (fun e => match e with | .closeClass k => some k | _ => none) =
    (handle c st₂ s₂ valid₂ srv₂ hash₂ greeting).2.filterMap (fun e => match e with | .closeClass k => some k | _ => none) := by
  obtain ⟨_, _, hh₁⟩ := probe_shape c st₁ valid₁ srv₁ hash₁ greeting s₁ h₁
  obtain ⟨_, _, hh₂⟩ := probe_shape c st₂ valid₂ srv₂ hash₂ greeting s₂ h₂
  rw [hh₁, hh₂, hend]; simp

/-- **postauth_drained**: after authentication, a stream that turns invalid — unreadable address
    (ERR_READ_ADDRESS) or a chunk that fails during the relay (ERR_RELAY_CLIENT) — is never closed
    before the client closes: with a client that stays open the close class is
    "only after the client's FIN". -/
theorem postauth_drained (s : Script) (hidle : s.clientEnd = .idle) (status : String) (cp pt tp : Nat) (pc : Bool)
    (hc : Eff.closed status cp pt tp pc ∈ (handle c st s valid srvSalt hash greeting).2)
    (hst : status = "ERR_READ_ADDRESS" ∨ status = "ERR_RELAY_CLIENT") :
    Eff.closeClass "fin-after-client-fin" ∈ (handle c st s valid srvSalt hash greeting).2 := by
  unfold handle at hc ⊢
  cases hs : (authenticate st (some 1) (decide (s.raw ≥ c.bytesForKeyFinding)) valid srvSalt hash).2.status with
  | ok =>
    simp only [hs] at hc ⊢
    cases hr : readAddress c [] c.saltSize s.chunks with
    | failed => simp [hr, hidle]
    | found alen plain rest consumed =>
      simp only [hr] at hc ⊢
      cases hd : s.dial with
      | none => simp [hd] at hc; rcases hst with h | h <;> (rw [h] at hc; simp at hc)
      | refused => simp [hd] at hc; rcases hst with h | h <;> (rw [h] at hc; simp at hc)
      | forbidden ip =>
        simp [hd] at hc
        rcases hst with h | h <;> (rw [h] at hc; cases hv : c.validate ip <;> simp [hv, statusOfVerdict] at hc)
      | ok port => simp [hd, hidle]
  | errCipher => simp [hs, Status.toString] at hc; rcases hst with h | h <;> (rw [h] at hc; simp at hc)
  | errReplayServer => simp [hs, Status.toString] at hc; rcases hst with h | h <;> (rw [h] at hc; simp at hc)
  | errReplayClient => simp [hs, Status.toString] at hc; rcases hst with h | h <;> (rw [h] at hc; simp at hc)

/-- **wiring**: the handshake timeout is the documented 59 s (generated constant).  That every authentication error
    takes the absorb branch is proved about the translated `handleConnection` (`code_unauthenticated_is_absorbed`). -/
theorem wiring : Gen.tcpReadTimeoutNs = 59000000000 := by decide

/-- **probe_drain_is_unbounded**: `absorbProbe` — not translated, its byte counter is bumped behind its back by the
    counting connection — drains with exactly one `io.Copy(io.Discard, conn)` on the connection it was given: no cap, no
    limiting wrapper, no close, no deadline change (generated fact, robust to renaming the parameter). -/
theorem probe_drain_is_unbounded : Gen.Wiring.tcpProbeDrainIsTheWholeConnection = true := by decide


/-- **code_drain_result**: the translated `drainErrToString` (service/tcp.go) — the drain result reported with every probe —
    never panics and is "eof" for a clean end, "timeout" for a net.Error that timed out, "other" otherwise; these are the
    three literals of the generated table -/
theorem code_drain_result (timeout impl : Option String → Bool) (e : Option String) :
    Gen.Code.drainErrToString timeout impl e =
      some (if e = none then "eof" else if impl e && timeout e then "timeout" else "other") ∧
    Gen.Decisions.drainResults = ["eof", "other", "timeout"] :=
  ⟨Tie.Misc.drainErrToString_tie timeout impl e, by decide⟩

/-- **code_unauthenticated_is_absorbed**: the translated `streamHandler.handleConnection` (service/tcp.go), for every
    handler, context, clock, connection and every behaviour of its collaborators: when the stored authenticate function
    reports an error `st` (whatever the bytes were), the function never panics, returns exactly that error, and its
    calls are, in order: arm the deadline, run authenticate on the connection, then `absorbProbe` with that status — nothing else: no write, no close, the
    address is not read and nothing is dialled (the result is the same for every `getProxyRequest` and
    `proxyConnection`). -/
theorem code_unauthenticated_is_absorbed
    (ctxDeadline : GoRT.Opaque "context.Context" → Int × Bool) (dial : GoRT.Opaque "transport.FuncStreamDialer")
    (authenticate : Tie.Handle.Conn → String × Tie.Handle.Conn × Option String)
    (req req' : Tie.Handle.Conn → String × Option String)
    (disc : GoRT.Opaque "io.Writer") (now : Int)
    (relay relay' : GoRT.Opaque "slog.Logger" → GoRT.Opaque "context.Context" → GoRT.Opaque "transport.FuncStreamDialer" → String → Tie.Handle.Conn → Tie.Handle.Conn → Option String)
    (h : Gen.Code.streamHandler) (ctx : GoRT.Opaque "context.Context") (oc : Tie.Handle.Conn)
    (cm : GoRT.Opaque "service.TCPConnMetrics") (pm : Gen.Code.ProxyMetrics) (st : String)
    (hfail : (authenticate oc).2.2 = some st) :
    Gen.Code.streamHandler.handleConnection ctxDeadline dial authenticate req disc now relay h ctx oc cm pm =
      some (h, pm, some st, Tie.Handle.armEffs (ctxDeadline ctx) now h.readTimeout oc ++ [Tie.Handle.callAuth oc, Tie.Handle.absorbEff oc cm st]) ∧
    Gen.Code.streamHandler.handleConnection ctxDeadline dial authenticate req' disc now relay' h ctx oc cm pm =
      Gen.Code.streamHandler.handleConnection ctxDeadline dial authenticate req disc now relay h ctx oc cm pm := by
  rw [Tie.Handle.handleConnection_tie, Tie.Handle.handleConnection_tie]
  simp [Tie.Handle.outcome, hfail]

/-- **code_same_deadline_whatever_the_content**: the deadline armed on the client connection before the first byte is
    read (the arming calls come before the call of authenticate, the first thing that reads) is a function of the clock, the handler's timeout and the context only — two runs of the translated handler on
    the same connection that differ in everything the client sent (any two authenticate outcomes, address outcomes,
    relays) start their logs with the same arming calls, and the read deadline is `now + readTimeout` or the context's
    deadline if that is sooner. -/
theorem code_same_deadline_whatever_the_content
    (ctxDeadline : GoRT.Opaque "context.Context" → Int × Bool) (dial : GoRT.Opaque "transport.FuncStreamDialer")
    (authenticate : Tie.Handle.Conn → String × Tie.Handle.Conn × Option String)
    (req : Tie.Handle.Conn → String × Option String)
    (disc : GoRT.Opaque "io.Writer") (now : Int)
    (relay : GoRT.Opaque "slog.Logger" → GoRT.Opaque "context.Context" → GoRT.Opaque "transport.FuncStreamDialer" → String → Tie.Handle.Conn → Tie.Handle.Conn → Option String)
    (h : Gen.Code.streamHandler) (ctx : GoRT.Opaque "context.Context") (oc : Tie.Handle.Conn)
    (cm : GoRT.Opaque "service.TCPConnMetrics") (pm : Gen.Code.ProxyMetrics) :
    ∃ st rest, Gen.Code.streamHandler.handleConnection ctxDeadline dial authenticate req disc now relay h ctx oc cm pm =
        some (h, pm, st, Tie.Handle.armEffs (ctxDeadline ctx) now h.readTimeout oc ++ Tie.Handle.callAuth oc :: rest) ∧
      (Tie.Handle.readDeadline (ctxDeadline ctx) now h.readTimeout = now + h.readTimeout ∨
        ((ctxDeadline ctx).2 = true ∧ Tie.Handle.readDeadline (ctxDeadline ctx) now h.readTimeout = (ctxDeadline ctx).1 ∧
          (ctxDeadline ctx).1 < now + h.readTimeout)) := by
  rw [Tie.Handle.handleConnection_tie]
  have hd : (Tie.Handle.readDeadline (ctxDeadline ctx) now h.readTimeout = now + h.readTimeout ∨
        ((ctxDeadline ctx).2 = true ∧ Tie.Handle.readDeadline (ctxDeadline ctx) now h.readTimeout = (ctxDeadline ctx).1 ∧
          (ctxDeadline ctx).1 < now + h.readTimeout)) := by
    unfold Tie.Handle.readDeadline
    by_cases hc : (ctxDeadline ctx).2 = true ∧ (ctxDeadline ctx).1 < now + h.readTimeout
    · right; simp [hc]
    · left; simp [hc]
  unfold Tie.Handle.outcome
  cases ha : (authenticate oc).2.2 with
  | some st => exact ⟨_, _, rfl, hd⟩
  | none =>
    cases hr : (req (authenticate oc).2.1).2 with
    | some e => exact ⟨_, _, rfl, hd⟩
    | none => exact ⟨_, _, rfl, hd⟩

/-- **code_bad_address_is_drained**: after a successful authentication, an address header that cannot be read makes the
    translated handler clear the read deadline and then drain the raw client connection into io.Discard — the last call
    it makes — and return ERR_READ_ADDRESS; nothing is dialled (same result for every `proxyConnection`). -/
theorem code_bad_address_is_drained
    (ctxDeadline : GoRT.Opaque "context.Context" → Int × Bool) (dial : GoRT.Opaque "transport.FuncStreamDialer")
    (authenticate : Tie.Handle.Conn → String × Tie.Handle.Conn × Option String)
    (req : Tie.Handle.Conn → String × Option String)
    (disc : GoRT.Opaque "io.Writer") (now : Int)
    (relay relay' : GoRT.Opaque "slog.Logger" → GoRT.Opaque "context.Context" → GoRT.Opaque "transport.FuncStreamDialer" → String → Tie.Handle.Conn → Tie.Handle.Conn → Option String)
    (h : Gen.Code.streamHandler) (ctx : GoRT.Opaque "context.Context") (oc : Tie.Handle.Conn)
    (cm : GoRT.Opaque "service.TCPConnMetrics") (pm : Gen.Code.ProxyMetrics) (e : String)
    (hok : (authenticate oc).2.2 = none) (hbad : (req (authenticate oc).2.1).2 = some e) :
    Gen.Code.streamHandler.handleConnection ctxDeadline dial authenticate req disc now relay h ctx oc cm pm =
      some (h, pm, some "ERR_READ_ADDRESS",
        Tie.Handle.armEffs (ctxDeadline ctx) now h.readTimeout oc ++
          [Tie.Handle.callAuth oc, Tie.Handle.authEff cm (authenticate oc).1, Tie.Handle.callReq (authenticate oc).2.1,
           Tie.Handle.clearEff oc, Tie.Handle.drainEff disc oc]) ∧
    Gen.Code.streamHandler.handleConnection ctxDeadline dial authenticate req disc now relay' h ctx oc cm pm =
      Gen.Code.streamHandler.handleConnection ctxDeadline dial authenticate req disc now relay h ctx oc cm pm := by
  rw [Tie.Handle.handleConnection_tie, Tie.Handle.handleConnection_tie]
  simp [Tie.Handle.outcome, hok, hbad]

/-- non-vacuity: an authenticate that fails with ERR_CIPHER on a context without deadline -/
example : (Gen.Code.streamHandler.handleConnection (fun _ => (0, false)) ⟨0⟩ (fun c => ("", c, some "ERR_CIPHER"))
    (fun _ => ("", none)) ⟨0⟩ 1000 (fun _ _ _ _ _ _ => none) { Gen.Code.streamHandler.zero with readTimeout := 59 } ⟨0⟩ ⟨7⟩ ⟨9⟩
    Gen.Code.ProxyMetrics.zero).map (fun r => (r.2.2.1, r.2.2.2.map (·.name))) =
    some (some "ERR_CIPHER", ["Conn.SetReadDeadline", "call authenticate", "absorbProbe"]) := by decide

end OutlineModel.Props.C06
