import OutlineModel.Proofs.TieMisc
import OutlineModel.Gen.Decisions
import OutlineModel.Model.TCP
import OutlineModel.Proofs.CipherList
import OutlineModel.Gen.Wiring
import OutlineModel.Gen.Consts
/-
C06 — Unauthenticated TCP input is absorbed silently until the timeout.

Model: Model/TCP.handle with logical close classes ("at the client's FIN", "at the deadline",
"only after the client's FIN"), tied to service/tcp.go by the `tcp` campaign: real handler on
loopback, 250–450 ms handshake timeout, probes of every kind with and without a client FIN,
close time taken from the handler's own AddClosed call, FIN-vs-RST seen by the client.
FIN-vs-RST and wall-clock timing are kernel/runtime behaviour: observed with tolerances, not proved.
-/
namespace OutlineModel.Props.C06
open OutlineModel OutlineModel.TCP OutlineModel.Auth OutlineModel.CipherList

def isWrite : Eff → Bool | .toClient _ => true | _ => false
def isDial : Eff → Bool | .dial => true | .toTarget _ _ => true | _ => false

variable (c : Cfg) (st : AuthState) (valid : Nat → Bool) (srvSalt : Entry → Bool) (hash : Entry → UInt32)
  (greeting : Nat → List UInt8)

/-- what the handler does with a connection that does not authenticate, whatever the reason -/
theorem probe_shape (s : Script)
    (h : (authenticate st (some 1) (decide (s.raw ≥ c.bytesForKeyFinding)) valid srvSalt hash).2.status ≠ .ok) :
    ∃ status found, (handle c st s valid srvSalt hash greeting).2 =
      [.search found, .probe status (match s.clientEnd with | .fin => "eof" | .idle => "timeout") s.raw,
       .closed status s.raw 0 0 false,
       .closeClass (match s.clientEnd with | .fin => "fin@after-client-fin" | .idle => "fin@deadline")] := by
  unfold handle
  cases hs : (authenticate st (some 1) (decide (s.raw ≥ c.bytesForKeyFinding)) valid srvSalt hash).2.status with
  | ok => exact absurd hs h
  | errCipher => simp only [hs]; exact ⟨_, _, rfl⟩
  | errReplayServer => simp only [hs]; exact ⟨_, _, rfl⟩
  | errReplayClient => simp only [hs]; exact ⟨_, _, rfl⟩

/-- **probe_silent**: a connection that does not authenticate — random bytes of any length, none at all,
    a truncated or bit-flipped valid stream, a replay, a reflected server stream — gets nothing
    written back and makes the proxy contact nobody. -/
theorem probe_silent (s : Script)
    (h : (authenticate st (some 1) (decide (s.raw ≥ c.bytesForKeyFinding)) valid srvSalt hash).2.status ≠ .ok) :
    (handle c st s valid srvSalt hash greeting).2.any isWrite = false ∧
    (handle c st s valid srvSalt hash greeting).2.any isDial = false := by
  obtain ⟨status, found, hh⟩ := probe_shape c st valid srvSalt hash greeting s h
  rw [hh]; simp [isWrite, isDial]

/-- **probe_reads_everything**: the probe report and the ClientProxy counter carry the number of bytes the
    client sent: everything was read. -/
theorem probe_reads_everything (s : Script)
    (h : (authenticate st (some 1) (decide (s.raw ≥ c.bytesForKeyFinding)) valid srvSalt hash).2.status ≠ .ok) :
    ∃ status drain, Eff.probe status drain s.raw ∈ (handle c st s valid srvSalt hash greeting).2 ∧
      Eff.closed status s.raw 0 0 false ∈ (handle c st s valid srvSalt hash greeting).2 := by
  obtain ⟨status, found, hh⟩ := probe_shape c st valid srvSalt hash greeting s h
  refine ⟨status, (match s.clientEnd with | .fin => "eof" | .idle => "timeout"), ?_, ?_⟩ <;> (rw [hh]; simp)

/-- **probe_close_time**: when a non-authenticating connection is closed depends only on whether the
    client half-closed: at the client's FIN if it did, at the handshake deadline if it did not —
    identical for any two such connections, whatever their content, length, the key list, or the
    replay-cache state. -/
theorem probe_close_time (s₁ s₂ : Script) (st₁ st₂ : AuthState) (valid₁ valid₂ : Nat → Bool)
    (srv₁ srv₂ : Entry → Bool) (hash₁ hash₂ : Entry → UInt32)
    (h₁ : (authenticate st₁ (some 1) (decide (s₁.raw ≥ c.bytesForKeyFinding)) valid₁ srv₁ hash₁).2.status ≠ .ok)
    (h₂ : (authenticate st₂ (some 1) (decide (s₂.raw ≥ c.bytesForKeyFinding)) valid₂ srv₂ hash₂).2.status ≠ .ok)
    (hend : s₁.clientEnd = s₂.clientEnd) :
    (handle c st₁ s₁ valid₁ srv₁ hash₁ greeting).2.filterMap (fun e => match e with | .closeClass k => some k | _ => none) =
    (handle c st₂ s₂ valid₂ srv₂ hash₂ greeting).2.filterMap (fun e => match e with | .closeClass k => some k | _ => none) := by
  obtain ⟨_, _, hh₁⟩ := probe_shape c st₁ valid₁ srv₁ hash₁ greeting s₁ h₁
  obtain ⟨_, _, hh₂⟩ := probe_shape c st₂ valid₂ srv₂ hash₂ greeting s₂ h₂
  rw [hh₁, hh₂, hend]; simp

/-- **postauth_drained**: after authentication, a stream that turns invalid — unreadable address
    (ERR_READ_ADDRESS) or a chunk that fails during the relay (ERR_RELAY_CLIENT) — is never closed
    before the client closes: with a client that stays open the close class is
    "only after the client's FIN". -/
theorem postauth_drained (s : Script) (hidle : s.clientEnd = .idle) (status : String) (cp pt tp : Nat) (pc : Bool)
    (hc : Eff.closed status cp pt tp pc ∈ (handle c st s valid srvSalt hash greeting).2)
    (hst : status = "ERR_READ_ADDRESS" ∨ status = "ERR_RELAY_CLIENT") :
    Eff.closeClass "fin-after-client-fin" ∈ (handle c st s valid srvSalt hash greeting).2 := by
  unfold handle at hc ⊢
  cases hs : (authenticate st (some 1) (decide (s.raw ≥ c.bytesForKeyFinding)) valid srvSalt hash).2.status with
  | ok =>
    simp only [hs] at hc ⊢
    cases hr : readAddress c [] c.saltSize s.chunks with
    | failed => simp [hr, hidle]
    | found alen plain rest consumed =>
      simp only [hr] at hc ⊢
      cases hd : s.dial with
      | none => simp [hd] at hc; rcases hst with h | h <;> (rw [h] at hc; simp at hc)
      | refused => simp [hd] at hc; rcases hst with h | h <;> (rw [h] at hc; simp at hc)
      | forbidden ip =>
        simp [hd] at hc
        rcases hst with h | h <;> (rw [h] at hc; cases hv : c.validate ip <;> simp [hv, statusOfVerdict] at hc)
      | ok port => simp [hd, hidle]
  | errCipher => simp [hs, Status.toString] at hc; rcases hst with h | h <;> (rw [h] at hc; simp at hc)
  | errReplayServer => simp [hs, Status.toString] at hc; rcases hst with h | h <;> (rw [h] at hc; simp at hc)
  | errReplayClient => simp [hs, Status.toString] at hc; rcases hst with h | h <;> (rw [h] at hc; simp at hc)

/-- **wiring**: every authentication error takes the absorb branch; the handshake timeout is the
    documented 59 s (generated facts). -/
theorem wiring : Gen.Wiring.tcpAuthFailureIsAbsorbed = true ∧ Gen.tcpReadTimeoutNs = 59000000000 := by decide


/-- **code_drain_result**: the translated `drainErrToString` (service/tcp.go) — the drain result reported with every probe —
    never panics and is "eof" for a clean end, "timeout" for a net.Error that timed out, "other" otherwise; these are the
    three literals of the generated table -/
theorem code_drain_result (timeout impl : Option String → Bool) (e : Option String) :
    Gen.Code.drainErrToString timeout impl e =
      some (if e = none then "eof" else if impl e && timeout e then "timeout" else "other") ∧
    Gen.Decisions.drainResults = ["eof", "other", "timeout"] :=
  ⟨Tie.Misc.drainErrToString_tie timeout impl e, by decide⟩

end OutlineModel.Props.C06
