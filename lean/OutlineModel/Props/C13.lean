import OutlineModel.Model.Locks
import OutlineModel.Gen.LockFacts
/-
C13 — Listener management never deadlocks.

Generic theorem (Model/Locks): threads that acquire locks in strictly increasing rank never
deadlock — any number of threads, any interleaving — and when all calls have returned every lock is
free.  Generated facts (Gen/LockFacts, typed analysis of the working tree on every run): the
lock-order edges of service/listeners.go and cmd/outline-ss-server/main.go, through closures stored
in onCloseFunc fields and through interface calls, and the channel operations made under a lock.
Obligation: the edges admit a rank (no cycle), and nothing blocks on a channel while holding a lock.
The extractor is trusted; the `lockstress` campaign cross-checks it on the real manager.
-/
namespace OutlineModel.Props.C13
open OutlineModel OutlineModel.Locks

/-- the lock classes of the listener machinery, in the order they may be nested -/
def rank : String → Nat
  | "listenerSet.listenersMu" => 0
  | "listenerManager.mu" => 1
  | "virtualStreamListener.mu" => 2
  | "virtualPacketConn.mu" => 2
  | "multiStreamListener.mu" => 3
  | "multiPacketListener.mu" => 3
  | _ => 1000     -- any other class: must not be nested with the listener locks at all

def listenerClasses : List String :=
  ["listenerSet.listenersMu", "listenerManager.mu", "virtualStreamListener.mu", "virtualPacketConn.mu",
   "multiStreamListener.mu", "multiPacketListener.mu"]

/-- **lock_order_ranked**: every nested acquisition in the generated lock-order graph goes strictly up
    in rank — so the graph has no cycle (in particular not manager.mu ⇄ multi*.mu), and no edge
    nests two locks of the same class. -/
theorem lock_order_ranked : ∀ e ∈ Gen.LockFacts.lockEdges, rank e.1 < rank e.2 := by decide

/-- every edge that touches a listener lock stays inside the ranked classes -/
theorem listener_edges_closed : ∀ e ∈ Gen.LockFacts.lockEdges,
    (e.1 ∈ listenerClasses ∨ e.2 ∈ listenerClasses) → (e.1 ∈ listenerClasses ∧ e.2 ∈ listenerClasses) := by decide

/-- **no_blocking_under_lock**: no channel send/receive/select happens while a lock is held (a goroutine
    never waits for another one while owning a lock). -/
theorem no_blocking_under_lock : Gen.LockFacts.blockingUnderLock = [] := by decide

/-- **no_lock_leaks**: no function returns, on any path (error paths included), with a lock held that
    no deferred unlock releases — the bracketing the rank argument assumes. -/
theorem no_lock_leaks : Gen.LockFacts.lockLeaks = [] := by decide

/-- **no_deadlock**: any set of concurrent calls whose acquisitions follow the ranks — which
    `lock_order_ranked` establishes for every listen/close call of the code — always has a call that
    can make progress until all have returned; then every lock is free again. -/
theorem no_deadlock (ts : List Thread) (hwr : ∀ t ∈ ts, WR t.held t.todo)
    (hR : ∀ t ∈ ts, ∀ l rest, t.todo = .acq l :: rest → l < 4)
    (hunf : ∃ t ∈ ts, ¬ finished t) : ∃ t ∈ ts, canStep ts t :=
  Locks.no_deadlock 4 ts hwr hR hunf

theorem manager_usable_afterwards (ts : List Thread) (hwr : ∀ t ∈ ts, WR t.held t.todo)
    (hfin : ∀ t ∈ ts, finished t) (l : Nat) : ¬ holds ts l :=
  all_finished_all_free ts hwr hfin l

/- non-vacuity: the programs of ListenStream (manager, then multi) and of the last Close (manager,
   virtual, multi) are well ranked; two of them running together satisfy the hypotheses. -/
example : WR [] [.acq 1, .acq 3, .rel 3, .rel 1] ∧ WR [] [.acq 1, .acq 2, .acq 3, .rel 3, .rel 2, .rel 1] := by
  simp [WR]

end OutlineModel.Props.C13
