import OutlineModel.Proofs.NatInv
import OutlineModel.Proofs.UDP
import OutlineModel.Proofs.TieValidatePacket
import OutlineModel.Proofs.TieNatMap
import OutlineModel.Model.UDPRun
/-
C04 — UDP associations give each client one stable, private outbound socket.

Invariants of the NAT-table model for EVERY reachable state: any number of clients, any
interleaving of client datagrams, target datagrams, expiries and key-list updates.  Socket
identities are abstract; that a fresh socket's local address differs from every open socket's is
the kernel contract (observed by the `udp` campaign through source ports).
-/
namespace OutlineModel.Props.C04
open OutlineModel OutlineModel.UDP OutlineModel.CipherList OutlineModel.Socks

theorem step_inv (c : Cfg) (st : State) (inv : NatInv st) (o : UDP.Op) : NatInv (stepOp c st o).1 := by
  cases o with
  | pkt client cip wire opens plain resolve => exact inv.upstream _ _ _ _ _ _ _ _ _
  | pktFail client cip wire opens plain resolve => exact inv.upstream _ _ _ _ _ _ _ _ _
  | reply client srcIP srcPort body =>
    simp only [stepOp]
    cases hn : lookupNat st.nat client with
    | none => exact inv
    | some a => exact inv.downstream _ _ _ a (lookupNat_some _ _ _ hn).1 _ _ _
  | expire client => exact inv.expire _
  | update l => exact inv.setList l

/-- **reachable_inv**: the NAT invariant holds in every reachable state. -/
theorem reachable_inv (c : Cfg) (l : List Entry) (ops : List UDP.Op) : NatInv (run c (UDP.init l) ops) := by
  have : ∀ (st : State), NatInv st → NatInv (run c st ops) := by
    induction ops with
    | nil => intro st h; exact h
    | cons o os ih => intro st h; exact ih _ (step_inv c st h o)
  exact this _ (NatInv.init l)

/-- **inj**: in every reachable state, distinct client addresses never share an outbound socket, and
    one client address has at most one association. -/
theorem inj (c : Cfg) (l : List Entry) (ops : List UDP.Op) (a b : Assoc)
    (ha : a ∈ (run c (UDP.init l) ops).nat) (hb : b ∈ (run c (UDP.init l) ops).nat) :
    (a.sock = b.sock → a = b) ∧ (a.client = b.client → a = b) := by
  have inv := reachable_inv c l ops
  exact ⟨eq_of_nodup_map (·.sock) _ inv.socks_nodup a ha b hb, eq_of_nodup_map (·.client) _ inv.clients_nodup a ha b hb⟩

/-- **live_socket_open**: the socket of a live association is never one that a copier closed, and
    socket identities are never reused. -/
theorem live_socket_open (c : Cfg) (l : List Entry) (ops : List UDP.Op) (a : Assoc)
    (ha : a ∈ (run c (UDP.init l) ops).nat) :
    a.sock ∉ (run c (UDP.init l) ops).closedSocks ∧ a.sock < (run c (UDP.init l) ops).nextSock :=
  ⟨(reachable_inv c l ops).live_open a ha, (reachable_inv c l ops).socks_lt a ha⟩

/-- **stable**: while the association of a client exists, a forwarded datagram of that client leaves
    from the association's socket, and the association (same socket, same key) is still there
    afterwards. -/
theorem stable (c : Cfg) (resolve : Target → Resolved) (st : State) (client : String) (cip : Option Nat) (wire : Nat)
    (opens : List Nat) (plain : List UInt8) (a : Assoc) (hn : lookupNat st.nat client = some a) :
    (∀ sock ip port payload, Eff.send sock ip port payload ∈
        (upstream c.dnsPort c.ki c.validate resolve st client cip wire opens plain).2 → sock = a.sock) ∧
    (∃ a', lookupNat (upstream c.dnsPort c.ki c.validate resolve st client cip wire opens plain).1.nat client = some a' ∧
        a'.sock = a.sock ∧ a'.key = a.key ∧ a'.client = a.client) := by
  obtain ⟨ham, hac⟩ := lookupNat_some _ _ _ hn
  constructor
  · intro sock ip port payload h
    unfold upstream at h
    simp only [hn] at h
    by_cases ho : opens.contains a.key = true
    · rw [if_pos ho] at h
      cases hv : validatePacket c.validate resolve plain with
      | error p => simp [hv] at h
      | ok r => cases r with
        | error s => simp [hv] at h
        | ok t => obtain ⟨pl, ip', port'⟩ := t; simp [hv] at h; exact h.1
    · rw [if_neg ho] at h; simp at h
  · unfold upstream
    simp only [hn]
    by_cases ho : opens.contains a.key = true
    · rw [if_pos ho]
      cases hv : validatePacket c.validate resolve plain with
      | error p => exact ⟨a, hn, rfl, rfl, rfl⟩
      | ok r => cases r with
        | error s => exact ⟨a, hn, rfl, rfl, rfl⟩
        | ok t =>
          obtain ⟨pl, ip', port'⟩ := t
          simp only
          refine ⟨a.onWrite port' c.dnsPort, ?_, onWrite_sock _ _ _, onWrite_key _ _ _, onWrite_client _ _ _⟩
          rw [lookupNat_updateAssoc _ _ _ _ (fun x => onWrite_client x _ _), hn]
          simp [hac]
    · rw [if_neg ho]; exact ⟨a, hn, rfl, rfl, rfl⟩

/-- **reply_routing**: a datagram read on the socket of association `a` is written to `a`'s client and
    to nobody else (the copier captured the address when the association was created), encrypted
    under `a`'s key. -/
theorem reply_routing (c : Cfg) (st : State) (a : Assoc) (srcIP : List UInt8) (srcPort : Nat) (body : List UInt8)
    (client : String) (key : Nat) (pt : List UInt8) (w : Nat)
    (h : Eff.toClient client key pt w ∈ (downstream c.dnsPort c.bufSize c.maxAddrLen st a srcIP srcPort body).2) :
    client = a.client ∧ key = a.key := by
  unfold downstream at h
  have hr : Eff.toClient client key pt w ∈ relayReply c.bufSize c.maxAddrLen a srcIP srcPort body := by
    simp only at h
    split at h
    · exact h
    · split at h
      · simp only [List.mem_append, List.mem_singleton] at h
        rcases h with h | h
        · exact h
        · cases h
      · exact h
  unfold relayReply at hr
  simp only at hr
  split at hr
  · simp at hr
  · split at hr
    · simp at hr
    · split at hr
      · simp at hr
      · simp at hr
        exact ⟨hr.1, hr.2.1⟩

/-- **created_only_authenticated**: an association is created only by a datagram that authenticates
    under a configured key and whose destination passed the validator, for a client address that
    had none; it is bound to that entry's key and id and to a brand-new socket. -/
theorem created_only_authenticated (c : Cfg) (resolve : Target → Resolved) (st : State) (client : String) (cip : Option Nat)
    (wire : Nat) (opens : List Nat) (plain : List UInt8) (cl : String) (id : String) (sock : Nat)
    (h : Eff.natAdd cl id sock ∈ (upstream c.dnsPort c.ki c.validate resolve st client cip wire opens plain).2) :
    cl = client ∧ lookupNat st.nat client = none ∧ sock = st.nextSock ∧
    (∃ e ∈ st.list, opens.contains e.key = true ∧ e.id = id) ∧
    (∃ pl ip port, validatePacket c.validate resolve plain = .ok (.ok (pl, ip, port)) ∧ c.validate ip = .ok) := by
  unfold upstream at h
  cases hn : lookupNat st.nat client with
  | none =>
    simp only [hn] at h
    cases hl : lookup st.list cip (fun k => opens.contains k) with
    | mk list' found =>
      simp only [hl] at h
      cases found with
      | none => simp at h
      | some ei =>
        obtain ⟨e, i⟩ := ei
        have hfound := lookup_found st.list cip (fun k => opens.contains k) e i (by rw [hl])
        simp only at h
        cases hv : validatePacket c.validate resolve plain with
        | error p => simp [hv] at h
        | ok r => cases r with
          | error s => simp [hv] at h
          | ok t =>
            obtain ⟨pl, ip', port'⟩ := t
            simp [hv] at h
            obtain ⟨rfl, rfl, rfl⟩ := h
            obtain ⟨n, _, _, hval⟩ := validatePacket_ok c.validate resolve plain _ _ _ hv
            exact ⟨rfl, rfl, onWrite_sock _ _ _, ⟨e, hfound.1, hfound.2, rfl⟩, ⟨pl, ip', port', rfl, hval⟩⟩
  | some a =>
    simp only [hn] at h
    by_cases ho : opens.contains a.key = true
    · rw [if_pos ho] at h
      cases hv : validatePacket c.validate resolve plain with
      | error p => simp [hv] at h
      | ok r => cases r with
        | error s => simp [hv] at h
        | ok t => obtain ⟨pl, ip', port'⟩ := t; simp [hv] at h
    · rw [if_neg ho] at h; simp at h

/-- **expire_removes_self**: a copier removes exactly its own client's entry and closes exactly that
    entry's socket; every other association is untouched. -/
theorem expire_removes_self (st : State) (client : String) (b : Assoc) (hb : b ∈ st.nat) (hne : b.client ≠ client) :
    b ∈ (expire st client).1.nat := by
  unfold expire
  cases hn : lookupNat st.nat client with
  | none => exact hb
  | some a =>
    simp only
    exact List.mem_filter.2 ⟨hb, by simpa using hne⟩

/- non-vacuity: a two-client history reaching a state with two associations on distinct sockets -/
example :
    let c : Cfg := { dnsPort := 53, bufSize := 65536, maxAddrLen := 19, ki := fun _ => (32, 16), validate := fun _ => .ok }
    let l : List Entry := [{ ref := 1, id := "k", key := 0, lastIP := none }]
    let plain : List UInt8 := [1, 203, 0, 113, 10, 0, 53, 9]
    let res : Target → Resolved := fun t => match t with | .v4 ip _ => .ip ip | .v6 ip _ => .ip ip | .domain _ _ => .fail
    let ops := [UDP.Op.pkt "a:1" (some 1) 60 [0] plain res, UDP.Op.pkt "b:1" (some 2) 60 [0] plain res]
    ((run c (UDP.init l) ops).nat.map (·.sock)) = [1, 0] := by decide

/-- the status a verdict of the target IP validator is reported with -/
def verdictStatus : IP.Verdict → String
  | .ok => "OK" | .invalid => "ERR_ADDRESS_INVALID" | .priv => "ERR_ADDRESS_PRIVATE"

/-- how the model's collaborators are read off the code's: SplitAddr returns the header prefix the model's length
    function measures; the resolver fails where the model's does (or where the header does not decode) and otherwise
    returns an address with the model's IP; the validator stored in the handler, seen through ensureConnectionError,
    is the model's verdict -/
structure Agrees (validate : List UInt8 → IP.Verdict) (resolve : Target → Resolved)
    (addrString : List UInt8 → String) (resolveC : String → String → Tie.ValidatePacket.UAddr × Option String)
    (split : List UInt8 → List UInt8) (ensure : Option String → String → String → Option String)
    (validator : List UInt8 → Option String) (ipOf : Tie.ValidatePacket.UAddr → List UInt8) : Prop where
  split_eq : ∀ t, split t = match splitAddrLen t with | none => [] | some n => t.take n
  undecodable : ∀ a, decode a = .ok none → (resolveC "udp" (addrString a)).2 ≠ none
  resolve_fail : ∀ a tgt, decode a = .ok (some tgt) → resolve tgt = .fail → (resolveC "udp" (addrString a)).2 ≠ none
  resolve_ip : ∀ a tgt ip, decode a = .ok (some tgt) → resolve tgt = .ip ip →
      (resolveC "udp" (addrString a)).2 = none ∧ ipOf (resolveC "udp" (addrString a)).1 = ip
  verdict_ok : ∀ ip, validate ip = .ok → validator ip = none
  verdict_bad : ∀ ip, validate ip ≠ .ok → validator ip ≠ none ∧
      ensure (validator ip) "ERR_ADDRESS_INVALID" "invalid address" = some (verdictStatus (validate ip))

/-- **code_validatePacket_refines_model**: the translated `packetHandler.validatePacket` (service/udp.go) and the
    model's `validatePacket` decide alike on every plaintext, for all collaborators that agree (`Agrees`): the code never
    panics; it reports the status the model reports; and where the model accepts, the code returns the same payload
    (the text after the address header) and an address whose IP is the one the model validated. -/
theorem code_validatePacket_refines_model (validate : List UInt8 → IP.Verdict) (resolve : Target → Resolved)
    (addrString : List UInt8 → String) (resolveC : String → String → Tie.ValidatePacket.UAddr × Option String)
    (split : List UInt8 → List UInt8) (ensure : Option String → String → String → Option String)
    (validator : List UInt8 → Option String) (ipOf : Tie.ValidatePacket.UAddr → List UInt8)
    (ag : Agrees validate resolve addrString resolveC split ensure validator ipOf)
    (h : Gen.Code.packetHandler) (text : List UInt8) :
    ∃ payload addr st, Gen.Code.packetHandler.validatePacket addrString resolveC split ensure validator ipOf h text =
        some (h, payload, addr, st) ∧
      (match validatePacket validate resolve text with
       | .ok (.error e) => st = some e
       | .ok (.ok (pl, ip, _)) => st = none ∧ payload = pl ∧ ipOf addr = ip
       | .error _ => False) := by
  have hpre : (split text).length ≤ text.length := by
    rw [ag.split_eq]; cases splitAddrLen text <;> simp [List.length_take] <;> omega
  rw [Tie.ValidatePacket.validatePacket_tie _ _ _ _ _ _ _ _ hpre]
  refine ⟨_, _, _, rfl, ?_⟩
  unfold Tie.ValidatePacket.decide' validatePacket
  cases hs : splitAddrLen text with
  | none => simp [ag.split_eq, hs, pure, Except.pure]
  | some n =>
    obtain ⟨hle, hn, _⟩ := splitAddrLen_bounds text n hs
    obtain ⟨r, hr⟩ := decode_no_panic text n hs
    have hsp : split text = text.take n := by rw [ag.split_eq, hs]
    have hne : text.take n ≠ [] := by
      intro h0
      have h1 : (text.take n).length = n := by rw [List.length_take]; omega
      rw [h0] at h1; simp at h1; omega
    have hlen : (text.take n).length = n := by rw [List.length_take]; omega
    simp only [bind, Except.bind, pure, Except.pure]
    rw [slice_ok _ _ _ _ (by omega)]
    simp only [List.drop_zero, hr, hsp, hne, if_false, hlen]
    cases r with
    | none => simp [ag.undecodable _ hr]
    | some tgt =>
      simp only []
      cases hres : resolve tgt with
      | fail => simp [ag.resolve_fail _ _ hr hres]
      | ip ip =>
        obtain ⟨h2, h3⟩ := ag.resolve_ip _ _ _ hr hres
        simp only [h2, h3]
        cases hv : validate ip with
        | invalid =>
          obtain ⟨hb1, hb2⟩ := ag.verdict_bad ip (by rw [hv]; simp)
          simp [hb1, hb2, hv, verdictStatus]
        | priv =>
          obtain ⟨hb1, hb2⟩ := ag.verdict_bad ip (by rw [hv]; simp)
          simp [hb1, hb2, hv, verdictStatus]
        | ok =>
          simp only [ag.verdict_ok ip hv]
          rw [slice_ok _ _ _ _ ⟨hle, Nat.le_refl _⟩]
          simp [h3]

/-- **code_association_only_for_allowed_destination**: whatever its collaborators do, when the translated
    `validatePacket` reports no error — the only case in which `Handle` goes on to create or use an association — the
    target it returns is the resolver's answer for the address header, the stored validator accepted that target's IP,
    and the payload is the text after the header. -/
theorem code_association_only_for_allowed_destination
    (addrString : List UInt8 → String) (resolveC : String → String → Tie.ValidatePacket.UAddr × Option String)
    (split : List UInt8 → List UInt8) (ensure : Option String → String → String → Option String)
    (validator : List UInt8 → Option String) (ipOf : Tie.ValidatePacket.UAddr → List UInt8)
    (h h' : Gen.Code.packetHandler) (text payload : List UInt8) (addr : Tie.ValidatePacket.UAddr)
    (hpre : (split text).length ≤ text.length)
    (hens : ∀ e a b, e ≠ none → ensure e a b ≠ none)
    (hok : Gen.Code.packetHandler.validatePacket addrString resolveC split ensure validator ipOf h text = some (h', payload, addr, none)) :
    split text ≠ [] ∧ resolveC "udp" (addrString (split text)) = (addr, none) ∧ validator (ipOf addr) = none ∧
      payload = text.drop (split text).length := by
  rw [Tie.ValidatePacket.validatePacket_tie _ _ _ _ _ _ _ _ hpre] at hok
  unfold Tie.ValidatePacket.decide' at hok
  by_cases h1 : split text = []
  · simp [h1] at hok
  · by_cases h2 : (resolveC "udp" (addrString (split text))).2 = none
    · by_cases h3 : validator (ipOf (resolveC "udp" (addrString (split text))).1) = none
      · simp [h1, h2, h3] at hok
        obtain ⟨_, hp, ha⟩ := hok
        refine ⟨h1, ?_, ?_, hp.symm⟩
        · rw [← ha]; exact Prod.ext rfl h2
        · rw [← ha]; exact h3
      · simp [h1, h2, h3] at hok
        exact absurd hok.2.2.2 (hens _ _ _ h3)
    · simp [h1, h2] at hok

/-- non-vacuity of `Agrees`: collaborators that agree exist (a resolver that maps every decodable header to the nil IP, a
    validator that accepts exactly the nil IP) -/
example : Agrees (fun ip => if ip = [] then .ok else .invalid) (fun _ => .ip [])
    (fun a => match decode a with | .ok none => "bad" | _ => "good")
    (fun _ s => if s = "bad" then (⟨0⟩, some "no such host") else (⟨0⟩, none))
    (fun t => match splitAddrLen t with | none => [] | some n => t.take n)
    (fun e _ _ => if e = none then none else some "ERR_ADDRESS_INVALID")
    (fun ip => if ip = [] then none else some "invalid") (fun _ => []) where
  split_eq := fun _ => rfl
  undecodable := fun a h => by simp [h]
  resolve_fail := fun a tgt h hr => by simp at hr
  resolve_ip := fun a tgt ip h hr => by simp [h]; simpa using hr
  verdict_ok := fun ip h => by by_cases hi : ip = [] <;> simp_all
  verdict_bad := fun ip h => by by_cases hi : ip = [] <;> simp_all [verdictStatus]

/-! ### the translated NAT table (`natmap.Get / set / del`, service/udp.go) is a finite map keyed by the client address -/

/-- operations on the table, as `Handle` and the association's copier make them -/
inductive TOp
  | set (client : String) (pc : GoRT.Opaque "net.PacketConn") (key : GoRT.Opaque "shadowsocks.EncryptionKey") (cm : GoRT.Opaque "service.UDPConnMetrics")
  | del (client : String)
  | get (client : String)

/-- the translated code, run over a sequence of operations (`none` = a panic) -/
def codeTable : Gen.Code.natmap → List TOp → Option Gen.Code.natmap
  | m, [] => some m
  | m, .set c pc k cm :: ops => (Gen.Code.natmap.set m c pc k cm).bind (fun r => codeTable r.1 ops)
  | m, .del c :: ops => (Gen.Code.natmap.del m c).bind (fun r => codeTable r.1 ops)
  | m, .get c :: ops => (Gen.Code.natmap.Get m c).bind (fun r => codeTable r.1 ops)

/-- the specification: a function from client address to the association last stored for it and not removed since -/
def specTable (timeout : Int) : (String → Option Gen.Code.natconn) → List TOp → (String → Option Gen.Code.natconn)
  | f, [] => f
  | f, .set c pc k cm :: ops => specTable timeout (fun x => if x = c then some (Tie.NatMap.entryOf timeout pc k cm) else f x) ops
  | f, .del c :: ops => specTable timeout (fun x => if x = c then none else f x) ops
  | f, .get _ :: ops => specTable timeout f ops

/-- **code_nat_table_refines_map**: every sequence of set / del / Get on the translated NAT table runs without panic,
    leaves the table's timeout alone, and ends in a table whose lookups are exactly those of the specification map:
    a client address is bound to the association of the last `set` for that very address that no `del` of that
    address followed — so two different client addresses never see each other's association, and an association
    stays bound to its client until its own `del`. -/
theorem code_nat_table_refines_map (ops : List TOp) (m : Gen.Code.natmap) :
    ∃ m', codeTable m ops = some m' ∧ m'.timeout = m.timeout ∧
      ∀ c, (Gen.Code.natmap.Get m' c) = some (m', specTable m.timeout (fun x => m.keyConn.get? x) ops c) := by
  induction ops generalizing m with
  | nil => exact ⟨m, rfl, rfl, fun c => Tie.NatMap.get_tie m c⟩
  | cons op ops ih =>
    cases op with
    | set c pc k cm =>
      obtain ⟨m', h1, h2, h3⟩ := ih { m with keyConn := m.keyConn.insert c (Tie.NatMap.entryOf m.timeout pc k cm) }
      refine ⟨m', ?_, h2, ?_⟩
      · simp only [codeTable, Tie.NatMap.set_tie, Option.bind_some]; exact h1
      · intro x; rw [h3 x]; simp only [specTable]
        congr 3; funext y; rw [Tie.NatMap.get?_insert]
    | del c =>
      rcases Tie.NatMap.del_tie m c with hd | ⟨hn, hd⟩
      · obtain ⟨m', h1, h2, h3⟩ := ih { m with keyConn := m.keyConn.erase c }
        refine ⟨m', ?_, h2, ?_⟩
        · simp only [codeTable, hd, Option.bind_some]; exact h1
        · intro x; rw [h3 x]; simp only [specTable]
          congr 3; funext y; rw [Tie.NatMap.get?_erase]
      · obtain ⟨m', h1, h2, h3⟩ := ih m
        refine ⟨m', ?_, h2, ?_⟩
        · simp only [codeTable, hd, Option.bind_some]; exact h1
        · intro x; rw [h3 x]; simp only [specTable]
          congr 3; funext y
          by_cases hy : y = c
          · simp [hy, hn]
          · simp [hy]
    | get c =>
      obtain ⟨m', h1, h2, h3⟩ := ih m
      refine ⟨m', ?_, h2, ?_⟩
      · simp only [codeTable, Tie.NatMap.get_tie, Option.bind_some]; exact h1
      · intro x; rw [h3 x]; simp only [specTable]

/-- **code_del_returns_the_association**: the translated `del` hands back exactly what the table held for that client
    (so that the copier closes its own socket and no other) and afterwards the client is unbound. -/
theorem code_del_returns_the_association (m : Gen.Code.natmap) (c : String) :
    ∃ m', Gen.Code.natmap.del m c = some (m', m.keyConn.get? c) ∧ m'.keyConn.get? c = none ∧
      ∀ c', c' ≠ c → m'.keyConn.get? c' = m.keyConn.get? c' := by
  rcases Tie.NatMap.del_tie m c with hd | ⟨hn, hd⟩
  · refine ⟨_, hd, ?_, ?_⟩
    · simp [Tie.NatMap.get?_erase]
    · intro c' h; simp [Tie.NatMap.get?_erase, h]
  · exact ⟨m, by rw [hd, hn], hn, fun _ _ => rfl⟩

/-- non-vacuity: two clients, one removed -/
example : (codeTable Gen.Code.natmap.zero [.set "a:1" ⟨1⟩ ⟨0⟩ ⟨0⟩, .set "b:2" ⟨2⟩ ⟨0⟩ ⟨0⟩, .del "a:1"]).map
    (fun m => ((m.keyConn.get? "a:1").map (·.PacketConn.val), (m.keyConn.get? "b:2").map (·.PacketConn.val))) =
    some (none, some 2) := by decide

end OutlineModel.Props.C04
