import OutlineModel.Proofs.NatInv
import OutlineModel.Model.UDPRun
/-
C04 — UDP associations give each client one stable, private outbound socket.

Invariants of the NAT-table model for EVERY reachable state: any number of clients, any
interleaving of client datagrams, target datagrams, expiries and key-list updates.  Socket
identities are abstract; that a fresh socket's local address differs from every open socket's is
the kernel contract (observed by the `udp` campaign through source ports).
-/
namespace OutlineModel.Props.C04
open OutlineModel OutlineModel.UDP OutlineModel.CipherList OutlineModel.Socks

theorem step_inv (c : Cfg) (st : State) (inv : NatInv st) (o : UDP.Op) : NatInv (stepOp c st o).1 := by
  cases o with
  | pkt client cip wire opens plain resolve => exact inv.upstream _ _ _ _ _ _ _ _ _
  | pktFail client cip wire opens plain resolve => exact inv.upstream _ _ _ _ _ _ _ _ _
  | reply client srcIP srcPort body =>
    simp only [stepOp]
    cases hn : lookupNat st.nat client with
    | none => exact inv
    | some a => exact inv.downstream _ _ _ a (lookupNat_some _ _ _ hn).1 _ _ _
  | expire client => exact inv.expire _
  | update l => exact inv.setList l

/-- **reachable_inv**: the NAT invariant holds in every reachable state. -/
theorem reachable_inv (c : Cfg) (l : List Entry) (ops : List UDP.Op) : NatInv (run c (UDP.init l) ops) := by
  have : ∀ (st : State), NatInv st → NatInv (run c st ops) := by
    induction ops with
    | nil => intro st h; exact h
    | cons o os ih => intro st h; exact ih _ (step_inv c st h o)
  exact this _ (NatInv.init l)

/-- **inj**: in every reachable state, distinct client addresses never share an outbound socket, and
    one client address has at most one association. -/
theorem inj (c : Cfg) (l : List Entry) (ops : List UDP.Op) (a b : Assoc)
    (ha : a ∈ (run c (UDP.init l) ops).nat) (hb : b ∈ (run c (UDP.init l) ops).nat) :
    (a.sock = b.sock → a = b) ∧ (a.client = b.client → a = b) := by
  have inv := reachable_inv c l ops
  exact ⟨eq_of_nodup_map (·.sock) _ inv.socks_nodup a ha b hb, eq_of_nodup_map (·.client) _ inv.clients_nodup a ha b hb⟩

/-- **live_socket_open**: the socket of a live association is never one that a copier closed, and
    socket identities are never reused. -/
theorem live_socket_open (c : Cfg) (l : List Entry) (ops : List UDP.Op) (a : Assoc)
    (ha : a ∈ (run c (UDP.init l) ops).nat) :
    a.sock ∉ (run c (UDP.init l) ops).closedSocks ∧ a.sock < (run c (UDP.init l) ops).nextSock :=
  ⟨(reachable_inv c l ops).live_open a ha, (reachable_inv c l ops).socks_lt a ha⟩

/-- **stable**: while the association of a client exists, a forwarded datagram of that client leaves
    from the association's socket, and the association (same socket, same key) is still there
    afterwards. -/
theorem stable (c : Cfg) (resolve : Target → Resolved) (st : State) (client : String) (cip : Option Nat) (wire : Nat)
    (opens : List Nat) (plain : List UInt8) (a : Assoc) (hn : lookupNat st.nat client = some a) :
    (∀ sock ip port payload, Eff.send sock ip port payload ∈
        (upstream c.dnsPort c.ki c.validate resolve st client cip wire opens plain).2 → sock = a.sock) ∧
    (∃ a', lookupNat (upstream c.dnsPort c.ki c.validate resolve st client cip wire opens plain).1.nat client = some a' ∧
        a'.sock = a.sock ∧ a'.key = a.key ∧ a'.client = a.client) := by
  obtain ⟨ham, hac⟩ := lookupNat_some _ _ _ hn
  constructor
  · intro sock ip port payload h
    unfold upstream at h
    simp only [hn] at h
    by_cases ho : opens.contains a.key = true
    · rw [if_pos ho] at h
      cases hv : validatePacket c.validate resolve plain with
      | error p => simp [hv] at h
      | ok r => cases r with
        | error s => simp [hv] at h
        | ok t => obtain ⟨pl, ip', port'⟩ := t; simp [hv] at h; exact h.1
    · rw [if_neg ho] at h; simp at h
  · unfold upstream
    simp only [hn]
    by_cases ho : opens.contains a.key = true
    · rw [if_pos ho]
      cases hv : validatePacket c.validate resolve plain with
      | error p => exact ⟨a, hn, rfl, rfl, rfl⟩
      | ok r => cases r with
        | error s => exact ⟨a, hn, rfl, rfl, rfl⟩
        | ok t =>
          obtain ⟨pl, ip', port'⟩ := t
          simp only
          refine ⟨a.onWrite port' c.dnsPort, ?_, onWrite_sock _ _ _, onWrite_key _ _ _, onWrite_client _ _ _⟩
          rw [lookupNat_updateAssoc _ _ _ _ (fun x => onWrite_client x _ _), hn]
          simp [hac]
    · rw [if_neg ho]; exact ⟨a, hn, rfl, rfl, rfl⟩

/-- **reply_routing**: a datagram read on the socket of association `a` is written to `a`'s client and
    to nobody else (the copier captured the address when the association was created), encrypted
    under `a`'s key. -/
theorem reply_routing (c : Cfg) (st : State) (a : Assoc) (srcIP : List UInt8) (srcPort : Nat) (body : List UInt8)
    (client : String) (key : Nat) (pt : List UInt8) (w : Nat)
    (h : Eff.toClient client key pt w ∈ (downstream c.dnsPort c.bufSize c.maxAddrLen st a srcIP srcPort body).2) :
    client = a.client ∧ key = a.key := by
  unfold downstream at h
  have hr : Eff.toClient client key pt w ∈ relayReply c.bufSize c.maxAddrLen a srcIP srcPort body := by
    simp only at h
    split at h
    · exact h
    · split at h
      · simp only [List.mem_append, List.mem_singleton] at h
        rcases h with h | h
        · exact h
        · cases h
      · exact h
  unfold relayReply at hr
  simp only at hr
  split at hr
  · simp at hr
  · split at hr
    · simp at hr
    · split at hr
      · simp at hr
      · simp at hr
        exact ⟨hr.1, hr.2.1⟩

/-- **created_only_authenticated**: an association is created only by a datagram that authenticates
    under a configured key and whose destination passed the validator, for a client address that
    had none; it is bound to that entry's key and id and to a brand-new socket. -/
theorem created_only_authenticated (c : Cfg) (resolve : Target → Resolved) (st : State) (client : String) (cip : Option Nat)
    (wire : Nat) (opens : List Nat) (plain : List UInt8) (cl : String) (id : String) (sock : Nat)
    (h : Eff.natAdd cl id sock ∈ (upstream c.dnsPort c.ki c.validate resolve st client cip wire opens plain).2) :
    cl = client ∧ lookupNat st.nat client = none ∧ sock = st.nextSock ∧
    (∃ e ∈ st.list, opens.contains e.key = true ∧ e.id = id) ∧
    (∃ pl ip port, validatePacket c.validate resolve plain = .ok (.ok (pl, ip, port)) ∧ c.validate ip = .ok) := by
  unfold upstream at h
  cases hn : lookupNat st.nat client with
  | none =>
    simp only [hn] at h
    cases hl : lookup st.list cip (fun k => opens.contains k) with
    | mk list' found =>
      simp only [hl] at h
      cases found with
      | none => simp at h
      | some ei =>
        obtain ⟨e, i⟩ := ei
        have hfound := lookup_found st.list cip (fun k => opens.contains k) e i (by rw [hl])
        simp only at h
        cases hv : validatePacket c.validate resolve plain with
        | error p => simp [hv] at h
        | ok r => cases r with
          | error s => simp [hv] at h
          | ok t =>
            obtain ⟨pl, ip', port'⟩ := t
            simp [hv] at h
            obtain ⟨rfl, rfl, rfl⟩ := h
            obtain ⟨n, _, _, hval⟩ := validatePacket_ok c.validate resolve plain _ _ _ hv
            exact ⟨rfl, rfl, onWrite_sock _ _ _, ⟨e, hfound.1, hfound.2, rfl⟩, ⟨pl, ip', port', rfl, hval⟩⟩
  | some a =>
    simp only [hn] at h
    by_cases ho : opens.contains a.key = true
    · rw [if_pos ho] at h
      cases hv : validatePacket c.validate resolve plain with
      | error p => simp [hv] at h
      | ok r => cases r with
        | error s => simp [hv] at h
        | ok t => obtain ⟨pl, ip', port'⟩ := t; simp [hv] at h
    · rw [if_neg ho] at h; simp at h

/-- **expire_removes_self**: a copier removes exactly its own client's entry and closes exactly that
    entry's socket; every other association is untouched. -/
theorem expire_removes_self (st : State) (client : String) (b : Assoc) (hb : b ∈ st.nat) (hne : b.client ≠ client) :
    b ∈ (expire st client).1.nat := by
  unfold expire
  cases hn : lookupNat st.nat client with
  | none => exact hb
  | some a =>
    simp only
    exact List.mem_filter.2 ⟨hb, by simpa using hne⟩

/- non-vacuity: a two-client history reaching a state with two associations on distinct sockets -/
example :
    let c : Cfg := { dnsPort := 53, bufSize := 65536, maxAddrLen := 19, ki := fun _ => (32, 16), validate := fun _ => .ok }
    let l : List Entry := [{ ref := 1, id := "k", key := 0, lastIP := none }]
    let plain : List UInt8 := [1, 203, 0, 113, 10, 0, 53, 9]
    let res : Target → Resolved := fun t => match t with | .v4 ip _ => .ip ip | .v6 ip _ => .ip ip | .domain _ _ => .fail
    let ops := [UDP.Op.pkt "a:1" (some 1) 60 [0] plain res, UDP.Op.pkt "b:1" (some 2) 60 [0] plain res]
    ((run c (UDP.init l) ops).nat.map (·.sock)) = [1, 0] := by decide

end OutlineModel.Props.C04
