import OutlineModel.Gen.LockFacts
import OutlineModel.Gen.Wiring
import OutlineModel.Proofs.LockSet
/-
C19 — Shared server state is free of data races under concurrent use.

Generated facts (Gen/LockFacts.accesses): every read and write of a field of the shared structures,
with the locks held at that point (through helper calls), the ordinal of the critical section it
lies in, and whether the object was still private to the function building it.  Obligations, by
`decide` over the whole generated table (a proof: the quantifier IS that table):
  * guarded fields: every post-publication access holds the guard — exclusively for writes;
  * immutable fields (channels, callbacks set at construction): no post-publication write;
  * atomic operations: all accesses of an operation to the guarded state lie in ONE critical section
    (so the state evolves by whole operations: results equal the sequential order of acquisition).
The generic justification (a lock-set discipline excludes unordered conflicting accesses; whole
critical sections serialise) is Model/LockSet; sequential specifications are the models of
C01/C07/C04/C17.  The Go memory model (mutex release/acquire ordering) is the contract.
-/
namespace OutlineModel.Props.C19
open OutlineModel OutlineModel.Gen.LockFacts

def touches (a : Access) (strct field : String) : Bool := a.strct == strct && a.field == field

/-- Accesses whose ordering does not come from a lock visible to the lock-set analysis:
    * the on-close closures the manager installs (`ListenStream$1`, `ListenPacket$1`) delete the map
      entry without locking: they run only inside managedStreamListener/managedPacketConn.Close,
      which holds `listenerManager.mu` (generated fact `managerReturnsOnlyWrappedListeners`: the
      shared listener and what it hands out are reachable only through those wrappers);
    * the reader goroutine of a shared packet listener (`multiPacketListener.Acquire$1`) reads `pc`,
      `readCh`, `doneCh`, which are written once, under the lock, before the `go` statement that
      starts it, in a block guarded by `m.pc == nil` that `pc` (never reset) lets run only once. -/
def orderedOtherwise (a : Access) : Bool :=
  (a.fn == "listenerManager.ListenStream$1" && a.strct == "listenerManager" && a.field == "streamListeners") ||
  (a.fn == "listenerManager.ListenPacket$1" && a.strct == "listenerManager" && a.field == "packetListeners") ||
  (a.fn == "multiPacketListener.Acquire$1" && a.strct == "multiPacketListener" && !a.write &&
    (a.field == "pc" || a.field == "readCh" || a.field == "doneCh"))

/-- every post-publication access to `strct.field` holds `guard`; writes hold it exclusively -/
def guardedOK (strct field guard : String) : Bool :=
  accesses.all fun a => !touches a strct field || a.prepub || orderedOtherwise a ||
    a.held.any fun h => h.1 == guard && (h.2 || !a.write)

/-- `strct.field` is never written after publication -/
def immutableOK (strct field : String) : Bool :=
  accesses.all fun a => !touches a strct field || a.prepub || !a.write

/-- all accesses of function `fn` to the guarded fields `fields` of `strct` lie in one and the same
    critical section, and there is at least one -/
def oneSection (strct fn : String) (fields : List String) : Bool :=
  let accs := accesses.filter fun a => a.strct == strct && a.fn == fn && !a.prepub && fields.contains a.field
  !accs.isEmpty && accs.all fun a => a.sect != 0 && accs.all fun b => b.sect == a.sect

/-- the field exists in the generated table (guards against a silently renamed field) -/
def known (strct field : String) : Bool := accesses.any fun a => touches a strct field

def guardedFields : List (String × String × String) := [
  ("ReplayCache", "capacity", "ReplayCache.mutex"), ("ReplayCache", "active", "ReplayCache.mutex"),
  ("ReplayCache", "archive", "ReplayCache.mutex"),
  ("cipherList", "list", "cipherList.mu"), ("CipherEntry", "lastClientIP", "cipherList.mu"),
  ("natmap", "keyConn", "natmap.(embedded)"),
  ("multiStreamListener", "ln", "multiStreamListener.mu"), ("multiStreamListener", "count", "multiStreamListener.mu"),
  ("multiStreamListener", "acceptCh", "multiStreamListener.mu"), ("multiStreamListener", "doneCh", "multiStreamListener.mu"),
  ("multiStreamListener", "onCloseFunc", "multiStreamListener.mu"),
  ("multiPacketListener", "pc", "multiPacketListener.mu"), ("multiPacketListener", "count", "multiPacketListener.mu"),
  ("multiPacketListener", "readCh", "multiPacketListener.mu"), ("multiPacketListener", "doneCh", "multiPacketListener.mu"),
  ("multiPacketListener", "onCloseFunc", "multiPacketListener.mu"),
  ("virtualStreamListener", "acceptCh", "virtualStreamListener.mu"), ("virtualStreamListener", "onCloseFunc", "virtualStreamListener.mu"),
  ("virtualPacketConn", "onCloseFunc", "virtualPacketConn.mu"),
  ("listenerManager", "streamListeners", "listenerManager.mu"), ("listenerManager", "packetListeners", "listenerManager.mu"),
  ("tunnelTimeMetrics", "activeClients", "tunnelTimeMetrics.mu"),
  ("activeClient", "connCount", "tunnelTimeMetrics.mu"), ("activeClient", "startTime", "tunnelTimeMetrics.mu"),
  ("activeClient", "info", "tunnelTimeMetrics.mu")]

def immutableFields : List (String × String) := [
  ("virtualStreamListener", "closeCh"), ("virtualStreamListener", "addr"),
  ("virtualPacketConn", "closeCh"), ("virtualPacketConn", "readCh"),
  ("multiStreamListener", "addr"), ("multiPacketListener", "addr"),
  ("CipherEntry", "ID"), ("CipherEntry", "CryptoKey"), ("CipherEntry", "SaltGenerator"),
  ("natmap", "timeout"), ("natmap", "metrics"), ("natmap", "logger"),
  ("natconn", "cryptoKey"), ("natconn", "metrics"), ("natconn", "defaultTimeout"),
  ("tunnelTimeMetrics", "ip2info")]

def atomicOps : List (String × String) := [
  ("ReplayCache", "ReplayCache.Add"), ("ReplayCache", "ReplayCache.Resize"),
  ("cipherList", "cipherList.SnapshotForClientIP"), ("cipherList", "cipherList.MarkUsedByClientIP"), ("cipherList", "cipherList.Update"),
  ("natmap", "natmap.Get"), ("natmap", "natmap.set"), ("natmap", "natmap.del"), ("natmap", "natmap.Close"),
  ("tunnelTimeMetrics", "tunnelTimeMetrics.startConnection"), ("tunnelTimeMetrics", "tunnelTimeMetrics.stopConnection"),
  ("tunnelTimeMetrics", "tunnelTimeMetrics.Collect")]

/-- **guards_hold**: every shared mutable field is accessed, after publication, only with its guard held
    (read lock suffices for reads, writes need the exclusive lock). -/
theorem guards_hold : ∀ g ∈ guardedFields, guardedOK g.1 g.2.1 g.2.2 = true ∧ known g.1 g.2.1 = true := by decide +kernel

/-- the fact the first exemption rests on, and: `pc` of a shared packet listener is written in
    exactly one place (so the block that starts the reader goroutine runs once) -/
theorem exemptions_justified : Gen.Wiring.managerReturnsOnlyWrappedListeners = true ∧
    ((accesses.filter fun a => touches a "multiPacketListener" "pc" && a.write).length = 1) := by decide +kernel

/-- **immutables_never_written**: fields read without a lock (channels selected on, configuration,
    callbacks installed by the constructor) are never written after publication. -/
theorem immutables_never_written : ∀ f ∈ immutableFields, immutableOK f.1 f.2 = true := by decide +kernel

/-- **operations_atomic**: each operation of the key list, the replay history, the association table and
    the tunnel-time collector touches its state inside one critical section. -/
theorem operations_atomic : ∀ o ∈ atomicOps,
    oneSection o.1 o.2 ((guardedFields.filter fun g => g.1 == o.1).map fun g => g.2.1) = true := by decide +kernel

/-- **lockset_race_free** (generic): in any execution that respects mutual exclusion, if every access
    to a variable happens while its guard is held, two accesses by different goroutines are ordered
    by a release of the guard by the first and an acquisition by the second — they are not a data
    race under the Go memory model. -/
theorem lockset_race_free {tr : List LockSet.Ev} {x g i j t1 t2 : Nat}
    (hw : LockSet.WellFormed tr) (hg : LockSet.Guarded tr x g)
    (hi : LockSet.accessAt tr i t1 x) (hj : LockSet.accessAt tr j t2 x) (hij : i < j) (hne : t1 ≠ t2) :
    ∃ k k', i < k ∧ k < k' ∧ k' < j ∧ tr[k]? = some (.rel t1 g) ∧ tr[k']? = some (.acq t2 g) :=
  LockSet.lockset_happens_before hw hg hi hj hij hne

/-- **sections_serial** (generic): critical sections of one lock never overlap, so state touched only
    inside them evolves by whole sections, in the order of acquisition (a sequential order of the
    operations, given `operations_atomic`). -/
theorem sections_serial {tr : List LockSet.Ev} {g i j t1 t2 : Nat} (hw : LockSet.WellFormed tr)
    (hi : tr[i]? = some (.acq t1 g)) (hj : tr[j]? = some (.acq t2 g)) (hij : i < j) :
    ∃ k, i < k ∧ k < j ∧ tr[k]? = some (.rel t1 g) :=
  LockSet.sections_serial hw hi hj hij

end OutlineModel.Props.C19
