import OutlineModel.Proofs.TieCipherList
import OutlineModel.Proofs.TieFindKey
import OutlineModel.Proofs.TieAuth
import OutlineModel.Proofs.CipherList
import OutlineModel.Proofs.FirstWins
import OutlineModel.Model.Auth
import OutlineModel.Gen.Consts
import OutlineModel.Gen.Ciphers
/-
C01 — TCP access-key authentication is sound and complete for every key list.

Models: Model/CipherList (snapshot / trial decryption / mark-used / update) and Model/Auth
(NewShadowsocksStreamAuthenticator), tied to service/cipher_list.go and service/tcp.go by the
`tcpauth` campaign (real authenticator, in-memory connections, spec-level cryptography) and the
`tcp` campaign (real handler over loopback).  `valid k` = "the first length block opens under key
k" is the cryptographic contract; `KeySeparation` = a stream sealed under one key opens under no other.
-/
namespace OutlineModel.Props.C01
open OutlineModel OutlineModel.CipherList OutlineModel.Auth

/-- **snapshot_perm**: the per-connection snapshot is a permutation of the list: nothing dropped, nothing
    duplicated, for any list and any client IP. -/
theorem snapshot_is_perm (l : List Entry) (ip : Option Nat) : (snapshot l ip).Perm l := snapshot_perm l ip

/-- **find_none_iff**: the key search fails iff NO configured key opens the header. -/
theorem find_none_iff (valid : Nat → Bool) (l : List Entry) (ip : Option Nat) :
    (lookup l ip valid).2 = none ↔ ∀ e ∈ l, valid e.key = false := lookup_none_iff l ip valid

/-- **find_sound**: what the search returns is a configured entry whose key opens the header. -/
theorem find_sound (valid : Nat → Bool) (l : List Entry) (ip : Option Nat) (e : Entry) (i : Nat)
    (h : (lookup l ip valid).2 = some (e, i)) : e ∈ l ∧ valid e.key = true := lookup_found l ip valid e i h

/-- **find_complete**: if some configured key opens the header, the search succeeds — whatever the
    list order, the cipher mix, the most-recently-used state or the client IP. -/
theorem find_complete (valid : Nat → Bool) (l : List Entry) (ip : Option Nat) (e : Entry) (he : e ∈ l)
    (hv : valid e.key = true) : ∃ r, (lookup l ip valid).2 = some r := by
  cases h : (lookup l ip valid).2 with
  | some r => exact ⟨r, rfl⟩
  | none =>
    have := (lookup_none_iff l ip valid).1 h e he
    rw [hv] at this; cases this

/-- element identities are pairwise distinct -/
def RefsNodup (l : List Entry) : Prop := (l.map (·.ref)).Nodup

/-- histories in which every replacement list has distinct element identities (`list.New` +
    `PushBack` of fresh elements) -/
def UpdatesFresh : List CipherList.Op → Prop
  | [] => True
  | .update src :: os => RefsNodup src ∧ UpdatesFresh os
  | _ :: os => UpdatesFresh os

/-- the (id, key) pairs of the most recent replacement (or of the initial list) -/
def lastConfigured (l : List Entry) : List CipherList.Op → List Entry
  | [] => l
  | .update src :: os => lastConfigured src os
  | _ :: os => lastConfigured l os

/-- **keys_invariant**: after ANY history of lookups, usage markings (fresh or stale, from any
    interleaving of concurrent connections — each is one critical section of the RWMutex) and list
    replacements, the configured (id, key) pairs in the list are exactly those of the most recent
    replacement: no key is lost, duplicated or altered by the MRU / last-client-IP bookkeeping. -/
theorem keys_invariant : ∀ (ops : List CipherList.Op) (l : List Entry), RefsNodup l → UpdatesFresh ops →
    ((CipherList.run l ops).map cfg).Perm ((lastConfigured l ops).map cfg) ∧ RefsNodup (CipherList.run l ops) := by
  intro ops
  induction ops with
  | nil => intro l hl _; exact ⟨List.Perm.refl _, hl⟩
  | cons o os ih =>
    intro l hl hu
    cases o with
    | lookup ip vs =>
      simp only [CipherList.run, CipherList.step, lastConfigured]
      have hnd : RefsNodup (lookup l ip (fun k => vs.contains k)).1 :=
        (lookup_refs_perm l ip _ hl).nodup_iff.2 hl
      obtain ⟨h1, h2⟩ := ih _ hnd (by simpa [UpdatesFresh] using hu)
      refine ⟨?_, h2⟩
      -- lastConfigured only depends on the ops when an update follows; relate through cfg-permutation
      exact h1.trans (lastConfigured_cfg_perm os _ _ (lookup_cfg_perm l ip _ hl))
    | mark ref ip =>
      simp only [CipherList.run, CipherList.step, lastConfigured]
      have hnd : RefsNodup (markUsed l ref ip) := (markUsed_refs_perm l ref ip hl).nodup_iff.2 hl
      obtain ⟨h1, h2⟩ := ih _ hnd (by simpa [UpdatesFresh] using hu)
      exact ⟨h1.trans (lastConfigured_cfg_perm os _ _ (markUsed_cfg_perm l ref ip hl)), h2⟩
    | update src =>
      simp only [CipherList.run, CipherList.step, lastConfigured, CipherList.update]
      simp only [UpdatesFresh] at hu
      exact ih src hu.1 hu.2
where
  lastConfigured_cfg_perm : ∀ (os : List CipherList.Op) (a b : List Entry), (a.map cfg).Perm (b.map cfg) →
      ((lastConfigured a os).map cfg).Perm ((lastConfigured b os).map cfg) := by
    intro os
    induction os with
    | nil => intro a b h; exact h
    | cons o os ih =>
      intro a b h
      cases o with
      | lookup ip vs => exact ih a b h
      | mark r ip => exact ih a b h
      | update src => exact List.Perm.refl _

/-- **first_configured_wins**: when several entries are configured with the same (cipher, secret), in
    every state reachable from a freshly configured list by lookups from any client IPs (and by
    replacements with freshly configured lists) a lookup returns the FIRST configured entry of its
    key group: a shadowed entry is never returned, never marked, and stays behind its shadower.
    (Legacy-format lists are not de-duplicated: this is what "attributed to the first ID" rests on.) -/
theorem first_configured_wins {l0 : List Entry} {ops : List CipherList.Op} (hfresh : Fresh l0) (hops : OnlyLookups ops) :
    FirstWinsInv (CipherList.run l0 ops) ∧
    ∀ ip valid e i, (lookup (CipherList.run l0 ops) ip valid).2 = some (e, i) → ¬ Shadowed (CipherList.run l0 ops) e :=
  CipherList.first_configured_wins hfresh hops

/-- the configured relative order inside a key group is never changed by lookups -/
theorem key_group_order_preserved {l0 : List Entry} {ops : List CipherList.Op} {pre mid post : List Entry} {a b : Entry}
    (hfresh : Fresh l0) (hops : ∀ o ∈ ops, IsLookup o) (hl0 : l0 = pre ++ a :: (mid ++ b :: post)) (hk : a.key = b.key) :
    ∃ pre' mid' post' a' b', CipherList.run l0 ops = pre' ++ a' :: (mid' ++ b' :: post') ∧
      a'.ref = a.ref ∧ b'.ref = b.ref ∧ a'.key = b'.key :=
  CipherList.key_order_preserved hfresh hops hl0 hk

/-- a stream sealed under key `k0` opens under `k0` and under no other key -/
def KeySeparation (valid : Nat → Bool) (k0 : Nat) : Prop := ∀ k, valid k = true ↔ k = k0

/-- **auth_attribution**: whenever the authenticator does not answer ERR_CIPHER, the id it reports is
    the id of a configured entry whose key opens the stream; under key separation that entry is
    configured with exactly the key the client used. -/
theorem auth_attribution (st : AuthState) (ip : Option Nat) (enough : Bool) (valid : Nat → Bool)
    (srvSalt : Entry → Bool) (hash : Entry → UInt32)
    (h : (authenticate st ip enough valid srvSalt hash).2.status ≠ .errCipher) :
    ∃ e ∈ st.list, valid e.key = true ∧ (authenticate st ip enough valid srvSalt hash).2.id = e.id ∧
      (∀ k0, KeySeparation valid k0 → e.key = k0) := by
  unfold authenticate at h ⊢
  cases enough with
  | false => simp at h
  | true =>
    simp only [Bool.not_true, Bool.false_eq_true, if_false] at h ⊢
    cases hl : lookup st.list ip valid with
    | mk list' found =>
      rw [hl] at h
      cases found with
      | none => simp at h
      | some ei =>
        obtain ⟨e, i⟩ := ei
        have hf := lookup_found st.list ip valid e i (by rw [hl])
        refine ⟨e, hf.1, hf.2, ?_, fun k0 hk => (hk e.key).1 hf.2⟩
        simp only
        split
        · rfl
        · split <;> rfl

/-- **auth_complete**: a client that delivers the 50 bytes and whose stream opens under some
    configured key is never answered ERR_CIPHER (it is authenticated unless it is a replay). -/
theorem auth_complete (st : AuthState) (ip : Option Nat) (valid : Nat → Bool)
    (srvSalt : Entry → Bool) (hash : Entry → UInt32) (e : Entry) (he : e ∈ st.list) (hv : valid e.key = true) :
    (authenticate st ip true valid srvSalt hash).2.status ≠ .errCipher := by
  unfold authenticate
  simp only [Bool.not_true, Bool.false_eq_true, if_false]
  obtain ⟨r, hr⟩ := find_complete valid st.list ip e he hv
  cases hl : lookup st.list ip valid with
  | mk list' found =>
    rw [hl] at hr
    simp only at hr
    subst hr
    obtain ⟨e', i⟩ := r
    simp only
    split
    · simp
    · split <;> simp

/-- **unauth_is_err_cipher**: fewer than 50 bytes, or 50 bytes that no configured key opens, always give
    ERR_CIPHER with the empty id, and leave the replay cache untouched. -/
theorem unauth_is_err_cipher (st : AuthState) (ip : Option Nat) (enough : Bool) (valid : Nat → Bool)
    (srvSalt : Entry → Bool) (hash : Entry → UInt32)
    (h : enough = false ∨ ∀ e ∈ st.list, valid e.key = false) :
    (authenticate st ip enough valid srvSalt hash).2.status = .errCipher ∧
    (authenticate st ip enough valid srvSalt hash).2.id = "" ∧
    (authenticate st ip enough valid srvSalt hash).1.cache = st.cache := by
  unfold authenticate
  cases enough with
  | false => simp
  | true =>
    rcases h with h | h
    · cases h
    · have hn := (lookup_none_iff st.list ip valid).2 h
      simp only [Bool.not_true, Bool.false_eq_true, if_false]
      cases hl : lookup st.list ip valid with
      | mk list' found =>
        rw [hl] at hn
        simp only at hn
        subst hn
        simp

/-- **header_fits**: for every cipher of the generated table the bytes the key search needs
    (salt + 2 + tag) fit in the `bytesForKeyFinding` bytes that are read, and 50 bytes never reach
    past the first payload tag (so exactly the length block is tested). -/
theorem header_fits : ∀ c ∈ Gen.ciphers, c.saltSize + 2 + c.tagSize ≤ Gen.bytesForKeyFinding ∧
    Gen.bytesForKeyFinding ≤ c.saltSize + 2 + 2 * c.tagSize := by decide

/- non-vacuity -/
example : (lookup [{ ref := 1, id := "a", key := 0, lastIP := some 7 }, { ref := 2, id := "b", key := 1, lastIP := none }]
    (some 7) (fun k => k == 1)).2 = some ({ ref := 2, id := "b", key := 1, lastIP := none }, 1) := by decide


/-! ### The same statements about the code itself

`Gen.Code.matchesIP`, `Gen.Code.cipherList.SnapshotForClientIP / MarkUsedByClientIP / Update` (service/cipher_list.go) and
`Gen.Code.findEntry` (service/tcp.go) are TRANSLATED from the source on every run (extract/golean.go); container/list is the
prelude's (elements with an identity, front first); `shadowsocks.Unpack` and the key's `SaltSize` / `TagSize` are
parameters (any functions). -/

/-- the translated `SnapshotForClientIP` never panics (every array store is in range), leaves the list alone and returns
    the model's snapshot — hence a permutation of the configured entries: nothing dropped, nothing invented -/
theorem code_snapshot (cl : Gen.Code.cipherList) (ip : GoRT.Opaque "netip.Addr") :
    ∃ snap, Gen.Code.cipherList.SnapshotForClientIP cl ip = some (cl, snap) ∧
      snap.map Tie.CipherList.absEntry = snapshot (cl.list.map Tie.CipherList.absEntry) (Tie.CipherList.absIP ip) ∧
      (snap.map Tie.CipherList.absEntry).Perm (cl.list.map Tie.CipherList.absEntry) := by
  obtain ⟨h1, h2⟩ := Tie.CipherList.snapshot_tie cl ip
  exact ⟨_, h1, h2, by rw [h2]; exact snapshot_perm _ _⟩

/-- the translated `MarkUsedByClientIP` is the model's `markUsed` (move-to-front of a current element, no-op on the list for
    a stale one, client IP recorded) and `Update` replaces the list -/
theorem code_markUsed_update (cl : Gen.Code.cipherList) (e : GoRT.ListElem Gen.Code.CipherEntry) (ip : GoRT.Opaque "netip.Addr")
    (src : List (GoRT.ListElem Gen.Code.CipherEntry))
    (hid : ∀ x ∈ cl.list, x.id = e.id → x.Value.ID = e.Value.ID ∧ x.Value.CryptoKey = e.Value.CryptoKey) :
    (∃ cl', Gen.Code.cipherList.MarkUsedByClientIP cl e ip = some cl' ∧
        cl'.list.map Tie.CipherList.absEntry = markUsed (cl.list.map Tie.CipherList.absEntry) e.id (Tie.CipherList.absIP ip)) ∧
    Gen.Code.cipherList.Update cl src = some { cl with list := src } := by
  obtain ⟨cl', h1, _, h3⟩ := Tie.CipherList.markUsed_tie cl e ip hid
  exact ⟨⟨cl', h1, h3⟩, rfl⟩

/-- **code_findEntry**: the translated trial-decryption loop of tcp.go, for every snapshot: if the bytes read for the key
    search cover salt+2+tag of every key tried (what `header_fits` says of the generated cipher table and
    `bytesForKeyFinding`), it never panics and returns the FIRST element whose key opens the header, (nil, nil) if none:
    sound and complete for every key list and order -/
theorem code_findEntry (saltSize tagSize : GoRT.Opaque "shadowsocks.EncryptionKey" → Int)
    (unpack : List UInt8 → List UInt8 → GoRT.Opaque "shadowsocks.EncryptionKey" → List UInt8 × Option String)
    (firstBytes : List UInt8) (ciphers : List (GoRT.ListElem Gen.Code.CipherEntry)) (l : GoRT.Opaque "slog.Logger")
    (hfits : ∀ elt ∈ ciphers, 0 ≤ saltSize elt.Value.CryptoKey + 2 + tagSize elt.Value.CryptoKey ∧
      saltSize elt.Value.CryptoKey + 2 + tagSize elt.Value.CryptoKey ≤ (firstBytes.length : Int)) :
    Gen.Code.findEntry saltSize tagSize unpack firstBytes ciphers l =
      some (match ciphers.find? (fun elt => Tie.CipherList.opens saltSize tagSize unpack firstBytes elt.Value.CryptoKey) with
            | some elt => (some elt.Value, some elt)
            | none => (none, none)) :=
  Tie.CipherList.findEntry_tie saltSize tagSize unpack firstBytes ciphers l hfits

/-- ... and what it finds is the model's `findEntry` over the abstracted snapshot (validity is a function of the key) -/
theorem code_findEntry_is_model (ciphers : List (GoRT.ListElem Gen.Code.CipherEntry)) (valid : Nat → Bool) :
    (ciphers.find? (fun elt => valid elt.Value.CryptoKey.val)).map Tie.CipherList.absEntry =
      findEntry valid (ciphers.map Tie.CipherList.absEntry) :=
  Tie.CipherList.find_abs ciphers valid


/-- **code_key_search_sound_and_complete**: the TCP key search as the code performs it — the translated `SnapshotForClientIP`
    followed by the translated `findEntry` on that snapshot — for EVERY key list, client IP and usage history: it never panics
    (given that the bytes read cover salt+2+tag of every configured key), it fails exactly when NO configured key opens the
    header, and what it returns is an element of the configured list whose key opens the header, together with that element's
    own entry. -/
theorem code_key_search_sound_and_complete
    (saltSize tagSize : GoRT.Opaque "shadowsocks.EncryptionKey" → Int)
    (unpack : List UInt8 → List UInt8 → GoRT.Opaque "shadowsocks.EncryptionKey" → List UInt8 × Option String)
    (firstBytes : List UInt8) (cl : Gen.Code.cipherList) (ip : GoRT.Opaque "netip.Addr") (l : GoRT.Opaque "slog.Logger")
    (hfits : ∀ elt ∈ cl.list, 0 ≤ saltSize elt.Value.CryptoKey + 2 + tagSize elt.Value.CryptoKey ∧
      saltSize elt.Value.CryptoKey + 2 + tagSize elt.Value.CryptoKey ≤ (firstBytes.length : Int)) :
    ∃ snap r, Gen.Code.cipherList.SnapshotForClientIP cl ip = some (cl, snap) ∧
      Gen.Code.findEntry saltSize tagSize unpack firstBytes snap l = some r ∧
      (r = (none, none) ↔ ∀ elt ∈ cl.list, Tie.CipherList.opens saltSize tagSize unpack firstBytes elt.Value.CryptoKey = false) ∧
      (∀ entry elt, r = (some entry, some elt) →
        elt ∈ cl.list ∧ Tie.CipherList.opens saltSize tagSize unpack firstBytes elt.Value.CryptoKey = true ∧ entry = elt.Value) := by
  have hs := (Tie.CipherList.snapshot_tie cl ip).1
  have hfits' : ∀ elt ∈ Tie.CipherList.snapOf cl.list ip, 0 ≤ saltSize elt.Value.CryptoKey + 2 + tagSize elt.Value.CryptoKey ∧
      saltSize elt.Value.CryptoKey + 2 + tagSize elt.Value.CryptoKey ≤ (firstBytes.length : Int) :=
    fun elt h => hfits elt ((Tie.CipherList.mem_snapOf cl.list ip elt).1 h)
  have hf := Tie.CipherList.findEntry_tie saltSize tagSize unpack firstBytes (Tie.CipherList.snapOf cl.list ip) l hfits'
  refine ⟨_, _, hs, hf, ?_, ?_⟩
  · cases hfind : (Tie.CipherList.snapOf cl.list ip).find? (fun elt => Tie.CipherList.opens saltSize tagSize unpack firstBytes elt.Value.CryptoKey) with
    | none =>
      simp only [true_iff]
      intro elt helt
      have := List.find?_eq_none.1 hfind elt ((Tie.CipherList.mem_snapOf cl.list ip elt).2 helt)
      simpa using this
    | some e =>
      simp only [Prod.mk.injEq, reduceCtorEq, and_self, false_iff]
      intro hall
      have hm := List.mem_of_find?_eq_some hfind
      have ho : Tie.CipherList.opens saltSize tagSize unpack firstBytes e.Value.CryptoKey = true := by
        have := List.find?_some hfind
        simpa using this
      rw [hall e ((Tie.CipherList.mem_snapOf cl.list ip e).1 hm)] at ho
      cases ho
  · intro entry elt hr
    cases hfind : (Tie.CipherList.snapOf cl.list ip).find? (fun elt => Tie.CipherList.opens saltSize tagSize unpack firstBytes elt.Value.CryptoKey) with
    | none => simp [hfind] at hr
    | some e =>
      simp only [hfind, Prod.mk.injEq, Option.some.injEq] at hr
      obtain ⟨h1, h2⟩ := hr
      subst h2
      have ho : Tie.CipherList.opens saltSize tagSize unpack firstBytes e.Value.CryptoKey = true := by
        have := List.find?_some hfind
        simpa using this
      exact ⟨(Tie.CipherList.mem_snapOf cl.list ip e).1 (List.mem_of_find?_eq_some hfind), ho, h1.symm⟩

/-! ### the translated `findAccessKey` and the translated authenticator on top of it (service/tcp.go) -/

section FindAccessKey
variable (snapshot : GoRT.Opaque "service.CipherList" → GoRT.Opaque "netip.Addr" → List (GoRT.ListElem Gen.Code.CipherEntry))
  (saltSize tagSize : GoRT.Opaque "shadowsocks.EncryptionKey" → Int)
  (multi : GoRT.Opaque "bytes.Reader" → GoRT.Opaque "io.Reader" → GoRT.Opaque "io.Reader") (newBytesReader : List UInt8 → GoRT.Opaque "bytes.Reader")
  (since : Int → Int) (unpack : List UInt8 → List UInt8 → GoRT.Opaque "shadowsocks.EncryptionKey" → List UInt8 × Option String)
  (readFull : GoRT.Opaque "io.Reader" → Int → List UInt8 × Int × Option String) (now : Int)
  (rd : GoRT.Opaque "io.Reader") (ip : GoRT.Opaque "netip.Addr") (cl : GoRT.Opaque "service.CipherList") (l : GoRT.Opaque "slog.Logger")

/-- **code_findAccessKey**: the translated `findAccessKey`, for every key-list snapshot, reader behaviour, `Unpack`, and
    cipher sizes that fit the 50 bytes (the generated cipher table does): never panics; returns an entry exactly when
    the 50 bytes were read and some key of the snapshot opens them — and then the FIRST such entry in snapshot order,
    with the first `saltSize` bytes as the salt and a reader that replays the bytes read; it marks exactly that element
    as used (one call on the key list) and marks nothing when it finds none. -/
theorem code_findAccessKey
    (hlen : (readFull rd 50).1.length = 50)
    (hfits : ∀ elt ∈ snapshot cl ip, 0 ≤ saltSize elt.Value.CryptoKey ∧ 0 ≤ tagSize elt.Value.CryptoKey ∧
      saltSize elt.Value.CryptoKey + 2 + tagSize elt.Value.CryptoKey ≤ 50) :
    ∃ ent r salt t err log,
      Gen.Code.findAccessKey snapshot saltSize tagSize multi newBytesReader since unpack readFull now rd ip cl l =
        some (ent, r, salt, t, err, log) ∧
      (match ent with
       | none => err ≠ none ∧ log = [] ∧ r = rd ∧
           ((readFull rd 50).2.2 ≠ none ∨
            ∀ elt ∈ snapshot cl ip, Tie.CipherList.opens saltSize tagSize unpack (readFull rd 50).1 elt.Value.CryptoKey = false)
       | some e => err = none ∧ (readFull rd 50).2.2 = none ∧
           ∃ elt, (snapshot cl ip).find? (fun x => Tie.CipherList.opens saltSize tagSize unpack (readFull rd 50).1 x.Value.CryptoKey) = some elt ∧
             e = elt.Value ∧ log = [Tie.FindKey.markEff cl elt.id ip] ∧
             salt = (readFull rd 50).1.take (saltSize e.CryptoKey).toNat ∧
             r = multi (newBytesReader (readFull rd 50).1) rd) := by
  rw [Tie.FindKey.findAccessKey_tie snapshot saltSize tagSize multi newBytesReader since unpack readFull now rd ip cl l hlen hfits]
  unfold Tie.FindKey.outcome
  by_cases herr : (readFull rd 50).2.2 = none
  · cases hf : (snapshot cl ip).find? (fun x => Tie.CipherList.opens saltSize tagSize unpack (readFull rd 50).1 x.Value.CryptoKey) with
    | none =>
      refine ⟨none, _, _, _, _, _, by simp [herr]; exact ⟨rfl, rfl, rfl, rfl, rfl⟩, ?_⟩
      refine ⟨by simp, rfl, rfl, Or.inr ?_⟩
      intro elt helt
      have := List.find?_eq_none.1 hf elt helt
      simpa using this
    | some elt =>
      refine ⟨some elt.Value, _, _, _, _, _, by simp [herr]; exact ⟨rfl, rfl, rfl, rfl, rfl⟩, ?_⟩
      exact ⟨rfl, herr, elt, rfl, rfl, rfl, rfl, rfl⟩
  · refine ⟨none, _, _, _, _, _, by simp [herr]; exact ⟨rfl, rfl, rfl, rfl, rfl⟩, ?_⟩
    exact ⟨by simp, rfl, rfl, Or.inl herr⟩

/-- **code_authenticate_end_to_end**: the translated authenticator run on what the translated `findAccessKey` returns
    (the composition the server executes), for every snapshot, reader, `Unpack`, salt generator and replay cache: it
    never panics, and its status is ERR_CIPHER exactly when no key of the snapshot opens the first 50 bytes (or they
    could not be read); otherwise the key id it reports is that of the FIRST entry of the snapshot that opens them, and
    the status is ERR_REPLAY_SERVER if that entry's salt generator recognises the salt, else the replay cache's verdict
    (model `add`) on the checksum of that key id and the first `saltSize` bytes. -/
theorem code_authenticate_end_to_end
    (newReader : GoRT.Opaque "io.Reader" → GoRT.Opaque "shadowsocks.EncryptionKey" → GoRT.Opaque "shadowsocks.Reader")
    (newWriter : Tie.Auth.Conn → GoRT.Opaque "shadowsocks.EncryptionKey" → GoRT.Opaque "shadowsocks.Writer")
    (isSrv : GoRT.Opaque "service.ServerSaltGenerator" → List UInt8 → Bool)
    (wrap : Tie.Auth.Conn → GoRT.Opaque "shadowsocks.Reader" → GoRT.Opaque "shadowsocks.Writer" → Tie.Auth.Conn)
    (remoteIP : Tie.Auth.Conn → GoRT.Opaque "netip.Addr")
    (metrics : GoRT.Opaque "service.ShadowsocksConnMetrics") (rc : Gen.Code.ReplayCache) (conn : Tie.Auth.Conn)
    (hlen : (readFull ⟨conn.val⟩ 50).1.length = 50)
    (hfits : ∀ elt ∈ snapshot cl (remoteIP conn), 0 ≤ saltSize elt.Value.CryptoKey ∧ 0 ≤ tagSize elt.Value.CryptoKey ∧
      saltSize elt.Value.CryptoKey + 2 + tagSize elt.Value.CryptoKey ≤ 50) :
    ∃ fa log, Gen.Code.findAccessKey snapshot saltSize tagSize multi newBytesReader since unpack readFull now ⟨conn.val⟩ (remoteIP conn) cl l =
        some (fa.1, fa.2.1, fa.2.2.1, fa.2.2.2.1, fa.2.2.2.2, log) ∧
      ∃ rc' id c' st effs,
        Gen.Code.NewShadowsocksStreamAuthenticator newReader newWriter isSrv wrap (fun _ _ _ _ => fa) remoteIP cl rc metrics l conn =
          some (rc', id, c', st, effs) ∧
        (match (snapshot cl (remoteIP conn)).find? (fun x => Tie.CipherList.opens saltSize tagSize unpack (readFull ⟨conn.val⟩ 50).1 x.Value.CryptoKey) with
         | none => st = some "ERR_CIPHER" ∧ id = "" ∧ rc' = rc
         | some elt =>
           if (readFull ⟨conn.val⟩ 50).2.2 ≠ none then st = some "ERR_CIPHER" ∧ id = "" ∧ rc' = rc
           else id = elt.Value.ID ∧
             let salt := (readFull ⟨conn.val⟩ 50).1.take (saltSize elt.Value.CryptoKey).toNat
             if isSrv elt.Value.SaltGenerator salt = true then st = some "ERR_REPLAY_SERVER" ∧ rc' = rc
             else Tie.Replay.abs rc' = ((Tie.Replay.abs rc).add (Replay.preHash (String.toUTF8 elt.Value.ID).toList salt)).1 ∧
               st = (if ((Tie.Replay.abs rc).add (Replay.preHash (String.toUTF8 elt.Value.ID).toList salt)).2 = true then none
                     else some "ERR_REPLAY_CLIENT")) := by
  rw [Tie.FindKey.findAccessKey_tie snapshot saltSize tagSize multi newBytesReader since unpack readFull now ⟨conn.val⟩ (remoteIP conn) cl l hlen hfits]
  generalize ho : Tie.FindKey.outcome (snapshot cl (remoteIP conn)) saltSize tagSize multi newBytesReader since unpack
    (readFull ⟨conn.val⟩ 50) now ⟨conn.val⟩ (remoteIP conn) cl = o
  refine ⟨(o.1, o.2.1, o.2.2.1, o.2.2.2.1, o.2.2.2.2.1), o.2.2.2.2.2, rfl, ?_⟩
  rw [Tie.Auth.authenticator_tie]
  by_cases herr : (readFull ⟨conn.val⟩ 50).2.2 = none
  · cases hf : (snapshot cl (remoteIP conn)).find? (fun x => Tie.CipherList.opens saltSize tagSize unpack (readFull ⟨conn.val⟩ 50).1 x.Value.CryptoKey) with
    | none =>
      rw [Tie.FindKey.outcome_not_found _ _ _ _ _ _ _ _ _ _ _ _ herr hf] at ho
      subst ho
      simp [Tie.Auth.outcome]
      exact ⟨_, _, _, _, ⟨rfl, rfl, rfl, rfl⟩, rfl, rfl, rfl⟩
    | some elt =>
      rw [Tie.FindKey.outcome_found _ _ _ _ _ _ _ _ _ _ _ _ herr elt hf] at ho
      subst ho
      simp only [herr, ne_eq, not_true_eq_false, if_false, Tie.Auth.outcome_found]
      by_cases hs : isSrv elt.Value.SaltGenerator ((readFull ⟨conn.val⟩ 50).1.take (saltSize elt.Value.CryptoKey).toNat) = true
      · simp [hs]
        exact ⟨_, _, _, _, ⟨rfl, rfl, rfl, rfl⟩, rfl, rfl, rfl⟩
      · simp only [hs, if_false]
        have h := Tie.Replay.add_tie rc (String.toUTF8 elt.Value.ID).toList ((readFull ⟨conn.val⟩ 50).1.take (saltSize elt.Value.CryptoKey).toNat) _
          (Tie.Replay.preHash_tie _ _)
        generalize (String.toUTF8 elt.Value.ID).toList = idb at h ⊢
        cases hadd : Gen.Code.ReplayCache.Add rc idb ((readFull ⟨conn.val⟩ 50).1.take (saltSize elt.Value.CryptoKey).toNat) with
        | none => rw [hadd] at h; simp at h
        | some p =>
          obtain ⟨rc2, fresh⟩ := p
          rw [hadd] at h
          simp only [Option.map_some, Option.some.injEq] at h
          have h1 := congrArg Prod.fst h
          have h2 := congrArg Prod.snd h
          simp only at h1 h2
          cases fresh
          · exact ⟨_, _, _, _, _, rfl, rfl, h1, by rw [← h2]; rfl⟩
          · exact ⟨_, _, _, _, _, rfl, rfl, h1, by rw [← h2]; rfl⟩
  · rw [Tie.FindKey.outcome_read_error _ _ _ _ _ _ _ _ _ _ _ _ herr] at ho
    subst ho
    cases hf : (snapshot cl (remoteIP conn)).find? (fun x => Tie.CipherList.opens saltSize tagSize unpack (readFull ⟨conn.val⟩ 50).1 x.Value.CryptoKey) with
    | none =>
      simp [Tie.Auth.outcome]
      exact ⟨_, _, _, _, ⟨rfl, rfl, rfl, rfl⟩, rfl, rfl, rfl⟩
    | some elt =>
      simp [herr, Tie.Auth.outcome]
      exact ⟨_, _, _, _, ⟨rfl, rfl, rfl, rfl⟩, rfl, rfl, rfl⟩

end FindAccessKey

/-- non-vacuity: two keys, the second opens the header; 50 bytes are read -/
example : (Gen.Code.findAccessKey
    (fun _ _ => [⟨1, { Gen.Code.CipherEntry.zero with ID := "a", CryptoKey := ⟨1⟩ }⟩, ⟨2, { Gen.Code.CipherEntry.zero with ID := "b", CryptoKey := ⟨2⟩ }⟩])
    (fun _ => 32) (fun _ => 16) (fun _ _ => ⟨7⟩) (fun _ => ⟨8⟩) (fun t => t + 5)
    (fun _ _ k => ([], if k.val = 2 then none else some "bad")) (fun _ n => (List.replicate n.toNat 9, n, none)) 100 ⟨3⟩ ⟨4⟩ ⟨5⟩ ⟨6⟩).map
    (fun r => (r.1.map (·.ID), r.2.2.1.length, r.2.2.2.2.1, r.2.2.2.2.2.map (·.name))) =
    some (some "b", 32, none, ["CipherList.MarkUsedByClientIP"]) := by decide


end OutlineModel.Props.C01
