import OutlineModel.Proofs.SSStream
import OutlineModel.Model.TCP
import OutlineModel.Gen.Consts
/-
C02 — TCP relay delivers both byte streams intact, in order, with half-close.

Framing: Model/SSStream (the outline-sdk chunk writer/reader over an abstract AEAD satisfying
`open (seal n p) = some p`), theorems for ALL chunkings.  Relay logic: Model/TCP.handle (which
bytes reach the target, what the client can decrypt, FIN after data), tied to service/tcp.go by the
`tcp` campaign (real handler over loopback sockets, scripted chunkings and targets, byte-for-byte
and FIN-order oracles at both peers).  Kernel half-close semantics and io.Copy fast paths
(splice / ReadFrom / WriteTo selection in measuredConn) are observed by the campaign, not proved.
-/
namespace OutlineModel.Props.C02
open OutlineModel OutlineModel.SSStream OutlineModel.TCP OutlineModel.Socks

/-- **decode_encode**: for every correct AEAD and EVERY chunking (chunk sizes 0..16383, any number of
    chunks, empty chunks included) the reader delivers exactly the concatenation of the chunks, then
    EOF. -/
theorem decode_encode {a : AEAD} (hc : a.Correct) (saltSize : Nat) (salt : List UInt8) (hs : salt.length = saltSize)
    (chunks : List (List UInt8)) (hcs : ∀ c ∈ chunks, c.length ≤ 16383) :
    decode a saltSize (encode a salt chunks) = .ok chunks.flatten :=
  SSStream.decode_encode hc saltSize salt hs chunks hcs

/-- **chunking_independent**: what is delivered depends only on the bytes written, not on how the
    client cut them into chunks (address alone, coalesced with data, split across chunks). -/
theorem chunking_independent {a : AEAD} (hc : a.Correct) (saltSize : Nat) (salt : List UInt8) (hs : salt.length = saltSize)
    (cs₁ cs₂ : List (List UInt8)) (h₁ : ∀ c ∈ cs₁, c.length ≤ 16383) (h₂ : ∀ c ∈ cs₂, c.length ≤ 16383)
    (hflat : cs₁.flatten = cs₂.flatten) :
    decode a saltSize (encode a salt cs₁) = decode a saltSize (encode a salt cs₂) :=
  SSStream.decode_encode_chunking_independent hc saltSize salt hs cs₁ cs₂ h₁ h₂ hflat

/-- **first_bytes_replayed**: reading through `MultiReader(first 50 bytes, rest of the connection)` is
    reading the connection: the bytes consumed by the key search are not lost. -/
theorem first_bytes_replayed (a : AEAD) (saltSize : Nat) (s : List UInt8) :
    decode a saltSize (multiReader (s.take Gen.bytesForKeyFinding) (s.drop Gen.bytesForKeyFinding)) = decode a saltSize s := by
  unfold multiReader; rw [List.take_append_drop]

/-- **nonces_never_reused**: the writer uses the nonces 0, 1, 2, … exactly once each. -/
theorem nonces_never_reused (chunks : List (List UInt8)) : (noncesUsed chunks).Nodup := noncesUsed_nodup chunks

/-- **truncated_is_error**: a stream cut inside a chunk is an error after exactly the preceding chunks
    were delivered: nothing partial, nothing duplicated. -/
theorem truncated_is_error {a : AEAD} (hc : a.Correct) (saltSize : Nat) (salt : List UInt8) (hs : salt.length = saltSize)
    (init : List (List UInt8)) (last : List UInt8) (hinit : ∀ c ∈ init, c.length ≤ 16383) (hlast : last.length ≤ 16383)
    (k : Nat) (hlo : (encode a salt init).length < k) (hhi : k < (encode a salt (init ++ [last])).length) :
    ∃ why, decode a saltSize ((encode a salt (init ++ [last])).take k) = .error init.flatten why :=
  SSStream.truncated_is_error hc saltSize salt hs init last hinit hlast k hlo hhi

/-- relayUp of well-formed chunks is their concatenation, without error -/
theorem relayUp_data (ds : List (List UInt8)) : relayUp (ds.map Chunk.data) = (ds.flatten, false) := by
  induction ds with
  | nil => rfl
  | cons d ds ih => simp [relayUp, ih]

/-- **target_receives_exactly_data**: if the plaintext chunks start with a complete address header (alone,
    coalesced with data, or followed by more chunks) the target is sent exactly the bytes after the
    header — `first.drop addrLen ++ the later chunks` — followed by FIN, whatever the chunking of
    the data. (Case: the address is complete within the first chunk; the split-address case is
    exercised by the campaign.) -/
theorem target_receives_exactly_data (c : Cfg) (st : Auth.AuthState) (raw : Nat) (ce : ClientEnd) (first : List UInt8)
    (ds : List (List UInt8)) (port : Nat) (valid : Nat → Bool) (srvSalt : CipherList.Entry → Bool)
    (hash : CipherList.Entry → UInt32) (greeting : Nat → List UInt8)
    (addr rest : List UInt8) (haddr : readAddr first = .ok (addr, rest))
    (hauth : (Auth.authenticate st (some 1) (decide (raw ≥ c.bytesForKeyFinding)) valid srvSalt hash).2.status = .ok) :
    Eff.toTarget (first.drop addr.length ++ ds.flatten) true ∈
      (handle c st { raw := raw, clientEnd := ce, chunks := Chunk.data first :: ds.map Chunk.data, dial := .ok port }
        valid srvSalt hash greeting).2 := by
  unfold handle
  simp only [hauth]
  have hne : readAddr ([] : List UInt8) = .error .eof := rfl
  have h1 : readAddress c [] c.saltSize (Chunk.data first :: ds.map Chunk.data) =
      .found addr.length first (ds.map Chunk.data) (c.saltSize + chunkWire c (Chunk.data first)) := by
    unfold readAddress
    simp only [hne, List.nil_append]
    cases hds : ds.map Chunk.data with
    | nil => unfold readAddress; simp [haddr]
    | cons x xs => unfold readAddress; simp [haddr]
  simp only [h1, relayUp_data]
  simp

/- non-vacuity -/
example : (relayUp [.data [1, 2], .data [], .data [3]]) = ([1, 2, 3], false) := by decide

end OutlineModel.Props.C02
