import OutlineModel.Drive.Replay
import OutlineModel.Drive.IP
import OutlineModel.Drive.UDP
import OutlineModel.Drive.NatConn
import OutlineModel.Drive.Auth
import OutlineModel.Drive.Conc
import OutlineModel.Drive.TCP
import OutlineModel.Drive.Metrics
import OutlineModel.Drive.Config
import OutlineModel.Drive.Shared
import OutlineModel.Drive.Life
import OutlineModel.Drive.MConn
/- Model driver: one op per line on stdin, one result per line on stdout.
   First word selects the engine.  Core only (no Mathlib) so it links as a lean_exe. -/
open OutlineModel

structure St where
  replay : Drive.Replay.St := Drive.Replay.init
  udp : Drive.UDP.St := Drive.UDP.init
  nc : Drive.NatConn.St := {}
  auth : Drive.Auth.St := {}
  tcp : Drive.TCP.St := {}
  mt : Metrics.M := { db := .disabled }
  cfg : Drive.Config.St := {}
  sh : Shared.St := {}
  mc : MConn.St := {}

def stepLine (st : St) (line : String) : St × String :=
  match (line.trimAscii.toString.splitOn " ").filter (· ≠ "") with
  | "replay" :: args => let (s, o) := Drive.Replay.step st.replay args; ({ st with replay := s }, o)
  | "udp" :: args => let (s, o) := Drive.UDP.step st.udp args; ({ st with udp := s }, o)
  | "auth" :: args => let (s, o) := Drive.Auth.step st.auth args; ({ st with auth := s }, o)
  | "mc" :: args => let (s, o) := Drive.MConn.stepLine st.mc args; ({ st with mc := s }, o)
  | "life" :: args => (st, Drive.Life.step args)
  | "sh" :: args => let (s, o) := Drive.Shared.stepLine st.sh args; ({ st with sh := s }, o)
  | "cfg" :: args => let (s, o) := Drive.Config.step st.cfg args; ({ st with cfg := s }, o)
  | "mt" :: args => let (s, o) := Drive.Metrics.step st.mt args; ({ st with mt := s }, o)
  | "ipinfo" :: args => (st, Drive.Metrics.stepIPInfo args)
  | "tcp" :: args => let (s, o) := Drive.TCP.step st.tcp args; ({ st with tcp := s }, o)
  | "conc" :: args => (st, Drive.Conc.step args)
  | "locks" :: args => (st, Drive.Conc.stepLocks args)
  | "nc" :: args => let (s, o) := Drive.NatConn.step st.nc args; ({ st with nc := s }, o)
  | "ip" :: args => (st, Drive.IP.step args)
  | _ => (st, "bad-engine")

partial def loop (h : IO.FS.Stream) (out : IO.FS.Stream) (st : St) : IO Unit := do
  let line ← h.getLine
  if line.isEmpty then return ()
  let (st', o) := stepLine st line
  out.putStrLn o
  loop h out st'

def main : IO Unit := do
  let out ← IO.getStdout
  loop (← IO.getStdin) out {}
  out.flush
