#!/usr/bin/env python3
"""Regenerates MANIFEST.json from checks_table.py and manifest_meta.py (kept in sync by hand-run)."""
import json, os, sys
sys.path.insert(0, os.path.dirname(os.path.abspath(__file__)))
from checks_table import CHECKS
from manifest_meta import META, HOOK_COMMITS, NOT_APPLICABLE

props = [json.loads(l) for l in open("properties.jsonl")]
checks = []
for p in props:
    pid = p["id"]
    if pid not in CHECKS or pid not in META:
        continue
    m = META[pid]
    checks.append(dict(
        property_id=pid,
        quick_cmd="./check %s --tier quick" % pid,
        thorough_cmd="./check %s --tier thorough" % pid,
        evidence_file="/verif/evidence/%s.json" % pid,
        replay_cmd_template="./check %s --replay {path}" % pid,
        engine=m["engine"],
        level_claimed=dict(category=CHECKS[pid].get("level", "proof"), text=m["text"], design_ref=m.get("design_ref", "DESIGN.md section 6, " + pid)),
        level_note=m["note"],
        technique=m["technique"],
    ))
claimed = {c["property_id"] for c in checks}
na = [dict(property_id=p["id"], reason=NOT_APPLICABLE.get(p["id"], "not yet built in this round; see DESIGN.md section 10")) for p in props if p["id"] not in claimed]
man = dict(
    version=1,
    setup_cmd="./setup.sh",
    hooks=dict(guard="verif", enable="go build -tags verif (harness module with replace => /repo)",
               baseline_off_cmd="cd /repo && go test -vet=off -count=1 -timeout 25m ./...",
               source_commits=HOOK_COMMITS, add_only=True),
    engines=[
        dict(name="lean-model", path="lean/", serves_properties=sorted(claimed), kind_free_text="Lean 4 model, theorems (Props/*.lean) and core-only model driver"),
        dict(name="extract", path="extract/", serves_properties=sorted(claimed), kind_free_text="Go fact extractor (typed AST) and Go-to-Lean translator (golean.go: replay.go, natconn deadlines, RequirePublicIP, GetIPInfoFromIP, tunnelTimeMetrics) regenerating lean/OutlineModel/Gen/*.lean on every run"),
        dict(name="harness", path="harness/", serves_properties=sorted(claimed), kind_free_text="Go correspondence harness driving the real code in-process; property oracles"),
    ],
    checks=checks,
    notes="Machine-checked proof in Lean 4 over a model tied to /repo by regenerated facts and a differential correspondence check; see DESIGN.md.",
    not_applicable=na,
)
json.dump(man, open("MANIFEST.json", "w"), indent=1)
print("claimed:", sorted(claimed))
