import subprocess,os,re
P="/tmp/pristine"
muts=[
 ("service/replay.go","if len(c.active) >= c.capacity {","if len(c.active) > c.capacity {","C07","rotation threshold off by one"),
 ("service/replay.go","return !inArchive","return true","C07","archive verdict ignored"),
 ("service/replay.go","c.archive = c.active","c.archive = nil","C07","rotation drops the old generation"),
 ("service/replay.go","buf[i&0x3] ^= v","buf[i&0x1] ^= v","C07","checksum folds salt into two lanes"),
 ("service/replay.go","if capacity > MaxCapacity {\n\t\treturn errors.New","if capacity >= MaxCapacity {\n\t\treturn errors.New","C07","Resize bound off by one"),
 ("service/udp.go","if newDeadline.After(c.readDeadline) {","if !newDeadline.Before(c.readDeadline) {","C14","deadline pushed also when equal (extra SetReadDeadline)"),
 ("service/udp.go","if !isDNS || !isFirstWrite {","if !isDNS && !isFirstWrite {","C14","fast-close latch disabled less often"),
 ("service/udp.go","timeout = 17 * time.Second","timeout = 16 * time.Second","C14","DNS timeout 16 s"),
 ("service/udp.go","c.SetReadDeadline(time.Now())\n\t\t}\n\t})","c.SetReadDeadline(time.Now().Add(c.defaultTimeout))\n\t\t}\n\t})","C14","fast close does not expire at once"),
 ("net/private_net.go","if !ip.IsGlobalUnicast() {","if ip.IsGlobalUnicast() && false {","C05","global-unicast test dropped"),
 ("net/private_net.go","if IsPrivateAddress(ip) {\n\t\treturn NewConnectionError(\"ERR_ADDRESS_PRIVATE\"","if IsPrivateAddress(ip) && len(ip) == 4 {\n\t\treturn NewConnectionError(\"ERR_ADDRESS_PRIVATE\"","C05","private check only for 4-byte addresses"),
 ("ipinfo/ipinfo.go","if !ip.IsGlobalUnicast() {\n\t\tinfo.CountryCode = localLocation","if ip.IsLoopback() {\n\t\tinfo.CountryCode = localLocation","C20","XL only for loopback"),
 ("ipinfo/ipinfo.go","if err != nil {\n\t\tinfo.CountryCode = errDbLookupError\n\t}","if err != nil && info.CountryCode == \"\" {\n\t\tinfo.CountryCode = errDbLookupError\n\t}","C20","partial answer kept on database error"),
 ("prometheus/metrics.go","if client.connCount <= 0 {","if client.connCount < 0 {","C17","last close does not report"),
 ("prometheus/metrics.go","client.startTime = tNow","_ = tNow","C17","period not restarted after report"),
 ("prometheus/metrics.go","client = &activeClient{info: clientInfo, startTime: now()}","client = &activeClient{info: clientInfo, startTime: now(), connCount: 1}","C17","new client starts at count 2"),
 ("prometheus/metrics.go","\tif cm.authenticated {\n\t\tipKey, err := toIPKey(cm.clientAddr, cm.accessKey)","\tif cm.accessKey != \"\" {\n\t\tipKey, err := toIPKey(cm.clientAddr, cm.accessKey)","C17","stop keyed on the key id, not on the flag"),
 ("service/cipher_list.go","\t\tif !matchesIP(e, clientIP) {","\t\tif !matchesIP(e, clientIP) && i < len(cipherArray)-1 {","C01","second pass drops the last slot"),
 ("service/cipher_list.go","\tcl.list.MoveToFront(e)\n","","C01","no move to front"),
 ("service/tcp.go","\t\t\tdebugTCP(l, \"Failed to decrypt length.\", entry.ID, slog.Any(\"err\", err))\n\t\t\tcontinue","\t\t\tdebugTCP(l, \"Failed to decrypt length.\", entry.ID, slog.Any(\"err\", err))\n\t\t\tbreak","C01","search stops at the first key that fails"),
 ("service/metrics/metrics.go","\tn, err := c.StreamConn.Write(b)\n\t*c.writeCount += int64(n)","\tn, err := c.StreamConn.Write(b)\n\t*c.writeCount += int64(len(b))","C15","write counter counts the request, not what was accepted"),
 ("service/server_salt.go","return bytes.Equal(tag[:serverSaltMarkLen], mark)","return bytes.Equal(tag[1:serverSaltMarkLen+1], mark)","C08","mark compared with the wrong tag bytes"),
 ("cmd/outline-ss-server/config.go","if _, exists := existingListeners[key]; exists {","if _, exists := existingListeners[key]; exists && lnConfig.Type == listenerTypeTCP {","C10","duplicate UDP listeners accepted"),
 ("cmd/outline-ss-server/config.go","if ip := net.ParseIP(host); ip == nil {","if ip := net.ParseIP(host); ip == nil && host != \"localhost\" {","C10","hostname localhost accepted"),
 ('service/tcp.go','\tif authErr != nil {\n\t\t// Drain to protect against probing attacks.','\tconnMetrics.AddAuthenticated(id)\n\tif authErr != nil {\n\t\t// Drain to protect against probing attacks.','C15','AddAuthenticated before the authentication verdict (and again after)'),
 ('service/tcp.go','\t\tio.Copy(io.Discard, outerConn)\n\t\treturn onet.NewConnectionError("ERR_READ_ADDRESS"','\t\t_ = io.Discard\n\t\treturn onet.NewConnectionError("ERR_READ_ADDRESS"','C06','unreadable address no longer drained'),
 ('service/tcp.go','\touterConn.SetReadDeadline(readDeadline)\n\n\tid, innerConn, authErr := h.authenticate(outerConn)\n','\tid, innerConn, authErr := h.authenticate(outerConn)\n\touterConn.SetReadDeadline(readDeadline)\n','C06','read deadline armed only after authenticate has read'),
 ('service/tcp.go','if deadline.Before(readDeadline) {','if readDeadline.Before(deadline) {','C06','read deadline is the later of the two'),
 ('service/tcp.go','\ttgtAddr, err := getProxyRequest(innerConn)\n','\touterConn.SetReadDeadline(time.Time{})\n\ttgtAddr, err := getProxyRequest(innerConn)\n','C06','read deadline cleared before the address is read'),
 ('service/udp.go','if err := h.targetIPValidator(tgtUDPAddr.IP); err != nil {','if err := h.targetIPValidator(tgtUDPAddr.IP); err != nil && len(textData) > 64 {','C04','target IP validator consulted only for large datagrams'),
 ('service/udp.go','payload := textData[len(tgtAddr):]','payload := textData[len(tgtAddr)-1:]','C04','payload keeps the last byte of the address header'),
 ('service/udp.go','return nil, nil, onet.NewConnectionError("ERR_RESOLVE_ADDRESS"','return textData, tgtUDPAddr, onet.NewConnectionError("ERR_RESOLVE_ADDRESS"','C16','resolve failure returns the text and the address with the error'),
 ('service/udp.go','\t\tdelete(m.keyConn, key)\n','\t\t_ = key\n','C04','natmap.del no longer deletes'),
 ('service/udp.go','\tm.keyConn[key] = entry\n','\tif _, dup := m.keyConn[key]; !dup {\n\t\tm.keyConn[key] = entry\n\t}\n','C04','natmap.set keeps the first association of a client'),
 ('service/udp.go','\t\tdefaultTimeout: m.timeout,\n','\t\tdefaultTimeout: 0,\n','C04','association created with a zero default timeout'),
 ('service/tcp.go','if isServerSalt || !replayCache.Add(cipherEntry.ID, clientSalt) {','if !replayCache.Add(cipherEntry.ID, clientSalt) || isServerSalt {','C08','replay cache consulted before the server-salt test'),
 ('service/tcp.go','\t\t\tif isServerSalt {\n','\t\t\tif !isServerSalt {\n','C07','ERR_REPLAY_SERVER and ERR_REPLAY_CLIENT swapped'),
 ('service/tcp.go','\t\t\treturn id, nil, onet.NewConnectionError(status, "Replay detected", nil)','\t\t\treturn "", nil, onet.NewConnectionError(status, "Replay detected", nil)','C07','replay verdicts lose the key id'),
 ('service/tcp.go','\t\tssw.SetSaltGenerator(cipherEntry.SaltGenerator)\n','\t\t_ = ssw\n','C08',"accepted connection's writer not given the entry's salt generator"),
 ('service/tcp.go','\tsalt := firstBytes[:entry.CryptoKey.SaltSize()]','\tsalt := firstBytes[:entry.CryptoKey.SaltSize()-1]','C01','salt one byte short'),
 ('service/tcp.go','\tcipherList.MarkUsedByClientIP(elt, clientIP)\n\tsalt :=','\tsalt :=','C01','found entry no longer marked as used'),
 ('service/tcp.go','\tif entry == nil {\n\t\t// TODO: Ban','\tif entry == nil && len(ciphers) > 1 {\n\t\t// TODO: Ban','C01','search failure ignored for a single-key list (nil entry handed on)'),
]
res=[]
for i,(f,a,b,prop,what) in enumerate(muts):
    subprocess.run("git checkout -q -- .",shell=True,cwd=P)
    src=open(os.path.join(P,f)).read()
    if a not in src:
        res.append((i,f,prop,what,"PATTERN-NOT-FOUND")); continue
    open(os.path.join(P,f),"w").write(src.replace(a,b,1))
    rc=subprocess.run("GOFLAGS=-mod=mod GOPROXY=off GOSUMDB=off GOTOOLCHAIN=local go build ./... 2>&1 | head -3",shell=True,cwd=P,capture_output=True,text=True)
    if rc.stdout.strip():
        res.append((i,f,prop,what,"DOES-NOT-COMPILE "+rc.stdout.strip()[:80])); continue
    subprocess.run("rm -rf /tmp/gen-m; mkdir -p /tmp/gen-m",shell=True)
    o=subprocess.run("/tmp/extract-dev -repo /tmp/pristine -out /tmp/gen-m",shell=True,capture_output=True,text=True).stdout
    miss=o.count("MISSING")
    subprocess.run("cp /tmp/gen-m/Code.lean /verif/lean/OutlineModel/Gen/Code.lean; cp /tmp/gen-m/Consts.lean /verif/lean/OutlineModel/Gen/Consts.lean",shell=True)
    b2=subprocess.run("lake build OutlineModel.Props.%s 2>&1 | grep -E '^error' | head -1"%prop,shell=True,cwd="/verif/lean",capture_output=True,text=True).stdout.strip()
    res.append((i,f,prop,what,("tie broken: "+b2[:110]) if (b2 or miss) else "NOT DETECTED BY THE TIE"))
    diff=subprocess.run("git diff",shell=True,cwd=P,capture_output=True,text=True).stdout
    os.makedirs("/verif/seeded/MUTANTS",exist_ok=True)
    open("/verif/seeded/MUTANTS/m%02d-%s.diff"%(i,prop),"w").write(diff)
subprocess.run("git checkout -q -- .",shell=True,cwd=P)
subprocess.run("/tmp/extract-dev -repo /repo -out /tmp/gen >/dev/null; cp /tmp/gen/Code.lean /verif/lean/OutlineModel/Gen/Code.lean; cp /tmp/gen/Consts.lean /verif/lean/OutlineModel/Gen/Consts.lean",shell=True)
for r in res: print("| m%02d | %s | %s | %s | %s |"%r)
