#!/usr/bin/env python3
"""seedcheck.py confirm <seeded-id>   : confirm a seeded change in a scratch worktree (compiles, baseline passes,
                                         demo fails with / passes without); writes seeded/<id>/meta.json fields.
   seedcheck.py run <seeded-id> [Cxx..]: apply the patch to /repo, run ./check for the given (default: its) properties
                                         (quick tier), undo, and record which checks caught it."""
import json, os, re, subprocess, sys, shutil, glob, time
VERIF = "/verif"
env = dict(os.environ, GOFLAGS="-mod=mod", GOPROXY="off", GOSUMDB="off", GOTOOLCHAIN="local",
           VERIF_EVIDENCE_DIR="/tmp/seed-evidence")  # runs against seeded changes must not overwrite the committed evidence


def sh(cmd, cwd=None, timeout=1800):
    p = subprocess.run(cmd, cwd=cwd, env=env, shell=isinstance(cmd, str), stdout=subprocess.PIPE, stderr=subprocess.STDOUT, text=True, timeout=timeout)
    return p.returncode, p.stdout


def demo_info(d):
    """(dest path relative to repo, go test command) from README.md"""
    rd = open(os.path.join(d, "README.md")).read()
    dest = None
    for m in re.finditer(r"`([\w./-]+_test\.go)`", rd):
        if "/" in m.group(1) and not m.group(1).startswith("/tmp"):
            dest = m.group(1)
            break
    cmd = None
    for m in re.finditer(r"(go test [^\n`]+)", rd):
        if "-run" in m.group(1):
            cmd = m.group(1).strip()
            break
    return dest, cmd


def confirm(sid):
    d = os.path.join(VERIF, "seeded", sid)
    meta_p = os.path.join(d, "meta.json")
    meta = json.load(open(meta_p)) if os.path.exists(meta_p) else {}
    dest, cmd = meta.get("demo_dest"), meta.get("demo_cmd")
    if not dest or not cmd:
        dest, cmd = demo_info(d)
    print("demo dest:", dest, "| cmd:", cmd)
    wt = "/tmp/seedwt-%s" % sid
    sh("git -C /repo worktree remove --force %s" % wt)
    rc, out = sh("git -C /repo worktree add -q --detach %s HEAD" % wt)
    assert rc == 0, out
    res = {}
    try:
        demos = [f for f in os.listdir(d) if f.endswith(".go")]
        if len(demos) == 1:
            shutil.copy(os.path.join(d, demos[0]), os.path.join(wt, dest))
        else:
            for f in demos:
                shutil.copy(os.path.join(d, f), os.path.join(wt, os.path.dirname(dest), f))
        rc, out = sh(cmd, cwd=wt)
        res["demo_without_change"] = "pass" if rc == 0 else "FAIL"
        print("without change:", res["demo_without_change"]); 
        if rc != 0: print(out[-1500:])
        rc, out = sh("git apply %s" % os.path.join(d, "patch.diff"), cwd=wt)
        res["patch_applies"] = rc == 0
        if rc != 0:
            rc, out = sh("git apply -3 %s" % os.path.join(d, "patch.diff"), cwd=wt)
            res["patch_applies_3way"] = rc == 0
            print(out[-800:])
        rc, out = sh("go build ./... ", cwd=wt)
        res["builds"] = rc == 0
        rc, out = sh(cmd, cwd=wt)
        res["demo_with_change"] = "fail" if rc != 0 else "PASS(not detected)"
        print("with change:", res["demo_with_change"])
        # baseline without the demo file
        for f in demos:
            p = os.path.join(wt, os.path.dirname(dest), f) if len(demos) > 1 else os.path.join(wt, dest)
            if os.path.exists(p):
                os.remove(p)
        rc, out = sh([os.path.join(VERIF, "tools", "baseline.py"), wt])
        res["baseline_passes"] = rc == 0
        print(out.strip().splitlines()[-1])
    finally:
        sh("git -C /repo worktree remove --force %s" % wt)
    res["confirmed"] = bool(res.get("builds") and res.get("baseline_passes") and res.get("demo_without_change") == "pass"
                            and res.get("demo_with_change") == "fail")
    meta.update(dict(id=sid, property=sid.split("-")[0], demo_dest=dest, demo_cmd=cmd, confirmation=res,
                     confirmed_at_repo_head=sh("git -C /repo rev-parse --short HEAD")[1].strip()))
    json.dump(meta, open(meta_p, "w"), indent=1)
    print("CONFIRMED" if res["confirmed"] else "NOT CONFIRMED", sid)
    return res["confirmed"]


def run(sid, props):
    d = os.path.join(VERIF, "seeded", sid)
    meta_p = os.path.join(d, "meta.json")
    meta = json.load(open(meta_p)) if os.path.exists(meta_p) else {}
    rc, out = sh("git -C /repo status --porcelain")
    assert out.strip() == "", "repo dirty: " + out
    rc, out = sh("git -C /repo apply %s" % os.path.join(d, "patch.diff"))
    if rc != 0:
        rc, out = sh("git -C /repo apply -3 %s" % os.path.join(d, "patch.diff"))
    assert rc == 0, out
    results = meta.get("checks", {})
    try:
        for p in props:
            t0 = time.time()
            rc, out = sh([os.path.join(VERIF, "check"), p, "--tier", "quick"], cwd=VERIF, timeout=3000)
            vio = [l for l in out.splitlines() if l.startswith("VIOLATION")]
            results[p] = dict(caught=rc != 0 and bool(vio), line=(vio[0] if vio else out.strip().splitlines()[-1] if out.strip() else ""),
                              detail=[l for l in out.splitlines() if l.startswith("  ")][:4], wall=round(time.time() - t0, 1))
            print(p, "CAUGHT" if results[p]["caught"] else "missed", results[p]["line"][:200])
            for l in results[p]["detail"]:
                print("   ", l[:240])
    finally:
        sh("git -C /repo checkout -- . && git -C /repo clean -fdq")
        sh([os.path.join(VERIF, "check"), "extract"], cwd=VERIF, timeout=900)  # generated facts back to the clean tree
    meta["checks"] = results
    json.dump(meta, open(meta_p, "w"), indent=1)


if __name__ == "__main__":
    if sys.argv[1] == "confirm":
        ok = all([confirm(s) for s in sys.argv[2:]])
        sys.exit(0 if ok else 1)
    elif sys.argv[1] == "run":
        sid = sys.argv[2]
        run(sid, sys.argv[3:] or [sid.split("-")[0]])
