#!/usr/bin/env python3
"""Runs the repository's pinned test suite with the verif guard OFF and compares with BASELINE.json."""
import json, os, subprocess, sys
env = dict(os.environ, GOFLAGS="-mod=mod", GOPROXY="off", GOSUMDB="off", GOTOOLCHAIN="local")
repo = sys.argv[1] if len(sys.argv) > 1 else "/repo"
base = json.load(open("/root/.vp/BASELINE.json"))
p = subprocess.run(["go", "test", "-json", "-vet=off", "-count=1", "-timeout", "25m", "./..."], cwd=repo, env=env,
                   stdout=subprocess.PIPE, stderr=subprocess.STDOUT, text=True)
res = {}
for line in p.stdout.splitlines():
    try:
        e = json.loads(line)
    except ValueError:
        continue
    if e.get("Test") and e.get("Action") in ("pass", "fail", "skip"):
        res[e["Package"] + "::" + e["Test"]] = e["Action"]
bad = [t for t in base["stable_pass"] if res.get(t) != "pass"]
print("stable_pass: %d, passing now: %d" % (len(base["stable_pass"]), len(base["stable_pass"]) - len(bad)))
for t in bad:
    print("NOT PASSING:", t, res.get(t))
sys.exit(1 if bad else 0)
