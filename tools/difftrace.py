#!/usr/bin/env python3
"""difftrace.py <trace>: run the model driver on the ops of a harness trace and show mismatches (debug aid)."""
import sys, subprocess
ops, impl = [], []
for line in open(sys.argv[1]):
    line = line.rstrip("\n")
    if line.startswith("!ORACLE"):
        print(line[:300])
    if " => " in line and not line.startswith(("#", "!")):
        o, r = line.rsplit(" => ", 1)
        ops.append(o); impl.append(r)
out = subprocess.run(["/verif/lean/.lake/build/bin/modeldriver"], input="\n".join(ops) + "\n", stdout=subprocess.PIPE, text=True).stdout.split("\n")
bad = 0
for i, (o, r) in enumerate(zip(ops, impl)):
    m = out[i] if i < len(out) else "<missing>"
    if m.split(" #")[0].strip() != r.split(" #")[0].strip():
        bad += 1
        if bad <= int(sys.argv[2]) if len(sys.argv) > 2 else 5:
            print("MISMATCH @%d\n  op:    %s\n  impl:  %s\n  model: %s" % (i, o[:300], r[:400], m[:400]))
print("ops=%d mismatches=%d" % (len(ops), bad))
