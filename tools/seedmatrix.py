#!/usr/bin/env python3
"""Complete seeded/<id>/meta.json (title, what the change needs in order to manifest, what was run)
from the README the seeding agent wrote, and print the markdown matrix for DESIGN.md section 0.6."""
import json, os, re, sys, glob

VERIF = os.path.dirname(os.path.dirname(os.path.abspath(__file__)))
rows = []
for d in sorted(glob.glob(os.path.join(VERIF, "seeded", "*"))):
    sid = os.path.basename(d)
    mp = os.path.join(d, "meta.json")
    meta = json.load(open(mp)) if os.path.exists(mp) else {"id": sid}
    readme = os.path.join(d, "README.md")
    title, needs = "", ""
    if os.path.exists(readme):
        txt = open(readme).read()
        m = re.search(r"^# (.*)$", txt, re.M)
        title = re.sub(r"^C\d\d\s*/?\s*mutant\s*\w\s*[—-]\s*", "", m.group(1)).strip() if m else ""
        m = re.search(r"^## What it needs[^\n]*\n(.*?)(?=^## |\Z)", txt, re.M | re.S)
        if m:
            needs = " ".join(m.group(1).split())[:600]
    elif sid.startswith("REVERT-"):
        kf = json.load(open(os.path.join(VERIF, "known_findings.json")))["findings"]
        f = [x for x in kf if x["commit"] == sid[7:]]
        if f:
            meta["property"] = f[0]["property"]
            title = "revert of fix %s" % sid[7:]
            needs = f[0]["what"]
    meta.setdefault("property", sid.split("-")[0])
    meta["title"] = title
    meta["needs_to_manifest"] = needs
    meta["what_was_run"] = ["python3 tools/seedcheck.py confirm %s   # demo passes without / fails with the change; 93-test suite passes with it" % sid if not sid.startswith("REVERT-") else "git -C /repo diff <fix> <fix>^ > patch.diff   # the fix commit reversed",
                            "python3 tools/seedcheck.py run %s %s   # git -C /repo apply patch.diff; ./check <P> --tier quick; git -C /repo checkout -- .; ./check extract" % (sid, " ".join(sorted(meta.get("checks", {}).keys())))]
    json.dump(meta, open(mp, "w"), indent=1, ensure_ascii=False)
    for p, r in sorted(meta.get("checks", {}).items()):
        fi = ""
        for l in r.get("detail", []):
            if "failing input:" in l:
                fi = l.split("failing input:", 1)[1].strip()
                break
        how = "failing input" if (r["caught"] and "no-failing-input-found" not in r["line"]) else ("broken tie only" if r["caught"] else "—")
        rows.append((sid, p, "caught" if r["caught"] else "missed", how, title[:90], fi[:110]))
print("| change | check | result | how | what the change is | first failing input reported |")
print("|---|---|---|---|---|---|")
for r in rows:
    print("| %s | %s | %s | %s | %s | %s |" % tuple(x.replace("|", "/") for x in r))
