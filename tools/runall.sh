#!/bin/sh
# Runs every claimed check (quick tier) on the current /repo tree, sequentially; prints one line each.
cd "$(dirname "$0")/.."
for id in $(python3 -c "import json; print(' '.join(c['property_id'] for c in json.load(open('MANIFEST.json'))['checks']))"); do
  timeout 1500 ./check $id --tier ${1:-quick} | tail -1
done
