"""Per-property configuration of ./check: campaigns (harness engine + sizes), trusted base, assumptions."""

Q, T = "quick", "thorough"


def n(q, t):
    return {Q: q, T: t}


CHECKS = {
    "C07": dict(
        level="proof",
        campaigns=[dict(engine="replay", n=n(1500, 30000), args={"ops": 200})],
        trusted_base=["model Model/Replay.lean of service/replay.go tied by the `replay` differential campaign",
                      "Gen/Consts.lean (MaxCapacity) regenerated from source"],
        assumptions=["ReplayCache.Add/Resize are each one critical section (C19 lock-set facts)",
                     "a handshake is identified by (key id, salt); the 32-bit XOR-fold checksum is what is remembered"],
    ),
}
