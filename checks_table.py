"""Per-property configuration of ./check: campaigns (harness engine + sizes), trusted base, assumptions."""

Q, T = "quick", "thorough"


def n(q, t):
    return {Q: q, T: t}


CHECKS = {
    "C05": dict(
        level="proof",
        campaigns=[dict(engine="ip", n=n(100000, 5000000))],
        trusted_base=["model Model/IP.lean of net.IP predicates (Go toolchain) and net/private_net.go, tied by the `ip` differential campaign",
                      "Gen/PrivateNets.lean regenerated from the CIDR literals of net/private_net.go"],
        assumptions=["hostname resolution is an oracle (cannot be exercised offline): the theorems quantify over every resolver answer",
                     "net.Dialer calls Control with the literal address of every connection attempt (Go runtime contract)"],
    ),
    "C07": dict(
        level="proof",
        campaigns=[dict(engine="replay", n=n(1500, 30000), args={"ops": 200})],
        trusted_base=["model Model/Replay.lean of service/replay.go tied by the `replay` differential campaign",
                      "Gen/Consts.lean (MaxCapacity) regenerated from source"],
        assumptions=["ReplayCache.Add/Resize are each one critical section (C19 lock-set facts)",
                     "a handshake is identified by (key id, salt); the 32-bit XOR-fold checksum is what is remembered"],
    ),
}
