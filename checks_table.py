"""Per-property configuration of ./check: campaigns (harness engine + sizes), trusted base, assumptions."""

Q, T = "quick", "thorough"


def n(q, t):
    return {Q: q, T: t}


UDP_TB = ["model Model/UDP.lean of service/udp.go (packetHandler.Handle, validatePacket, natmap, timedCopy) tied by the `udp` differential campaign on the real handler with real sockets in a private netns",
          "cryptography is a contract: which keys open a datagram and the plaintext come from an independent spec-level implementation in the harness (speccrypto.go)",
          "Gen/Consts.lean, Gen/Ciphers.lean, Gen/PrivateNets.lean regenerated from source"]
UDP_AS = ["SDK contract: shadowsocks.Pack(key, p) = salt ‖ seal(key, p) with a fresh random salt; Unpack opens exactly what Pack/the client sealed under the same key",
          "kernel contract: a socket from net.ListenPacket has a local port distinct from all open sockets; loopback delivery is in order"]

AUTH_TB = ["models Model/CipherList.lean, Model/Auth.lean of service/cipher_list.go, service/tcp.go (authenticator), service/server_salt.go tied by the `tcpauth` differential campaign on the real authenticator",
           "cryptography is a contract: which keys open a stream and which salts carry a server mark come from an independent spec-level implementation in the harness",
           "Gen/Wiring.lean, Gen/Consts.lean, Gen/Ciphers.lean regenerated from source"]

LOCK_TB = ["Gen/LockFacts.lean: typed lock-set / lock-order / critical-section analysis of the working tree (extract/locks.go, go/packages); the extractor is trusted and cross-checked by the concurrent campaigns",
           "generic theorems Model/Locks.lean (ranked acquisition never deadlocks), Go memory model (mutex release/acquire) as contract"]

TCP_TB = ["model Model/TCP.lean of streamHandler.Handle/handleConnection/proxyConnection/absorbProbe (service/tcp.go), Model/Auth.lean, Model/SSStream.lean (outline-sdk framing) tied by the `tcp` differential campaign: real handler behind StreamServe on loopback in a private netns, default dialer, scripted clients (spec-level crypto) and targets",
          "Gen/Wiring.lean, Gen/Consts.lean, Gen/PrivateNets.lean regenerated from source"]
TCP_AS = ["kernel TCP semantics (FIN vs RST, half-close, loopback ordering) and wall-clock timing are observed with tolerances, not proved",
          "AEAD contract: open(seal(n,p)) = some p; a block sealed under one key opens under no other"]
TCP_CAMP = dict(engine="tcp", n=n(25, 500), netns=True)

CFG_CAMP = dict(engine="config", n=n(14, 300), netns=True)
CFG_TB = ["model Model/Config.lean of cmd/outline-ss-server (loadConfig, runConfig, listenerSet, newCipherListFromConfig, Validate, Stop) over a handle-counting listener manager, hand-written; tied by the `config` campaign: the real main package behind the verif-tagged line driver (cmd/outline-ss-server/verif_driver_test.go) run as a child process in a private network namespace, real configuration files, binds that really fail, real TCP/UDP Shadowsocks clients (spec-level crypto), /proc/net for bound sockets, goroutine counts",
          "Gen/Wiring.lean facts loadConfigStages, generationListenersInOneSet, failedStartClosesItsSet, reloadStartsNewBeforeStoppingOld, stopClosesListenersOnly, handlerContextGovernsOnlyTheDial, serviceListenersServeOwnKeys (extract/wiring.go, syntactic) regenerated on every run",
          "YAML parsing (gopkg.in/yaml.v3) and net.SplitHostPort/ParseIP are outside the model: parse failures are one fault kind, address acceptability is a parameter fed from the generator's knowledge and checked by the campaign"]
CFG_AS = ["the order in which legacy ports are started (Go map iteration) is arbitrary; the theorems hold for every plan order and the final state does not depend on it",
          "cipher-name acceptance (`canon`) mirrors the SDK's table (case-insensitive aliases); checked by the campaign with accepted and rejected names"]

CHECKS = {
    "C20": dict(
        level="proof",
        campaigns=[dict(engine="ipinfo", n=n(3000, 100000)), dict(engine="metrics", n=n(150, 3000)), dict(engine="life", n=n(4, 100), netns=True)],
        trusted_base=["model Model/IPInfo.lean of ipinfo/ipinfo.go tied by the `ipinfo` differential campaign; Model/Metrics.lean of prometheus/metrics.go tied by the `metrics` campaign (real collectors, private registry, fake database, stubbed clock via the verif hook)",
                      "Gen/MetricTable.lean: collectors, label names and provenance classes of every label value (extract/metrictable.go, typed backward tracing) regenerated on every run; the provenance analysis is trusted and backed by the exposition scan"],
        assumptions=["'cannot be parsed' is what Go's net.SplitHostPort/ParseIP reject (after dropping an IPv6 zone); the parser itself is outside the model",
                     "access-key ids, country/ASN data and the server's own listen address are not client addresses"],
    ),
    "C09": dict(level="proof", campaigns=[CFG_CAMP], trusted_base=CFG_TB, assumptions=CFG_AS + [
        "which id of a key group answers at run time (after last-used reordering) is C01; cryptographic key separation (a stream sealed under one (cipher, secret) opens under no other) is outside the model and exercised by the campaign's real clients"]),
    "C10": dict(level="proof", campaigns=[CFG_CAMP], trusted_base=CFG_TB, assumptions=CFG_AS),
    "C11": dict(level="proof", campaigns=[CFG_CAMP], trusted_base=CFG_TB, assumptions=CFG_AS + [
        "the kernel's listen queue between the accept loops of two generations is observed, not modelled",
        "a connection still dialling its target when the old generation stops is aborted by design (context cancellation); C11 does not cover it and the campaign counts it apart"]),
    "C12": dict(
        level="proof",
        campaigns=[dict(engine="shared", n=n(150, 4000), netns=True), dict(engine="lockstress", n=n(30, 600), netns=True)],
        trusted_base=["model Model/Shared.lean (labelled transition system of one shared listener) of service/listeners.go, hand-written; tied by the `shared` campaign: the real ListenerManager on real TCP/UDP sockets in a private network namespace, random interleavings with operations issued concurrently, observations linearised into model events which the model must accept (refinement check), plus model-independent oracles (undelivered item with a blocked handle, hanging connection, call that never returns, goroutines/fds left)",
                      "atomicity of each event on the real code: lock facts of C19/C13 (Gen/LockFacts.lean)"],
        assumptions=["the kernel's accept queue and socket buffer are part of `queue`; a datagram sent to a bound UDP socket on loopback is in its buffer when sendto returns",
                     "linearisation of concurrent operations is chosen by the harness from the observed outcomes (an item returned by a call precedes the close of its handle; a successful connect precedes the close of the last handle)"],
    ),
    "C18": dict(
        level="proof",
        campaigns=[dict(engine="life", n=n(6, 150), netns=True), dict(engine="shared", n=n(60, 1500), netns=True), dict(engine="udp", n=n(60, 1200), netns=True)],
        trusted_base=["models with explicit index/slice bounds and panic effects: Model/Socks.lean + Model/UDP.lean (address parser, validatePacket, timedCopy buffer layout), Model/SSStream.lean, Model/TCP.lean (connection outcomes), Model/Shared.lean — tied to the code by the udp, tcp and shared campaigns",
                      "`life` campaign: the real server as a child process behind the verif-tagged driver, hostile clients and targets, liveness / recovered-panic log records / continued service / goroutine and descriptor counts",
                      "Gen/Wiring.lean facts streamServeJoinsAndContainsHandlers, udpLoopContainsPanicsPerDatagram, relayJoinsItsUploadGoroutine, natGoroutineRemovesAndCloses (syntactic, regenerated); Gen/Consts.lean buffer constants"],
        assumptions=["the Go runtime, the kernel, third-party libraries (SDK cipher code, yaml, prometheus) and un-modelled paths (logging) are outside the theorems and only exercised by the campaigns",
                     "ReadFrom delivers at most len(buffer) bytes (larger datagrams are truncated by the kernel)"],
    ),
    "C17": dict(
        level="proof",
        campaigns=[dict(engine="metrics", n=n(250, 5000)), TCP_CAMP],
        trusted_base=["model Model/TunnelTime.lean (activeClients, startConnection, stopConnection, reportTunnelTime, Collect) and Model/Metrics.lean (the callers) of prometheus/metrics.go, hand-written, tied by the `metrics` campaign: real collectors on a private registry, clock stubbed through the verif hook (prometheus/verif_export.go VerifSetNow), gathered tunnel_time_seconds* compared after every scrape with the model and with independent interval arithmetic",
                      "Gen/Code.lean: Lean translations of tunnelTimeMetrics.startConnection, stopConnection, reportTunnelTime, Collect regenerated from the Go source on every run by extract/golean.go (trusted translator; subset: assignments, if/else, return, range and counting loops, struct literals, maps, a fixed table of standard-library operations) over the run-time prelude Model/GoRT.lean (trusted meaning of Go maps, slices, ints, time, sync.Once, errors, effects); Proofs/Tie*.lean prove for all inputs that the translation never panics and does what the hand model does"],
        assumptions=["the clock is non-decreasing (time.Now is monotonic in Go); time is whole seconds in the model, the campaign advances the clock in whole and fractional seconds and compares floor values where the code truncates",
                     "stops are matched with starts: C15 (authenticated iff authentication succeeded, closed once) and C16 (added once, removed once)"],
    ),
    "C02": dict(level="proof", campaigns=[TCP_CAMP], trusted_base=TCP_TB, assumptions=TCP_AS),
    "C06": dict(level="proof", campaigns=[TCP_CAMP], trusted_base=TCP_TB, assumptions=TCP_AS),
    "C15": dict(level="proof", campaigns=[TCP_CAMP, dict(engine="mconn", n=n(400, 20000))], trusted_base=TCP_TB, assumptions=TCP_AS + ["a handler panic would skip AddClosed: conditional on C18"]),
    "C13": dict(
        level="proof",
        campaigns=[dict(engine="lockstress", n=n(60, 1500), netns=True), dict(engine="config", n=n(8, 150), netns=True)],
        trusted_base=LOCK_TB,
        assumptions=["threads are the listen/close calls of the manager API; their lock programs are the generated ones"],
    ),
    "C19": dict(
        level="proof",
        campaigns=[dict(engine="conc", n=n(20, 400), race=True), dict(engine="lockstress", n=n(40, 800), netns=True, race=True),
                   dict(engine="metrics", n=n(120, 2500), race=True)],
        trusted_base=LOCK_TB,
        assumptions=["a field classified immutable/guarded in Props/C19.lean is shared; fields confined to one goroutine (natconn.readDeadline, tcpConnMetrics.accessKey, ProxyMetrics) are outside the claim and only watched by the race detector"],
    ),
    "C01": dict(
        level="proof",
        campaigns=[dict(engine="tcpauth", n=n(600, 12000)), dict(engine="conc", n=n(15, 300)), dict(engine="tcp", n=n(15, 300), netns=True)],
        trusted_base=AUTH_TB,
        assumptions=["KeySeparation (a stream sealed under one (cipher, secret) opens under no other) is an explicit hypothesis where attribution to 'exactly that key' is claimed",
                     "each cipherList method is one critical section (C19 lock-set facts), so concurrent use is an interleaving of the modelled ops"],
    ),
    "C08": dict(
        level="proof",
        campaigns=[dict(engine="tcpauth", n=n(600, 12000)), dict(engine="tcp", n=n(15, 300), netns=True), dict(engine="conc", n=n(10, 200))],
        trusted_base=AUTH_TB,
        assumptions=["HMAC-SHA1 is a parameter of the theorems; RNG freshness of the salt prefix is a contract (pairwise distinctness is checked empirically)"],
    ),
    "C04": dict(
        level="proof",
        # natlife: its teardown-race step sends a datagram while the expired association's copier is held inside
        # RemoveNatEntry (entry still in the table): a second association for the same client there is a C04 violation
        campaigns=[dict(engine="udp", n=n(150, 3000), netns=True), dict(engine="natlife", n=n(8, 150), netns=True, args={"life": 1})],
        trusted_base=UDP_TB, assumptions=UDP_AS,
    ),
    "C14": dict(
        level="proof",
        campaigns=[dict(engine="natconn", n=n(2000, 40000)), dict(engine="udp", n=n(100, 2000), netns=True),
                   dict(engine="natlife", n=n(16, 300), netns=True, args={"life": 1})],
        trusted_base=UDP_TB + ["model Model/NatConn.lean of natconn.onWrite/onRead tied by the `natconn` campaign through the verif hook service/verif_export.go",
                               "Gen/Code.lean: Lean translations of natconn.onWrite, natconn.onRead, natconn.WriteTo, natconn.ReadFrom regenerated from the Go source on every run by extract/golean.go (trusted translator; subset: assignments, if/else, return, range and counting loops, struct literals, maps, a fixed table of standard-library operations) over the run-time prelude Model/GoRT.lean (trusted meaning of Go maps, slices, ints, time, sync.Once, errors, effects); Proofs/Tie*.lean prove for all inputs that the translation never panics and does what the hand model does"],
        assumptions=UDP_AS + ["real-time bounds (teardown 'within bounded time', 'promptly') are observed by the campaigns, not proved: the model has a logical clock"],
    ),
    "C16": dict(
        level="proof",
        campaigns=[dict(engine="udp", n=n(150, 3000), netns=True)],
        trusted_base=UDP_TB, assumptions=UDP_AS,
    ),
    "C03": dict(
        level="proof",
        campaigns=[dict(engine="udp", n=n(150, 3000), netns=True)],
        trusted_base=UDP_TB, assumptions=UDP_AS,
    ),
    "C05": dict(
        level="proof",
        campaigns=[dict(engine="ip", n=n(100000, 5000000)), dict(engine="udp", n=n(150, 3000), netns=True), dict(engine="tcp", n=n(15, 300), netns=True)],
        trusted_base=["model Model/IP.lean of net.IP predicates (Go toolchain) and net/private_net.go, tied by the `ip` differential campaign",
                      "Gen/PrivateNets.lean regenerated from the CIDR literals of net/private_net.go",
                      "Gen/Code.lean: Lean translations of RequirePublicIP, IsPrivateAddress regenerated from the Go source on every run by extract/golean.go (trusted translator; subset: assignments, if/else, return, range and counting loops, struct literals, maps, a fixed table of standard-library operations) over the run-time prelude Model/GoRT.lean (trusted meaning of Go maps, slices, ints, time, sync.Once, errors, effects); Proofs/Tie*.lean prove for all inputs that the translation never panics and does what the hand model does"],
        assumptions=["hostname resolution is an oracle (cannot be exercised offline): the theorems quantify over every resolver answer",
                     "net.Dialer calls Control with the literal address of every connection attempt (Go runtime contract)"],
    ),
    "C07": dict(
        level="proof",
        campaigns=[dict(engine="replay", n=n(1500, 30000), args={"ops": 200}), dict(engine="tcpauth", n=n(400, 8000)),
                   dict(engine="conc", n=n(15, 300)), dict(engine="config", n=n(8, 150), netns=True)],
        trusted_base=["model Model/Replay.lean of service/replay.go tied by the `replay` differential campaign",
                      "Gen/Code.lean: Lean translations of preHash, ReplayCache.Add, ReplayCache.Resize, NewReplayCache regenerated from the Go source on every run by extract/golean.go (trusted translator; subset: assignments, if/else, return, range and counting loops, struct literals, maps, a fixed table of standard-library operations) over the run-time prelude Model/GoRT.lean (trusted meaning of Go maps, slices, ints, time, sync.Once, errors, effects); Proofs/Tie*.lean prove for all inputs that the translation never panics and does what the hand model does",
                      "Gen/Consts.lean (MaxCapacity) regenerated from source"],
        assumptions=["ReplayCache.Add/Resize are each one critical section (C19 lock-set facts)",
                     "a handshake is identified by (key id, salt); the 32-bit XOR-fold checksum is what is remembered"],
    ),
}

# Every property whose Props file states theorems about TRANSLATED Go functions names them in its trusted base
# (the translator and the prelude are trusted; the ties are proved).
_TRANSLATED = {
    "C01": "matchesIP, cipherList.SnapshotForClientIP / MarkUsedByClientIP / Update, findEntry, findAccessKey, the function literal of NewShadowsocksStreamAuthenticator",
    "C03": "findAccessKeyUDP",
    "C04": "packetHandler.validatePacket, natmap.Get / set / del / Close",
    "C06": "streamHandler.handleConnection (with the calls of its collaborators traced), drainErrToString",
    "C07": "preHash, ReplayCache.Add / Resize, NewReplayCache, the function literal of NewShadowsocksStreamAuthenticator",
    "C08": "serverSaltGenerator.splitSalt / IsServerSalt, MakeCipherEntry, the function literal of NewShadowsocksStreamAuthenticator",
    "C09": "newCipherListFromConfig, MakeCipherEntry",
    "C10": "Config.Validate",
    "C15": "measuredConn.Read / Write / WriteTo / ReadFrom, streamHandler.Handle, streamHandler.handleConnection, ssService.HandleStream",
    "C16": "packetHandler.validatePacket",
    "C20": "GetIPInfoFromIP, GetIPInfoFromAddr",
}
for _p, _fns in _TRANSLATED.items():
    _tb = list(CHECKS[_p].get("trusted_base", []))
    _tb = [x for x in _tb if not x.startswith("Gen/Code.lean: Lean translations of")]
    _tb.append("Gen/Code.lean: Lean translations of " + _fns + ", regenerated from the Go source on every run by extract/golean.go "
               "(trusted translator: a typed-AST translation of a Go subset into `do` blocks of the Option monad, `none` = panic; what the function takes from "
               "outside — the clock, opaque callees, interface methods, functions stored in fields — becomes a parameter, calls whose result is unused become an effect log) "
               "over the run-time prelude Model/GoRT.lean (trusted meaning of Go maps, slices, ints, time, sync.Once, errors, effects); Proofs/Tie*.lean prove for all "
               "inputs that the translation never panics (or panics exactly where stated) and does what the model / the stated closed form does")
    CHECKS[_p]["trusted_base"] = _tb
