package main

import "github.com/Jigsaw-Code/outline-sdk/transport/shadowsocks"

type sdkEncryptionKey = shadowsocks.EncryptionKey

func sdkNewKey(cipher, secret string) (*shadowsocks.EncryptionKey, error) {
	return shadowsocks.NewEncryptionKey(cipher, secret)
}
