package main

// Independent re-implementation of the Shadowsocks AEAD constructions, written from the spec
// (https://shadowsocks.org/doc/aead.html) with Go's crypto primitives only — it does not call the
// outline-sdk code that the server under test uses.  Used to build client traffic, to decide under
// which configured keys a byte string authenticates, and to open what the server sends back.

import (
	"crypto/aes"
	"crypto/cipher"
	"crypto/md5"
	"crypto/sha1"
	"encoding/binary"
	"errors"
	"io"
	"strings"

	"golang.org/x/crypto/chacha20poly1305"
	"golang.org/x/crypto/hkdf"
)

type specCipher struct {
	name     string // canonical name
	keySize  int
	saltSize int
	tagSize  int
	mk       func(key []byte) (cipher.AEAD, error)
}

func aesGCM(key []byte) (cipher.AEAD, error) {
	b, err := aes.NewCipher(key)
	if err != nil {
		return nil, err
	}
	return cipher.NewGCM(b)
}

var specCiphers = []specCipher{
	{"chacha20-ietf-poly1305", 32, 32, 16, chacha20poly1305.New},
	{"aes-256-gcm", 32, 32, 16, aesGCM},
	{"aes-192-gcm", 24, 24, 16, aesGCM},
	{"aes-128-gcm", 16, 16, 16, aesGCM},
}

// names accepted in configurations for each cipher (upper/lower case variants included by callers)
var cipherAliases = map[string][]string{
	"chacha20-ietf-poly1305": {"chacha20-ietf-poly1305", "AEAD_CHACHA20_POLY1305", "CHACHA20-IETF-POLY1305", "aead_chacha20_poly1305"},
	"aes-256-gcm":            {"aes-256-gcm", "AEAD_AES_256_GCM", "AES-256-GCM"},
	"aes-192-gcm":            {"aes-192-gcm", "AEAD_AES_192_GCM", "AES-192-gcm"},
	"aes-128-gcm":            {"aes-128-gcm", "AEAD_AES_128_GCM", "aes-128-GCM"},
}

func specCipherByName(name string) *specCipher {
	u := strings.ToUpper(name)
	for i := range specCiphers {
		for _, a := range cipherAliases[specCiphers[i].name] {
			if strings.ToUpper(a) == u {
				return &specCiphers[i]
			}
		}
	}
	return nil
}

type specKey struct {
	c      *specCipher
	master []byte
	secret string
}

func evpBytesToKey(password string, keyLen int) []byte {
	var out, prev []byte
	for len(out) < keyLen {
		h := md5.New()
		h.Write(prev)
		h.Write([]byte(password))
		prev = h.Sum(nil)
		out = append(out, prev...)
	}
	return out[:keyLen]
}

func newSpecKey(cipherName, secret string) *specKey {
	c := specCipherByName(cipherName)
	if c == nil {
		return nil
	}
	return &specKey{c: c, master: evpBytesToKey(secret, c.keySize), secret: secret}
}

func (k *specKey) aead(salt []byte) cipher.AEAD {
	sub := make([]byte, k.c.keySize)
	io.ReadFull(hkdf.New(sha1.New, k.master, salt, []byte("ss-subkey")), sub)
	a, err := k.c.mk(sub)
	if err != nil {
		panic(err)
	}
	return a
}

// UDP: salt ‖ seal(zero nonce, plaintext)
func (k *specKey) packUDP(salt, plaintext []byte) []byte {
	a := k.aead(salt)
	out := append([]byte{}, salt...)
	return a.Seal(out, make([]byte, a.NonceSize()), plaintext, nil)
}

func (k *specKey) openUDP(pkt []byte) ([]byte, error) {
	if len(pkt) < k.c.saltSize+k.c.tagSize {
		return nil, errors.New("short")
	}
	a := k.aead(pkt[:k.c.saltSize])
	return a.Open(nil, make([]byte, a.NonceSize()), pkt[k.c.saltSize:], nil)
}

// TCP stream encoder with explicit chunking.
type specStreamWriter struct {
	k     *specKey
	a     cipher.AEAD
	nonce []byte
	salt  []byte
}

func newSpecStreamWriter(k *specKey, salt []byte) *specStreamWriter {
	a := k.aead(salt)
	return &specStreamWriter{k: k, a: a, nonce: make([]byte, a.NonceSize()), salt: salt}
}

func incNonce(n []byte) {
	for i := range n {
		n[i]++
		if n[i] != 0 {
			return
		}
	}
}

// chunk returns the encoding of one chunk (length block + payload block); payload ≤ 0x3fff.
func (w *specStreamWriter) chunk(payload []byte) []byte {
	var l [2]byte
	binary.BigEndian.PutUint16(l[:], uint16(len(payload)))
	out := w.a.Seal(nil, w.nonce, l[:], nil)
	incNonce(w.nonce)
	out = w.a.Seal(out, w.nonce, payload, nil)
	incNonce(w.nonce)
	return out
}

// headerOpens: does the first length block (bytes [salt, salt+2+tag)) authenticate under k?
func (k *specKey) headerOpens(first []byte) bool {
	need := k.c.saltSize + 2 + k.c.tagSize
	if len(first) < need {
		return false
	}
	a := k.aead(first[:k.c.saltSize])
	_, err := a.Open(nil, make([]byte, a.NonceSize()), first[k.c.saltSize:need], nil)
	return err == nil
}

// specStreamReader decodes a server→client stream.
type specStreamReader struct {
	k     *specKey
	a     cipher.AEAD
	nonce []byte
	buf   []byte
}

func (r *specStreamReader) feed(b []byte) { r.buf = append(r.buf, b...) }

// next returns all complete chunks' plaintext available so far; err on authentication failure.
func (r *specStreamReader) drain() ([]byte, error) {
	var out []byte
	if r.a == nil {
		if len(r.buf) < r.k.c.saltSize {
			return nil, nil
		}
		r.a = r.k.aead(r.buf[:r.k.c.saltSize])
		r.nonce = make([]byte, r.a.NonceSize())
		r.buf = r.buf[r.k.c.saltSize:]
	}
	for {
		t := r.k.c.tagSize
		if len(r.buf) < 2+t {
			return out, nil
		}
		lb, err := r.a.Open(nil, r.nonce, r.buf[:2+t], nil)
		if err != nil {
			return out, errors.New("length block does not authenticate")
		}
		n := int(binary.BigEndian.Uint16(lb)) & 0x3fff
		if len(r.buf) < 2+t+n+t {
			return out, nil
		}
		n2 := append([]byte{}, r.nonce...)
		incNonce(n2)
		pb, err := r.a.Open(nil, n2, r.buf[2+t:2+t+n+t], nil)
		if err != nil {
			return out, errors.New("payload block does not authenticate")
		}
		incNonce(r.nonce)
		incNonce(r.nonce)
		out = append(out, pb...)
		r.buf = r.buf[2+t+n+t:]
	}
}

func fnvDigest(b []byte) string {
	h := uint64(14695981039346656037)
	for _, x := range b {
		h = (h ^ uint64(x)) * 1099511628211
	}
	const d = "0123456789abcdef"
	o := make([]byte, 16)
	for i := 0; i < 16; i++ {
		o[i] = d[(h>>(60-4*uint(i)))&15]
	}
	return itoa(len(b)) + ":" + string(o)
}

func itoa(i int) string {
	if i == 0 {
		return "0"
	}
	var d []byte
	neg := i < 0
	if neg {
		i = -i
	}
	for i > 0 {
		d = append([]byte{byte('0' + i%10)}, d...)
		i /= 10
	}
	if neg {
		return "-" + string(d)
	}
	return string(d)
}
