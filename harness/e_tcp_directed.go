package main

// Directed scenarios of the "tcp" engine: situations the script generator reaches rarely or never,
// written from the property text and judged by oracles that do not involve the model.
//
//   deadline equality (C06): probes that stay open must all be closed at the same moment, whatever they
//     sent and whenever they sent it — in particular a probe whose 50th byte (the one that lets the
//     server decide) arrives just before the deadline.
//   request/response over an open connection (C02): what the client has written reaches the target although the client
//     neither writes more nor closes — for request sizes around the maximum chunk size (16383) in particular.
//   bulk upload to a slow target that has already finished its own direction (C02): every byte the
//     client sent reaches the target, followed by a clean end of stream — also when the proxy's send
//     queue towards the target is still full at the moment both directions are done.

import (
	"context"
	"crypto/sha256"
	"errors"
	"fmt"
	"io"
	"net"
	"sort"
	"sync"
	"syscall"
	"time"

	"github.com/Jigsaw-Code/outline-sdk/transport"
	"github.com/Jigsaw-Code/outline-ss-server/service"
)

type dirProbe struct {
	name    string
	first   int // bytes sent at once
	later   int // bytes sent at `at`
	at      time.Duration
	closeAt time.Duration
	kind    string
}

// one measurement: all probes are opened together against a fresh handler with handshake timeout T
func deadlineEqualityOnce(r *Rng, T time.Duration) ([]*dirProbe, bool) {
	entries := []cfgEntry{{ref: 1, id: "k", cipher: "chacha20-ietf-poly1305", secret: "directed-secret", keyref: 0}}
	cl, err := makeCipherList(entries)
	if err != nil {
		return nil, false
	}
	rc := service.NewReplayCache(100)
	auth := service.NewShadowsocksStreamAuthenticator(cl, &rc, &tcpSearchRec{}, nil)
	h := service.NewStreamHandler(auth, T)
	ln, err := net.ListenTCP("tcp4", &net.TCPAddr{IP: net.IPv4(127, 0, 0, 1)})
	if err != nil {
		return nil, false
	}
	served := make(chan struct{})
	go func() {
		service.StreamServe(service.WrapStreamAcceptFunc(ln.AcceptTCP), func(ctx context.Context, c transport.StreamConn) {
			h.Handle(ctx, c, &tcpConnRec{closed: make(chan struct{})})
		})
		close(served)
	}()
	late := T * 97 / 100
	probes := []*dirProbe{
		{name: "30 bytes, then silence", first: 30},
		{name: "49 bytes, 50th byte at 0.97 T", first: 49, later: 1, at: late},
		{name: "49 bytes, 40 more at 0.97 T", first: 49, later: 40, at: late},
		{name: "200 bytes at once", first: 200},
		{name: "nothing at all", first: 0},
		{name: "49 bytes, 50th byte at 0.5 T", first: 49, later: 1, at: T / 2},
		// "whatever the content or length": long probes, around and beyond one maximal chunk, at once and in two parts
		{name: "16434 bytes at once", first: 16434},
		{name: "20000 bytes at once", first: 20000},
		{name: "70000 bytes at once", first: 70000},
		{name: "200 bytes, 40000 more at 0.5 T", first: 200, later: 40000, at: T / 2},
	}
	var wg sync.WaitGroup
	for _, p := range probes {
		wg.Add(1)
		p := p
		a, b := r.Bytes(p.first), r.Bytes(p.later)
		go func() {
			defer wg.Done()
			conn, err := net.DialTCP("tcp4", nil, ln.Addr().(*net.TCPAddr))
			if err != nil {
				p.kind = "dial:" + err.Error()
				return
			}
			defer conn.Close()
			start := time.Now()
			if len(a) > 0 {
				conn.Write(a)
			}
			if len(b) > 0 {
				go func() {
					time.Sleep(time.Until(start.Add(p.at)))
					conn.Write(b)
				}()
			}
			conn.SetReadDeadline(start.Add(T + 2*time.Second))
			buf := make([]byte, 4096)
			for {
				n, err := conn.Read(buf)
				if n > 0 {
					p.kind = fmt.Sprintf("data(%d)", n)
				}
				if err != nil {
					p.closeAt = time.Since(start)
					var ne net.Error
					switch {
					case p.kind != "":
					case err == io.EOF:
						p.kind = "fin"
					case errors.As(err, &ne) && ne.Timeout():
						p.kind = "open"
					case errors.Is(err, syscall.ECONNRESET):
						p.kind = "rst"
					default:
						p.kind = "err:" + err.Error()
					}
					return
				}
			}
		}()
	}
	wg.Wait()
	ln.Close()
	<-served
	return probes, true
}

func tcpDirectedDeadline(r *Rng, out *Out) {
	T := 1500 * time.Millisecond
	const tol = 90 * time.Millisecond // the change this is after moves a close by T/10 = 150 ms
	firstBad, firstDesc := "", ""
	for attempt := 0; attempt < 3; attempt++ {
		probes, ok := deadlineEqualityOnce(r, T)
		if !ok {
			out.Note("directed deadline scenario could not run")
			return
		}
		out.Stat("directed.deadline.runs", 1)
		var times []time.Duration
		desc := ""
		for _, p := range probes {
			times = append(times, p.closeAt)
			desc += fmt.Sprintf("[%s: %s after %v] ", p.name, p.kind, p.closeAt.Round(time.Millisecond))
		}
		sort.Slice(times, func(i, j int) bool { return times[i] < times[j] })
		median := times[len(times)/2]
		// the probes that were not closed together with the others (a spread can be scheduling noise
		// once; the same probe classes being the odd ones out three times in a row is not)
		bad := ""
		for _, p := range probes {
			if d := p.closeAt - median; d > tol || d < -tol {
				bad += "\"" + p.name + "\" "
			}
		}
		if bad == "" {
			return
		}
		if attempt == 0 {
			firstBad, firstDesc = bad, desc
		} else if bad != firstBad {
			return
		}
		if attempt == 2 {
			out.Oracle("C06", "probes that stay open were not closed at the same deadline (timeout %v): in three measurements in a row %swere closed more than %v apart from the others: %s", T, firstBad, tol, firstDesc)
		}
	}
}

// bulk upload: the target greets, half-closes, then reads slowly; the client uploads `size` bytes and half-closes
func tcpDirectedBulk(r *Rng, e *netEnv, out *Out) {
	if len(e.publicV4) == 0 {
		return
	}
	const size = 6 << 20
	tip := e.publicV4[0]
	tln, err := net.Listen("tcp4", net.JoinHostPort(tip, "9010"))
	if err != nil {
		out.Note("directed bulk target: %v", err)
		return
	}
	defer tln.Close()
	type tres struct {
		n    int
		sum  [32]byte
		err  error
		done bool
	}
	resCh := make(chan tres, 1)
	go func() {
		c, err := tln.Accept()
		if err != nil {
			resCh <- tres{err: err}
			return
		}
		defer c.Close()
		tc := c.(*net.TCPConn)
		tc.SetReadBuffer(64 << 10)
		tc.Write([]byte("early-reply"))
		tc.CloseWrite()
		hsh := sha256.New()
		buf := make([]byte, 32<<10)
		total := 0
		tc.SetReadDeadline(time.Now().Add(20 * time.Second))
		for {
			n, err := tc.Read(buf)
			hsh.Write(buf[:n])
			total += n
			if err != nil {
				var s [32]byte
				copy(s[:], hsh.Sum(nil))
				if err == io.EOF {
					err = nil
				}
				resCh <- tres{n: total, sum: s, err: err, done: true}
				return
			}
			time.Sleep(300 * time.Microsecond) // slower than the client writes
		}
	}()
	entries := []cfgEntry{{ref: 1, id: "k", cipher: "aes-128-gcm", secret: "bulk-secret", keyref: 0}}
	cl, err := makeCipherList(entries)
	if err != nil {
		return
	}
	auth := service.NewShadowsocksStreamAuthenticator(cl, nil, &tcpSearchRec{}, nil)
	h := service.NewStreamHandler(auth, 2*time.Second)
	ln, err := net.ListenTCP("tcp4", &net.TCPAddr{IP: net.IPv4(127, 0, 0, 1)})
	if err != nil {
		return
	}
	rec := &tcpConnRec{closed: make(chan struct{})}
	served := make(chan struct{})
	go func() {
		service.StreamServe(service.WrapStreamAcceptFunc(ln.AcceptTCP), func(ctx context.Context, c transport.StreamConn) {
			h.Handle(ctx, c, rec)
		})
		close(served)
	}()
	defer func() { ln.Close(); <-served }()
	conn, err := net.DialTCP("tcp4", nil, ln.Addr().(*net.TCPAddr))
	if err != nil {
		return
	}
	defer conn.Close()
	key := newSpecKey("aes-128-gcm", "bulk-secret")
	w := newSpecStreamWriter(key, r.Bytes(key.c.saltSize))
	payload := r.Bytes(size)
	want := sha256.Sum256(payload)
	// the reply and its end of stream arrive while the upload is still going on
	gotReply := make(chan string, 1)
	go func() {
		rd := &specStreamReader{k: key}
		buf := make([]byte, 4096)
		var plain []byte
		conn.SetReadDeadline(time.Now().Add(25 * time.Second))
		for {
			n, err := conn.Read(buf)
			rd.feed(buf[:n])
			p, _ := rd.drain()
			plain = append(plain, p...)
			if err != nil {
				gotReply <- string(plain)
				return
			}
		}
	}()
	hdr := socksV4(net.ParseIP(tip), 9010)
	wire := append(append([]byte{}, w.salt...), w.chunk(hdr)...)
	conn.Write(wire)
	for off := 0; off < len(payload); off += 0x3fff {
		end := off + 0x3fff
		if end > len(payload) {
			end = len(payload)
		}
		if _, err := conn.Write(w.chunk(payload[off:end])); err != nil {
			out.Oracle("C02", "bulk upload (target replied and half-closed first, reads slowly): the proxy stopped taking client data after %d of %d bytes: %v", off, size, err)
			return
		}
	}
	conn.CloseWrite()
	out.Stat("directed.bulk.runs", 1)
	select {
	case res := <-resCh:
		switch {
		case res.err != nil:
			out.Oracle("C02", "bulk upload of %d bytes to a slowly reading target that had replied and half-closed first: the target got %d bytes and then %v instead of every byte and a clean end of stream", size, res.n, res.err)
		case res.n != size || res.sum != want:
			out.Oracle("C02", "bulk upload of %d bytes to a slowly reading target: the target received %d bytes (digest equal: %v) before the end of stream", size, res.n, res.sum == want)
		}
	case <-time.After(30 * time.Second):
		out.Oracle("C02", "bulk upload of %d bytes to a slowly reading target did not complete within 30 s", size)
	}
	select {
	case rep := <-gotReply:
		if rep != "early-reply" {
			out.Oracle("C02", "the client decrypted %q, the target had sent %q before half-closing", rep, "early-reply")
		}
	case <-time.After(5 * time.Second):
	}
	select {
	case <-rec.closed:
		if rec.status != "OK" {
			out.Note("directed bulk: closed with status %s", rec.status)
		}
	case <-time.After(5 * time.Second):
	}
}

// request/response: the client sends a request of exactly `size` bytes (in maximum-size chunks) and then WAITS with the
// connection open; the target answers once it has the whole request.  Data the proxy holds back until "more arrives"
// would deadlock such an exchange.
func tcpDirectedRequestResponse(r *Rng, e *netEnv, out *Out) {
	if len(e.publicV4) == 0 {
		return
	}
	tip := e.publicV4[0]
	for _, size := range []int{16383, 2 * 16383, 16382, 16384, 700} {
		tln, err := net.Listen("tcp4", net.JoinHostPort(tip, "9011"))
		if err != nil {
			out.Note("directed request/response target: %v", err)
			return
		}
		got := make(chan int, 1)
		go func() {
			c, err := tln.Accept()
			if err != nil {
				got <- -1
				return
			}
			defer c.Close()
			c.SetReadDeadline(time.Now().Add(3 * time.Second))
			buf := make([]byte, size)
			n, _ := io.ReadFull(c, buf)
			if n == size {
				c.Write([]byte("ack"))
			}
			got <- n
			time.Sleep(50 * time.Millisecond)
		}()
		entries := []cfgEntry{{ref: 1, id: "k", cipher: "aes-256-gcm", secret: "rr-secret", keyref: 0}}
		cl, err := makeCipherList(entries)
		if err != nil {
			tln.Close()
			return
		}
		auth := service.NewShadowsocksStreamAuthenticator(cl, nil, &tcpSearchRec{}, nil)
		h := service.NewStreamHandler(auth, 2*time.Second)
		ln, err := net.ListenTCP("tcp4", &net.TCPAddr{IP: net.IPv4(127, 0, 0, 1)})
		if err != nil {
			tln.Close()
			return
		}
		served := make(chan struct{})
		go func() {
			service.StreamServe(service.WrapStreamAcceptFunc(ln.AcceptTCP), func(ctx context.Context, c transport.StreamConn) {
				h.Handle(ctx, c, &tcpConnRec{closed: make(chan struct{})})
			})
			close(served)
		}()
		conn, err := net.DialTCP("tcp4", nil, ln.Addr().(*net.TCPAddr))
		if err == nil {
			key := newSpecKey("aes-256-gcm", "rr-secret")
			w := newSpecStreamWriter(key, r.Bytes(key.c.saltSize))
			payload := r.Bytes(size)
			conn.Write(append(append([]byte{}, w.salt...), w.chunk(socksV4(net.ParseIP(tip), 9011))...))
			for off := 0; off < size; off += 0x3fff {
				end := off + 0x3fff
				if end > size {
					end = size
				}
				conn.Write(w.chunk(payload[off:end]))
			}
			// no FIN, no further data: wait for the answer
			rd := &specStreamReader{k: key}
			var plain []byte
			conn.SetReadDeadline(time.Now().Add(4 * time.Second))
			buf := make([]byte, 4096)
			for len(plain) < 3 {
				n, err := conn.Read(buf)
				rd.feed(buf[:n])
				p, _ := rd.drain()
				plain = append(plain, p...)
				if err != nil {
					break
				}
			}
			n := <-got
			out.Stat("directed.reqresp.runs", 1)
			if n != size {
				out.Oracle("C02", "request/response with the connection kept open: the client wrote a request of %d bytes and waits; the target received %d of them within 3 s", size, n)
			} else if string(plain) != "ack" {
				out.Oracle("C02", "request/response with the connection kept open (%d-byte request): the target answered \"ack\", the client decrypted %q", size, plain)
			}
			conn.Close()
		}
		ln.Close()
		<-served
		tln.Close()
	}
}
