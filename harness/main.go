// Correspondence harness: drives the real outline-ss-server code in-process and writes, per
// operation, one line "<op> => <observed output>" (the op text is what the Lean model driver
// consumes), plus "!ORACLE <property> <description>" lines when an observation contradicts a
// property oracle that is independent of the model, and "#stat <key> <n>" distribution lines.
package main

import (
	"bufio"
	"flag"
	"fmt"
	"os"
	"sort"
	"strings"
)

type Out struct {
	w      *bufio.Writer
	stats  map[string]int
	ops    int
	oracle int
}

func (o *Out) Op(op, result string) {
	fmt.Fprintf(o.w, "%s => %s\n", op, result)
	o.ops++
}
func (o *Out) Oracle(prop, format string, a ...any) {
	fmt.Fprintf(o.w, "!ORACLE %s %s\n", prop, strings.ReplaceAll(fmt.Sprintf(format, a...), "\n", " "))
	o.oracle++
}
func (o *Out) Note(format string, a ...any) {
	fmt.Fprintf(o.w, "#note %s\n", strings.ReplaceAll(fmt.Sprintf(format, a...), "\n", " "))
}
func (o *Out) Stat(key string, n int) { o.stats[key] += n }
func (o *Out) Flush() {
	keys := make([]string, 0, len(o.stats))
	for k := range o.stats {
		keys = append(keys, k)
	}
	sort.Strings(keys)
	for _, k := range keys {
		fmt.Fprintf(o.w, "#stat %s %d\n", k, o.stats[k])
	}
	o.w.Flush()
}

type Engine func(rng *Rng, n int, out *Out, args map[string]string)

var engines = map[string]Engine{}

func main() {
	if len(os.Args) < 2 {
		fmt.Fprintln(os.Stderr, "usage: harness <engine> [-seed S] [-n N] [-out file] [-arg k=v]...")
		os.Exit(2)
	}
	name := os.Args[1]
	fs := flag.NewFlagSet(name, flag.ExitOnError)
	seed := fs.Uint64("seed", 1, "PRNG seed")
	n := fs.Int("n", 100, "number of cases")
	outPath := fs.String("out", "-", "output file")
	var extra multi
	fs.Var(&extra, "arg", "k=v engine argument")
	fs.Parse(os.Args[2:])
	eng, ok := engines[name]
	if !ok {
		fmt.Fprintf(os.Stderr, "unknown engine %q\n", name)
		os.Exit(2)
	}
	f := os.Stdout
	if *outPath != "-" {
		var err error
		f, err = os.Create(*outPath)
		if err != nil {
			fmt.Fprintln(os.Stderr, err)
			os.Exit(2)
		}
		defer f.Close()
	}
	out := &Out{w: bufio.NewWriterSize(f, 1<<20), stats: map[string]int{}}
	args := map[string]string{}
	for _, kv := range extra {
		if i := strings.IndexByte(kv, '='); i > 0 {
			args[kv[:i]] = kv[i+1:]
		}
	}
	eng(NewRng(*seed), *n, out, args)
	out.Flush()
}

type multi []string

func (m *multi) String() string     { return strings.Join(*m, ",") }
func (m *multi) Set(s string) error { *m = append(*m, s); return nil }
