package main

import (
	"bytes"
	"encoding/binary"
	"encoding/json"
	"fmt"
	"io"
	"net"
	"os"
	"path/filepath"
	"strconv"
	"strings"
	"sync"
	"time"
)

// Engine "life" (C18): the real server as a child process (so that a crash is an observation, not the
// end of the harness) inside the private network namespace, attacked with hostile sessions from
// clients — raw bytes of every length, authenticated streams with malformed address headers (every
// address type byte, zero-length and 255-byte domains, headers cut at every byte), oversized and
// corrupt chunks, aborts (FIN, RST) at every stage — and from targets — resets mid-relay, immediate
// close, silence, floods, datagram replies of every size up to the maximum, replies from another
// source, several replies — many at once.  After each batch: the process is alive, no panic was
// recovered or logged, a well-behaved client is still served on TCP and UDP, and once the sessions
// have ended goroutines and file descriptors are back where they were; after Stop nothing is left.
func init() { engines["life"] = lifeEngine }

type lifeTargets struct{ ip string }

const (
	ltEcho       = 9600
	ltReset      = 9601
	ltClose      = 9602
	ltSilent     = 9603
	ltFlood      = 9604
	ltUDPBig     = 9610
	ltUDPOther   = 9611
	ltUDPMulti   = 9612
	ltClosedPort = 9699
)

func (t *lifeTargets) start(out *Out) bool {
	serve := func(port int, h func(net.Conn)) bool {
		ln, err := net.Listen("tcp", net.JoinHostPort(t.ip, itoa(port)))
		if err != nil {
			out.Note("life target %d: %v", port, err)
			return false
		}
		go func() {
			for {
				c, err := ln.Accept()
				if err != nil {
					return
				}
				go h(c)
			}
		}()
		return true
	}
	ok := serve(ltEcho, func(c net.Conn) {
		defer c.Close()
		io.Copy(c, c)
	})
	ok = ok && serve(ltReset, func(c net.Conn) {
		buf := make([]byte, 4096)
		c.SetReadDeadline(time.Now().Add(2 * time.Second))
		n, _ := c.Read(buf)
		c.Write(buf[:n])
		c.Write(bytes.Repeat([]byte("x"), 3000))
		time.Sleep(time.Duration(n%7) * time.Millisecond)
		c.(*net.TCPConn).SetLinger(0) // RST
		c.Close()
	})
	ok = ok && serve(ltClose, func(c net.Conn) { c.Close() })
	ok = ok && serve(ltSilent, func(c net.Conn) {
		defer c.Close()
		c.SetReadDeadline(time.Now().Add(20 * time.Second))
		io.Copy(io.Discard, c)
	})
	ok = ok && serve(ltFlood, func(c net.Conn) {
		defer c.Close()
		chunk := bytes.Repeat([]byte("flood-"), 4096)
		c.SetWriteDeadline(time.Now().Add(5 * time.Second))
		for i := 0; i < 40; i++ {
			if _, err := c.Write(chunk); err != nil {
				return
			}
		}
	})
	udp := func(port int, h func(pc net.PacketConn, data []byte, from net.Addr)) bool {
		pc, err := net.ListenPacket("udp", net.JoinHostPort(t.ip, itoa(port)))
		if err != nil {
			out.Note("life udp target %d: %v", port, err)
			return false
		}
		go func() {
			buf := make([]byte, 65536)
			for {
				n, a, err := pc.ReadFrom(buf)
				if err != nil {
					return
				}
				h(pc, append([]byte{}, buf[:n]...), a)
			}
		}()
		return true
	}
	ok = ok && udp(ltEcho, func(pc net.PacketConn, d []byte, a net.Addr) { pc.WriteTo(d, a) })
	ok = ok && udp(ltUDPBig, func(pc net.PacketConn, d []byte, a net.Addr) {
		// first 4 bytes: the size of the reply
		if len(d) >= 4 {
			n := int(binary.BigEndian.Uint32(d[:4]))
			if n > 65507 {
				n = 65507
			}
			pc.WriteTo(bytes.Repeat([]byte{0xAB}, n), a)
		}
	})
	ok = ok && udp(ltUDPOther, func(pc net.PacketConn, d []byte, a net.Addr) {
		if o, err := net.ListenPacket("udp", net.JoinHostPort(t.ip, "0")); err == nil {
			o.WriteTo(d, a)
			o.Close()
		}
	})
	ok = ok && udp(ltUDPMulti, func(pc net.PacketConn, d []byte, a net.Addr) {
		for i := 0; i < 3; i++ {
			pc.WriteTo(d, a)
		}
	})
	return ok
}

type lifeCase struct {
	r    *Rng
	out  *Out
	d    *cfgDriver
	tg   *lifeTargets
	addr string
	keys []*specKey
}

// hostile address headers: (bytes, what)
func (c *lifeCase) badHeader() ([]byte, string) {
	r := c.r
	switch r.Intn(9) {
	case 0:
		return []byte{byte(Pick(r, []int{0, 2, 5, 6, 0x7f, 0x80, 0xff})), 1, 2, 3, 4, 0, 80}, "atyp"
	case 1:
		return []byte{3, 0, 0, 80}, "domain-len-0"
	case 2:
		return socksDomain(string(r.Bytes(255)), 80), "domain-255-garbage"
	case 3:
		return socksDomain(strings.Repeat("a", 255), 80), "domain-255"
	case 4:
		h := socksAddrV4(c.tg.ip, ltEcho)
		return h[:r.Intn(len(h))], "truncated-v4"
	case 5:
		h := socksV6(net.ParseIP("2001:db8::10"), ltEcho)
		return h[:r.Intn(len(h))], "truncated-v6"
	case 6:
		h := socksDomain("example.invalid", 80)
		return h[:1+r.Intn(len(h)-1)], "truncated-domain"
	case 7:
		return nil, "empty"
	default:
		return socksDomain("no-such-host.invalid", 80), "unresolvable"
	}
}

type lifeSession struct {
	kind   string
	expect string // close status the decision table demands ("" = not determined by the input alone)
	run    func() string
}

// tcpSession: write the scripted bytes, end the way the script says, report what came back
func (c *lifeCase) tcpRaw(data []byte, end string) string {
	conn, err := dialFrom("tcp", c.addr)
	if err != nil {
		return "refused"
	}
	defer conn.Close()
	conn.SetDeadline(time.Now().Add(6 * time.Second))
	if len(data) > 0 {
		if _, err := conn.Write(data); err != nil {
			return "write-failed"
		}
	}
	switch end {
	case "rst":
		conn.(*net.TCPConn).SetLinger(0)
		return "rst"
	case "fin":
		conn.(*net.TCPConn).CloseWrite()
	case "fin-late":
		time.Sleep(time.Duration(5+c.r.Intn(30)) * time.Millisecond)
		conn.(*net.TCPConn).CloseWrite()
	}
	n, _ := io.Copy(io.Discard, io.LimitReader(conn, 4<<20))
	return fmt.Sprintf("read=%d", n)
}

func (c *lifeCase) stream(key *specKey, chunks ...[]byte) []byte {
	salt := c.r.Bytes(key.c.saltSize)
	w := newSpecStreamWriter(key, salt)
	wire := append([]byte{}, salt...)
	for _, ch := range chunks {
		wire = append(wire, w.chunk(ch)...)
	}
	return wire
}

func (c *lifeCase) genSession() lifeSession {
	r := c.r
	key := Pick(r, c.keys)
	end := Pick(r, []string{"fin", "rst", "fin-late", "fin"})
	switch r.Intn(16) {
	case 0:
		n := Pick(r, []int{0, 1, 15, 16, 17, 31, 32, 33, 49, 50, 51, 100, 2000, 70000})
		data := r.Bytes(n)
		return lifeSession{kind: fmt.Sprintf("tcp-garbage-%d-%s", n, end), run: func() string { return c.tcpRaw(data, end) }}
	case 1, 2:
		h, what := c.badHeader()
		data := c.stream(key, h)
		return lifeSession{kind: "tcp-badheader-" + what + "-" + end, run: func() string { return c.tcpRaw(data, end) }}
	case 3:
		// the header split over chunks, with empty chunks in between
		h := socksAddrV4(c.tg.ip, ltEcho)
		k := r.Intn(len(h))
		data := c.stream(key, h[:k], nil, nil, h[k:], []byte("hello"))
		return lifeSession{kind: "tcp-split-header-" + end, run: func() string { return c.tcpRaw(data, end) }}
	case 4:
		// a chunk whose length field exceeds the protocol maximum, sealed correctly
		salt := r.Bytes(key.c.saltSize)
		w := newSpecStreamWriter(key, salt)
		wire := append(append([]byte{}, salt...), w.chunk(append(socksAddrV4(c.tg.ip, ltEcho), []byte("x")...))...)
		var l [2]byte
		binary.BigEndian.PutUint16(l[:], uint16(Pick(r, []int{0x4000, 0x7fff, 0xffff})))
		wire = append(wire, w.a.Seal(nil, w.nonce, l[:], nil)...)
		wire = append(wire, r.Bytes(100+r.Intn(20000))...)
		return lifeSession{kind: "tcp-oversized-chunk-" + end, run: func() string { return c.tcpRaw(wire, end) }}
	case 5:
		// valid start, then corruption in the middle of the stream
		data := c.stream(key, append(socksAddrV4(c.tg.ip, ltEcho), []byte("good")...), r.Bytes(500))
		data[len(data)-1-r.Intn(400)] ^= 0x55
		data = append(data, r.Bytes(r.Intn(300))...)
		return lifeSession{kind: "tcp-corrupt-midstream-" + end, run: func() string { return c.tcpRaw(data, end) }}
	case 6:
		port := Pick(r, []int{ltReset, ltClose, ltSilent, ltFlood, ltClosedPort})
		body := r.Bytes(r.Intn(5000))
		data := c.stream(key, append(socksAddrV4(c.tg.ip, port), body...))
		if port == ltSilent && end != "rst" {
			end = "rst" // otherwise the session lasts as long as the target's patience
		}
		return lifeSession{kind: fmt.Sprintf("tcp-target-%d-%s", port, end), run: func() string { return c.tcpRaw(data, end) }}
	case 7:
		// forbidden and odd destinations
		h := Pick(r, [][]byte{socksAddrV4("127.0.0.1", 80), socksAddrV4("10.1.2.3", 80), socksV6(net.ParseIP("::1"), 80), socksAddrV4("0.0.0.0", 0), socksAddrV4(c.tg.ip, 0), socksDomain("localhost", 80), socksV6(net.ParseIP("fe80::5"), 80)})
		data := c.stream(key, append(h, []byte("x")...))
		return lifeSession{kind: "tcp-odd-destination-" + end, run: func() string { return c.tcpRaw(data, end) }}
	case 8:
		// big upload to the echo target, aborted or completed
		data := c.stream(key, append(socksAddrV4(c.tg.ip, ltEcho), r.Bytes(8000)...), r.Bytes(16000), r.Bytes(16383), r.Bytes(1))
		return lifeSession{kind: "tcp-upload-" + end, run: func() string { return c.tcpRaw(data, end) }}
	case 9:
		// well-behaved
		data := c.stream(key, append(socksAddrV4(c.tg.ip, ltEcho), []byte("ping")...))
		return lifeSession{kind: "tcp-good", expect: "OK", run: func() string { return c.tcpRaw(data, "fin") }}
	case 10:
		// replay of one handshake, twice at once
		data := c.stream(key, append(socksAddrV4(c.tg.ip, ltEcho), []byte("ping")...))
		return lifeSession{kind: "tcp-replayed-pair", run: func() string {
			var wg sync.WaitGroup
			res := make([]string, 2)
			for i := range res {
				wg.Add(1)
				go func(i int) { defer wg.Done(); res[i] = c.tcpRaw(data, "fin") }(i)
			}
			wg.Wait()
			return res[0] + "/" + res[1]
		}}
	case 11:
		n := Pick(r, []int{0, 1, 16, 31, 32, 33, 48, 49, 50, 100, 1400, 65507})
		data := r.Bytes(n)
		return lifeSession{kind: fmt.Sprintf("udp-garbage-%d", n), run: func() string { return c.udpSend(data, 30*time.Millisecond) }}
	case 12:
		h, what := c.badHeader()
		data := key.packUDP(r.Bytes(key.c.saltSize), h)
		return lifeSession{kind: "udp-badheader-" + what, run: func() string { return c.udpSend(data, 30*time.Millisecond) }}
	case 13:
		// the target answers with a datagram of a chosen size, up to the largest possible one
		n := Pick(r, []int{0, 1, 1400, 9000, 65000, 65400, 65450, 65468, 65469, 65470, 65471, 65480, 65485, 65486, 65500, 65506, 65507})
		var sz [4]byte
		binary.BigEndian.PutUint32(sz[:], uint32(n))
		data := key.packUDP(r.Bytes(key.c.saltSize), append(socksAddrV4(c.tg.ip, ltUDPBig), sz[:]...))
		return lifeSession{kind: fmt.Sprintf("udp-reply-size-%d", n), run: func() string { return c.udpSend(data, 150*time.Millisecond) }}
	case 14:
		port := Pick(r, []int{ltUDPOther, ltUDPMulti, ltEcho, ltClosedPort})
		data := key.packUDP(r.Bytes(key.c.saltSize), append(socksAddrV4(c.tg.ip, port), r.Bytes(r.Intn(1200))...))
		return lifeSession{kind: fmt.Sprintf("udp-target-%d", port), run: func() string { return c.udpSend(data, 80*time.Millisecond) }}
	default:
		h := Pick(r, [][]byte{socksAddrV4("127.0.0.1", 53), socksV6(net.ParseIP("::1"), 53), socksAddrV4("10.1.2.3", 9), socksAddrV4(c.tg.ip, 0), socksDomain("localhost", 53)})
		data := key.packUDP(r.Bytes(key.c.saltSize), append(h, []byte("x")...))
		return lifeSession{kind: "udp-odd-destination", run: func() string { return c.udpSend(data, 30*time.Millisecond) }}
	}
}

func (c *lifeCase) udpSend(data []byte, wait time.Duration) string {
	conn, err := dialFrom("udp", c.addr)
	if err != nil {
		return "no-socket"
	}
	defer conn.Close()
	if _, err := conn.Write(data); err != nil {
		return "write-failed"
	}
	buf := make([]byte, 65536)
	got := 0
	conn.SetReadDeadline(time.Now().Add(wait))
	for {
		_, err := conn.Read(buf)
		if err != nil {
			break
		}
		got++
		conn.SetReadDeadline(time.Now().Add(20 * time.Millisecond))
	}
	return fmt.Sprintf("replies=%d", got)
}

func (c *lifeCase) num(cmd string) int {
	s, err := c.d.call(cmd)
	if err != nil {
		return -1
	}
	n, err := strconv.Atoi(s)
	if err != nil {
		return -1
	}
	return n
}

// settle: the smallest (goroutines, fds) seen once both stop falling
func (c *lifeCase) settle(wantG, wantF int, d time.Duration) (int, int) {
	deadline := time.Now().Add(d)
	g, f := c.num("goroutines"), c.num("fds")
	for (g > wantG || f > wantF) && time.Now().Before(deadline) && g >= 0 {
		time.Sleep(50 * time.Millisecond)
		g, f = c.num("goroutines"), c.num("fds")
	}
	return g, f
}

func lifeEngine(rng *Rng, n int, out *Out, args map[string]string) {
	e := setupNet(args, out)
	if !e.netns || len(e.publicV4) == 0 {
		out.Note("life engine needs the private network namespace (netns=1)")
		return
	}
	bin := args["driver"]
	if bin == "" {
		exe, _ := os.Executable()
		bin = filepath.Join(filepath.Dir(exe), "ssdriver")
	}
	tg := &lifeTargets{ip: "203.0.113.10"}
	if !tg.start(out) {
		return
	}
	dir, err := os.MkdirTemp("", "veriflife")
	if err != nil {
		return
	}
	defer os.RemoveAll(dir)
	for i := 0; i < n; i++ {
		if out.oracle >= 12 {
			out.Note("stopping after %d oracle reports: the remaining cases would only repeat them", out.oracle)
			break
		}
		r := rng.Fork()
		d, err := startDriver(bin)
		if err != nil {
			out.Oracle("*", "cannot start the server driver: %v", err)
			return
		}
		c := &lifeCase{r: r, out: out, d: d, tg: tg, addr: "127.0.0.1:9501"}
		cfg := cfgFile{Services: []cfgSvc{{Listeners: []cfgListener{{Type: "tcp", Address: c.addr}, {Type: "udp", Address: c.addr}}}}}
		for j, cn := range []string{"chacha20-ietf-poly1305", "aes-256-gcm", "aes-128-gcm"} {
			sec := fmt.Sprintf("life-secret-%d", j)
			cfg.Services[0].Keys = append(cfg.Services[0].Keys, cfgKey{ID: fmt.Sprintf("key%d", j), Cipher: cn, Secret: sec})
			c.keys = append(c.keys, newSpecKey(cn, sec))
		}
		b, _ := json.Marshal(cfg)
		path := filepath.Join(dir, fmt.Sprintf("life-%d.yaml", i))
		os.WriteFile(path, b, 0o600)
		gIdle, fIdle := c.num("goroutines"), c.num("fds")
		if ans, err := d.call("start %s %d 300", path, Pick(r, []int{0, 50, 1000})); err != nil || ans != "ok" {
			out.Oracle("*", "the server did not start: %v %s %s", err, ans, tailStr(d.stderr.String(), 800))
			d.quit()
			continue
		}
		out.Op("life start", "ok")
		g0, f0 := c.settle(0, 0, 300*time.Millisecond)
		g0, f0 = c.num("goroutines"), c.num("fds")
		batches := 2 + r.Intn(3)
		dead := false
		for bi := 0; bi < batches && !dead; bi++ {
			k := 8 + r.Intn(40)
			sessions := make([]lifeSession, k)
			for j := range sessions {
				sessions[j] = c.genSession()
			}
			conc := 1 + r.Intn(8)
			sem := make(chan struct{}, conc)
			var wg sync.WaitGroup
			results := make([]string, k)
			for j := range sessions {
				wg.Add(1)
				sem <- struct{}{}
				go func(j int) {
					defer wg.Done()
					defer func() { <-sem }()
					results[j] = sessions[j].run()
				}(j)
			}
			wg.Wait()
			kinds := map[string]int{}
			for _, s := range sessions {
				kind := s.kind
				if i := strings.LastIndexByte(kind, '-'); i > 0 && (strings.HasSuffix(kind, "-fin") || strings.HasSuffix(kind, "-rst") || strings.HasSuffix(kind, "-late")) {
					kind = kind[:i]
				}
				kinds[strings.SplitN(kind, "-", 3)[0]+"-"+strings.SplitN(kind+"-", "-", 3)[1]]++
				out.Stat("life.session."+strings.Join(strings.SplitN(kind, "-", 3)[:2], "-"), 1)
			}
			// 1. alive, and nothing was recovered from
			alive := c.num("goroutines") >= 0
			logs := d.stderr.String()
			panics := strings.Count(logs, "Panic in") + strings.Count(logs, "panic:") + strings.Count(logs, "fatal error:")
			if !alive {
				dead = true
				var kindsList []string
				for j, s := range sessions {
					kindsList = append(kindsList, s.kind+"="+results[j])
				}
				out.Oracle("C18", "the server process died during a batch of %d sessions (%d at a time): %s ... sessions: %v", k, conc, tailStr(logs, 1200), kindsList)
				out.Op("life batch", "dead")
				break
			}
			if panics > 0 {
				idx := strings.Index(logs, "anic")
				out.Oracle("C18", "the server logged %d panic(s) during a batch: %s", panics, tailStr(logs[max(0, idx-200):], 1200))
			}
			// 2. a well-behaved client is still served on both transports
			key := Pick(r, c.keys)
			good := c.tcpRaw(c.stream(key, append(socksAddrV4(tg.ip, ltEcho), []byte("ping")...)), "fin")
			goodUDP := c.udpSend(key.packUDP(r.Bytes(key.c.saltSize), append(socksAddrV4(tg.ip, ltEcho), []byte("ping")...)), 500*time.Millisecond)
			serving := "ok"
			if !strings.HasPrefix(good, "read=") || good == "read=0" {
				serving = "tcp:" + good
				out.Oracle("C18", "after a batch of hostile sessions a well-behaved TCP client is not served (%s)", good)
			}
			if goodUDP != "replies=1" {
				serving = "udp:" + goodUDP
				out.Oracle("C18", "after a batch of hostile sessions a well-behaved UDP client is not served (%s)", goodUDP)
			}
			// 3. once the sessions have ended (associations expire after 300 ms) nothing is left
			g1, f1 := c.settle(g0, f0, 4*time.Second)
			if g1 > g0 {
				dump, _ := d.call("stacks")
				out.Oracle("C18", "goroutines: %d with the server idle, %d after the sessions of a batch ended: %s", g0, g1, tailStr(dump, 1500))
			}
			if f1 > f0 {
				out.Oracle("C18", "file descriptors: %d with the server idle, %d after the sessions of a batch ended", f0, f1)
			}
			out.Op("life batch", fmt.Sprintf("alive panics=%d leaked-goroutines=%d leaked-fds=%d serving=%s # sessions=%d conc=%d", panics, max(0, g1-g0), max(0, f1-f0), serving, k, conc))
			// what the service layer handed to the metrics for these sessions must not carry a
			// client's address: statuses and drain results become label values (C20)
			if evs, err := c.d.call("events"); err == nil {
				for _, e := range parseEvents(evs) {
					host, port, perr := net.SplitHostPort(e.remote)
					if perr != nil {
						continue
					}
					for _, v := range []string{e.arg, e.extra} {
						if e.kind == "tcpauth" || e.kind == "udpadd" {
							continue // arg is the access key id
						}
						if v != "" && (strings.Contains(v, host) || strings.Contains(v, ":"+port)) {
							out.Oracle("C20", "a value reported to the metrics for a %s of client %s contains the client's address: %q", e.kind, e.remote, v)
						}
					}
				}
			}
		}
		if !dead {
			ans, err := d.call("stop")
			if err != nil {
				out.Oracle("C18", "the server process died or hung during Stop: %v", err)
			} else {
				// only the process's own idle goroutines (plus signal handling started by RunOutlineServer) remain
				g2, f2 := c.settle(gIdle+2, fIdle, 3*time.Second)
				leftG, leftF := max(0, g2-(gIdle+2)), max(0, f2-fIdle)
				if leftG > 0 || leftF > 0 {
					dump, _ := d.call("stacks")
					out.Oracle("C18", "after Stop: %d goroutines (%d before start, +2 for signal handling), %d fds (%d before start): %s", g2, gIdle, f2, fIdle, tailStr(dump, 1200))
				}
				out.Op("life stop", fmt.Sprintf("%s left-goroutines=%d left-fds=%d", ans, leftG, leftF))
			}
		}
		if strings.Contains(d.stderr.String(), "panic:") || strings.Contains(d.stderr.String(), "fatal error:") {
			out.Oracle("C18", "the server process crashed: %s", tailStr(d.stderr.String(), 2500))
		}
		d.quit()
		out.Stat("life.case", 1)
	}
}
