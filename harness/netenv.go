package main

import (
	"fmt"
	"net"
	"os/exec"
	"strings"
	"sync"
	"time"
)

// Network environment for socket-level engines.  Inside a private network namespace
// (`unshare -n`, argument netns=1) the harness brings `lo` up and adds addresses that are public by
// RequirePublicIP's standards (TEST-NET-3, 2001:db8::/32) next to forbidden ones, so the server's
// default destination policy can be exercised end to end, offline, with a private port space.

type netEnv struct {
	netns          bool
	publicV4       []string
	publicV6       []string
	forbidden      []string // addresses the default policy must never contact
	linkLocal6     string   // zoned link-local address usable as a datagram source, "" if unavailable
	linkLocal6Long string   // another one whose textual form (address%zone) is longer than any SOCKS IP header
}

var (
	envOnce sync.Once
	env     netEnv
)

func sh(cmd string) error {
	out, err := exec.Command("sh", "-c", cmd).CombinedOutput()
	if err != nil {
		return fmt.Errorf("%s: %v: %s", cmd, err, strings.TrimSpace(string(out)))
	}
	return nil
}

func setupNet(args map[string]string, out *Out) *netEnv {
	envOnce.Do(func() {
		if args["netns"] != "1" {
			env = netEnv{netns: false, forbidden: []string{"127.0.0.1", "::1"}}
			return
		}
		e := netEnv{netns: true}
		if err := sh("ip link set lo up"); err != nil {
			out.Note("netns setup failed: %v", err)
			env = netEnv{netns: false, forbidden: []string{"127.0.0.1"}}
			return
		}
		add := func(a string, v6 bool) bool {
			var err error
			if v6 {
				err = sh("ip -6 addr add " + a + "/128 dev lo nodad")
			} else {
				err = sh("ip addr add " + a + "/32 dev lo")
			}
			if err != nil {
				out.Note("addr add failed: %v", err)
				return false
			}
			return true
		}
		for _, a := range []string{"203.0.113.10", "203.0.113.11", "198.51.100.200"} {
			if add(a, false) {
				e.publicV4 = append(e.publicV4, a)
			}
		}
		for _, a := range []string{"2001:db8::10", "2001:db8::11"} {
			if add(a, true) {
				e.publicV6 = append(e.publicV6, a)
			}
		}
		e.forbidden = []string{"127.0.0.1", "::1"}
		for _, a := range []string{"10.1.2.3", "100.64.1.1", "169.254.7.7", "192.168.5.5", "172.16.9.9", "100.127.255.254", "172.31.255.1"} {
			if add(a, false) {
				e.forbidden = append(e.forbidden, a)
			}
		}
		for _, a := range []string{"fc00::5", "fd12:3456::1"} {
			if add(a, true) {
				e.forbidden = append(e.forbidden, a)
			}
		}
		if err := sh("ip -6 addr add fe80::5/64 dev lo nodad"); err == nil {
			e.linkLocal6 = "fe80::5%lo"
		} else {
			out.Note("link-local add failed: %v", err)
		}
		if err := sh("ip -6 addr add fe80::1234:5678:9abc:def0/64 dev lo nodad"); err == nil {
			e.linkLocal6Long = "fe80::1234:5678:9abc:def0%lo"
		}
		// give the kernel a moment to make the v6 addresses usable
		time.Sleep(50 * time.Millisecond)
		env = e
	})
	return &env
}

// udpSink is a real UDP socket recording what it receives.
type udpSink struct {
	conn  *net.UDPConn
	addr  *net.UDPAddr
	label string
	ch    chan sinkPkt
}

type sinkPkt struct {
	from *net.UDPAddr
	data []byte
	sink *udpSink
}

func newUDPSink(ip string, port int, all chan sinkPkt) (*udpSink, error) {
	network := "udp4"
	host := ip
	zone := ""
	if strings.Contains(ip, ":") {
		network = "udp6"
		if i := strings.IndexByte(ip, '%'); i >= 0 {
			host, zone = ip[:i], ip[i+1:]
		}
	}
	c, err := net.ListenUDP(network, &net.UDPAddr{IP: net.ParseIP(host), Port: port, Zone: zone})
	if err != nil {
		return nil, err
	}
	s := &udpSink{conn: c, addr: c.LocalAddr().(*net.UDPAddr), label: net.JoinHostPort(ip, itoa(port)), ch: all}
	go func() {
		buf := make([]byte, 70000)
		for {
			n, from, err := c.ReadFromUDP(buf)
			if err != nil {
				return
			}
			all <- sinkPkt{from: from, data: append([]byte{}, buf[:n]...), sink: s}
		}
	}()
	return s, nil
}

func canonIP(ip net.IP) []byte {
	if v4 := ip.To4(); v4 != nil {
		return v4
	}
	return ip
}
