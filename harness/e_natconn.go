package main

import (
	"errors"
	"fmt"
	"net"
	"time"

	"github.com/Jigsaw-Code/outline-sdk/transport/shadowsocks"
	"github.com/Jigsaw-Code/outline-ss-server/service"
)

// Engine "natconn": the real natconn (through the `verif` hook VerifNewNatConn) over a recording
// PacketConn.  Ops are WriteTo / ReadFrom calls; observed: every SetReadDeadline argument and the
// natconn's own readDeadline field.  The clock reading the code used is recovered from the
// deadline it set; the oracle (C14) checks that it lies between the harness's clock readings
// taken before and after the call, i.e. that the deadline is the promised now+timeout.
func init() { engines["natconn"] = natconnEngine }

type recPC struct {
	failWrite bool // the next send fails (EINVAL for port 0, ENETUNREACH, EPERM ...)
	sets      []time.Time
	nextRd    struct {
		addr net.Addr
		n    int
	}
}

func (p *recPC) ReadFrom(b []byte) (int, net.Addr, error) { return p.nextRd.n, p.nextRd.addr, nil }
func (p *recPC) WriteTo(b []byte, a net.Addr) (int, error) {
	if p.failWrite {
		return 0, errors.New("sendto: invalid argument")
	}
	return len(b), nil
}
func (p *recPC) Close() error                       { return nil }
func (p *recPC) LocalAddr() net.Addr                { return &net.UDPAddr{} }
func (p *recPC) SetDeadline(t time.Time) error      { return nil }
func (p *recPC) SetReadDeadline(t time.Time) error  { p.sets = append(p.sets, t); return nil }
func (p *recPC) SetWriteDeadline(t time.Time) error { return nil }

func natconnEngine(rng *Rng, n int, out *Out, args map[string]string) {
	base := time.Now()
	ns := func(t time.Time) int64 { return int64(t.Sub(base)) + 1_000_000_000 } // >0
	key, _ := shadowsocks.NewEncryptionKey("chacha20-ietf-poly1305", "s")
	const dnsTimeout = 17 * time.Second
	timeouts := []time.Duration{5 * time.Minute, 30 * time.Second, 17 * time.Second, 16 * time.Second, time.Second, 50 * time.Millisecond, time.Millisecond, 200 * time.Microsecond}
	for c := 0; c < n; c++ {
		r := rng.Fork()
		timeout := Pick(r, timeouts)
		pc := &recPC{}
		nc := service.VerifNewNatConn(pc, key, nil, timeout)
		out.Op(fmt.Sprintf("nc new timeout=%d", int64(timeout)), "ok")
		out.Stat(fmt.Sprintf("timeout.%v", timeout), 1)
		var sockDeadline time.Time
		nWrites, firstWriteDNS := 0, false // what the client has sent on this association so far
		nops := 2 + r.Intn(12)
		for k := 0; k < nops; k++ {
			if r.Chance(15) {
				time.Sleep(time.Duration(r.Intn(300)) * time.Microsecond)
			}
			dns := r.Chance(45)
			port := 9000 + r.Intn(3)
			if dns {
				port = 53
			}
			addr := &net.UDPAddr{IP: net.IPv4(203, 0, 113, 10), Port: port}
			pc.sets = nil
			if r.Chance(65) {
				// a send that fails is still a datagram the client sent on this association: the
				// promise (and above all the FIRST deadline, without which nothing ever reclaims the
				// association) must not depend on the outcome of the send
				pc.failWrite = r.Chance(25)
				t0 := time.Now()
				nc.WriteTo([]byte("x"), addr)
				t1 := time.Now()
				if nWrites == 0 {
					firstWriteDNS = dns
				}
				nWrites++
				if pc.failWrite {
					out.Stat("op.write.failed-send", 1)
				}
				pc.failWrite = false
				want := timeout
				if dns {
					want = dnsTimeout
				}
				set := "-"
				now := t0
				if len(pc.sets) > 1 {
					out.Oracle("C14", "one write called SetReadDeadline %d times", len(pc.sets))
				}
				if len(pc.sets) >= 1 {
					d := pc.sets[len(pc.sets)-1]
					now = d.Add(-want)
					if now.Before(t0) || now.After(t1) {
						out.Oracle("C14", "write (dns=%v, timeout=%v) set the deadline to call time %+v, promised %v", dns, timeout, d.Sub(t0), want)
					}
					if !sockDeadline.IsZero() && d.Before(sockDeadline) && sockDeadline.After(t1) {
						out.Oracle("C14", "a client datagram moved the deadline earlier by %v", sockDeadline.Sub(d))
					}
					sockDeadline = d
					set = fmt.Sprint(ns(d))
				} else {
					// not extended: the promise must already be covered by the live deadline
					if sockDeadline.IsZero() || (sockDeadline.After(t1) && sockDeadline.Before(t0.Add(want))) {
						out.Oracle("C14", "write (dns=%v, timeout=%v) left the deadline at %v from now, less than promised", dns, timeout, sockDeadline.Sub(t0))
					}
				}
				rd := nc.ReadDeadlineField()
				rdv := int64(0)
				if !rd.IsZero() {
					rdv = ns(rd)
				}
				out.Op(fmt.Sprintf("nc write dns=%d now=%d", b2i(dns), ns(now)), fmt.Sprintf("rd=%d set=%s", rdv, set))
				out.Stat(fmt.Sprintf("op.write.dns=%v.set=%v", dns, set != "-"), 1)
			} else {
				pc.nextRd.addr, pc.nextRd.n = addr, 1
				t0 := time.Now()
				nc.ReadFrom(make([]byte, 10))
				t1 := time.Now()
				set := "-"
				now := t0
				if len(pc.sets) >= 1 {
					d := pc.sets[len(pc.sets)-1]
					now = d
					if d.Before(t0) || d.After(t1) {
						out.Oracle("C14", "fast close set the deadline %v away from the time of the response", d.Sub(t0))
					}
					// from the property text, not from the model: only an association whose ONLY traffic was one DNS query may be
					// closed by a response; any other client datagram promised a lifetime that a response must not cut short
					if !(nWrites == 1 && firstWriteDNS) && sockDeadline.After(t1) {
						out.Oracle("C14", "a response moved the deadline earlier by %v (to now) although the client had sent %d datagram(s) on the association (first to DNS: %v; timeout %v): only an association whose only traffic was one DNS query may be closed by the response", sockDeadline.Sub(d), nWrites, firstWriteDNS, timeout)
					}
					sockDeadline = d
					set = fmt.Sprint(ns(d))
				}
				out.Op(fmt.Sprintf("nc read dns=%d now=%d", b2i(dns), ns(now)), "set="+set)
				out.Stat(fmt.Sprintf("op.read.dns=%v.fastclose=%v", dns, set != "-"), 1)
			}
		}
	}
}

func b2i(b bool) int {
	if b {
		return 1
	}
	return 0
}
