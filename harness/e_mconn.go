package main

import (
	"errors"
	"fmt"
	"io"
	"net"
	"strings"
	"time"

	"github.com/Jigsaw-Code/outline-ss-server/service/metrics"
)

// Engine "mconn" (C15): metrics.MeasureConn — the wrapper that feeds the four byte counters of a TCP
// connection — around a scripted connection whose reads and writes return chosen counts, short
// writes and errors included, through all four paths (Read, Write, WriteTo, ReadFrom with and
// without a ReaderFrom underneath).  Counters are compared with the model after every operation and,
// independently, with the bytes the scripted connection really took.
func init() { engines["mconn"] = mconnEngine }

var errScripted = errors.New("scripted failure")

type scriptedStream struct {
	reads   []int // what successive Read calls return; afterwards EOF
	accepts []int // what successive Write calls accept; a short count comes with an error
	took    int64 // bytes really accepted
	gave    int64 // bytes really returned by Read
	direct  bool
	rfSteps []int // for the direct ReadFrom: accepted per step
}

func (s *scriptedStream) Read(b []byte) (int, error) {
	if len(s.reads) == 0 {
		return 0, io.EOF
	}
	n := min(s.reads[0], len(b))
	s.reads = s.reads[1:]
	s.gave += int64(n)
	return n, nil
}
func (s *scriptedStream) Write(b []byte) (int, error) {
	acc := len(b)
	if len(s.accepts) > 0 {
		acc = min(s.accepts[0], len(b))
		s.accepts = s.accepts[1:]
	}
	s.took += int64(acc)
	if acc < len(b) {
		return acc, errScripted
	}
	return acc, nil
}
func (s *scriptedStream) Close() error                       { return nil }
func (s *scriptedStream) CloseRead() error                   { return nil }
func (s *scriptedStream) CloseWrite() error                  { return nil }
func (s *scriptedStream) LocalAddr() net.Addr                { return &net.TCPAddr{} }
func (s *scriptedStream) RemoteAddr() net.Addr               { return &net.TCPAddr{} }
func (s *scriptedStream) SetDeadline(t time.Time) error      { return nil }
func (s *scriptedStream) SetReadDeadline(t time.Time) error  { return nil }
func (s *scriptedStream) SetWriteDeadline(t time.Time) error { return nil }

// scriptedStreamRF additionally is an io.ReaderFrom, like *net.TCPConn
type scriptedStreamRF struct{ *scriptedStream }

func (s scriptedStreamRF) ReadFrom(r io.Reader) (int64, error) {
	var total int64
	buf := make([]byte, 32<<10)
	for {
		nr, err := r.Read(buf)
		if nr > 0 {
			nw, werr := s.Write(buf[:nr])
			total += int64(nw)
			if werr != nil {
				return total, werr
			}
		}
		if err != nil {
			if err == io.EOF {
				return total, nil
			}
			return total, err
		}
	}
}

type scriptedReader struct{ sizes []int }

func (r *scriptedReader) Read(b []byte) (int, error) {
	if len(r.sizes) == 0 {
		return 0, io.EOF
	}
	n := min(r.sizes[0], len(b))
	r.sizes = r.sizes[1:]
	return n, nil
}

type scriptedWriter struct{ accepts []int }

func (w *scriptedWriter) Write(b []byte) (int, error) {
	acc := len(b)
	if len(w.accepts) > 0 {
		acc = min(w.accepts[0], len(b))
		w.accepts = w.accepts[1:]
	}
	if acc < len(b) {
		return acc, errScripted
	}
	return acc, nil
}

func genSteps(r *Rng) (nrs, nws []int, field string) {
	k := r.Intn(5)
	var parts []string
	for i := 0; i < k; i++ {
		nr := 1 + r.Intn(30000)
		nw := nr
		if r.Chance(25) {
			nw = r.Intn(nr)
		}
		nrs, nws = append(nrs, nr), append(nws, nw)
		parts = append(parts, fmt.Sprintf("%d:%d", nr, nw))
	}
	if len(parts) == 0 {
		return nil, nil, "-"
	}
	return nrs, nws, strings.Join(parts, ",")
}

func mconnEngine(rng *Rng, n int, out *Out, args map[string]string) {
	for c := 0; c < n; c++ {
		r := rng.Fork()
		base := &scriptedStream{}
		var under interface {
			io.Reader
			io.Writer
		}
		direct := r.Bool()
		var sent, received int64
		var mc io.ReadWriter
		if direct {
			mc = metrics.MeasureConn(scriptedStreamRF{base}, &sent, &received)
		} else {
			mc = metrics.MeasureConn(base, &sent, &received)
		}
		_ = under
		out.Op("mc new", "ok")
		show := func() string { return fmt.Sprintf("rd=%d wr=%d", received, sent) }
		nops := 3 + r.Intn(12)
		for k := 0; k < nops; k++ {
			switch r.Intn(4) {
			case 0:
				nr := 1 + r.Intn(5000)
				base.reads = []int{nr}
				mc.Read(make([]byte, 8192))
				out.Op(fmt.Sprintf("mc read n=%d", nr), show())
				out.Stat("mc.read", 1)
			case 1:
				l := r.Intn(40000)
				acc := l
				if r.Chance(35) && l > 0 {
					acc = r.Intn(l)
				}
				base.accepts = []int{acc}
				mc.Write(make([]byte, l))
				out.Op(fmt.Sprintf("mc write len=%d acc=%d", l, acc), show())
				out.Stat(fmt.Sprintf("mc.write.short=%v", acc < l), 1)
			case 2:
				nrs, nws, f := genSteps(r)
				base.reads = nrs
				w := &scriptedWriter{accepts: nws}
				mc.(io.WriterTo).WriteTo(w)
				base.reads = nil
				out.Op("mc writeto steps="+f, show())
				out.Stat("mc.writeto", 1)
			default:
				nrs, nws, f := genSteps(r)
				base.accepts = nws
				src := &scriptedReader{sizes: nrs}
				mc.(io.ReaderFrom).ReadFrom(src)
				base.accepts = nil
				d := 0
				if direct {
					d = 1
				}
				out.Op(fmt.Sprintf("mc readfrom direct=%d steps=%s", d, f), show())
				out.Stat(fmt.Sprintf("mc.readfrom.direct=%v", direct), 1)
			}
			if sent > base.took {
				out.Oracle("C15", "the write counter says %d bytes were sent but the connection accepted only %d", sent, base.took)
			}
			if received > base.gave {
				out.Oracle("C15", "the read counter says %d bytes were received but the connection delivered only %d", received, base.gave)
			}
		}
	}
}
