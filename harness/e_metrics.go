package main

import (
	"errors"
	"fmt"
	"io"
	"log/slog"
	"net"
	"net/netip"
	"runtime"
	"sort"
	"strings"
	"sync"
	"sync/atomic"
	"time"

	"github.com/Jigsaw-Code/outline-ss-server/ipinfo"
	outline_prometheus "github.com/Jigsaw-Code/outline-ss-server/prometheus"
	"github.com/Jigsaw-Code/outline-ss-server/service"
	"github.com/Jigsaw-Code/outline-ss-server/service/metrics"
	"github.com/prometheus/client_golang/prometheus"
	dto "github.com/prometheus/client_model/go"
)

// Engines "metrics" and "ipinfo".
//
// "metrics": the real collectors (outline_prometheus.NewServiceMetrics) on a private registry, with a
// fake IP database and a stubbed clock (verif hook VerifSetNow, whole seconds so float64 sums are
// exact).  Ops are the ServiceMetrics / TCPConnMetrics / UDPConnMetrics calls the service layer
// makes, clock advances and scrapes; observed: the gathered families.
// Oracles: C17 (tunnel time = union of open intervals per client, independent interval arithmetic),
// C20 (no client address or port anywhere in the exposition; one location label per address).
//
// "ipinfo": ipinfo.GetIPInfoFromAddr / GetIPInfoFromIP over address forms × database behaviours with
// a recording fake database.  Oracle: C20 classification by class, database not consulted for
// non-global addresses.
func init() {
	engines["metrics"] = metricsEngine
	engines["ipinfo"] = ipinfoEngine
}

type fakeDB struct {
	mode    string // answers:<cc> | fails
	calls   int
	lastArg net.IP
	mu      sync.Mutex
	slow    atomic.Bool // during a concurrent burst: a database lookup yields the processor, as a real mmdb read may
}

func (d *fakeDB) GetIPInfo(ip net.IP) (ipinfo.IPInfo, error) {
	d.mu.Lock()
	d.calls++
	d.lastArg = ip
	d.mu.Unlock()
	if d.slow.Load() {
		runtime.Gosched()
	}
	if d.mode == "fails" {
		return ipinfo.IPInfo{}, errors.New("db lookup failed")
	}
	if strings.HasPrefix(d.mode, "fails:") {
		// a partial failure: the country was found, the ASN lookup failed (what the mmdb-backed map does)
		return ipinfo.IPInfo{CountryCode: ipinfo.CountryCode(strings.TrimPrefix(d.mode, "fails:"))}, errors.New("asn lookup failed")
	}
	cc := strings.TrimPrefix(d.mode, "answers:")
	return ipinfo.IPInfo{CountryCode: ipinfo.CountryCode(cc), ASN: ipinfo.ASN{}}, nil
}

type fakeConn struct {
	net.Conn
	remote, local net.Addr
}

func (c *fakeConn) RemoteAddr() net.Addr { return c.remote }
func (c *fakeConn) LocalAddr() net.Addr  { return c.local }

// address forms a client address can take
type addrForm struct {
	addr   net.Addr
	parsed string // nil | nohostport | notip | ip
	ipHex  string
	ipKey  string // netip form incl. zone, "" if toIPKey fails
	class  string
	text   []string // textual forms that must never show up in the exposition
}

func classifyAddr(a net.Addr) addrForm {
	f := addrForm{addr: a, ipHex: "-"}
	if a == nil {
		f.parsed, f.class = "nil", "nil"
		return f
	}
	host, port, err := net.SplitHostPort(a.String())
	if err != nil {
		f.parsed, f.class = "nohostport", "unparseable"
		return f
	}
	ap, err2 := netip.ParseAddr(host)
	if err2 != nil {
		f.parsed, f.class = "notip", "unparseable"
		return f
	}
	// independent of the code under test: netip decides what an IP literal is; zones are allowed
	b := ap.WithZone("").AsSlice()
	if ap.Is4() {
		b = ap.AsSlice()
	}
	f.parsed, f.ipHex, f.ipKey = "ip", hexs(b), ap.String()
	f.class = "ip"
	f.text = []string{ap.WithZone("").String(), a.String()}
	if len(port) >= 4 {
		f.text = append(f.text, port)
	}
	return f
}

func genClientAddr(r *Rng) net.Addr {
	port := 40000 + r.Intn(20000)
	switch r.Intn(14) {
	case 0:
		return &net.TCPAddr{IP: net.ParseIP("203.0.113.77"), Port: port}
	case 1:
		return &net.TCPAddr{IP: net.ParseIP("2001:db8::beef"), Port: port}
	case 2:
		return &net.TCPAddr{IP: net.ParseIP("127.0.0.1"), Port: port}
	case 3:
		return &net.TCPAddr{IP: net.ParseIP("10.1.2.3"), Port: port} // private but global unicast: consults the db
	case 4:
		return &net.TCPAddr{IP: net.ParseIP("fe80::1"), Port: port, Zone: "eth0"}
	case 5:
		return &net.TCPAddr{IP: net.ParseIP("fe80::1"), Port: port, Zone: "eth1"}
	case 6:
		return &net.UDPAddr{IP: net.ParseIP("::ffff:198.51.100.9"), Port: port}
	case 7:
		return strAddr("not-an-address")
	case 8:
		return strAddr("host.example:443")
	case 9:
		return strAddr("[::1]:") // empty port is fine for SplitHostPort
	case 10:
		return &net.TCPAddr{IP: net.ParseIP("224.0.0.5"), Port: port}
	case 11:
		return &net.UDPAddr{IP: net.ParseIP("198.51.100.9"), Port: port}
	case 12:
		return &net.TCPAddr{IP: net.ParseIP("0.0.0.0"), Port: port}
	default:
		return &net.TCPAddr{IP: net.IPv4(byte(1+r.Intn(222)), byte(r.Intn(256)), byte(r.Intn(256)), byte(1+r.Intn(254))), Port: port}
	}
}

type ival struct{ ip, key string }

func metricsEngine(rng *Rng, n int, out *Out, args map[string]string) {
	slog.SetDefault(slog.New(slog.NewTextHandler(io.Discard, nil)))
	for c := 0; c < n; c++ {
		r := rng.Fork()
		dbMode := Pick(r, []string{"disabled", "answers:US", "answers:", "fails", "answers:ZQ", "fails:BR"})
		var db ipinfo.IPInfoMap
		fdb := &fakeDB{mode: dbMode}
		if dbMode != "disabled" {
			db = fdb
		}
		sm, err := outline_prometheus.NewServiceMetrics(db)
		if err != nil {
			out.Note("NewServiceMetrics: %v", err)
			continue
		}
		reg := prometheus.NewRegistry()
		reg.MustRegister(sm)
		now := time.Unix(1_700_000_000, 0)
		restore := outline_prometheus.VerifSetNow(func() time.Time { return now })
		out.Op("mt new db="+dbMode, "ok")
		out.Stat("case.db."+strings.SplitN(dbMode, ":", 2)[0], 1)
		keys := []string{"key-a", "key-b", "", "k3"}
		bursts := 0
		type tconn struct {
			id     int
			m      service.TCPConnMetrics
			form   addrForm
			key    string
			authed bool
		}
		type uconn struct {
			id   int
			m    service.UDPConnMetrics
			form addrForm
			key  string
		}
		var tcps []*tconn
		var udps []*uconn
		var allForms []addrForm
		nextID := 0
		// independent reference for tunnel time: per (ipKey, access key) depth and covered seconds
		depth := map[ival]int{}
		covered := map[string]int64{} // per access key
		lastT := now
		advanceRef := func() {
			dt := int64(now.Sub(lastT) / time.Second)
			for k, d := range depth {
				if d > 0 {
					covered[k.key] += dt
				}
			}
			lastT = now
		}
		addrField := func(f addrForm) string {
			ipk := "-"
			if f.ipKey != "" {
				ipk = itoa(ipID(f.ipKey))
			}
			return fmt.Sprintf("parsed=%s ip=%s ipkey=%s", f.parsed, f.ipHex, ipk)
		}
		nops := 8 + r.Intn(30)
		for k := 0; k < nops; k++ {
			switch roll := r.Intn(100); {
			case roll < 22:
				a := genClientAddr(r) // never nil: an accepted net.Conn always has a remote address
				f := classifyAddr(a)
				allForms = append(allForms, f)
				nextID++
				m := sm.AddOpenTCPConnection(&fakeConn{remote: a, local: &net.TCPAddr{IP: net.ParseIP("192.0.2.1"), Port: 443}})
				tcps = append(tcps, &tconn{id: nextID, m: m, form: f})
				out.Op(fmt.Sprintf("mt tcpopen c=%d %s", nextID, addrField(f)), "ok")
				out.Stat("op.tcpopen."+f.class, 1)
			case roll < 38 && len(tcps) > 0:
				c := Pick(r, tcps)
				if c.authed {
					continue
				}
				c.key, c.authed = Pick(r, keys), true
				advanceRef()
				c.m.AddAuthenticated(c.key)
				if c.form.ipKey != "" {
					depth[ival{c.form.ipKey, c.key}]++
				}
				out.Op(fmt.Sprintf("mt tcpauth c=%d key=%s", c.id, hexs([]byte(c.key))), "ok")
				out.Stat("op.tcpauth", 1)
			case roll < 52 && len(tcps) > 0:
				i := r.Intn(len(tcps))
				c := tcps[i]
				tcps = append(tcps[:i], tcps[i+1:]...)
				st := Pick(r, []string{"OK", "ERR_CIPHER", "ERR_RELAY_CLIENT"})
				d := metrics.ProxyMetrics{ClientProxy: int64(r.Intn(5000)), ProxyTarget: int64(r.Intn(3) * r.Intn(4000)), TargetProxy: int64(r.Intn(3) * r.Intn(9000)), ProxyClient: int64(r.Intn(2) * r.Intn(9000))}
				advanceRef()
				c.m.AddClosed(st, d, time.Second)
				if c.authed && c.form.ipKey != "" {
					k := ival{c.form.ipKey, c.key}
					if depth[k] > 0 {
						depth[k]--
					}
				}
				out.Op(fmt.Sprintf("mt tcpclose c=%d status=%s cp=%d pt=%d tp=%d pc=%d", c.id, st, d.ClientProxy, d.ProxyTarget, d.TargetProxy, d.ProxyClient), "ok")
				out.Stat("op.tcpclose", 1)
			case roll < 62:
				a := genClientAddr(r)
				f := classifyAddr(a)
				allForms = append(allForms, f)
				nextID++
				key := Pick(r, keys)
				advanceRef()
				m := sm.AddUDPNatEntry(a, key)
				if f.ipKey != "" {
					depth[ival{f.ipKey, key}]++
				}
				udps = append(udps, &uconn{id: nextID, m: m, form: f, key: key})
				out.Op(fmt.Sprintf("mt udpadd u=%d %s key=%s", nextID, addrField(f), hexs([]byte(key))), "ok")
				out.Stat("op.udpadd."+f.class, 1)
			case roll < 65:
				// the first tunnels of one client arrive at the same moment from several goroutines
				// (TCP handlers and the UDP loop run concurrently); the clock stands still, so every
				// schedule must leave the state of k sequential opens
				a := genClientAddr(r)
				f := classifyAddr(a)
				allForms = append(allForms, f)
				key := Pick(r, keys)
				kk := 2 + r.Intn(3)
				advanceRef()
				ms := make([]service.UDPConnMetrics, kk)
				wait, release := barrier(kk)
				var wg sync.WaitGroup
				fdb.slow.Store(true)
				for g := 0; g < kk; g++ {
					wg.Add(1)
					go func(g int) {
						defer wg.Done()
						wait()
						ms[g] = sm.AddUDPNatEntry(a, key)
					}(g)
				}
				release()
				wg.Wait()
				fdb.slow.Store(false)
				for g := 0; g < kk; g++ {
					nextID++
					if f.ipKey != "" {
						depth[ival{f.ipKey, key}]++
					}
					udps = append(udps, &uconn{id: nextID, m: ms[g], form: f, key: key})
					out.Op(fmt.Sprintf("mt udpadd u=%d %s key=%s", nextID, addrField(f), hexs([]byte(key))), "ok")
				}
				out.Stat("op.burst", 1)
				bursts++
				// a scrape at the same moment as closes (and opens): the clock stands still, so any
				// serial order of the calls leaves the same totals
				if len(udps) >= 2 && r.Chance(60) {
					nrm := 1 + r.Intn(2)
					victims := udps[len(udps)-nrm:]
					udps = udps[:len(udps)-nrm]
					wait2, release2 := barrier(nrm + 1)
					var wg2 sync.WaitGroup
					wg2.Add(1)
					go func() { defer wg2.Done(); wait2(); reg.Gather() }()
					for _, v := range victims {
						wg2.Add(1)
						go func(v *uconn) { defer wg2.Done(); wait2(); v.m.RemoveNatEntry() }(v)
					}
					release2()
					wg2.Wait()
					for _, v := range victims {
						if v.form.ipKey != "" {
							k := ival{v.form.ipKey, v.key}
							if depth[k] > 0 {
								depth[k]--
							}
						}
						out.Op(fmt.Sprintf("mt udprm u=%d", v.id), "ok")
					}
					out.Op("mt scrapequiet", "ok")
					out.Stat("op.scrape-vs-close", 1)
				}
			case roll < 68 && len(udps) > 0:
				u := Pick(r, udps)
				st := Pick(r, []string{"OK", "ERR_CIPHER", "ERR_ADDRESS_PRIVATE"})
				cp, pt := r.Intn(1500), r.Intn(2)*r.Intn(1400)
				u.m.AddPacketFromClient(st, int64(cp), int64(pt))
				out.Op(fmt.Sprintf("mt udpc u=%d status=%s cp=%d pt=%d", u.id, st, cp, pt), "ok")
			case roll < 72 && len(udps) > 0:
				u := Pick(r, udps)
				tp, pc := r.Intn(1500), r.Intn(1600)
				u.m.AddPacketFromTarget("OK", int64(tp), int64(pc))
				out.Op(fmt.Sprintf("mt udpt u=%d tp=%d pc=%d", u.id, tp, pc), "ok")
			case roll < 80 && len(udps) > 0:
				i := r.Intn(len(udps))
				u := udps[i]
				udps = append(udps[:i], udps[i+1:]...)
				advanceRef()
				u.m.RemoveNatEntry()
				if u.form.ipKey != "" {
					k := ival{u.form.ipKey, u.key}
					if depth[k] > 0 {
						depth[k]--
					}
				}
				out.Op(fmt.Sprintf("mt udprm u=%d", u.id), "ok")
				out.Stat("op.udprm", 1)
			case roll < 92:
				s := 1 + r.Intn(120)
				now = now.Add(time.Duration(s) * time.Second)
				out.Op(fmt.Sprintf("mt tick s=%d", s), "ok")
			default:
				advanceRef()
				dump, text := gather(reg)
				out.Op("mt scrape", dump)
				out.Stat("op.scrape", 1)
				checkTunnelTime(out, text, covered, bursts > 0)
				checkNoClientAddr(out, text, allForms)
				checkLocationLabels(out, text, dbMode)
			}
		}
		advanceRef()
		dump, text := gather(reg)
		out.Op("mt scrape", dump)
		checkTunnelTime(out, text, covered, bursts > 0)
		checkNoClientAddr(out, text, allForms)
		checkLocationLabels(out, text, dbMode)
		restore()
	}
}

var ipIDs = map[string]int{}

func ipID(s string) int {
	if id, ok := ipIDs[s]; ok {
		return id
	}
	ipIDs[s] = len(ipIDs) + 1
	return ipIDs[s]
}

type family struct {
	name    string
	samples map[string]float64 // label tuple -> value
}

// gather returns the canonical dump compared with the model, and the families for the oracles.
func gather(reg *prometheus.Registry) (string, map[string]*family) {
	mfs, err := reg.Gather()
	fams := map[string]*family{}
	if err != nil {
		return "gather-error:" + err.Error(), fams
	}
	for _, mf := range mfs {
		f := &family{name: mf.GetName(), samples: map[string]float64{}}
		fams[f.name] = f
		for _, m := range mf.Metric {
			var lv []string
			for _, lp := range m.Label {
				lv = append(lv, lp.GetName()+"="+lp.GetValue())
			}
			v := 0.0
			switch mf.GetType() {
			case dto.MetricType_COUNTER:
				v = m.Counter.GetValue()
			case dto.MetricType_GAUGE:
				v = m.Gauge.GetValue()
			case dto.MetricType_HISTOGRAM:
				v = float64(m.Histogram.GetSampleCount())
			}
			f.samples[strings.Join(lv, ",")] = v
		}
	}
	lab := func(s, name string) string {
		for _, p := range strings.Split(s, ",") {
			if strings.HasPrefix(p, name+"=") {
				return p[len(name)+1:]
			}
		}
		return ""
	}
	counter := func(name string, key func(l string) string) string {
		f, ok := fams[name]
		if !ok {
			return "-"
		}
		agg := map[string]int64{}
		for l, v := range f.samples {
			agg[key(l)] += int64(v)
		}
		var items []string
		for k, v := range agg {
			if v > 0 {
				items = append(items, fmt.Sprintf("%s=%d", k, v))
			}
		}
		if len(items) == 0 {
			return "-"
		}
		sort.Strings(items)
		return strings.Join(items, ",")
	}
	loc := func(l string) string { return lab(l, "location") }
	tt := counter("tunnel_time_seconds", func(l string) string { return lab(l, "access_key") })
	ttloc := counter("tunnel_time_seconds_per_location", loc)
	opened := counter("tcp_connections_opened", loc)
	closed := counter("tcp_connections_closed", func(l string) string { return loc(l) + "|" + lab(l, "status") + "|" + lab(l, "access_key") })
	bytes := counter("data_bytes", func(l string) string { return lab(l, "proto") + "|" + lab(l, "dir") + "|" + lab(l, "access_key") })
	bytesloc := counter("data_bytes_per_location", func(l string) string { return lab(l, "proto") + "|" + lab(l, "dir") + "|" + loc(l) })
	udppk := counter("udp_packets_from_client_per_location", func(l string) string { return loc(l) + "|" + lab(l, "status") })
	one := func(name string) int64 {
		if f, ok := fams[name]; ok {
			for _, v := range f.samples {
				return int64(v)
			}
		}
		return 0
	}
	return fmt.Sprintf("tt=%s ttloc=%s opened=%s closed=%s bytes=%s bytesloc=%s nat=%d/%d udppk=%s", tt, ttloc, opened, closed, bytes, bytesloc,
		one("udp_nat_entries_added"), one("udp_nat_entries_removed"), udppk), fams
}

func checkTunnelTime(out *Out, fams map[string]*family, covered map[string]int64, concurrent bool) {
	got := map[string]int64{}
	if f, ok := fams["tunnel_time_seconds"]; ok {
		for l, v := range f.samples {
			got[strings.TrimPrefix(l, "access_key=")] += int64(v)
		}
	}
	keys := map[string]bool{}
	for k := range covered {
		keys[k] = true
	}
	for k := range got {
		keys[k] = true
	}
	var sumKey, sumLoc int64
	for k := range keys {
		if got[k] != covered[k] {
			out.Oracle("C17", "tunnel_time_seconds{access_key=%q} = %d s, but its clients had a tunnel open for %d s in total", k, got[k], covered[k])
			if concurrent {
				// the clock stood still during every concurrent burst of this case, so all sequential orders of the
				// concurrent calls give the same totals: a different total is the result of no sequential order
				out.Oracle("C19", "after concurrent opens/closes/scrapes (clock standing still) tunnel_time_seconds{access_key=%q} = %d s; every sequential order of the same calls gives %d s", k, got[k], covered[k])
			}
		}
		sumKey += got[k]
	}
	if f, ok := fams["tunnel_time_seconds_per_location"]; ok {
		for _, v := range f.samples {
			sumLoc += int64(v)
		}
	}
	if sumKey != sumLoc {
		out.Oracle("C17", "per-location tunnel time totals %d s, per-key totals %d s", sumLoc, sumKey)
	}
}

// checkLocationLabels: with ONE database behaviour for the whole case, the location labels a scrape may
// show are fixed by the classes of C20 alone: XA (unparseable), "" (lookup disabled), XL (non-global),
// XD (database error, whatever partial answer came with it), ZZ (no country), else the database's answer.
func checkLocationLabels(out *Out, fams map[string]*family, dbMode string) {
	allowed := map[string]bool{}
	switch {
	case dbMode == "disabled":
		allowed[""], allowed["XA"] = true, true
	case strings.HasPrefix(dbMode, "fails"):
		allowed["XA"], allowed["XL"], allowed["XD"] = true, true, true
	case dbMode == "answers:":
		allowed["XA"], allowed["XL"], allowed["ZZ"] = true, true, true
	default:
		allowed["XA"], allowed["XL"], allowed[strings.TrimPrefix(dbMode, "answers:")] = true, true, true
	}
	for _, f := range fams {
		for l := range f.samples {
			for _, p := range strings.Split(l, ",") {
				if strings.HasPrefix(p, "location=") && !allowed[p[len("location="):]] {
					out.Oracle("C20", "with database behaviour %q the scrape shows %s{%s}: a location label that no client class of this case can have", dbMode, f.name, l)
				}
			}
		}
	}
}

func checkNoClientAddr(out *Out, fams map[string]*family, forms []addrForm) {
	for _, f := range fams {
		for l := range f.samples {
			for _, af := range forms {
				for _, t := range af.text {
					if t != "" && (strings.Contains(l, t) || strings.Contains(f.name, t)) {
						out.Oracle("C20", "exported metric %s{%s} contains %q of client address %v", f.name, l, t, af.addr)
					}
				}
			}
		}
	}
}

func ipinfoEngine(rng *Rng, n int, out *Out, args map[string]string) {
	dbs := []string{"disabled", "answers:US", "answers:", "fails", "answers:XK", "fails:BR"}
	emit := func(a net.Addr, dbMode string) {
		f := classifyAddr(a)
		var db ipinfo.IPInfoMap
		fdb := &fakeDB{mode: dbMode}
		if dbMode != "disabled" {
			db = fdb
		}
		info, err := ipinfo.GetIPInfoFromAddr(db, a)
		label := string(info.CountryCode)
		if label == "" {
			label = "-"
		}
		out.Op(fmt.Sprintf("ipinfo from parsed=%s ip=%s db=%s", f.parsed, f.ipHex, dbMode), fmt.Sprintf("%s err=%v db=%d", label, err != nil, fdb.calls))
		out.Stat("ipinfo."+f.class+"."+strings.SplitN(dbMode, ":", 2)[0], 1)
		// oracle: class alone decides
		want := ""
		switch {
		case f.parsed != "ip":
			want = "XA"
		case dbMode == "disabled":
			want = "-"
		default:
			ip, _ := netip.ParseAddr(strings.SplitN(f.ipKey, "%", 2)[0])
			global := ip.IsValid() && !ip.IsUnspecified() && !ip.IsLoopback() && !ip.IsMulticast() && !ip.IsLinkLocalUnicast() &&
				ip.Unmap() != netip.MustParseAddr("255.255.255.255")
			switch {
			case !global:
				want = "XL"
			case strings.HasPrefix(dbMode, "fails"):
				want = "XD"
			case dbMode == "answers:":
				want = "ZZ"
			default:
				want = strings.TrimPrefix(dbMode, "answers:")
			}
			if !global && fdb.calls != 0 {
				out.Oracle("C20", "database consulted for non-global client address %v", a)
			}
		}
		if label != want {
			out.Oracle("C20", "client address %v (db %s) got location %q, its class demands %q", a, dbMode, label, want)
		}
		// the tunnel-time path classifies the same address through GetIPInfoFromIP(netip bytes): one label per address
		if f.parsed == "ip" {
			ap, _ := netip.ParseAddr(f.ipKey)
			fdb2 := &fakeDB{mode: dbMode}
			var db2 ipinfo.IPInfoMap
			if dbMode != "disabled" {
				db2 = fdb2
			}
			info2, err2 := ipinfo.GetIPInfoFromIP(db2, net.IP(ap.AsSlice()))
			l2 := string(info2.CountryCode)
			if l2 == "" {
				l2 = "-"
			}
			out.Op(fmt.Sprintf("ipinfo fromip ip=%s db=%s", hexs(ap.AsSlice()), dbMode), fmt.Sprintf("%s err=%v db=%d", l2, err2 != nil, fdb2.calls))
			if l2 != label {
				out.Oracle("C20", "client address %v is labelled %q by the connection collectors and %q by the tunnel-time collector", a, label, l2)
			}
		}
	}
	for _, db := range dbs {
		emit(nil, db)
		for i := 0; i < 14; i++ {
			r := NewRng(uint64(i)) // every address form at least once per database behaviour
			r.s = uint64(i)
			_ = r
		}
	}
	for i := 0; i < n; i++ {
		emit(genClientAddr(rng), Pick(rng, dbs))
	}
	// boundary addresses of the global-unicast predicate
	for _, s := range []string{"0.0.0.0", "255.255.255.255", "127.255.255.255", "128.0.0.0", "169.254.0.1", "169.253.255.255", "223.255.255.255", "224.0.0.0", "239.255.255.255", "240.0.0.1", "::", "::1", "::2", "fe80::", "febf::1", "fec0::1", "ff00::1", "feff::1", "::ffff:127.0.0.1", "::ffff:8.8.8.8"} {
		for _, db := range dbs {
			emit(&net.TCPAddr{IP: net.ParseIP(s), Port: 5555}, db)
		}
	}
}
