package main

import (
	"encoding/binary"
	"errors"
	"fmt"
	"io"
	"net"
	"os"
	"runtime"
	"sort"
	"strings"
	"sync"
	"time"

	"github.com/Jigsaw-Code/outline-ss-server/service"
)

// Engine "shared" (C12): the real ListenerManager with real sockets.  Random interleavings of
// acquire / accept-or-read calls / incoming connections or datagrams / close over 1..4 handles on
// one address, including operations issued at the same moment from different goroutines (a close
// racing with an arrival, with another close, with a call on the same handle), and re-acquisition
// after full release.  The code chooses freely which blocked handle receives an item, so the
// harness reports what it observed as events of the model's transition system (Model/Shared.lean),
// linearised from the observed outcomes, and the model says whether each step was possible
// ("impossible" = the implementation did something the specification does not allow).
// Oracles independent of the model: an item seen by two calls, an item never handed over although a
// handle was blocked in accept/read, a connection left hanging after the last close, a call that
// does not return after Close, the address not bindable after full release, goroutines/fds left.
func init() { engines["shared"] = sharedEngine }

type shItem struct {
	id     int
	conn   net.Conn // stream: the client's side
	from   string   // packet: the client's address
	taken  int      // how many calls returned it
	closed bool     // observed closed by the server (stream)
}

type shResult struct {
	item int // -1: none
	err  error
	from string
	conn net.Conn // server side (stream)
}

type shHandle struct {
	id   int
	ln   service.StreamListener
	pc   net.PacketConn
	open bool
	call chan shResult // non-nil while a call is outstanding
}

type shCase struct {
	r                    *Rng
	out                  *Out
	packet               bool
	addr                 string
	mgr                  service.ListenerManager
	handles              []*shHandle
	items                map[int]*shItem
	queued               []int // ids believed undelivered and not dropped
	nextID               int
	srvSide              []net.Conn
	dropped              []int
	refused, closedCalls int
}

func (c *shCase) openHandles() []*shHandle {
	var hs []*shHandle
	for _, h := range c.handles {
		if h.open {
			hs = append(hs, h)
		}
	}
	return hs
}

func (c *shCase) acquire() {
	var h *shHandle
	if c.packet {
		pc, err := c.mgr.ListenPacket(c.addr)
		if err != nil {
			c.out.Oracle("C12", "ListenPacket(%s) failed with %d handles open: %v", c.addr, len(c.openHandles()), err)
			return
		}
		h = &shHandle{id: len(c.handles), pc: pc, open: true}
	} else {
		ln, err := c.mgr.ListenStream(c.addr)
		if err != nil {
			c.out.Oracle("C12", "ListenStream(%s) failed with %d handles open: %v", c.addr, len(c.openHandles()), err)
			return
		}
		h = &shHandle{id: len(c.handles), ln: ln, open: true}
	}
	c.handles = append(c.handles, h)
	c.out.Op("sh acquire", fmt.Sprintf("h%d", h.id))
	c.out.Stat("sh.acquire", 1)
}

// startCall launches AcceptStream / ReadFrom on h in its own goroutine
func (c *shCase) startCall(h *shHandle) {
	ch := make(chan shResult, 1)
	h.call = ch
	if c.packet {
		pc := h.pc
		go func() {
			buf := make([]byte, 2048)
			n, from, err := pc.ReadFrom(buf)
			res := shResult{item: -1, err: err}
			if err == nil {
				if n >= 8 {
					res.item = int(binary.BigEndian.Uint64(buf[:8]))
				}
				res.from = from.String()
			}
			ch <- res
		}()
	} else {
		ln := h.ln
		go func() {
			conn, err := ln.AcceptStream()
			res := shResult{item: -1, err: err}
			if err == nil {
				var b [8]byte
				conn.SetReadDeadline(time.Now().Add(2 * time.Second))
				if _, rerr := io.ReadFull(conn, b[:]); rerr == nil {
					res.item = int(binary.BigEndian.Uint64(b[:]))
				}
				res.conn = conn
			}
			ch <- res
		}()
	}
}

// poll: a finished call of h, if any
func (h *shHandle) poll() (shResult, bool) {
	if h.call == nil {
		return shResult{}, false
	}
	select {
	case r := <-h.call:
		h.call = nil
		return r, true
	default:
		return shResult{}, false
	}
}

func (h *shHandle) wait(d time.Duration) (shResult, bool) {
	if h.call == nil {
		return shResult{}, false
	}
	select {
	case r := <-h.call:
		h.call = nil
		return r, true
	case <-time.After(d):
		return shResult{}, false
	}
}

// took: a call of h returned an item
func (c *shCase) took(h *shHandle, r shResult) {
	it := c.items[r.item]
	if r.conn != nil {
		c.srvSide = append(c.srvSide, r.conn)
	}
	if it == nil {
		c.out.Oracle("C12", "handle h%d received something that was never sent (id %d)", h.id, r.item)
		c.out.Op(fmt.Sprintf("sh deliver i=%d h=%d", r.item, h.id), "ok")
		return
	}
	it.taken++
	if it.taken > 1 {
		c.out.Oracle("C12", "item %d was delivered %d times (last to h%d)", it.id, it.taken, h.id)
	}
	if c.packet && r.from != it.from {
		c.out.Oracle("C12", "datagram %d sent from %s was delivered with source %s", it.id, it.from, r.from)
	}
	for i, q := range c.queued {
		if q == it.id {
			c.queued = append(c.queued[:i], c.queued[i+1:]...)
			break
		}
	}
	c.out.Op(fmt.Sprintf("sh deliver i=%d h=%d", it.id, h.id), "ok")
	c.out.Stat("sh.deliver", 1)
}

// settle: report the calls that completed; waits while completions keep coming
func (c *shCase) settle(d time.Duration) {
	deadline := time.Now().Add(d)
	// an expected hand-over gets real patience: on a busy machine the goroutine that has the item may simply not
	// have run yet; only an item that is STILL with nobody after this long counts as not handed over
	const patience = 2 * time.Second
	patient := time.Now().Add(patience)
	for {
		progress := false
		for _, h := range c.handles {
			if r, ok := h.poll(); ok {
				progress = true
				if r.err == nil {
					c.took(h, r)
				} else if h.open {
					c.out.Oracle("C12", "a pending call on the open handle h%d failed: %v", h.id, r.err)
					c.out.Op(fmt.Sprintf("sh call-failed h=%d", h.id), fmt.Sprint(r.err))
				} else {
					c.out.Oracle("C12", "unexpected late result on closed handle h%d: %v", h.id, r.err)
				}
			}
		}
		// an item is queued and a handle is blocked: the hand-over must happen
		expecting := len(c.queued) > 0 && c.anyBlocked()
		if !progress && (!expecting || time.Now().After(patient)) {
			break
		}
		if progress {
			deadline = time.Now().Add(d)
			patient = time.Now().Add(patience)
		}
		_ = deadline
		time.Sleep(200 * time.Microsecond)
	}
	if len(c.queued) > 0 && c.anyBlocked() {
		c.out.Oracle("C12", "items %v reached the socket and handle(s) are blocked in accept/read, but nothing was handed over within %v", c.queued, patience)
	}
	// a connection that reached the socket and was handed to nobody must stay open for the handles
	// that are still open (only the last close may end it)
	if !c.packet && len(c.openHandles()) > 0 {
		for _, id := range c.queued {
			it := c.items[id]
			if it == nil || it.conn == nil || it.closed {
				continue
			}
			it.conn.SetReadDeadline(time.Now().Add(500 * time.Microsecond))
			var b [1]byte
			_, err := it.conn.Read(b[:])
			var ne net.Error
			if err != nil && !(errors.As(err, &ne) && ne.Timeout()) {
				it.closed = true
				c.out.Oracle("C12", "connection %d reached the socket, was delivered to no handle, and was closed by the server (%v) while %d handle(s) are still open", id, err, len(c.openHandles()))
			}
		}
	}
}

func (c *shCase) anyBlocked() bool {
	for _, h := range c.handles {
		if h.open && h.call != nil {
			return true
		}
	}
	return false
}

func (c *shCase) call(h *shHandle) {
	if h.call != nil {
		return
	}
	c.startCall(h)
	if !h.open {
		r, ok := h.wait(2 * time.Second)
		switch {
		case !ok:
			c.out.Oracle("C12", "a call on the closed handle h%d does not return", h.id)
			c.out.Op(fmt.Sprintf("sh call h=%d", h.id), "hangs")
		case r.err != nil && errors.Is(r.err, net.ErrClosed):
			c.closedCalls++
			c.out.Op(fmt.Sprintf("sh call h=%d", h.id), "closed")
		case r.err != nil:
			c.closedCalls++
			c.out.Oracle("C12", "a call on the closed handle h%d failed with %v, not the closed-network error", h.id, r.err)
			c.out.Op(fmt.Sprintf("sh call h=%d", h.id), "closed # "+r.err.Error())
		default:
			c.out.Oracle("C12", "the closed handle h%d received item %d", h.id, r.item)
			c.out.Op(fmt.Sprintf("sh call h=%d", h.id), "pending")
			c.took(h, r)
		}
		c.out.Stat("sh.call.closed", 1)
		return
	}
	c.out.Op(fmt.Sprintf("sh call h=%d", h.id), "pending")
	c.out.Stat("sh.call", 1)
}

// send: a client connects (and writes its id) / sends a datagram; reports whether it got in
func (c *shCase) send() (*shItem, bool) {
	c.nextID++
	it := &shItem{id: c.nextID}
	var b [8]byte
	binary.BigEndian.PutUint64(b[:], uint64(it.id))
	if c.packet {
		conn, err := net.Dial("udp", c.addr)
		if err != nil {
			return it, false
		}
		it.from = conn.LocalAddr().String()
		it.conn = conn
		conn.Write(append(b[:], []byte("-datagram")...))
		c.items[it.id] = it
		return it, true
	}
	conn, err := net.DialTimeout("tcp", c.addr, time.Second)
	if err != nil {
		return it, false
	}
	conn.Write(b[:])
	it.conn = conn
	c.items[it.id] = it
	return it, true
}

func (c *shCase) arrive() {
	bound := len(c.openHandles()) > 0
	it, ok := c.send()
	if c.packet {
		ok = bound // a datagram to an unbound port vanishes; nothing to observe at the sender
	}
	if ok {
		c.queued = append(c.queued, it.id)
		c.out.Op(fmt.Sprintf("sh arrive i=%d", it.id), "accepted")
	} else {
		c.refused++
		c.out.Op(fmt.Sprintf("sh arrive i=%d", it.id), "refused")
		if it.conn != nil {
			it.conn.Close()
		}
	}
	c.out.Stat(fmt.Sprintf("sh.arrive.%v", ok), 1)
}

func (c *shCase) closeRaw(h *shHandle) error {
	if c.packet {
		return h.pc.Close()
	}
	return h.ln.Close()
}

// afterClose: h.Close() has returned; account for its pending call and emit the lines
func (c *shCase) afterClose(h *shHandle, err error) {
	unblocked := 0
	if h.call != nil {
		r, ok := h.wait(2 * time.Second)
		switch {
		case !ok:
			c.out.Oracle("C12", "Close of h%d did not unblock its pending call", h.id)
		case r.err == nil:
			c.took(h, r) // handed over before the close took effect
		case errors.Is(r.err, net.ErrClosed):
			unblocked = 1
		default:
			unblocked = 1
			c.out.Oracle("C12", "the pending call of h%d ended with %v, not the closed-network error", h.id, r.err)
		}
	}
	h.open = false
	c.closedCalls += unblocked
	res := fmt.Sprintf("ok unblocked=%d", unblocked)
	if err != nil {
		res = "err " + err.Error()
		c.out.Oracle("C12", "Close of h%d failed: %v", h.id, err)
	}
	c.out.Op(fmt.Sprintf("sh close h=%d", h.id), res)
	c.out.Stat("sh.close", 1)
	if len(c.openHandles()) == 0 {
		c.lastClosed()
	}
}

// lastClosed: whatever was not handed over is gone: stream clients must see their connection closed
func (c *shCase) lastClosed() {
	c.out.Stat("sh.lastclose", 1)
	q := c.queued
	c.queued = nil
	if c.packet {
		c.dropped = append(c.dropped, q...)
		return
	}
	var hanging []int
	for _, id := range q {
		it := c.items[id]
		it.conn.SetReadDeadline(time.Now().Add(1500 * time.Millisecond))
		var b [1]byte
		_, err := it.conn.Read(b[:])
		var ne net.Error
		if err != nil && !(errors.As(err, &ne) && ne.Timeout()) {
			it.closed = true
			c.dropped = append(c.dropped, id)
		} else {
			hanging = append(hanging, id)
		}
	}
	if len(hanging) > 0 {
		c.out.Oracle("C12", "after the last handle was closed, accepted connection(s) %v that nobody can receive any more were left open instead of being closed", hanging)
	}
	sort.Ints(c.dropped)
	var ss []string
	for _, d := range c.dropped {
		ss = append(ss, itoa(d))
	}
	s := strings.Join(ss, ",")
	if s == "" {
		s = "-"
	}
	c.out.Op("sh strays", "dropped="+s)
}

func (c *shCase) closeHandle(h *shHandle) {
	err := c.closeRaw(h)
	c.afterClose(h, err)
}

func (c *shCase) rebind() {
	free := false
	if c.packet {
		if pc, err := net.ListenPacket("udp", c.addr); err == nil {
			pc.Close()
			free = true
		}
	} else {
		if ln, err := net.Listen("tcp", c.addr); err == nil {
			ln.Close()
			free = true
		}
	}
	res := "busy"
	if free {
		res = "free"
	}
	c.out.Op("sh rebind", res)
	if free != (len(c.openHandles()) == 0) {
		c.out.Oracle("C12", "with %d handles open the address %s is %s", len(c.openHandles()), c.addr, res)
	}
}

// closeVsArrive: Close(h) and a new client at the same moment
func (c *shCase) closeVsArrive(h *shHandle) {
	wasLast := len(c.openHandles()) == 1
	wait, release := barrier(2)
	var cerr error
	var it *shItem
	var ok bool
	var wg sync.WaitGroup
	wg.Add(2)
	go func() { defer wg.Done(); wait(); cerr = c.closeRaw(h) }()
	go func() { defer wg.Done(); wait(); it, ok = c.send() }()
	release()
	wg.Wait()
	c.out.Stat("sh.race.close-arrive", 1)
	if c.packet {
		// only raced when other handles stay open: the datagram is queued whatever the order
		c.queued = append(c.queued, it.id)
		c.out.Op(fmt.Sprintf("sh arrive i=%d", it.id), "accepted")
		c.afterClose(h, cerr)
		return
	}
	if ok {
		// the connection got in: it arrived before the socket could have gone
		c.queued = append(c.queued, it.id)
		c.out.Op(fmt.Sprintf("sh arrive i=%d", it.id), "accepted")
		c.afterClose(h, cerr)
	} else {
		c.afterClose(h, cerr)
		c.refused++
		c.out.Op(fmt.Sprintf("sh arrive i=%d", it.id), "refused")
		if !wasLast {
			c.out.Oracle("C12", "a connection attempt was refused while %d other handle(s) on %s stayed open", len(c.openHandles()), c.addr)
		}
	}
}

// closeVsClose: two handles closed at the same moment
func (c *shCase) closeVsClose(a, b *shHandle) {
	wait, release := barrier(2)
	var ea, eb error
	var wg sync.WaitGroup
	wg.Add(2)
	go func() { defer wg.Done(); wait(); ea = c.closeRaw(a) }()
	go func() { defer wg.Done(); wait(); eb = c.closeRaw(b) }()
	release()
	done := make(chan struct{})
	go func() { wg.Wait(); close(done) }()
	select {
	case <-done:
	case <-time.After(4 * time.Second):
		c.out.Oracle("C13", "two concurrent Close calls on handles of %s did not return", c.addr)
		return
	}
	c.out.Stat("sh.race.close-close", 1)
	// deliveries to either handle precede both closes
	for _, h := range []*shHandle{a, b} {
		if h.call != nil {
			if r, ok := h.wait(2 * time.Second); ok {
				if r.err == nil {
					c.took(h, r)
				} else {
					h.call = make(chan shResult, 1)
					h.call <- r
				}
			}
		}
	}
	c.afterClose(a, ea)
	c.afterClose(b, eb)
}

// callVsClose: a call on h racing with Close(h): it must end with the closed error (or an item)
func (c *shCase) callVsClose(h *shHandle) {
	wait, release := barrier(2)
	var cerr error
	var wg sync.WaitGroup
	wg.Add(2)
	go func() { defer wg.Done(); wait(); c.startCall(h) }()
	go func() { defer wg.Done(); wait(); cerr = c.closeRaw(h) }()
	release()
	wg.Wait()
	c.out.Stat("sh.race.call-close", 1)
	c.out.Op(fmt.Sprintf("sh call h=%d", h.id), "pending")
	c.afterClose(h, cerr)
}

func (c *shCase) run() {
	r := c.r
	nops := 10 + r.Intn(40)
	for k := 0; k < nops; k++ {
		open := c.openHandles()
		roll := r.Intn(100)
		switch {
		case roll < 18 && len(open) < 4:
			c.acquire()
		case roll < 40 && len(c.handles) > 0:
			var idle []*shHandle
			for _, h := range c.handles {
				if h.call == nil && (h.open || r.Chance(25)) {
					idle = append(idle, h)
				}
			}
			if len(idle) > 0 {
				c.call(Pick(r, idle))
			}
		case roll < 62:
			c.arrive()
		case roll < 74 && len(open) > 0:
			c.closeHandle(Pick(r, open))
		case roll < 82 && len(open) > 0 && !(c.packet && len(open) == 1):
			c.closeVsArrive(Pick(r, open))
		case roll < 87 && len(open) >= 2:
			i := r.Intn(len(open))
			j := (i + 1 + r.Intn(len(open)-1)) % len(open)
			c.closeVsClose(open[i], open[j])
		case roll < 92 && len(open) > 0:
			h := Pick(r, open)
			if h.call == nil {
				c.callVsClose(h)
			}
		case roll < 94 && len(open) > 0 && len(open) < len(c.handles) && !c.anyBlocked():
			// an item is waiting, a handle is open but not accepting, and a CLOSED handle calls
			// accept/read: it must fail, whatever is queued
			if len(c.queued) == 0 {
				c.arrive()
			}
			var closed []*shHandle
			for _, h := range c.handles {
				if !h.open && h.call == nil {
					closed = append(closed, h)
				}
			}
			for k := 0; k < 3 && len(closed) > 0; k++ {
				c.call(Pick(r, closed))
			}
			c.out.Stat("sh.closed-call-with-queued", 1)
		case roll < 95 && len(open) > 0 && len(open) < 4:
			// a burst of the narrowest race: a fresh handle blocks in accept/read, and its Close meets a
			// new arrival at the same instant, again and again, while another handle stays open
			for k := 0; k < 25; k++ {
				c.acquire()
				hs := c.openHandles()
				h := hs[len(hs)-1]
				if h.call == nil {
					c.call(h)
				}
				c.closeVsArrive(h)
				c.settle(3 * time.Millisecond)
				// keep the queue short: let an open handle take what is waiting
				if len(c.queued) > 3 {
					for _, o := range c.openHandles() {
						if o.call == nil {
							c.call(o)
							break
						}
					}
					c.settle(10 * time.Millisecond)
				}
			}
			c.out.Stat("sh.race.burst", 1)
		case roll < 96:
			c.rebind()
		default:
			if len(open) == 0 {
				c.acquire()
			}
		}
		c.settle(20 * time.Millisecond)
	}
	// wind down: close everything, nothing may stay behind
	for _, h := range c.openHandles() {
		c.closeHandle(h)
		c.settle(5 * time.Millisecond)
	}
	c.rebind()
	for _, h := range c.handles {
		if h.call != nil {
			if _, ok := h.wait(time.Second); !ok {
				c.out.Oracle("C12", "a call on h%d is still blocked after every handle was closed", h.id)
			}
		}
	}
	delivered := 0
	for _, it := range c.items {
		if it.taken > 0 {
			delivered++
		}
	}
	c.out.Op("sh end", fmt.Sprintf("delivered=%d queued=%d dropped=%d refused=%d closed-calls=%d # items=%d", delivered, len(c.queued), len(c.dropped), c.refused, c.closedCalls, len(c.items)))
	for _, it := range c.items {
		if it.conn != nil {
			it.conn.Close()
		}
	}
	for _, s := range c.srvSide {
		s.Close()
	}
}

func countFDs() int {
	es, err := os.ReadDir("/proc/self/fd")
	if err != nil {
		return -1
	}
	return len(es)
}

func sharedEngine(rng *Rng, n int, out *Out, args map[string]string) {
	setupNet(args, out)
	for i := 0; i < n; i++ {
		if out.oracle >= 12 {
			out.Note("stopping after %d oracle reports: the remaining cases would only repeat them", out.oracle)
			break
		}
		r := rng.Fork()
		c := &shCase{r: r, out: out, packet: r.Chance(45), items: map[int]*shItem{}, mgr: service.NewListenerManager()}
		c.addr = Pick(r, []string{"127.0.0.1:9401", "127.0.0.1:9402", "[::1]:9403"})
		runtime.GC()
		g0, f0 := runtime.NumGoroutine(), countFDs()
		kind := "stream"
		if c.packet {
			kind = "packet"
		}
		out.Op("sh reset", "ok # "+kind+" "+c.addr)
		out.Stat("sh.case."+kind, 1)
		c.run()
		// nothing keeps running, no socket is left
		deadline := time.Now().Add(2 * time.Second)
		g1, f1 := 0, 0
		for {
			g1, f1 = runtime.NumGoroutine(), countFDs()
			if (g1 <= g0 && f1 <= f0) || time.Now().After(deadline) {
				break
			}
			time.Sleep(10 * time.Millisecond)
		}
		if g1 > g0 {
			buf := make([]byte, 1<<16)
			buf = buf[:runtime.Stack(buf, true)]
			var svc []string
			for _, blk := range strings.Split(string(buf), "\n\n") {
				if strings.Contains(blk, "outline-ss-server/service") {
					svc = append(svc, strings.SplitN(blk, "\n", 3)[1])
				}
			}
			out.Oracle("C12", "%d goroutines before the case, %d after every handle was closed (%s %s): %v", g0, g1, kind, c.addr, svc)
			out.Oracle("C18", "%d goroutines before the case, %d after every handle was closed (%s)", g0, g1, kind)
		}
		if f0 >= 0 && f1 > f0 {
			out.Oracle("C12", "%d file descriptors before the case, %d after every handle was closed (%s %s)", f0, f1, kind, c.addr)
			out.Oracle("C18", "%d file descriptors before the case, %d after every handle was closed (%s)", f0, f1, kind)
		}
	}
}
