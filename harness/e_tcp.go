package main

import (
	"bytes"
	"context"
	"errors"
	"fmt"
	"io"
	"log/slog"
	"net"
	"os"
	"sort"
	"strings"
	"sync"
	"sync/atomic"
	"syscall"
	"time"

	"github.com/Jigsaw-Code/outline-sdk/transport"
	"github.com/Jigsaw-Code/outline-ss-server/service"
	"github.com/Jigsaw-Code/outline-ss-server/service/metrics"
)

// Engine "tcp": the real stream handler (service.NewStreamHandler + NewShadowsocksStreamAuthenticator
// behind service.StreamServe) on a loopback listener inside the private netns, with the DEFAULT
// target dialer (RequirePublicIP), scripted clients built with spec-level cryptography and scripted
// targets.  One op per connection: the script; result: everything observable — metric calls, what
// the target received, what the client could decrypt, how and when the connection was closed.
// Oracles: C01 (no dial / no bytes back unless authenticated), C02 (both streams intact, FIN after
// data, independent half-close), C05 (forbidden sinks never contacted), C06 (silent, drained, closed
// at client FIN or at the deadline, never reset), C08 (fresh recognisable response salts),
// C15 (opened/closed once, status names the outcome, counters equal socket byte counts), C18.
func init() { engines["tcp"] = tcpEngine }

const (
	tgtEcho      = 9000 // reads to FIN, replies with the reversed data, FIN
	tgtSpeaks    = 9001 // greets at once, reads to FIN, FIN
	tgtHalfClose = 9002 // greets and half-closes at once, keeps reading to FIN
	tgtSilent    = 9003 // reads to FIN, closes without a byte
	tgtSlow      = 9004 // reads to FIN, then streams 8 records 100 ms apart (longer than any handshake timeout), FIN
)

func slowRecords() []byte {
	var b []byte
	for i := 0; i < 8; i++ {
		b = append(b, []byte(fmt.Sprintf("slow-record-%d;", i))...)
	}
	return b
}

func greeting(port int) []byte { return []byte(fmt.Sprintf("greeting-from-%d", port)) }

type tgtConnRec struct {
	sink     string
	port     int
	received []byte
	gotFin   bool
	done     chan struct{}
}

type tcpTargets struct {
	mu    sync.Mutex
	conns []*tgtConnRec
	lns   []net.Listener
}

func (t *tcpTargets) listen(ip string, port int, out *Out) {
	network := "tcp4"
	if strings.Contains(ip, ":") {
		network = "tcp6"
	}
	ln, err := net.Listen(network, net.JoinHostPort(ip, itoa(port)))
	if err != nil {
		out.Note("tcp sink %s:%d unavailable: %v", ip, port, err)
		return
	}
	t.lns = append(t.lns, ln)
	go func() {
		for {
			c, err := ln.Accept()
			if err != nil {
				return
			}
			rec := &tgtConnRec{sink: net.JoinHostPort(ip, itoa(port)), port: port, done: make(chan struct{})}
			t.mu.Lock()
			t.conns = append(t.conns, rec)
			t.mu.Unlock()
			go func(c *net.TCPConn) {
				defer close(rec.done)
				defer c.Close()
				if port == tgtSpeaks || port == tgtHalfClose {
					c.Write(greeting(port))
				}
				if port == tgtHalfClose {
					c.CloseWrite()
				}
				c.SetReadDeadline(time.Now().Add(8 * time.Second))
				data, err := io.ReadAll(c)
				t.mu.Lock()
				rec.received = data
				rec.gotFin = err == nil
				t.mu.Unlock()
				if port == tgtSlow && err == nil {
					for i := 0; i < 8; i++ {
						time.Sleep(100 * time.Millisecond)
						if _, werr := c.Write([]byte(fmt.Sprintf("slow-record-%d;", i))); werr != nil {
							break
						}
					}
				}
				if port == tgtEcho && err == nil {
					rev := make([]byte, len(data))
					for i := range data {
						rev[i] = data[len(data)-1-i]
					}
					c.Write(rev)
				}
				if port != tgtHalfClose {
					c.CloseWrite()
				}
			}(c.(*net.TCPConn))
		}
	}()
}

func (t *tcpTargets) take() []*tgtConnRec {
	t.mu.Lock()
	defer t.mu.Unlock()
	c := t.conns
	t.conns = nil
	return c
}

// per-connection metrics recorder
type tcpConnRec struct {
	mu       sync.Mutex
	calls    []string
	closed   chan struct{}
	closedAt time.Time
	openedAt time.Time // when the serve loop handed the connection to the handler (server side, same clock as closedAt)
	status   string
	data     metrics.ProxyMetrics
}

func (m *tcpConnRec) AddAuthenticated(k string) {
	m.mu.Lock()
	m.calls = append(m.calls, "auth="+hexs([]byte(k)))
	m.mu.Unlock()
}
func (m *tcpConnRec) AddClosed(status string, d metrics.ProxyMetrics, _ time.Duration) {
	m.mu.Lock()
	m.calls = append(m.calls, "closed")
	m.status, m.data = status, d
	m.closedAt = time.Now()
	m.mu.Unlock()
	close(m.closed)
}
func (m *tcpConnRec) AddProbe(status, drain string, n int64) {
	m.mu.Lock()
	m.calls = append(m.calls, fmt.Sprintf("probe=%s,%s,%d", status, drain, n))
	m.mu.Unlock()
}

type tcpSearchRec struct {
	mu sync.Mutex
	l  []bool
}

func (s *tcpSearchRec) AddCipherSearch(found bool, _ time.Duration) {
	s.mu.Lock()
	s.l = append(s.l, found)
	s.mu.Unlock()
}

type chunkDesc struct {
	kind string // d, L, P, X
	data []byte
	n    int
}

type tcpScript struct {
	id         int
	clientIP   string
	key        *specKey
	keyref     int
	kind       string
	salt       []byte
	chunks     []chunkDesc
	rawPrefix  []byte // for garbage / short probes: the raw bytes (no structure)
	end        string // fin | idle
	dest       string // host:port the address header names ("" = none)
	destHdr    []byte
	concurrent bool
	trickle    bool // unauthenticated client that stays open and keeps sending a byte every 0.3 T
}

func (s *tcpScript) wire() []byte {
	if s.rawPrefix != nil {
		return s.rawPrefix
	}
	w := newSpecStreamWriter(s.key, s.salt)
	out := append([]byte{}, s.salt...)
	for _, c := range s.chunks {
		switch c.kind {
		case "d":
			out = append(out, w.chunk(c.data)...)
		case "L":
			b := w.chunk(nil) // 2+tag (+tag of the empty payload)
			b = b[:2+s.key.c.tagSize]
			b[0] ^= 0x40
			out = append(out, b...)
			// the nonce advanced twice in w.chunk; the reader will have advanced once: desynchronised on purpose
		case "P":
			b := w.chunk(make([]byte, c.n))
			b[len(b)-1] ^= 1
			out = append(out, b...)
		case "X":
			out = append(out, c.data...)
		}
	}
	return out
}

func (s *tcpScript) chunkField() string {
	if s.rawPrefix != nil {
		return "-"
	}
	var p []string
	for _, c := range s.chunks {
		switch c.kind {
		case "d":
			p = append(p, "d"+hexs(c.data))
		case "L":
			p = append(p, "L")
		case "P":
			p = append(p, "P"+itoa(c.n))
		case "X":
			p = append(p, "X"+itoa(len(c.data)))
		}
	}
	if len(p) == 0 {
		return "-"
	}
	return strings.Join(p, ",")
}

type tcpObs struct {
	openAtPatience bool // the server had not closed when the client's patience (deadline + 400 ms) ran out
	search         []bool
	calls          []string
	status         string
	data           metrics.ProxyMetrics
	metricsOK      bool
	fromServer     []byte
	closeKind      string // fin | rst | none
	closeAt        time.Duration
	clientFin      time.Duration // when the client half-closed (0 = never before close)
	start          time.Time
	tgt            *tgtConnRec
	sent           int
	clientPort     int
	srvFin         string // early: the server's FIN reached the client before the client half-closed; late; "-" n/a
}

func tcpEngine(rng *Rng, n int, out *Out, args map[string]string) {
	e := setupNet(args, out)
	if !e.netns {
		out.Note("tcp engine needs the private netns; skipped")
		return
	}
	slog.SetDefault(slog.New(panicLogHandler{ev: &curEvents}))
	tg := &tcpTargets{}
	for _, ip := range append(append(append([]string{}, e.publicV4...), e.publicV6...), e.forbidden...) {
		for _, p := range []int{tgtEcho, tgtSpeaks, tgtHalfClose, tgtSilent, tgtSlow} {
			tg.listen(ip, p, out)
		}
	}
	for c := 0; c < n; c++ {
		tcpCase(rng.Fork(), e, tg, out)
	}
	// directed scenarios (oracle only), after the cases so that the case stream of a seed is unchanged
	for k := 0; k < 1+n/100; k++ {
		tcpDirectedDeadline(rng.Fork(), out)
		tcpDirectedBulk(rng.Fork(), e, out)
		tcpDirectedRequestResponse(rng.Fork(), e, out)
	}
	for _, l := range tg.lns {
		l.Close()
	}
}

func tcpCase(r *Rng, e *netEnv, tg *tcpTargets, out *Out) {
	kt := &keyTable{index: map[string]int{}}
	var entries []cfgEntry
	// distinct (cipher, secret) pairs: list order is then irrelevant for concurrent connections
	for i := 0; i < 1+r.Intn(5); i++ {
		c := Pick(r, specCiphers[:])
		alias := Pick(r, cipherAliases[c.name])
		refCounter++
		entries = append(entries, cfgEntry{ref: refCounter, id: fmt.Sprintf("key-%d", i), cipher: alias, secret: fmt.Sprintf("secret-%d-%d", i, r.Intn(1000)), keyref: -1})
		entries[i].keyref = kt.ref(alias, entries[i].secret)
	}
	cl, err := makeCipherList(entries)
	if err != nil {
		out.Note("cipher list: %v", err)
		return
	}
	useCache := r.Chance(70)
	var cache *service.ReplayCache
	capField := "nil"
	if useCache {
		rc := service.NewReplayCache(5000)
		cache = &rc
		capField = "5000"
	}
	timeout := time.Duration(250+r.Intn(200)) * time.Millisecond
	search := &tcpSearchRec{}
	evs := newEvents()
	curEvents = evs
	auth := service.NewShadowsocksStreamAuthenticator(cl, cache, search, nil)
	h := service.NewStreamHandler(auth, timeout)
	ln, err := net.ListenTCP("tcp4", &net.TCPAddr{IP: net.IPv4(127, 0, 0, 1)})
	if err != nil {
		out.Note("listen: %v", err)
		return
	}
	recs := map[int]*tcpConnRec{}
	var recMu sync.Mutex
	getRec := func(port int) *tcpConnRec {
		recMu.Lock()
		defer recMu.Unlock()
		if r, ok := recs[port]; ok {
			return r
		}
		r := &tcpConnRec{closed: make(chan struct{})}
		recs[port] = r
		return r
	}
	served := make(chan struct{})
	go func() {
		service.StreamServe(service.WrapStreamAcceptFunc(ln.AcceptTCP), func(ctx context.Context, c transport.StreamConn) {
			port := c.RemoteAddr().(*net.TCPAddr).Port
			r := getRec(port)
			r.mu.Lock()
			if r.openedAt.IsZero() {
				r.openedAt = time.Now()
			}
			r.mu.Unlock()
			h.Handle(ctx, c, r)
		})
		close(served)
	}()
	out.Op(fmt.Sprintf("tcp new cap=%s timeout=%d %s", capField, timeout.Milliseconds(), entriesField(entries, kt)), "ok")

	unknown := newSpecKey("aes-192-gcm", "not a configured secret")
	var accepted [][]byte // first 50 bytes of handshakes that were accepted (for replays)
	pubs := append(append([]string{}, e.publicV4...), e.publicV6...)
	mkScript := func(id int, concurrent bool) *tcpScript {
		ce := Pick(r, entries)
		s := &tcpScript{id: id, key: kt.keys[ce.keyref], keyref: ce.keyref, concurrent: concurrent, end: "fin"}
		s.salt = r.Bytes(s.key.c.saltSize)
		if concurrent || r.Chance(25) {
			s.end = "idle"
		}
		seqIdle := !concurrent && s.end == "idle"
		token := []byte(fmt.Sprintf("#%06d#", id))
		data := func(n int) []byte { return append(append([]byte{}, token...), r.Bytes(n)...) }
		allowSlow := false
		pickDest := func(forbidden bool) {
			host := Pick(r, pubs)
			if forbidden {
				host = Pick(r, e.forbidden)
			}
			port := Pick(r, []int{tgtEcho, tgtSpeaks, tgtHalfClose, tgtSilent})
			if concurrent && !forbidden && allowSlow && r.Chance(25) {
				port = tgtSlow
			}
			ip := net.ParseIP(host)
			s.dest = net.JoinHostPort(host, itoa(port))
			switch {
			case r.Chance(15):
				s.destHdr = socksDomain(host, port)
			case ip.To4() != nil && r.Chance(10):
				m := append(append([]byte{4}, make([]byte, 10)...), 0xff, 0xff)
				s.destHdr = append(append(m, ip.To4()...), byte(port>>8), byte(port))
			case ip.To4() != nil:
				s.destHdr = socksV4(ip, port)
			default:
				s.destHdr = socksV6(ip, port)
			}
		}
		roll := r.Intn(100)
		switch {
		case roll < 34: // complete exchange, various chunkings
			s.kind = "relay"
			allowSlow = true
			pickDest(false)
			allowSlow = false
			switch r.Intn(4) {
			case 0: // address alone, then data chunks
				s.chunks = append(s.chunks, chunkDesc{kind: "d", data: s.destHdr})
				for i := 0; i < 1+r.Intn(4); i++ {
					s.chunks = append(s.chunks, chunkDesc{kind: "d", data: data(r.Intn(300))})
				}
			case 1: // coalesced
				s.chunks = append(s.chunks, chunkDesc{kind: "d", data: append(append([]byte{}, s.destHdr...), data(r.Intn(500))...)})
				if r.Bool() {
					s.chunks = append(s.chunks, chunkDesc{kind: "d", data: data(Pick(r, []int{0, 1, 2, 16383 - 8, 4000}))})
				}
			case 2: // address split across chunks, empty chunks in between
				k := 1 + r.Intn(len(s.destHdr)-1)
				s.chunks = append(s.chunks, chunkDesc{kind: "d", data: s.destHdr[:k]}, chunkDesc{kind: "d", data: nil},
					chunkDesc{kind: "d", data: append(append([]byte{}, s.destHdr[k:]...), data(r.Intn(100))...)})
			default: // many small chunks
				s.chunks = append(s.chunks, chunkDesc{kind: "d", data: s.destHdr})
				for i := 0; i < 5+r.Intn(25); i++ {
					s.chunks = append(s.chunks, chunkDesc{kind: "d", data: data(r.Intn(20))})
				}
			}
			s.end = "fin"
		case roll < 44: // disallowed destination
			s.kind = "forbidden-dest"
			pickDest(true)
			s.chunks = append(s.chunks, chunkDesc{kind: "d", data: append(append([]byte{}, s.destHdr...), data(r.Intn(50))...)})
		case roll < 49: // connect failure: public address, closed port
			s.kind = "connect-fail"
			host := Pick(r, e.publicV4)
			s.dest = net.JoinHostPort(host, "9999")
			s.destHdr = socksV4(net.ParseIP(host), 9999)
			s.chunks = append(s.chunks, chunkDesc{kind: "d", data: s.destHdr})
		case roll < 57: // authenticated, unreadable address
			s.kind = "bad-address"
			switch r.Intn(4) {
			case 0:
				s.chunks = append(s.chunks, chunkDesc{kind: "d", data: append([]byte{byte(Pick(r, []int{0, 2, 5, 255}))}, r.Bytes(10)...)})
			case 1:
				s.chunks = append(s.chunks, chunkDesc{kind: "d", data: socksV6(net.ParseIP("2001:db8::10"), 9000)[:5+r.Intn(10)]})
			case 2:
				s.chunks = append(s.chunks, chunkDesc{kind: "P", n: r.Intn(40)})
			default:
				s.chunks = nil                                                       // only the salt + nothing: EOF / timeout while reading the address
				s.chunks = append(s.chunks, chunkDesc{kind: "X", data: r.Bytes(60)}) // 50 bytes must exist and open: handled below
			}
			if len(s.chunks) == 1 && s.chunks[0].kind == "X" {
				// first length block valid (an empty chunk), then garbage instead of the next block
				s.chunks = []chunkDesc{{kind: "d", data: nil}, {kind: "X", data: r.Bytes(5 + r.Intn(40))}}
			}
		case roll < 66: // relay-phase corruption
			s.kind = "relay-corrupt"
			pickDest(false)
			s.chunks = append(s.chunks, chunkDesc{kind: "d", data: append(append([]byte{}, s.destHdr...), data(r.Intn(100))...)})
			if r.Bool() {
				s.chunks = append(s.chunks, chunkDesc{kind: "L"})
			} else {
				s.chunks = append(s.chunks, chunkDesc{kind: "P", n: 1 + r.Intn(60)})
			}
			s.chunks = append(s.chunks, chunkDesc{kind: "X", data: r.Bytes(r.Intn(120))})
		case roll < 74: // probes: short
			s.kind = "probe-short"
			s.rawPrefix = r.Bytes(r.Intn(50))
		case roll < 82: // probes: garbage of any length
			s.kind = "probe-garbage"
			s.rawPrefix = r.Bytes(50 + r.Intn(400))
		case roll < 88: // valid stream under a key that is not configured
			s.kind = "probe-unknown-key"
			s.key = unknown
			s.salt = r.Bytes(24)
			s.keyref = -1
			s.chunks = append(s.chunks, chunkDesc{kind: "d", data: append(socksV4(net.ParseIP(e.publicV4[0]), tgtEcho), data(10)...)})
			w := s.wire()
			s.rawPrefix = w
		case roll < 93 && len(accepted) > 0 && !concurrent: // replay of an accepted handshake
			s.kind = "probe-replay"
			s.rawPrefix = append(append([]byte{}, Pick(r, accepted)...), r.Bytes(r.Intn(80))...)
		case roll < 97: // server-issued salt
			s.kind = "probe-server-salt"
			if s.key.c.saltSize-4 >= 16 {
				s.salt = specServerSalt(ce.secret, r.Bytes(s.key.c.saltSize-4))
			}
			pickDest(false)
			s.chunks = append(s.chunks, chunkDesc{kind: "d", data: append(append([]byte{}, s.destHdr...), data(20)...)})
		default: // bit flip inside the first 50 bytes of a valid stream
			s.kind = "probe-bitflip"
			pickDest(false)
			s.chunks = append(s.chunks, chunkDesc{kind: "d", data: append(append([]byte{}, s.destHdr...), data(30)...)})
			w := s.wire()
			w[r.Intn(s.key.c.saltSize+2+s.key.c.tagSize)] ^= 1 << uint(r.Intn(8))
			s.rawPrefix = w
		}
		if strings.HasSuffix(s.dest, ":9004") {
			s.end = "fin" // client half-closes first, the target keeps sending for 800 ms
		}
		if seqIdle && !strings.HasPrefix(s.kind, "probe") {
			s.end = "fin" // authenticated streams with a client that stays open are run concurrently (phase B)
		}
		// the deadline of an unauthenticated connection is absolute: a client that keeps trickling
		// bytes after its (>= 50 byte) probe is cut off at the same moment as a silent one
		if s.end == "idle" && s.rawPrefix != nil && len(s.rawPrefix) >= 50 && r.Chance(50) {
			s.trickle = true
		}
		return s
	}

	// ---- run one script against the server; returns what was observed
	runScript := func(s *tcpScript) *tcpObs {
		o := &tcpObs{closeKind: "none"}
		wire := s.wire()
		conn, err := net.DialTCP("tcp4", nil, ln.Addr().(*net.TCPAddr))
		if err != nil {
			out.Oracle("C11", "connect to the proxy failed: %v", err)
			return o
		}
		defer conn.Close()
		o.clientPort = conn.LocalAddr().(*net.TCPAddr).Port
		o.start = time.Now()
		fmt.Fprintf(os.Stderr, "#intent tcp conn id=%d kind=%s end=%s bytes=%d dest=%s\n", s.id, s.kind, s.end, len(wire), s.dest)
		// send in a few pieces
		for off := 0; off < len(wire); {
			k := len(wire) - off
			if k > 1 && r.Chance(30) {
				k = 1 + r.Intn(k)
			}
			conn.Write(wire[off : off+k])
			off += k
		}
		o.sent = len(wire)
		if s.end == "fin" {
			conn.CloseWrite()
			o.clientFin = time.Since(o.start)
		}
		var trickled int32
		stopTrickle := make(chan struct{})
		if s.trickle {
			go func() {
				for k := 1; ; k++ {
					at := o.start.Add(time.Duration(k) * timeout * 3 / 10)
					if d := time.Until(at); d > 0 {
						select {
						case <-time.After(d):
						case <-stopTrickle:
							return
						}
					}
					if time.Since(o.start) > timeout+400*time.Millisecond {
						return
					}
					if _, err := conn.Write([]byte{byte(k)}); err != nil {
						return
					}
					atomic.AddInt32(&trickled, 1)
				}
			}()
		}
		// read until the server closes (bounded), remembering how it ended
		readDone := make(chan struct{})
		go func() {
			defer close(readDone)
			buf := make([]byte, 32768)
			rdl := timeout + 400*time.Millisecond
			if strings.HasSuffix(s.dest, ":9004") {
				rdl = 1600 * time.Millisecond
			}
			conn.SetReadDeadline(time.Now().Add(rdl))
			extended := false
			for {
				n, err := conn.Read(buf)
				o.fromServer = append(o.fromServer, buf[:n]...)
				if err != nil {
					var te net.Error
					if !extended && (s.kind == "probe-short" || s.kind == "probe-garbage" || s.kind == "probe-unknown-key" || s.kind == "probe-bitflip") && errors.As(err, &te) && te.Timeout() {
						// input that can never authenticate must be closed at the handshake deadline; on a busy machine that close
						// can come later than this client's patience.  Late is not the client's doing: keep waiting (the
						// classification below tolerates a late close and an alarm is raised only if none comes at all)
						extended = true
						conn.SetReadDeadline(time.Now().Add(3 * time.Second))
						continue
					}
					o.closeAt = time.Since(o.start)
					var ne net.Error
					switch {
					case err == io.EOF:
						o.closeKind = "fin"
					case errors.As(err, &ne) && ne.Timeout():
						o.closeKind = "none"
					case errors.Is(err, syscall.ECONNRESET):
						o.closeKind = "rst"
					default:
						o.closeKind = "err:" + err.Error()
					}
					return
				}
			}
		}()
		<-readDone
		o.openAtPatience = o.closeKind == "none"
		close(stopTrickle)
		o.sent += int(atomic.LoadInt32(&trickled))
		rec0 := getRec(o.clientPort)
		halfClosed := false
		if o.closeKind == "fin" && s.end == "idle" {
			// EOF from the server: the whole connection, or only its write side (target finished first)?
			select {
			case <-rec0.closed:
			case <-time.After(60 * time.Millisecond):
				halfClosed = true
			}
		}
		o.srvFin = "-"
		if s.end == "idle" {
			if halfClosed {
				o.srvFin = "early"
			} else if o.closeKind == "none" {
				o.srvFin = "late"
			}
		}
		if (o.closeKind == "none" || halfClosed) && s.end == "idle" {
			// the server kept the connection open past deadline+1.5s (post-auth drain): now close
			o.clientFin = time.Since(o.start)
			conn.CloseWrite()
			conn.SetReadDeadline(time.Now().Add(2 * time.Second))
			buf := make([]byte, 32768)
			for {
				n, err := conn.Read(buf)
				o.fromServer = append(o.fromServer, buf[:n]...)
				if err != nil {
					if err == io.EOF || halfClosed {
						o.closeKind = "fin-after-client-fin"
					} else if errors.Is(err, syscall.ECONNRESET) {
						o.closeKind = "rst"
					}
					break
				}
			}
		}
		rec := getRec(o.clientPort)
		select {
		case <-rec.closed:
			o.metricsOK = true
		case <-time.After(3 * time.Second):
		}
		rec.mu.Lock()
		o.calls = append([]string{}, rec.calls...)
		o.status, o.data = rec.status, rec.data
		if !rec.closedAt.IsZero() {
			o.closeAt = rec.closedAt.Sub(o.start) // when the handler finished (it closes the connection next)
			if !rec.openedAt.IsZero() {
				// both ends of the interval taken on the server side: a client goroutine that was scheduled late after
				// its connect (busy machine) must not make a close at the deadline look early
				o.closeAt = rec.closedAt.Sub(rec.openedAt)
			}
			if o.closeKind == "fin-after-client-fin" && !halfClosed && o.clientFin > 0 && rec.closedAt.Before(o.start.Add(o.clientFin)) {
				// the handler had finished BEFORE this client gave up waiting and sent its FIN: the server closed on its own
				// (late, on a busy machine), not in answer to the client.  Classified by its own close time below.
				o.closeKind = "fin"
			}
		}
		rec.mu.Unlock()
		return o
	}

	report := func(s *tcpScript, o *tcpObs, tgt *tgtConnRec, searchFound string) {
		wire := s.wire()
		first := wire
		if len(first) > 50 {
			first = first[:50]
		}
		enough := len(wire) >= 50
		var opens, srv []int
		for _, en := range entries {
			if enough && kt.keys[en.keyref].headerOpens(first) {
				opens = append(opens, en.keyref)
			}
			kk := kt.keys[en.keyref]
			if enough && kk.c.saltSize-4 >= 16 && specIsServerSalt(en.secret, first[:kk.c.saltSize]) {
				srv = append(srv, en.ref)
			}
		}
		sort.Ints(opens)
		// what the destination would be for the policy: verdict of the default validator on the literal
		dial, dialip, sink := "-", "-", "-"
		if s.dest != "" {
			host, _, _ := net.SplitHostPort(s.dest)
			ip := net.ParseIP(host)
			dialip = hexs(canonIP(ip))
			sink = s.dest
			f, _ := specForbidden(canonIP(ip))
			switch {
			case s.kind == "connect-fail":
				dial = "refused"
			case f:
				dial = "forbidden"
			default:
				dial = "ok"
			}
		}
		rawN := len(wire)
		if s.trickle {
			// how many of the trickled bytes arrived before the deadline is the server's to say (the last
			// one races with the deadline); the byte-count oracle below still bounds it by what was sent
			if cp := int(o.data.ClientProxy); cp >= len(wire) && cp <= o.sent {
				rawN = cp
			} else {
				rawN = o.sent
			}
			out.Stat("conn.trickle", 1)
			if o.openAtPatience && (o.status == "ERR_CIPHER" || o.status == "ERR_REPLAY_CLIENT" || o.status == "ERR_REPLAY_SERVER") {
				out.Oracle("C06", "a connection that never authenticated (%s) and keeps sending one byte every 0.3 T was still open 400 ms after the deadline: the deadline has become an idle timeout", s.kind)
			}
		}
		op := fmt.Sprintf("tcp conn raw=%d end=%s opens=%s srv=%s first=%s chunks=%s dial=%s dialip=%s sink=%s", rawN, s.end, intsField(opens), intsField(srv), hexs(first), s.chunkField(), dial, dialip, sink)
		// ---- canonical observation
		var parts []string
		parts = append(parts, "search="+searchFound)
		for _, c := range o.calls {
			if c != "closed" {
				parts = append(parts, c)
			}
		}
		if tgt != nil {
			<-tgt.done
			parts = append(parts, fmt.Sprintf("dial=%s tgt=%s,fin=%v", tgt.sink, fnvDigest(tgt.received), tgt.gotFin))
		}
		// what the client can decrypt
		var plain []byte
		cliOK := "-"
		if len(o.fromServer) > 0 {
			if len(opens) > 0 {
				rd := &specStreamReader{k: kt.keys[opens[0]]}
				rd.feed(o.fromServer)
				p, err := rd.drain()
				plain = p
				cliOK = fnvDigest(p)
				if err != nil || len(rd.buf) != 0 {
					cliOK = "undecryptable"
					out.Oracle("C02", "client cannot decrypt the server's stream (%v, %d trailing bytes)", err, len(rd.buf))
				}
			} else {
				cliOK = "bytes-to-unauthenticated-client"
			}
		}
		parts = append(parts, "cli="+cliOK)
		pc := "0"
		if o.data.ProxyClient != 0 {
			if int(o.data.ProxyClient) == len(o.fromServer) {
				pc = "match"
			} else {
				pc = fmt.Sprintf("%d-vs-%d", o.data.ProxyClient, len(o.fromServer))
			}
		}
		parts = append(parts, fmt.Sprintf("closed=%s,%d,%d,%d,pc=%s", o.status, o.data.ClientProxy, o.data.ProxyTarget, o.data.TargetProxy, pc))
		// how the connection ended, in classes
		cls := o.closeKind
		// Early is what matters for probe resistance (a close before the deadline tells the prober
		// something); a close that is reported late only says the machine was busy, so the upper
		// tolerance is wide and a loaded host does not turn into an alarm.
		tol := 3 * time.Second
		switch {
		case o.status == "ERR_CONNECT" || o.status == "ERR_ADDRESS_INVALID" || o.status == "ERR_ADDRESS_PRIVATE":
			cls = "quick" // dial errors are communicated at once; FIN or RST depends on unread input
		case o.closeKind == "fin" && s.end == "fin":
			cls = "fin@after-client-fin"
		case o.closeKind == "fin" && s.end == "idle" && o.closeAt >= timeout-20*time.Millisecond && o.closeAt <= timeout+tol:
			cls = "fin@deadline"
		case s.trickle && o.closeKind == "rst" && o.closeAt >= timeout-20*time.Millisecond && o.closeAt <= timeout+tol:
			// the client's own next byte met the closed connection before it had read the FIN: the
			// reset answers that byte, the server closed at the deadline all the same
			cls = "fin@deadline"
		case o.closeKind == "fin" && s.end == "idle" && o.closeAt < timeout-20*time.Millisecond:
			cls = "fin@early"
		case o.closeKind == "fin" && s.end == "idle":
			cls = "fin@late"
		}
		parts = append(parts, "close="+cls)
		srvFin := o.srvFin
		if tgt == nil || o.status == "ERR_CONNECT" || strings.HasPrefix(o.status, "ERR_ADDRESS") {
			srvFin = "-"
		}
		parts = append(parts, "srvfin="+srvFin)
		if srvFin == "early" && tgt != nil && tgt.port != tgtHalfClose {
			out.Oracle("C06", "the proxy half-closed towards the client (%s, target %s) while the client kept the connection open and the target had not finished", s.kind, tgt.sink)
			out.Oracle("C02", "FIN reached the client before the target sent one (%s, target %s)", s.kind, tgt.sink)
		}
		out.Op(op, strings.Join(parts, " "))
		out.Stat("conn."+s.kind, 1)
		out.Stat("conn.end."+s.end, 1)
		out.Stat("status."+o.status, 1)

		// ---- oracles (independent of the model)
		authd := false
		for _, c := range o.calls {
			if strings.HasPrefix(c, "auth=") {
				authd = true
			}
		}
		isProbe := strings.HasPrefix(s.kind, "probe")
		if !o.metricsOK {
			out.Oracle("C15", "connection (%s) was never reported closed", s.kind)
		}
		nClosed, nAuth, nProbe := 0, 0, 0
		for _, c := range o.calls {
			switch {
			case c == "closed":
				nClosed++
			case strings.HasPrefix(c, "auth="):
				nAuth++
			case strings.HasPrefix(c, "probe="):
				nProbe++
			}
		}
		if nClosed > 1 || nAuth > 1 || nProbe > 1 {
			out.Oracle("C15", "metric calls repeated: %v", o.calls)
		}
		if len(o.calls) > 0 && o.calls[len(o.calls)-1] != "closed" {
			out.Oracle("C15", "a metric call came after AddClosed: %v", o.calls)
		}
		if isProbe && len(opens) == 0 || (s.kind == "probe-replay" && useCache) || (s.kind == "probe-server-salt" && len(srv) > 0) {
			if authd {
				out.Oracle("C15", "AddAuthenticated reported for a connection that did not authenticate (%s, status %s)", s.kind, o.status)
				out.Oracle("C17", "a connection that did not authenticate (%s, status %s) was reported authenticated: the collector starts tunnel time for it", s.kind, o.status)
				out.Oracle("C01", "a %s connection was reported authenticated", s.kind)
			}
			if tgt != nil {
				out.Oracle("C01", "a %s connection made the proxy contact %s", s.kind, tgt.sink)
				out.Oracle("C06", "a %s connection made the proxy contact %s", s.kind, tgt.sink)
			}
			if len(o.fromServer) > 0 {
				out.Oracle("C01", "the proxy wrote %d bytes to a %s connection", len(o.fromServer), s.kind)
				out.Oracle("C06", "the proxy wrote %d bytes to a %s connection", len(o.fromServer), s.kind)
			}
			if nProbe != 1 {
				out.Oracle("C15", "probe report count %d for a %s connection", nProbe, s.kind)
			}
			if strings.HasPrefix(cls, "rst") || cls == "fin@early" {
				out.Oracle("C06", "a %s connection (%d bytes, client %s) was closed %s after %v (timeout %v)", s.kind, len(wire), s.end, cls, o.closeAt, timeout)
			}
			if (!s.trickle && int(o.data.ClientProxy) != len(wire)) || (s.trickle && (int(o.data.ClientProxy) < len(wire) || int(o.data.ClientProxy) > o.sent)) {
				out.Oracle("C06", "the proxy read %d of the %d bytes a %s connection sent", o.data.ClientProxy, o.sent, s.kind)
			}
			if s.kind == "probe-server-salt" && o.status != "ERR_REPLAY_SERVER" {
				out.Oracle("C08", "handshake with a server-issued salt got status %s (cache %s)", o.status, capField)
			}
			if s.kind == "probe-replay" && useCache && o.status != "ERR_REPLAY_CLIENT" {
				out.Oracle("C07", "replayed handshake got status %s", o.status)
			}
		} else if !authd && len(opens) > 0 && enough {
			out.Oracle("C01", "a connection under configured key #%v (%s) was not authenticated: status %s", opens, s.kind, o.status)
		}
		if nProbe > 0 && authd {
			out.Oracle("C15", "probe reported for an authenticated connection: %v", o.calls)
		}
		if tgt != nil {
			host, _, _ := net.SplitHostPort(tgt.sink)
			if f, _ := specForbidden(canonIP(net.ParseIP(host))); f {
				out.Oracle("C05", "the proxy connected to forbidden destination %s (%s)", tgt.sink, s.kind)
			}
		}
		if s.kind == "relay" {
			var want []byte
			for _, c := range s.chunks {
				want = append(want, c.data...)
			}
			want = want[len(s.destHdr):]
			if tgt == nil {
				out.Oracle("C02", "relay to %s: the target was never contacted (status %s)", s.dest, o.status)
				out.Oracle("C05", "public destination %s was not reachable through the proxy (status %s)", s.dest, o.status)
			} else {
				if tgt.sink != s.dest || !bytes.Equal(tgt.received, want) || !tgt.gotFin {
					out.Oracle("C02", "target %s received %s fin=%v, client sent %s to %s", tgt.sink, fnvDigest(tgt.received), tgt.gotFin, fnvDigest(want), s.dest)
				}
				var reply []byte
				switch tgt.port {
				case tgtEcho:
					for i := len(want) - 1; i >= 0; i-- {
						reply = append(reply, want[i])
					}
				case tgtSpeaks, tgtHalfClose:
					reply = greeting(tgt.port)
				case tgtSlow:
					reply = slowRecords()
				}
				if !bytes.Equal(plain, reply) || o.closeKind != "fin" {
					out.Oracle("C02", "client decrypted %s (close %s), target %s sent %s", fnvDigest(plain), o.closeKind, tgt.sink, fnvDigest(reply))
				}
				if o.status != "OK" {
					out.Oracle("C15", "a complete exchange was reported with status %s", o.status)
				}
				if int(o.data.ClientProxy) != len(wire) || int(o.data.ProxyTarget) != len(want) || int(o.data.TargetProxy) != len(reply) || int(o.data.ProxyClient) != len(o.fromServer) {
					out.Oracle("C15", "byte counters %+v differ from the sockets: client sent %d, target got %d, target sent %d, client got %d", o.data, len(wire), len(want), len(reply), len(o.fromServer))
				}
				if len(o.fromServer) >= s.key.c.saltSize && s.key.c.saltSize-4 >= 16 {
					var secret string
					for _, en := range entries {
						if en.keyref == s.keyref {
							secret = en.secret
						}
					}
					if !specIsServerSalt(secret, o.fromServer[:s.key.c.saltSize]) {
						out.Oracle("C08", "response salt is not recognisable as issued for its key")
					}
				}
			}
		}
		if int(o.data.ClientProxy) > o.sent || (tgt != nil && int(o.data.ProxyTarget) > len(tgt.received)) || int(o.data.ProxyClient) > len(o.fromServer) {
			out.Oracle("C15", "a byte counter exceeds what crossed the socket: %+v (client sent %d, client got %d)", o.data, o.sent, len(o.fromServer))
		}
		if (s.kind == "bad-address" || s.kind == "relay-corrupt") && s.end == "idle" && (cls == "fin@early" || cls == "fin@deadline" || strings.HasPrefix(cls, "rst")) {
			out.Oracle("C06", "authenticated stream that turned invalid (%s) was closed (%s after %v) while the client kept the connection open", s.kind, cls, o.closeAt)
		}
		if o.status == "OK" {
			accepted = append(accepted, append([]byte{}, first...))
		}
	}

	// ---- phase A: sequential connections
	id := 0
	nSeq := 4 + r.Intn(8)
	for i := 0; i < nSeq; i++ {
		id++
		s := mkScript(id, false)
		tg.take()
		search.mu.Lock()
		search.l = nil
		search.mu.Unlock()
		o := runScript(s)
		time.Sleep(2 * time.Millisecond)
		var tgt *tgtConnRec
		tcs := tg.take()
		if len(tcs) > 0 {
			tgt = tcs[0]
		}
		if len(tcs) > 1 {
			out.Oracle("C02", "one client connection produced %d target connections", len(tcs))
		}
		search.mu.Lock()
		sf := "-"
		if len(search.l) == 1 {
			sf = fmt.Sprint(search.l[0])
		} else if len(search.l) > 1 {
			sf = "repeated"
		}
		search.mu.Unlock()
		report(s, o, tgt, sf)
	}
	// ---- phase B: concurrent connections with clients that stay open
	nPar := 4 + r.Intn(12)
	scripts := make([]*tcpScript, nPar)
	obs := make([]*tcpObs, nPar)
	tg.take()
	var wg sync.WaitGroup
	for i := 0; i < nPar; i++ {
		id++
		scripts[i] = mkScript(id, true)
		wg.Add(1)
		go func(i int) {
			defer wg.Done()
			obs[i] = runScript(scripts[i])
		}(i)
	}
	closedMid := r.Chance(35)
	if closedMid {
		// a reload / shutdown closes the listener while probes are being drained and relays run:
		// connections that were accepted must be unaffected
		time.Sleep(timeout / 3)
		ln.Close()
		out.Stat("case.listener-closed-mid-run", 1)
	}
	wg.Wait()
	time.Sleep(5 * time.Millisecond)
	tcs := tg.take()
	for i := 0; i < nPar; i++ {
		var tgt *tgtConnRec
		token := []byte(fmt.Sprintf("#%06d#", scripts[i].id))
		for _, tc := range tcs {
			<-tc.done
			if bytes.Contains(tc.received, token) {
				tgt = tc
			}
		}
		sf := "-"
		if len(scripts[i].wire()) >= 50 {
			found := false
			for _, c := range obs[i].calls {
				if strings.HasPrefix(c, "auth=") || strings.Contains(c, "ERR_REPLAY") {
					found = true
				}
			}
			sf = fmt.Sprint(found) // the per-connection search result is not separable under concurrency
		} else {
			sf = "false"
		}
		report(scripts[i], obs[i], tgt, sf)
	}
	ln.Close()
	select {
	case <-served:
	case <-time.After(3 * time.Second):
		out.Oracle("C18", "StreamServe did not return after the listener was closed and all connections ended")
	}
	for _, ev := range evs.take() {
		if ev.kind == "panic" {
			out.Oracle("C18", "server recovered from a panic: %s", ev.s)
		}
	}
}
