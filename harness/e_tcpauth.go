package main

import (
	"bytes"
	"context"
	"crypto/hmac"
	"crypto/sha1"
	"fmt"
	"io"
	"log/slog"
	"net"
	"strings"
	"sync"
	"time"

	"github.com/Jigsaw-Code/outline-ss-server/service"
	"golang.org/x/crypto/hkdf"
)

// Engine "tcpauth": sequential calls of the real stream authenticator
// (service.NewShadowsocksStreamAuthenticator) over in-memory connections: key lists with mixed
// ciphers and duplicate secrets, several client IPs (MRU / last-client-IP reordering), key-list
// replacements, openings that are valid under key i, valid under none, truncated, bit-flipped,
// replayed, or carrying a server-issued salt.  Observed: status, id, and — through the
// authenticator's own debug log record — the snapshot index of the entry found.
// Oracles: C01 (sound & complete attribution), C07 (replay of an accepted handshake refused),
// C08 (server-issued salt refused, cache on or off).
func init() { engines["tcpauth"] = tcpauthEngine }

// memConn is a StreamConn whose Read delivers a fixed byte string and then EOF.
type memConn struct {
	r      *bytes.Reader
	remote net.Addr
	wrote  int
}

func (c *memConn) Read(b []byte) (int, error)         { return c.r.Read(b) }
func (c *memConn) Write(b []byte) (int, error)        { c.wrote += len(b); return len(b), nil }
func (c *memConn) Close() error                       { return nil }
func (c *memConn) CloseRead() error                   { return nil }
func (c *memConn) CloseWrite() error                  { return nil }
func (c *memConn) LocalAddr() net.Addr                { return &net.TCPAddr{IP: net.IPv4(192, 0, 2, 1), Port: 443} }
func (c *memConn) RemoteAddr() net.Addr               { return c.remote }
func (c *memConn) SetDeadline(t time.Time) error      { return nil }
func (c *memConn) SetReadDeadline(t time.Time) error  { return nil }
func (c *memConn) SetWriteDeadline(t time.Time) error { return nil }

type strAddr string

func (a strAddr) Network() string { return "tcp" }
func (a strAddr) String() string  { return string(a) }

// idxLog captures the "index" attribute of the authenticator's "Found cipher." debug record.
type idxLog struct {
	mu  sync.Mutex
	idx int
}

func (h *idxLog) Enabled(context.Context, slog.Level) bool { return true }
func (h *idxLog) Handle(_ context.Context, r slog.Record) error {
	if strings.Contains(r.Message, "Found cipher") {
		r.Attrs(func(a slog.Attr) bool {
			if a.Key == "index" {
				h.mu.Lock()
				h.idx = int(a.Value.Int64())
				h.mu.Unlock()
			}
			return true
		})
	}
	return nil
}
func (h *idxLog) WithAttrs([]slog.Attr) slog.Handler { return h }
func (h *idxLog) WithGroup(string) slog.Handler      { return h }

// server-salt mark, from the documented construction: HKDF-SHA1(secret, no salt, "outline-server-salt")
// -> 20-byte HMAC key; mark = first 4 bytes of HMAC-SHA1(prefix).
func specSaltKey(secret string) []byte {
	k := make([]byte, 20)
	io.ReadFull(hkdf.New(sha1.New, []byte(secret), nil, []byte("outline-server-salt")), k)
	return k
}
func specServerSalt(secret string, prefix []byte) []byte {
	m := hmac.New(sha1.New, specSaltKey(secret))
	m.Write(prefix)
	return append(append([]byte{}, prefix...), m.Sum(nil)[:4]...)
}
func specIsServerSalt(secret string, salt []byte) bool {
	if len(salt) < 4 {
		return false
	}
	m := hmac.New(sha1.New, specSaltKey(secret))
	m.Write(salt[:len(salt)-4])
	return bytes.Equal(m.Sum(nil)[:4], salt[len(salt)-4:])
}

type noSearch struct{}

func (noSearch) AddCipherSearch(bool, time.Duration) {}

func tcpauthEngine(rng *Rng, n int, out *Out, args map[string]string) {
	// salt generators of the three salt sizes: many salts from ONE generator must be pairwise distinct
	// (fresh), and the marked ones recognisable by the independent HMAC implementation
	for _, size := range []int{32, 24, 16} {
		secret := fmt.Sprintf("gen-secret-%d", rng.Intn(1000))
		var g service.ServerSaltGenerator = service.NewServerSaltGenerator(secret)
		if size-4 < 16 {
			g = service.RandomServerSaltGenerator
		}
		total := 400 + 40*n
		if total > 20000 {
			total = 20000
		}
		seen := map[string]int{}
		distinct, marked := 0, 0
		for i := 0; i < total; i++ {
			salt := make([]byte, size)
			if err := g.GetSalt(salt); err != nil {
				out.Oracle("C08", "GetSalt failed: %v", err)
				break
			}
			if j, dup := seen[string(salt)]; dup {
				if distinct == i { // first repetition only
					out.Oracle("C08", "salt generator issued the same %d-byte salt twice (calls %d and %d)", size, j+1, i+1)
				}
			} else {
				distinct++
			}
			seen[string(salt)] = i
			if size-4 >= 16 && specIsServerSalt(secret, salt) && g.IsServerSalt(salt) {
				marked++
			}
		}
		wantMarked := total
		if size-4 < 16 {
			wantMarked = 0
		}
		if marked != wantMarked {
			out.Oracle("C08", "%d of %d issued %d-byte salts carry a recognisable mark (expected %d)", marked, total, size, wantMarked)
		}
		out.Op(fmt.Sprintf("auth gensalt size=%d n=%d", size, total), fmt.Sprintf("distinct=%d marked=%d", distinct, marked))
	}
	for c := 0; c < n; c++ {
		r := rng.Fork()
		kt := &keyTable{index: map[string]int{}}
		entries := genEntries(r, kt, 1+r.Intn(8))
		if r.Chance(8) {
			entries = genEntries(r, kt, 40+r.Intn(200))
		}
		capacity := Pick(r, []int{0, 0, 1, 2, 3, 5, 8, 50, 1000})
		var cache *service.ReplayCache
		capField := "nil"
		if !r.Chance(12) {
			rc := service.NewReplayCache(capacity)
			cache = &rc
			capField = itoa(capacity)
		} else {
			capacity = 0
		}
		cl, err := makeCipherList(entries)
		if err != nil {
			out.Note("cipher list: %v", err)
			continue
		}
		lg := &idxLog{}
		auth := service.NewShadowsocksStreamAuthenticator(cl, cache, noSearch{}, slog.New(lg))
		out.Op(fmt.Sprintf("auth new cap=%s %s", capField, entriesField(entries, kt)), "ok")
		out.Stat("case.entries."+sizeClass(len(entries)), 1)
		out.Stat("case.cache."+capClass(capacity), 1)
		ips := []string{"198.51.100.1", "198.51.100.2", "203.0.113.9", "2001:db8::77", "::ffff:198.51.100.1"}
		ipID := map[string]int{}
		type accepted struct {
			first []byte
			key   int
			id    string
			at    int // number of cache-checked handshakes before it
		}
		var hist []accepted
		checked := 0
		unknown := newSpecKey("aes-256-gcm", "not configured")
		nops := 6 + r.Intn(20)
		for k := 0; k < nops; k++ {
			if r.Chance(6) {
				var ne []cfgEntry
				for _, e := range entries {
					if r.Chance(70) {
						refCounter++
						e.ref = refCounter
						ne = append(ne, e)
					}
				}
				ne = append(ne, genEntries(r, kt, r.Intn(3))...)
				if len(ne) == 0 {
					ne = genEntries(r, kt, 1)
				}
				nl := newList()
				good := true
				for _, e := range ne {
					ck, err := sdkKey(e.cipher, e.secret)
					if err != nil {
						good = false
						break
					}
					entry := service.MakeCipherEntry(e.id, ck, e.secret)
					nl.PushBack(&entry)
				}
				if good {
					cl.Update(nl)
					entries = ne
					out.Op("auth update "+entriesField(ne, kt), "ok")
					out.Stat("op.update", 1)
				}
				continue
			}
			// ---- build the opening bytes
			ce := Pick(r, entries)
			key := kt.keys[ce.keyref]
			kind := "valid"
			salt := r.Bytes(key.c.saltSize)
			payload := append(socksV4(net.IPv4(203, 0, 113, 10), 80), r.Bytes(r.Intn(60))...)
			mk := func(k *specKey, salt []byte) []byte {
				w := newSpecStreamWriter(k, salt)
				return append(append([]byte{}, salt...), w.chunk(payload)...)
			}
			var stream []byte
			roll := r.Intn(100)
			switch {
			case roll < 50:
				stream = mk(key, salt)
			case roll < 58 && len(hist) > 0:
				kind = "replay"
				h := Pick(r, hist)
				stream = append([]byte{}, h.first...)
			case roll < 68:
				kind = "server-salt"
				// a salt the server itself would issue for this entry's secret (reflected recording)
				salt = specServerSalt(ce.secret, r.Bytes(key.c.saltSize-4))
				stream = mk(key, salt)
			case roll < 74:
				kind = "server-salt-other-secret"
				salt = specServerSalt("some other secret", r.Bytes(key.c.saltSize-4))
				stream = mk(key, salt)
			case roll < 80:
				kind = "unknown-key"
				stream = mk(unknown, r.Bytes(32))
			case roll < 86:
				kind = "short"
				stream = mk(key, salt)
				stream = stream[:r.Intn(50)]
			case roll < 93:
				kind = "bitflip"
				stream = mk(key, salt)
				stream[r.Intn(min(len(stream), key.c.saltSize+2+key.c.tagSize))] ^= 1 << uint(r.Intn(8))
			default:
				kind = "garbage"
				stream = r.Bytes(50 + r.Intn(100))
			}
			first := stream
			if len(first) > 50 {
				first = first[:50]
			}
			enough := len(stream) >= 50
			// ---- spec-level facts
			var opens []int
			seen := map[int]bool{}
			for _, e := range entries {
				if !seen[e.keyref] {
					seen[e.keyref] = true
					if enough && kt.keys[e.keyref].headerOpens(first) {
						opens = append(opens, e.keyref)
					}
				}
			}
			var srv []int
			for _, e := range entries {
				kk := kt.keys[e.keyref]
				if enough && kk.c.saltSize-4 >= 16 && specIsServerSalt(e.secret, first[:kk.c.saltSize]) {
					srv = append(srv, e.ref)
				}
			}
			ipStr := Pick(r, ips)
			var remote net.Addr = &net.TCPAddr{IP: net.ParseIP(ipStr), Port: 50000 + r.Intn(100)}
			ipField := "-"
			switch {
			case r.Chance(5):
				remote = nil
			case r.Chance(5):
				remote = strAddr("not an address")
			case r.Chance(5):
				remote = strAddr(net.JoinHostPort(ipStr, "4321")) // parsed by netip.ParseAddrPort
				fallthrough
			default:
				k := ipStr
				if ta, ok := remote.(*net.TCPAddr); ok {
					k = ta.AddrPort().Addr().String()
				}
				if _, ok := ipID[k]; !ok {
					ipID[k] = len(ipID) + 1
				}
				ipField = itoa(ipID[k])
			}
			conn := &memConn{r: bytes.NewReader(stream), remote: remote}
			lg.idx = -1
			id, wrapped, cerr := auth(conn)
			status := "OK"
			if cerr != nil {
				status = cerr.Status
			}
			idx := "-"
			if status != "ERR_CIPHER" && lg.idx >= 0 {
				idx = itoa(lg.idx)
			}
			out.Op(fmt.Sprintf("auth conn ip=%s enough=%d opens=%s srv=%s first=%s", ipField, b2i(enough), intsField(opens), intsField(srv), hexs(first)),
				fmt.Sprintf("%s id=%s idx=%s", status, hexs([]byte(id)), idx))
			out.Stat("op.conn."+kind, 1)
			out.Stat("status."+status, 1)
			// ---- oracles
			if conn.wrote != 0 {
				out.Oracle("C01", "authenticator wrote %d bytes to the client", conn.wrote)
			}
			if (status == "OK") != (wrapped != nil) {
				out.Oracle("C01", "status %s but wrapped conn nil=%v", status, wrapped == nil)
			}
			idOK := false
			for _, e := range entries {
				if e.id == id && containsInt(opens, e.keyref) {
					idOK = true
				}
			}
			switch {
			case len(opens) == 0:
				if status != "ERR_CIPHER" {
					out.Oracle("C01", "opening valid under no configured key (%s) got status %s id %q", kind, status, id)
				}
			case status == "ERR_CIPHER":
				out.Oracle("C01", "opening valid under configured key(s) %v (%s) was not recognised", opens, kind)
			case !idOK:
				out.Oracle("C01", "opening valid under keys %v attributed to id %q, which is not configured with any of them", opens, id)
			}
			if len(opens) > 0 && status != "ERR_CIPHER" {
				// which entries could have matched; is the salt server-issued for one with this id?
				srvForID := false
				for _, e := range entries {
					if e.id == id && containsInt(opens, e.keyref) && containsInt(srv, e.ref) {
						srvForID = true
					}
				}
				srvAny := len(srv) > 0
				if srvForID && !sameSecretAmbiguity(entries, id, opens) && status != "ERR_REPLAY_SERVER" {
					out.Oracle("C08", "handshake carrying a server-issued salt for its key (%s, cache=%s) got status %s", kind, capField, status)
				}
				if !srvAny && status == "ERR_REPLAY_SERVER" {
					out.Oracle("C08", "handshake with a salt that no configured key marks was refused as server replay")
				}
				if status == "OK" || status == "ERR_REPLAY_CLIENT" {
					// replay-window oracle: identical opening accepted/checked fewer than N handshakes ago
					if capacity > 0 {
						for i := len(hist) - 1; i >= 0; i-- {
							if bytes.Equal(hist[i].first, first) {
								if checked-hist[i].at-1 < capacity && status == "OK" && hist[i].id == id {
									out.Oracle("C07", "handshake replayed %d checked handshakes after it was accepted (history %d) was accepted again", checked-hist[i].at, capacity)
								}
								break
							}
						}
					}
					hist = append(hist, accepted{first: append([]byte{}, first...), key: opens[0], id: id, at: checked})
					checked++
				}
			}
		}
	}
}

// sameSecretAmbiguity: several entries with this id and an opening key exist (duplicates); the
// matched one is decided by list order, so the oracle stays silent.
func sameSecretAmbiguity(entries []cfgEntry, id string, opens []int) bool {
	n := 0
	for _, e := range entries {
		if e.id == id && containsInt(opens, e.keyref) {
			n++
		}
	}
	return n > 1
}

func sizeClass(n int) string {
	switch {
	case n <= 1:
		return "1"
	case n <= 4:
		return "2-4"
	case n <= 10:
		return "5-10"
	default:
		return "40+"
	}
}
